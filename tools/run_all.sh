#!/bin/sh
# tools/run_all.sh [quick|thorough] — run every claimed check once, sequentially, and summarise.
tier="${1:-quick}"
cd "$(dirname "$0")/.."
ids=$(python3 -c "import json;print(' '.join(c['property_id'] for c in json.load(open('MANIFEST.json'))['checks']))")
rc_all=0
for p in $ids; do
  out=$(./check "$p" --tier "$tier" 2>&1); rc=$?
  echo "$out" | grep -E "^(VIOLATION|HARNESS-ERROR|KNOWN-FINDING)" | cut -c1-160
  echo "$out" | tail -1 | cut -c1-200
  echo "   -> $p exit=$rc"
  [ $rc -ne 0 ] && rc_all=1
done
python3-vt - <<'PY'
import json,jsonschema,glob
sch=json.load(open('/root/.vp/EVIDENCE.schema.json'))
m=json.load(open('MANIFEST.json'))
jsonschema.validate(m,json.load(open('/root/.vp/MANIFEST.schema.json')))
for c in m['checks']:
    try:
        jsonschema.validate(json.load(open(c['evidence_file'])),sch)
    except Exception as e:
        print('EVIDENCE INVALID',c['property_id'],str(e)[:200])
print('schemas checked')
PY
exit $rc_all
