#!/bin/sh
# Merge a builder clone (/var/tmp/w/Cxx) into /verif: take its new files, regenerate MANIFEST,
# union known_findings.json.
set -e
id="$1"; src="/var/tmp/w/$id"
cd /verif
git fetch -q "$src" HEAD
# files changed in the builder clone relative to the merge base
base=$(git merge-base HEAD FETCH_HEAD)
git diff --name-only "$base" FETCH_HEAD | while read f; do
  case "$f" in
    MANIFEST.json|known_findings.json|evidence/*) ;;   # handled below / regenerated
    harness/common.py|extract/driver.ml|BUILDING.md|check|tools/*|DESIGN.md) echo "SKIP shared file changed by builder: $f";;
    *) mkdir -p "$(dirname "$f")"; if git cat-file -e FETCH_HEAD:"$f" 2>/dev/null; then git show FETCH_HEAD:"$f" > "$f"; else echo "deleted in builder: $f"; fi;;
  esac
done
/venv/bin/python - "$src" <<'PY'
import json,sys
src=sys.argv[1]
a=json.load(open('/verif/known_findings.json')); b=json.load(open(src+'/known_findings.json'))
ids={(x['property'],x['id']): x for x in a['findings']}
own=src.rstrip('/').split('/')[-1][:3]
for x in b['findings']:
    if x['property']!=own:
        continue      # a builder only speaks for its own property (stale copies of others' entries are ignored)
    k=(x['property'],x['id'])
    if k not in ids:
        a['findings'].append(x)
    elif ids[k]['status']=='known' and x['status']!='known':
        print('status of', k, 'changed by builder to', x['status'])
        ids[k]['status']=x['status']; ids[k]['what']=x.get('what', ids[k].get('what'))
json.dump(a,open('/verif/known_findings.json','w'),indent=1)
PY
python3 tools/mkmanifest.py
