#!/usr/bin/env python3
"""Regenerate the table of DESIGN.md 6.5 from seeded/*/meta.json (between the markers)."""
import json, os, re
V = os.path.dirname(os.path.dirname(os.path.abspath(__file__)))
rows = []
for n in sorted(os.listdir(os.path.join(V, 'seeded'))):
    m = json.load(open(os.path.join(V, 'seeded', n, 'meta.json')))
    cell = lambda s: re.sub(r'\s+', ' ', str(s)).replace('|', '\\|')
    res = m.get('confirmed', {}).get('check_result', '')
    if 'MISSED' in res:
        res = res.replace('initially MISSED', '**missed at first**')
    rows.append('| %s | %s | %s | %s |' % (n, m['property'], cell(m.get('needs', ''))[:400], cell(res)))
tab = ['| seed | property | what it needs to manifest | result of the check on the changed tree |', '|------|----------|---------------------------|------------------------------------------|'] + rows
p = os.path.join(V, 'DESIGN.md')
s = open(p).read()
a, b = '<!-- seeds:begin -->', '<!-- seeds:end -->'
new = a + '\n' + '\n'.join(tab) + '\n' + b
if a in s:
    s = s[:s.index(a)] + new + s[s.index(b) + len(b):]
else:
    raise SystemExit('markers missing')
open(p, 'w').write(s)
print(len(rows), 'seeds')
