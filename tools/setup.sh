#!/bin/sh
# MANIFEST.setup_cmd: build the whole Coq development (full .vo, no -vos) and the
# extracted drivers, offline, from files on disk only.
set -e
here="$(cd "$(dirname "$0")/.." && pwd)"
cd "$here"
if [ -f tools/gen_tables.py ]; then /venv/bin/python tools/gen_tables.py all || echo "gen_tables failed (will be reported by the checks)"; fi
tools/mkcoqproject.sh
timeout 3000 make -C coq -j"$(nproc)" 2>&1 | grep -v '^Closed under\|^COQC\|^COQDEP' | tail -40
timeout 3000 make -C coq -j"$(nproc)" >/dev/null 2>&1   # fail if anything did not build
for d in extract/C*/; do
  [ -f "$d/model.ml" ] || continue
  cp extract/driver.ml "$d/driver.ml"
  (cd "$d" && ocamlfind ocamlopt -O2 -w -a model.mli model.ml driver.ml -o driver)
done
# gate: no admitted proofs / axioms anywhere in the development
if grep -rnwE 'Admitted|admit|Axiom|Axioms|Parameter|Parameters|Conjecture' coq --include='*.v' | grep -v '(\*.*\*)' ; then
  echo "forbidden construct found"; exit 1; fi
echo "setup ok"
