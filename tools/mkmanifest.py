#!/usr/bin/env python3
"""Assemble MANIFEST.json from manifest.d/head.json + manifest.d/Cxx.json fragments."""
import json, glob, os
here = os.path.dirname(os.path.dirname(os.path.abspath(__file__)))
head = json.load(open(os.path.join(here, 'manifest.d', 'head.json')))
checks, claimed = [], set()
for f in sorted(glob.glob(os.path.join(here, 'manifest.d', 'C*.json'))):
    c = json.load(open(f))
    pid = c['property_id']
    c.setdefault('quick_cmd', './check %s --tier quick' % pid)
    c.setdefault('thorough_cmd', './check %s --tier thorough' % pid)
    c.setdefault('evidence_file', '/verif/evidence/%s.json' % pid)
    c.setdefault('replay_cmd_template', './check %s --replay {path}' % pid)
    c.setdefault('engine', 'coq-model+correspondence')
    checks.append(c); claimed.add(pid)
head['checks'] = checks
props = [json.loads(l)['id'] for l in open(os.path.join(here, 'properties.jsonl'))]
na = json.load(open(os.path.join(here, 'manifest.d', 'not_applicable.json')))
na_ids = {x['property_id'] for x in na}
for p in props:
    if p not in claimed and p not in na_ids:
        na.append({'property_id': p, 'reason': 'not yet claimed: model and correspondence under construction in this round (see DESIGN.md section 3 for the planned theorem); no check is registered, so nothing is asserted about it'})
head['not_applicable'] = [x for x in na if x['property_id'] not in claimed]
json.dump(head, open(os.path.join(here, 'MANIFEST.json'), 'w'), indent=1)
print('claimed:', sorted(claimed), 'not_applicable:', [x['property_id'] for x in head['not_applicable']])
