#!/bin/sh
# Regenerate coq/_CoqProject (all .v files under coq/) and the Makefile.
set -e
cd "$(dirname "$0")/../coq"
{ echo "-Q . MV"; echo "-arg -w -arg -notation-overridden,-deprecated-hint-without-locality,-deprecated-instance-without-locality"; find . -name '*.v' ! -path './scratch/*' | sed 's|^\./||' | LC_ALL=C sort; } > _CoqProject.new
if ! cmp -s _CoqProject.new _CoqProject 2>/dev/null; then mv _CoqProject.new _CoqProject; coq_makefile -f _CoqProject -o Makefile >/dev/null; else rm _CoqProject.new; fi
[ -f Makefile ] || coq_makefile -f _CoqProject -o Makefile >/dev/null
