"""Directory-listing shuffler for the C06 check (DESIGN 2.5).

Put this directory on PYTHONPATH and set MESON_VERIF_SHUFFLE=<seed> (an integer, or
`rev` for reversed, `sort` for sorted order): os.listdir and os.scandir then return
their entries in a pseudo-random order that is a function of (seed, directory) only.
The set of entries is never changed.  Without the variable nothing is wrapped."""
import os as _os

_mode = _os.environ.get('MESON_VERIF_SHUFFLE')
if _mode:
    import random as _random
    import zlib as _zlib

    _real_listdir = _os.listdir
    _real_scandir = _os.scandir

    def _name(e):
        n = getattr(e, 'name', e)
        return _os.fsdecode(n) if isinstance(n, bytes) else str(n)

    def _reorder(path, entries):
        entries = sorted(entries, key=_name)
        if _mode == 'sort':
            return entries
        if _mode == 'rev':
            entries.reverse()
            return entries
        try:
            p = _os.fsencode(_os.fspath(path)) if not isinstance(path, int) else b'%d' % path
        except TypeError:
            p = b'?'
        rng = _random.Random(int(_mode) * 1000003 + _zlib.crc32(p))
        rng.shuffle(entries)
        return entries

    def listdir(path='.'):
        return _reorder(path, _real_listdir(path))

    class _ScandirIterator:
        def __init__(self, path):
            with _real_scandir(path) as it:
                self._entries = iter(_reorder(path, list(it)))

        def __iter__(self):
            return self

        def __next__(self):
            return next(self._entries)

        def close(self):
            self._entries = iter(())

        def __enter__(self):
            return self

        def __exit__(self, *a):
            self.close()
            return False

    def scandir(path='.'):
        return _ScandirIterator(path)

    listdir.__doc__ = _real_listdir.__doc__
    scandir.__doc__ = _real_scandir.__doc__
    _os.listdir = listdir
    _os.scandir = scandir
