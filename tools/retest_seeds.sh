#!/bin/sh
# tools/retest_seeds.sh [names...] : re-evaluate every kept seeded change (seeded/<name>/) against the current
# /repo HEAD and the current checks; one summary line per seed.  Run from a snapshot (vp run) or in /verif.
here="$(cd "$(dirname "$0")/.." && pwd)"; cd "$here"
[ -f coq/Makefile ] || tools/setup.sh >/dev/null 2>&1
names="$*"; [ -n "$names" ] || names="$(ls seeded)"
for n in $names; do
  prop=$(/venv/bin/python -c "import json,sys; print(json.load(open('seeded/$n/meta.json'))['property'])")
  log="/var/tmp/retest-$$-$n.log"
  SEEDOUT="/var/tmp/seedout-$$-$n" tools/try_seed.sh "seeded/$n" "$prop" quick > "$log" 2>&1
  st=$(grep -o 'check-exit=[0-9]*' "$log" | tail -1); ap=$(grep -c 'patch does not apply' "$log")
  nv=$(grep -c '^VIOLATION' "$log"); nf=$(grep -c 'no-failing-input-found' "$log")
  echo "$n $prop ${st:-no-check} violations=$nv broken-only=$nf patch-fails=$ap"
  rm -rf "/var/tmp/seedout-$$-$n" "$log"
done
