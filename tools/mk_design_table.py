#!/usr/bin/env python3
"""Print the as-built per-property table for DESIGN.md section 6.0 from the repository itself."""
import json, re, os, glob
here = os.path.dirname(os.path.dirname(os.path.abspath(__file__)))
k = json.load(open(os.path.join(here, 'known_findings.json')))['findings']
seeds = {}
for d in glob.glob(os.path.join(here, 'seeded', '*')):
    m = json.load(open(os.path.join(d, 'meta.json')))
    seeds.setdefault(m['property'], []).append(os.path.basename(d))
print('| id | Coq area | property theorems | obligations | quick: cases compared | fixed | known | seeds |')
print('|----|----------|-------------------|-------------|-----------------------|-------|-------|-------|')
for f in sorted(glob.glob(os.path.join(here, 'manifest.d', 'C*.json'))):
    pid = json.load(open(f))['property_id']
    props = open(os.path.join(here, 'coq', 'Props', pid + '.v')).read()
    nthm = len(re.findall(r'^Theorem ', props, re.M))
    areas = sorted(set(re.findall(r'From MV Require Import[^.]*?((?:[A-Z][A-Za-z]+)\.)', props)))
    area = sorted({m.split('.')[0] for m in re.findall(r'\b([A-Z][A-Za-z]+\.[A-Z][A-Za-z]+)\b', ' '.join(re.findall(r'From MV Require Import([^\n]*(?:\n  [^\n]*)*)', props)))} - {'Base'})
    ev = {}
    try:
        ev = json.load(open(os.path.join(here, 'evidence', pid + '.json')))
    except Exception:
        pass
    cov = ev.get('coverage', {})
    nf = sum(1 for x in k if x['property'] == pid and x['status'] == 'fixed')
    nk = sum(1 for x in k if x['property'] == pid and x['status'] == 'known')
    print('| %s | %s | %d | %s | %s | %d | %d | %d |' % (pid, ', '.join(area), nthm, cov.get('obligations', '?'), cov.get('evaluations', '?'), nf, nk, len(seeds.get(pid, []))))
