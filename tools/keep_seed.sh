#!/bin/sh
# tools/keep_seed.sh <seed-out-dir> <name> <property> "<result line>"
set -e
src="$1"; name="$2"; prop="$3"; res="$4"
d="/verif/seeded/$name"; mkdir -p "$d"
cp "$src/patch.diff" "$d/patch.diff"
for f in demo.py demo.sh; do [ -f "$src/$f" ] && cp "$src/$f" "$d/$f"; done
/venv/bin/python - "$src/meta.json" "$d/meta.json" "$prop" "$res" <<'PY'
import json,sys
m=json.load(open(sys.argv[1]))
m['property']=sys.argv[3]
m['confirmed']={'ran':'tools/try_seed.sh (fresh worktree of /repo HEAD + patch): pinned suite 107 passed with the change; demo exits 0 on the pristine tree and non-zero on the changed tree; ./check %s --tier quick with VERIF_REPO=<changed tree>' % sys.argv[3],
                'check_result':sys.argv[4]}
json.dump(m,open(sys.argv[2],'w'),indent=1)
PY
echo kept $d
