#!/bin/sh
# tools/try_seed.sh <seed-dir (contains patch.diff, demo.*)> <property> [tier]
# Confirms a seeded change (tests pass, demo fails with / passes without) and runs the check
# against a scratch worktree carrying it (VERIF_REPO), leaving /repo untouched.
set -u
sd="$(cd "$1" && pwd)"; prop="$2"; tier="${3:-quick}"
here="$(cd "$(dirname "$0")/.." && pwd)"
wt="/var/tmp/seedrepo-$$"
git -C /repo worktree add -q --detach "$wt" HEAD || exit 2
trap 'git -C /repo worktree remove --force "$wt" >/dev/null 2>&1' EXIT
demo="$sd/demo.py"; runner="/venv/bin/python"
[ -f "$demo" ] || { demo="$sd/demo.sh"; runner="sh"; }
echo "== demo on pristine tree (expect exit 0)"; (cd /tmp && MESON_SRC="$wt" $runner "$demo" >/dev/null 2>&1; echo "exit=$?")
git -C "$wt" apply "$sd/patch.diff" || { echo "patch does not apply"; exit 2; }
echo "== pinned test suite with the change"; (cd "$wt" && /venv/bin/python -m pytest -q -p no:cacheprovider --timeout=900 unittests/cargotests.py unittests/optiontests.py unittests/taptests.py unittests/versiontests.py 2>&1 | tail -1)
echo "== demo on changed tree (expect non-zero)"; (cd /tmp && MESON_SRC="$wt" $runner "$demo" 2>&1 | tail -3; echo "exit=$?")
echo "== ./check $prop --tier $tier against the changed tree"
out="${SEEDOUT:-/var/tmp/seedout-$prop}"; rm -rf "$out"; mkdir -p "$out"
(cd "$here" && VERIF_REPO="$wt" VERIF_OUT="$out" ./check "$prop" --tier "$tier" > "$out/log" 2>&1; echo "check-exit=$?"; tail -6 "$out/log")
