"""Project generator and CLI runner for the C06 check (determinism of configuration).

A project is {'name', 'files': {relpath: text}, 'opts': [-D…], 'alt_opt': (name, other, original) | None,
'langs': […]}.  Projects are assembled from feature snippets; every snippet is valid on its own
and in combination, so a generated project is expected to configure (a project that does not
configure under the baseline is counted as `invalid` and skipped, never reported)."""
import os, shutil, subprocess, time, stat, json
from common import VERIF, REPO, PY, impl_env

SHUFFLE_SITE = os.path.join(VERIF, 'tools', 'shuffle_site')

C_MAIN = 'int main(void) { return 0; }\n'
GEN_PY = ('import sys\n'
          'open(sys.argv[2], "w").write(open(sys.argv[1]).read())\n')


# ------------------------------------------------------------------ feature snippets
# each returns (build-file text, {extra files}); `u` is a unique suffix, `rng` the seeded rng,
# `c` tells whether the project has the C language.
def f_confdata(rng, u, c):
    keys = ['ZETA', 'alpha', 'Mid', 'b2', 'a10', 'a9', 'HAVE_X', 'with space'.replace(' ', '_'), 'k%d' % rng.randrange(100)]
    rng.shuffle(keys)
    keys = keys[:rng.randint(1, len(keys))]
    lines = ['cd%s = configuration_data()' % u]
    for k in keys:
        kind = rng.choice(['set', 'set10', 'set_quoted', 'setint', 'setfalse', 'desc'])
        if kind == 'set':
            lines.append("cd%s.set('%s', '%s')" % (u, k, rng.choice(['1', 'foo', 'a b', ''])))
        elif kind == 'set10':
            lines.append("cd%s.set10('%s', %s)" % (u, k, rng.choice(['true', 'false'])))
        elif kind == 'set_quoted':
            lines.append("cd%s.set_quoted('%s', 'q%s')" % (u, k, rng.randrange(10)))
        elif kind == 'setint':
            lines.append("cd%s.set('%s', %d)" % (u, k, rng.randrange(1000)))
        elif kind == 'setfalse':
            lines.append("cd%s.set('%s', false)" % (u, k))
        else:
            lines.append("cd%s.set('%s', 7, description: 'desc of %s')" % (u, k, k))
    files = {}
    fmt = rng.choice(['header', 'header', 'json', 'nasm', 'meson', 'cmake', 'cmake@', 'macro'])
    if fmt == 'header':
        lines.append("configure_file(output: 'config%s.h', configuration: cd%s)" % (u, u))
    elif fmt == 'macro':
        lines.append("configure_file(output: 'guard%s.h', configuration: cd%s, macro_name: 'GUARD%s_H')" % (u, u, u))
    elif fmt in ('json', 'nasm'):
        lines.append("configure_file(output: 'config%s.%s', configuration: cd%s, output_format: '%s')" % (u, fmt, u, fmt))
    elif fmt == 'meson':
        body = ''.join('#mesondefine %s\nv=@%s@\n' % (k, k) for k in keys) + 'plain line\n'
        files['in%s.h.in' % u] = body
        lines.append("configure_file(input: 'in%s.h.in', output: 'out%s.h', configuration: cd%s)" % (u, u, u))
    elif fmt == 'cmake':
        body = ''.join('#cmakedefine %s\nv=${%s}\n#cmakedefine01 %s\n' % (k, k, k) for k in keys)
        files['in%s.cm.in' % u] = body
        lines.append("configure_file(input: 'in%s.cm.in', output: 'out%s.cm.h', configuration: cd%s, format: 'cmake')" % (u, u, u))
    else:
        body = ''.join('#cmakedefine %s @%s@\n' % (k, k) for k in keys)
        files['in%s.cma.in' % u] = body
        lines.append("configure_file(input: 'in%s.cma.in', output: 'out%s.cma.h', configuration: cd%s, format: 'cmake@')" % (u, u, u))
    return '\n'.join(lines) + '\n', files


def f_confdict(rng, u, c):
    ks = ['z', 'a', 'm', 'B', 'k1', 'k10', 'k2']
    rng.shuffle(ks)
    d = ', '.join("'%s': %s" % (k, rng.choice(["'v'", '1', 'true', "'x y'"])) for k in ks[:rng.randint(1, 6)])
    return "configure_file(output: 'dict%s.h', configuration: {%s})\n" % (u, d), {}


def f_confcopy(rng, u, c):
    return "configure_file(input: 'copy%s.txt', output: 'copied%s.txt', copy: true)\n" % (u, u), {'copy%s.txt' % u: 'copy me %s\n' % u}


DEPGEN_PY = '''#!/usr/bin/env python3
import sys, os
# usage: depgen.py OUT DEPFILE SRCDIR TAG : writes OUT and a multi-rule (transitive) depfile
out, depfile, srcdir, tag = sys.argv[1:5]
open(out, 'w').write('generated ' + tag + '\\n')
P = lambda n: os.path.join(srcdir, n)
rules = [(out, ['t%s_a.txt' % tag, 't%s_b.txt' % tag, 't%s_c.txt' % tag]),
         (P('t%s_a.txt' % tag), ['t%s_a1.txt' % tag, 't%s_a2.txt' % tag, 't%s_a3.txt' % tag]),
         (P('t%s_b.txt' % tag), ['t%s_b1.txt' % tag, 't%s_b2.txt' % tag]),
         (P('t%s_c.txt' % tag), ['t%s_c1.txt' % tag, 't%s_c2.txt' % tag, 't%s_c3.txt' % tag, 't%s_c4.txt' % tag])]
b = os.path.basename(out)
rules = [(b, rules[0][1]), (os.path.join('sd', b), rules[0][1])] + rules   # meson looks the output up by its build-root-relative name
with open(depfile, 'w') as f:
    for tgt, deps in rules:
        f.write('%s: %s\\n' % (tgt, ' '.join(P(d) for d in deps)))
'''


def f_confcmd(rng, u, c):
    if rng.random() < 0.4:
        # configure-time command with a multi-rule depfile: the transitive dependencies become
        # build-definition files (build.ninja regeneration line, intro-buildsystem_files.json)
        files = {'depgen%s.py' % u: DEPGEN_PY}
        for n in ['a', 'b', 'c', 'a1', 'a2', 'a3', 'b1', 'b2', 'c1', 'c2', 'c3', 'c4']:
            files['t%s_%s.txt' % (u, n)] = n + '\n'
        return ("configure_file(output: 'extcmd_dg%s.txt', depfile: 'depgen_%s.d', command: [find_program('depgen%s.py'), '@OUTPUT@', '@DEPFILE@', "
                "meson.current_source_dir(), '%s'])\n" % (u, u, u, u)), files
    if rng.random() < 0.5:
        return ("configure_file(output: 'cap%s.txt', command: ['sh', '-c', 'echo captured-%s'], capture: true)\n" % (u, u)), {}
    return ("configure_file(input: 'cin%s.txt', output: 'extcmd_%s.txt', command: ['cp', '@INPUT@', '@OUTPUT@'])\n" % (u, u)), {'cin%s.txt' % u: 'cmd input %s\n' % u}


def f_confcmd_all(rng, u, c):
    """every form of configure_file(command:) whose arguments name files in the build directory
    (@OUTPUT@, @DEPFILE@): files that do not exist during a fresh configure and do afterwards"""
    files = {'depgen%s.py' % u: DEPGEN_PY, 'cin%s.txt' % u: 'cmd input %s\n' % u}
    for n in ['a', 'b', 'a1', 'b1']:
        files['t%s_%s.txt' % (u, n)] = n + '\n'
    return ("configure_file(input: 'cin%s.txt', output: 'extcmd_%s.txt', command: ['cp', '@INPUT@', '@OUTPUT@'])\n"
            "configure_file(output: 'extcmd_dg%s.txt', depfile: 'depgen_%s.d', command: [find_program('depgen%s.py'), '@OUTPUT@', '@DEPFILE@', "
            "meson.current_source_dir(), '%s'])\n"
            "configure_file(output: 'cap%s.txt', command: ['sh', '-c', 'echo captured-%s'], capture: true)\n"
            % (u, u, u, u, u, u, u, u)), files


def f_custom(rng, u, c):
    files = {'gen%s.py' % u: GEN_PY, 'src%s.in' % u: 'data %s\n' % u, 'dep%sa.txt' % u: 'a\n', 'dep%sb.txt' % u: 'b\n', 'dep%sc.txt' % u: 'c\n'}
    deps = ['dep%sa.txt' % u, 'dep%sb.txt' % u, 'dep%sc.txt' % u]
    rng.shuffle(deps)
    kw = []
    if rng.random() < 0.7:
        kw.append('depend_files: [%s]' % ', '.join("'%s'" % d for d in deps[:rng.randint(1, 3)]))
    if rng.random() < 0.5:
        kw.append("env: {'ZED': '1', 'ALPHA': 'x y', 'MID%s': 'q'}" % u)
    if rng.random() < 0.4:
        kw.append('build_by_default: true')
    if rng.random() < 0.3:
        kw.append("install: true, install_dir: 'share/ct%s'" % u)
    if rng.random() < 0.3:
        kw.append("depfile: 'ct%s.d'" % u)
    lines = ["py%s = find_program('python3')" % u,
             "ct%s = custom_target('ct%s', input: 'src%s.in', output: 'ct%s.out', command: [py%s, files('gen%s.py'), '@INPUT@', '@OUTPUT@']%s)"
             % (u, u, u, u, u, u, ''.join(', ' + k for k in kw))]
    mode = rng.choice(['capture', 'feed', 'chain', 'multi', 'none'])
    if mode == 'capture':
        lines.append("custom_target('cap%s', output: 'cap%s.out', command: ['sh', '-c', 'echo $0 hi', 'a b'], capture: true, depends: ct%s)" % (u, u, u))
    elif mode == 'feed':
        lines.append("custom_target('feed%s', input: ct%s, output: 'feed%s.out', command: ['cat'], feed: true, capture: true)" % (u, u, u))
    elif mode == 'chain':
        lines.append("ct%sb = custom_target('ct%sb', input: ct%s, output: 'ct%sb.out', command: ['cp', '@INPUT@', '@OUTPUT@'])" % (u, u, u, u))
        lines.append("alias_target('al%s', ct%s, ct%sb)" % (u, u, u))
    elif mode == 'multi':
        lines.append("custom_target('multi%s', output: ['m%s.z', 'm%s.a', 'm%s.k'], command: ['touch', '@OUTPUT@'], depends: [ct%s], env: environment({'B': '2', 'A': '1'}))" % (u, u, u, u, u))
    if rng.random() < 0.4:
        lines.append("run_target('rt%s', command: ['sh', '-c', 'true'], depends: ct%s, env: {'RZ': 'z', 'RA': 'a'})" % (u, u))
    return '\n'.join(lines) + '\n', files


def f_tests(rng, u, c):
    lines = ["tp%s = find_program('true')" % u]
    n = rng.randint(1, 4)
    for i in range(n):
        kw = []
        if rng.random() < 0.6:
            kw.append("env: {'TZ%d': 'z', 'TA': 'a%s', 'TM': 'm'}" % (i, u))
        if rng.random() < 0.5:
            kw.append("suite: [%s]" % ', '.join("'%s'" % s for s in rng.sample(['zeta', 'alpha', 'mid', 'unit', 'slow'], rng.randint(1, 3))))
        if rng.random() < 0.3:
            kw.append("args: ['--x', 'a b']")
        fn = 'benchmark' if rng.random() < 0.2 else 'test'
        if fn == 'test' and rng.random() < 0.3:
            kw.append('is_parallel: false')
        if rng.random() < 0.2:
            kw.append("priority: %d" % rng.randrange(5))
        if rng.random() < 0.2:
            kw.append("timeout: %d" % rng.randrange(10, 99))
        lines.append("%s('t%s_%d', tp%s%s)" % (fn, u, i, u, ''.join(', ' + k for k in kw)))
    if rng.random() < 0.4:
        lines.append("add_test_setup('setup%s', env: {'SZ': '1', 'SA': '2'}, timeout_multiplier: 2, exclude_suites: ['slow', 'alpha'])" % u)
    return '\n'.join(lines) + '\n', {}


def f_install(rng, u, c):
    files = {'data%s/z.txt' % u: 'z\n', 'data%s/a.txt' % u: 'a\n', 'data%s/m.txt' % u: 'm\n', 'data%s/sub/q.txt' % u: 'q\n',
             'hdr%sz.h' % u: '/* z */\n', 'hdr%sa.h' % u: '/* a */\n'}
    names = ['z.txt', 'a.txt', 'm.txt']
    rng.shuffle(names)
    lines = ["install_data(%s, install_dir: 'share/d%s')" % (', '.join("'data%s/%s'" % (u, n) for n in names), u),
             "install_headers('hdr%sz.h', 'hdr%sa.h', subdir: 'inc%s')" % (u, u, u)]
    if rng.random() < 0.7:
        lines.append("install_subdir('data%s', install_dir: 'share/tree%s'%s)" % (u, u, rng.choice(['', ", exclude_files: ['m.txt']", ', strip_directory: true'])))
    if rng.random() < 0.4:
        lines.append("install_emptydir('var/empty%s')" % u)
    if rng.random() < 0.4:
        lines.append("install_symlink('lnk%s', pointing_to: 'a.txt', install_dir: 'share/d%s')" % (u, u))
    if rng.random() < 0.3:
        lines.append("meson.add_install_script('sh', '-c', 'true', 'arg %s')" % u)
    return '\n'.join(lines) + '\n', files


def f_pkgconfig(rng, u, c):
    lines = ["pkg%s = import('pkgconfig')" % u]
    vs = ['zvar=1', 'avar=${prefix}/a', 'mvar=m m']
    rng.shuffle(vs)
    kw = ["name: 'nolib%s'" % u, "description: 'generated %s'" % u, "version: '1.%s'" % rng.randrange(9),
          "variables: [%s]" % ', '.join("'%s'" % v for v in vs[:rng.randint(1, 3)])]
    if rng.random() < 0.5:
        kw.append("subdirs: ['zsub', 'asub']")
    if rng.random() < 0.5:
        kw.append("extra_cflags: ['-DZ', '-DA']")
    r = rng.random()
    if r < 0.25:
        kw.append("requires: ['zlibfoo', 'abar >= 1']")
    elif r < 0.6:     # several version requirements on one name (a set in DependenciesHelper.version_reqs), duplicates
        reqs = ['zlibfoo >= 1.0', 'zlibfoo < 3', 'zlibfoo != 2.1', 'abar', 'zlibfoo == 2', 'abar > 0', 'mid9 <= 9', 'zlibfoo']
        rng.shuffle(reqs)
        kw.append("requires: [%s]" % ', '.join("'%s'" % q for q in reqs[:rng.randint(2, 8)]))
        rng.shuffle(reqs)
        kw.append("requires_private: [%s]" % ', '.join("'%s'" % q for q in reqs[:rng.randint(1, 5)] + ['privonly >= 2', 'privonly < 5']))
    if rng.random() < 0.4:
        libs = ['-lz', '-L/opt/z', '-la', '-lz', '-pthread', '-L/opt/a', '-Wl,--as-needed', '-pthread']
        rng.shuffle(libs)
        kw.append("libraries: [%s]" % ', '.join("'%s'" % q for q in libs[:rng.randint(1, 6)]))
        rng.shuffle(libs)
        kw.append("libraries_private: [%s]" % ', '.join("'%s'" % q for q in libs[:rng.randint(1, 5)]))
    if rng.random() < 0.3:
        kw.append("conflicts: ['oldz < 1', 'olda']")
    if rng.random() < 0.3:
        kw.append("url: 'https://example.invalid/%s'" % u)
    if rng.random() < 0.3:
        kw.append("filebase: 'fb-%s', install_dir: 'share/pc%s'" % (u, u))
    if rng.random() < 0.3:
        kw.append("uninstalled_variables: ['uz=1', 'ua=2']")
    if rng.random() < 0.3:
        kw.append("unescaped_variables: ['raw=a b']")
    lines.append('pkg%s.generate(%s)' % (u, ', '.join(kw)))
    if rng.random() < 0.4:
        lines.append("pkg%s.generate(name: 'dataonly%s', description: 'data', version: '2', dataonly: true, variables: {'zd': '1', 'ad': '${prefix}/a'}, "
                     "requires: ['zdat >= 1', 'zdat < 2'], install_dir: 'share/pkgconfig')" % (u, u))
    return '\n'.join(lines) + '\n', {}


def f_cmake(rng, u, c):
    files = {'pc%s.cmake.in' % u: '@PACKAGE_INIT@\nset(Z @zvar@)\nset(A "@avar@")\n'}
    lines = ["cm%s = import('cmake')" % u]
    if c:   # needs sizeof(void *), hence a compiler
        lines.append("cm%s.write_basic_package_version_file(name: 'pk%s', version: '1.2.%s', compatibility: '%s', install_dir: 'lib/cmake/pk%s'%s)"
                     % (u, u, rng.randrange(9), rng.choice(['AnyNewerVersion', 'SameMajorVersion', 'ExactVersion']), u,
                        ', arch_independent: true' if rng.random() < 0.5 else ''))
    lines += ["cmd%s = configuration_data({'zvar': 'z', 'avar': 'a a'})" % u,
              "cm%s.configure_package_config_file(name: 'pk%s', input: 'pc%s.cmake.in', configuration: cmd%s, install_dir: 'lib/cmake/pk%s')" % (u, u, u, u, u)]
    return '\n'.join(lines) + '\n', files


def f_misc(rng, u, c):
    lines = ["summary({'zkey%s': 'z', 'akey': true, 'mkey': [1, 2]}, section: 'S%s')" % (u, u),
             "dep%s = declare_dependency(variables: {'zv': '1', 'av': '2'}, version: '3')" % u,
             "meson.override_dependency('ovr%s', dep%s)" % (u, u),
             "fs%s = import('fs')" % u,
             "assert(fs%s.exists(meson.current_source_dir() / 'meson.build'))" % u]
    if rng.random() < 0.4:
        lines.append("meson.add_dist_script('sh', '-c', 'true')")
    if rng.random() < 0.4:
        lines.append("meson.add_postconf_script('sh', '-c', 'true')")
    if rng.random() < 0.4:
        lines.append("meson.install_dependency_manifest('share/dm%s/depmf.json')" % u)
    if rng.random() < 0.4:
        lines.append("vcs_tag(input: 'vcs%s.in', output: 'vcs%s.h', fallback: 'fb')" % (u, u))
        return '\n'.join(lines) + '\n', {'vcs%s.in' % u: '#define V "@VCS_TAG@"\n'}
    return '\n'.join(lines) + '\n', {}


def f_ctargets(rng, u, c):
    if not c:
        return '', {}
    files = {'z%s.c' % u: 'int z%s(void) { return 1; }\n' % u, 'a%s.c' % u: 'int a%s(void) { return 2; }\n' % u,
             'm%s.c' % u: 'int m%s(void) { return 3; }\n' % u, 'main%s.c' % u: C_MAIN,
             'inc%s/z/h.h' % u: '\n', 'inc%s/a/h.h' % u: '\n', 'pch%s/pch.h' % u: '#include <stdio.h>\n'}
    srcs = ['z%s.c' % u, 'a%s.c' % u, 'm%s.c' % u]
    rng.shuffle(srcs)
    kind = rng.choice(['static_library', 'shared_library', 'library', 'both_libraries'])
    kw = ["include_directories: include_directories('inc%s/z', 'inc%s/a')" % (u, u)]
    if rng.random() < 0.5:
        kw.append("c_args: ['-DZZ', '-DAA', '-DMM=1']")
    if rng.random() < 0.4:
        kw.append("c_pch: 'pch%s/pch.h'" % u)
    if rng.random() < 0.4:
        kw.append('install: true')
    if kind != 'static_library' and rng.random() < 0.5:
        kw.append("version: '1.2.3', soversion: '1'")
    lines = ["lib%s = %s('l%s', %s, %s)" % (u, kind, u, ', '.join("'%s'" % s for s in srcs), ', '.join(kw))]
    ekw = ['link_with: lib%s' % u]
    if rng.random() < 0.5:
        ekw.append("dependencies: [dependency('threads'), declare_dependency(compile_args: ['-DFROMDEP'], link_args: ['-lm'])]")
    if rng.random() < 0.4:
        ekw.append('install: true')
    if rng.random() < 0.3:
        ekw.append("override_options: ['b_ndebug=true', 'warning_level=3']")
    lines.append("exe%s = executable('e%s', 'main%s.c', %s)" % (u, u, u, ', '.join(ekw)))
    if rng.random() < 0.6:
        lines.append("test('texe%s', exe%s, env: {'ZE': '1', 'AE': '2'}, depends: lib%s)" % (u, u, u))
    if rng.random() < 0.4:
        lines.append("import('pkgconfig').generate(lib%s, description: 'lib %s', subdirs: ['zz', 'aa'], variables: ['zv=1', 'av=2'])" % (u, u))
    if rng.random() < 0.3:
        lines += ["g%s = generator(find_program('cp'), output: '@BASENAME@.c', arguments: ['@INPUT@', '@OUTPUT@'])" % u,
                  "executable('ge%s', g%s.process('main%s.c.in'))" % (u, u, u)]
        files['main%s.c.in' % u] = C_MAIN
    if rng.random() < 0.3:
        lines.append("custom_target('usesexe%s', output: 'ue%s.out', command: [exe%s, '@OUTPUT@'], env: {'QZ': 'z', 'QA': 'a'})" % (u, u, u))
    return '\n'.join(lines) + '\n', files


def f_cshared(rng, u, c):
    """two shared libraries in different build sub-directories, an executable using both, and a
    test of it (exercises the test serialisation: depends, LD_LIBRARY_PATH)"""
    if not c:
        return '', {}
    ds = ['lz%s' % u, 'la%s' % u, 'lm%s' % u][:rng.randint(2, 3)]
    files = {}
    for d in ds:
        files['%s/meson.build' % d] = "%s = shared_library('%s', '%s.c')\n" % (d, d, d)
        files['%s/%s.c' % (d, d)] = 'int %s(void) { return 0; }\n' % d
    files['use%s.c' % u] = C_MAIN
    order = list(ds)
    rng.shuffle(order)
    lines = ["subdir('%s')" % d for d in ds]
    lines.append("ux%s = executable('ux%s', 'use%s.c', link_with: [%s])" % (u, u, u, ', '.join(order)))
    rng.shuffle(order)
    deps = order[:rng.randint(0, len(order))]
    rng.shuffle(order)
    targs = order[:rng.randint(0, 2)]
    lines.append("test('tux%s', ux%s, depends: [%s], args: [%s])" % (u, u, ', '.join(deps), ', '.join(targs)))
    # backends.py:1318-1325: depends, then the executable, then the targets among the arguments
    return '\n'.join(lines) + '\n', files, {'expect_test_depends': {'tux%s' % u: deps + ['ux%s' % u] + targs}}


ENV_NAMES = ['ZED', 'ALPHA', 'Mid', 'PATH', 'LD_LIBRARY_PATH', 'A10', 'A9', 'a_b', 'QT_X', 'LANG', 'HOME_X', 'TMPX']


def env_object(rng, var, unsets=None):
    """statements building an environment() object `var` with every method: set / append / prepend
    (several values, explicit separators) and unset() of several DIFFERENT variables"""
    names = list(ENV_NAMES)
    rng.shuffle(names)
    init = rng.choice(["", "{'%s': 'i1', '%s': 'i2'}" % (names[0], names[1]), "['%s=l1', '%s=l2']" % (names[0], names[1]),
                       "{'%s': ['p', 'q']}, method: 'prepend', separator: ';'" % names[0]])
    lines = ['%s = environment(%s)' % (var, init)]
    ops = []
    for n in names[2:2 + rng.randint(1, 4)]:
        m = rng.choice(['set', 'append', 'prepend'])
        vals = rng.sample(["'v1'", "'x y'", "'/opt/z'", "'a;b'", "''"], rng.randint(1, 3))
        sep = rng.choice(['', '', ", separator: ','", ", separator: ' '", ", separator: '|'"])
        ops.append("%s.%s('%s', %s%s)" % (var, m, n, ', '.join(vals), sep))
    k = rng.choice([0, 2, 2, 3, 4]) if unsets is None else unsets
    for n in names[7:7 + k]:
        ops.append("%s.unset('%s')" % (var, n))
    rng.shuffle(ops)
    return lines + ops


def f_envobj(rng, u, c):
    """environment() objects as env: of custom_target, run_target, generator.process, test, benchmark,
    add_test_setup and meson.add_devenv"""
    files = {'gen%s.py' % u: GEN_PY, 'src%s.in' % u: 'data %s\n' % u}
    lines = ["py%s = find_program('python3')" % u]
    lines += env_object(rng, 'e1' + u, unsets=rng.choice([2, 3, 4]))     # always >= 2 unset + >= 1 set
    lines.append("ect%s = custom_target('ect%s', input: 'src%s.in', output: 'ect%s.out', env: e1%s, "
                 "command: [py%s, files('gen%s.py'), '@INPUT@', '@OUTPUT@'])" % (u, u, u, u, u, u, u))
    uses = ['run', 'test', 'bench', 'setup', 'devenv', 'ct2', 'cap']
    if c:
        uses.append('gen')
    rng.shuffle(uses)
    for i, k in enumerate(uses[:rng.randint(2, len(uses))]):
        v = 'e%d%s' % (i + 2, u)
        lines += env_object(rng, v)
        if k == 'run':
            lines.append("run_target('ert%s', command: ['sh', '-c', 'true'], env: %s)" % (u, v))
        elif k == 'test':
            lines.append("test('et%s', find_program('true'), env: %s)" % (u, v))
        elif k == 'bench':
            lines.append("benchmark('eb%s', find_program('true'), env: %s)" % (u, v))
        elif k == 'setup':
            lines.append("add_test_setup('esetup%s', env: %s, exe_wrapper: ['sh', '-c'], gdb: false)" % (u, v))
        elif k == 'devenv':
            lines.append("meson.add_devenv(%s)" % v)
            lines.append("meson.add_devenv({'DZ%s': ['z', 'a'], 'DA': 'x'}, method: 'append', separator: ',')" % u)
        elif k == 'ct2':
            lines.append("custom_target('ect2%s', output: ['e2%s.z', 'e2%s.a'], command: ['touch', '@OUTPUT@'], env: %s, depends: ect%s)" % (u, u, u, v, u))
        elif k == 'cap':
            lines.append("custom_target('ecap%s', output: 'ecap%s.txt', command: ['sh', '-c', 'env'], capture: true, env: %s)" % (u, u, v))
        elif k == 'gen':
            files['egmain%s.c.in' % u] = C_MAIN
            lines += ["eg%s = generator(find_program('cp'), output: '@BASENAME@', arguments: ['@INPUT@', '@OUTPUT@'])" % u,
                      "executable('egx%s', eg%s.process('egmain%s.c.in', env: %s))" % (u, u, u, v)]
    return '\n'.join(lines) + '\n', files


def f_more(rng, u, c):
    """language-free functions and keyword arguments the other snippets do not use"""
    files = {'kv%s.conf' % u: 'ZKEY=1\nAKEY=two\nMKEY=3\n', 'man%s.1' % u: '.TH X 1\n', 'man%s.3' % u: '.TH Y 3\n',
             'ren%sz.txt' % u: 'z\n', 'ren%sa.txt' % u: 'a\n', 'ss%sz.txt' % u: 'z\n', 'ss%sa.txt' % u: 'a\n', 'ss%sm.txt' % u: 'm\n',
             'cpy%s.txt' % u: 'copy\n', 'nest%s/d/h1.h' % u: '\n', 'nest%s/h2.h' % u: '\n', 'vcs%s.in' % u: 'v=@VCS_TAG@ s=@SHA@\n'}
    lines = ["kv%s = import('keyval').load(files('kv%s.conf'))" % (u, u),
             "configure_file(output: 'kv%s.h', configuration: kv%s)" % (u, u),
             "install_man('man%s.1', 'man%s.3'%s)" % (u, u, rng.choice(['', ", locale: 'de'", ", install_mode: 'rw-r--r--'"])),
             "install_data(sources: ['ren%sz.txt', 'ren%sa.txt'], rename: ['zz%s.txt', 'sub/aa%s.txt'], install_dir: 'share/ren%s', install_tag: 'doc', install_mode: ['rw-r-----', 0, 0])" % (u, u, u, u, u),
             "install_headers('nest%s/d/h1.h', 'nest%s/h2.h', preserve_path: true, install_dir: 'include/ph%s')" % (u, u, u),
             "fs%s = import('fs')" % u,
             "fs%s.copyfile('cpy%s.txt', 'cpyout%s.txt', install: true, install_dir: 'share/cp%s', install_tag: 'runtime')" % (u, u, u, u),
             "ss%s = import('sourceset').source_set()" % u,
             "ss%s.add(when: 'ZKEY', if_true: files('ss%sz.txt'), if_false: files('ss%sa.txt'))" % (u, u, u),
             "ss%s.add(files('ss%sm.txt'))" % (u, u),
             "ss%s.add_all(when: ['AKEY', 'MKEY'], if_true: ss%s)" % (u, u) if False else "ss%sr = ss%s.apply({'ZKEY': %s, 'AKEY': true})" % (u, u, rng.choice(['true', 'false'])),
             "custom_target('ssct%s', input: ss%sr.sources(), output: 'ssct%s.out', command: ['cat', '@INPUT@'], capture: true, install: true, install_dir: 'share/ss%s', install_tag: 'devel', install_mode: 'rwxr-x---', build_always_stale: %s, console: false)"
             % (u, u, u, u, rng.choice(['true', 'false'])),
             "set_variable('dyn_%s', ['z', 'a'])" % u,
             "summary('dyn%s', get_variable('dyn_%s'), list_sep: ', ')" % (u, u),
             "summary({'zz': false, 'aa': true}, bool_yn: true, section: 'More %s')" % u,
             "meson.override_find_program('ofp%s', find_program('true'))" % u,
             "meson.add_install_script(find_program('ofp%s'), 'z', 'a', install_tag: 'doc', skip_if_destdir: true, dry_run: true)" % u,
             "vcs_tag(command: ['sh', '-c', 'echo 1.2.3'], input: 'vcs%s.in', output: 'vcs%s.txt', replace_string: '@VCS_TAG@', fallback: 'none', install: true, install_dir: 'share/v%s')" % (u, u, u),
             "configure_file(output: 'inst%s.h', configuration: {'I': 1}, install: true, install_dir: 'include/i%s', install_tag: 'devel', install_mode: 'r--r--r--')" % (u, u),
             "alias_target('more%s', []%s)" % (u, '') if False else "foreach k, v : {'zf': 1, 'af': 2, 'mf': 3}\n  configure_file(output: 'fe%s_' + k + '.txt', configuration: {'V': v})\nendforeach" % u,
             "if false\n  subdir_done()\nendif",
             "rc%s = run_command('sh', '-c', 'echo z a m', check: true, capture: true, env: {'RZ': '1', 'RA': '2'})" % u,
             "rc2%s = run_command(find_program('cat'), files('kv%s.conf'), check: false)" % (u, u),
             "foreach i : range(1, 4, 2)\n  configure_file(output: 'rg%s_@0@.txt'.format(i), configuration: {'W': rc%s.stdout().strip().split()[i - 1], 'N': rc2%s.stdout().split()[0]})\nendforeach" % (u, u, u),
             "jp%s = join_paths('zdir', 'adir', 'f%s')" % (u, u),
             "if is_variable('jp%s')\n  summary('jp%s', jp%s)\n  unset_variable('jp%s')\nendif" % (u, u, u, u),
             "dis%s = disabler()" % u,
             "if not is_disabler(dis%s)\n  error('unreachable')\nendif" % u,
             "warning('a generated warning %s')" % u]
    if rng.random() < 0.5:
        lines.append("dep_nf%s = dependency('surely-not-there-%s', required: false, method: 'pkg-config', version: '>=1', not_found_message: 'nf')" % (u, u))
        lines.append("summary('nf%s', dep_nf%s)" % (u, u))
    return '\n'.join(lines) + '\n', files


def f_cmore(rng, u, c):
    """C targets: keyword arguments and helper functions the other snippets do not use"""
    if not c:
        return '', {}
    files = {'mz%s.c' % u: 'int mz%s(void) { return 1; }\n' % u, 'ma%s.c' % u: 'int ma%s(void) { return 2; }\n' % u,
             'mo%s.c' % u: 'int mo%s(void) { return 3; }\n' % u, 'mmain%s.c' % u: C_MAIN, 'minc%s/x.h' % u: '\n', 'mld%s.map' % u: '{ global: *; };\n',
             'mextra%s.txt' % u: 'x\n'}
    lines = ["cc%s = meson.get_compiler('c')" % u,
             "if add_languages('cpp', native: false, required: false)\n  summary('cpp%s', meson.get_compiler('cpp').get_id())\nendif" % u,
             "cdm%s = configuration_data()" % u,
             "foreach h : ['stdio.h', 'zzz_nope.h', 'stdlib.h']\n  cdm%s.set('HAVE_' + h.underscorify().to_upper(), cc%s.has_header(h))\nendforeach" % (u, u),
             "cdm%s.set('SIZEOF_INT', cc%s.sizeof('int'))" % (u, u),
             "cdm%s.set10('HAVE_PRINTF', cc%s.has_function('printf'))" % (u, u),
             "configure_file(output: 'cdm%s.h', configuration: cdm%s)" % (u, u),
             "libm%s = cc%s.find_library('m', required: false)" % (u, u),
             "sl%s = static_library('msl%s', 'mz%s.c', 'ma%s.c', pic: true, install: false, extra_files: 'mextra%s.txt', implicit_include_directories: false)" % (u, u, u, u, u),
             "obj%s = sl%s.extract_all_objects(recursive: false)" % (u, u),
             "bl%s = both_libraries('mbl%s', 'mo%s.c', objects: obj%s, link_whole: sl%s, gnu_symbol_visibility: 'hidden', soversion: '2', install: true, install_rpath: '/opt/z:/opt/a', build_rpath: '/bz:/ba', link_depends: 'mld%s.map', name_prefix: 'pre', install_tag: 'rt')"
             % (u, u, u, u, u, u),
             "bt%s = build_target('mbt%s', 'mz%s.c', target_type: 'static_library', build_by_default: true)" % (u, u, u),
             "sm%s = shared_module('msm%s', 'ma%s.c', name_suffix: 'plug', install: true, install_dir: 'lib/plug%s')" % (u, u, u, u),
             "dd%s = declare_dependency(link_with: bl%s.get_shared_lib(), include_directories: include_directories('minc%s'), sources: files('minc%s/x.h'), "
             "dependencies: [libm%s, dependency('threads')], compile_args: ['-DDDZ', '-DDDA'], variables: {'zz': 'z', 'aa': 'a'}, extra_files: files('mextra%s.txt'))" % (u, u, u, u, u, u),
             "mx%s = executable('mx%s', 'mmain%s.c', dependencies: dd%s, export_dynamic: true, pie: true, install: true, install_dir: 'libexec/m%s', "
             "c_args: ['-DZ1', '-DA1'], link_args: ['-Wl,-z,now'], override_options: ['c_std=c99', 'b_ndebug=if-release', 'optimization=1'], "
             "link_language: 'c', build_by_default: false, install_mode: 'rwxr-xr-x', native: false)" % (u, u, u, u, u),
             "test('mxt%s', mx%s, args: [sm%s, files('mextra%s.txt')], workdir: meson.current_build_dir(), protocol: 'exitcode', verbose: true, "
             "env: ['ZL=1', 'AL=2'], depends: [sl%s, sm%s], suite: 'm')" % (u, u, u, u, u, u),
             "meson.add_install_script('sh', '-c', 'true', mx%s, sm%s)" % (u, u)]
    return '\n'.join(lines) + '\n', files


def f_many(rng, u, c):
    """many targets (more than a dozen), generated in a loop, chained, aliased and tested"""
    names = ['z', 'a', 'm', 'b10', 'b9', 'B', 'q', 'r', 's', 't', 'u', 'v', 'w']
    rng.shuffle(names)
    n = rng.randint(9, 13)
    lines = ["many%s = []" % u, "prev%s = []" % u,
             "foreach n : [%s]" % ', '.join("'%s'" % x for x in names[:n]),
             "  t = custom_target('many%s_' + n, output: 'many%s_' + n + '.out', command: ['touch', '@OUTPUT@'], depends: prev%s, "
             "build_by_default: n == 'z', install: n == 'a', install_dir: 'share/many%s')" % (u, u, u, u),
             "  many%s += t" % u, "  prev%s = [t]" % u,
             "  test('many%s_' + n, find_program('true'), depends: many%s, suite: ['many', n])" % (u, u),
             "endforeach",
             "alias_target('manyall%s', many%s)" % (u, u),
             "run_target('manyrun%s', command: ['true'], depends: many%s)" % (u, u),
             "custom_target('manycat%s', input: many%s, output: 'manycat%s.out', command: ['cat', '@INPUT@'], capture: true)" % (u, u, u)]
    return '\n'.join(lines) + '\n', {}


FEATURES = [('confdata', f_confdata), ('confdict', f_confdict), ('confcopy', f_confcopy), ('confcmd', f_confcmd),
            ('custom', f_custom), ('tests', f_tests), ('install', f_install), ('pkgconfig', f_pkgconfig),
            ('cmake', f_cmake), ('misc', f_misc), ('ctargets', f_ctargets), ('cshared', f_cshared), ('envobj', f_envobj), ('more', f_more), ('cmore', f_cmore), ('many', f_many)]
FEAT = dict(FEATURES)
FEAT['confcmd_all'] = f_confcmd_all      # corpus only

OPTIONS_FILE = ("option('zopt', type: 'string', value: 'zed', description: 'z')\n"
                "option('aopt', type: 'boolean', value: true)\n"
                "option('mcombo', type: 'combo', choices: ['one', 'two', 'three'], value: 'two')\n"
                "option('iopt', type: 'integer', min: 0, max: 10, value: 3)\n"
                "option('arr', type: 'array', choices: ['z', 'a', 'm'], value: ['z', 'a'])\n"
                "option('feat', type: 'feature', value: 'auto')\n")


def subproject_files(name, rng, c):
    body = ["project('%s', %sversion: '0.%d')" % (name, "'c', " if c else '', rng.randrange(9)),
            "sd_%s = declare_dependency(variables: {'from': '%s'})" % (name, name),
            "meson.override_dependency('%s-dep', sd_%s)" % (name, name),
            "configure_file(output: '%s_conf.h', configuration: {'SUB_Z': 1, 'SUB_A': '%s'})" % (name, name),
            "install_data('s.txt', install_dir: 'share/%s')" % name]
    files = {'subprojects/%s/meson.build' % name: '\n'.join(body) + '\n',
             'subprojects/%s/s.txt' % name: 's\n',
             'subprojects/%s/meson.options' % name: "option('subopt', type: 'string', value: 'sv')\noption('aopt', type: 'boolean', value: false, yield: true)\n"}
    if rng.random() < 0.6:
        files['subprojects/%s.wrap' % name] = '[wrap-file]\ndirectory = %s\n\n[provide]\n%s-dep = sd_%s\n' % (name, name, name)
    return files


def make_project(rng, name, feats=None, c=None, nsub=None, subdirs=None):
    """Assemble a project.  feats: list of feature names (may repeat)."""
    if c is None:
        c = rng.random() < 0.45
    if feats is None:
        k = rng.randint(2, 6)
        pool = [n for n, _ in FEATURES if c or n not in ('ctargets', 'cshared', 'cmore')]
        feats = [rng.choice(pool) for _ in range(k)]
        if c and 'ctargets' not in feats:
            feats.append('ctargets')
    if nsub is None:
        nsub = rng.choice([0, 0, 1, 2, 3])
    if subdirs is None:
        subdirs = rng.random() < 0.4
    files = {'meson.options': OPTIONS_FILE}
    dopts = ["'zopt=fromdefault'", "'warning_level=2'", "'aopt=false'", "'buildtype=debugoptimized'"]
    rng.shuffle(dopts)
    head = ["project('%s', %sversion: '1.%d', default_options: [%s], license: ['MIT', 'Apache-2.0'])"
            % (name, "'c', " if c else '', rng.randrange(10), ', '.join(dopts[:rng.randint(0, 3)])),
            "message('zopt=' + get_option('zopt'))"]
    if c and rng.random() < 0.5:     # must come before the first target
        head += ["add_project_arguments(meson.get_compiler('c').get_supported_arguments(['-Wall', '-Wzzz-nope', '-Wextra']), language: 'c')",
                 "add_project_link_arguments(meson.get_compiler('c').get_supported_link_arguments(['-Wl,--as-needed', '-Wl,--zzz-nope']), language: 'c')",
                 "add_global_arguments('-DGLOBAL_Z', '-DGLOBAL_A', language: 'c')",
                 "add_global_link_arguments('-Wl,-z,relro', language: 'c')",
                 "add_project_dependencies(dependency('threads'), declare_dependency(compile_args: '-DPROJDEP'), language: 'c')"]
    top, sub, meta = list(head), [], {}
    for i, fn in enumerate(feats):
        u = '%s%d' % (fn[:2], i)
        res = FEAT[fn](rng, u, c)
        text, extra = res[0], res[1]
        if len(res) > 2:
            for mk, mv in res[2].items():
                meta.setdefault(mk, {}).update(mv)
        if subdirs and rng.random() < 0.5:
            sub.append(text)
            for p, t in extra.items():
                files['sd/' + p] = t
        else:
            top.append(text)
            files.update(extra)
    if sub:
        files['sd/meson.build'] = '\n'.join(sub)
        top.append("subdir('sd')")
    subs = ['zsub', 'asub', 'msub'][:nsub]
    rng.shuffle(subs)
    for s in subs:
        files.update(subproject_files(s, rng, c and rng.random() < 0.5))
        if rng.random() < 0.5:
            top.append("sp_%s = subproject('%s')" % (s, s))
        else:
            top.append("d_%s = dependency('%s-dep', fallback: ['%s', 'sd_%s'])" % (s, s, s, s))
    files['meson.build'] = '\n'.join(top) + '\n'
    opts = []
    if rng.random() < 0.4:
        opts.append('-Dmcombo=' + rng.choice(['one', 'three']))
    if rng.random() < 0.3:
        opts.append('-Dprefix=/opt/x')
    if c and rng.random() < 0.35:
        opts.append('-Dunity=on')
    if c and rng.random() < 0.3:
        opts.append('-Db_lto=true')
    if rng.random() < 0.2:
        opts.append('-Dbackend_max_links=2')
    # an option that a history variant first sets to another value and then back to the original
    alt = rng.choice([('iopt', '7', '3'), ('feat', 'enabled', 'auto'), ('arr', 'm', 'z,a'), ('werror', 'true', 'false'),
                      ('default_library', 'static', 'shared'), ('strip', 'true', 'false')])
    return dict(meta, name=name, files=files, opts=opts, alt_opt=alt, c=c, features=feats, nsub=nsub)


def java_rust_project():
    """jar() and structured_sources() (javac and rustc are available in the sandbox)"""
    files = {'meson.build': "project('corp_java_rust', 'java', 'rust', version: '1.0')\n"
                            "jar('jz', 'com/Z.java', 'com/A.java', main_class: 'com.Z', java_args: ['-Xlint:all'], install: true, install_dir: 'share/java', "
                            "java_resources: structured_sources('res/z.txt', {'sub': 'res/a.txt'}))\n"
                            "ss = structured_sources('main.rs', {'zmod': 'zmod/mod.rs', 'amod': ['amod/mod.rs']})\n"
                            "executable('rs', ss, rust_args: ['--cfg', 'zfeat', '--cfg', 'afeat'], install: true)\n"
                            "test('rs', find_program('true'), env: {'RZ': '1', 'RA': '2'})\n",
             'meson.options': OPTIONS_FILE,
             'com/Z.java': 'package com; public class Z { public static void main(String[] a) {} }\n',
             'com/A.java': 'package com; public class A { }\n', 'res/z.txt': 'z\n', 'res/a.txt': 'a\n',
             'main.rs': 'mod zmod; mod amod; fn main() {}\n', 'zmod/mod.rs': '\n', 'amod/mod.rs': '\n'}
    return {'name': 'corp_java_rust', 'files': files, 'opts': [], 'alt_opt': ('iopt', '7', '3'), 'c': True, 'features': ['java_rust'], 'nsub': 0}


def corpus(rng):
    """Hand-picked projects: every feature alone (language-free), a C project with everything,
    subprojects with wraps, nested subdir."""
    out = []
    for n, _ in FEATURES:
        if n in ('ctargets', 'cshared', 'cmore'):
            continue
        out.append(make_project(rng, 'corp_' + n, feats=[n, n], c=False, nsub=0, subdirs=False))
    out.append(make_project(rng, 'corp_c_all', feats=['ctargets', 'ctargets', 'confdata', 'custom', 'tests', 'pkgconfig', 'install'], c=True, nsub=1, subdirs=True))
    out.append(make_project(rng, 'corp_c_shared', feats=['cshared', 'cshared'], c=True, nsub=0, subdirs=False))
    out.append(make_project(rng, 'corp_c_more', feats=['cmore', 'envobj'], c=True, nsub=0, subdirs=True))
    out.append(make_project(rng, 'corp_c_min', feats=['ctargets'], c=True, nsub=0, subdirs=False))
    out.append(make_project(rng, 'corp_subs', feats=['confdata', 'misc', 'install'], c=False, nsub=3, subdirs=True))
    out.append(java_rust_project())
    q = make_project(rng, 'corp_many_subs', feats=['many', 'many', 'pkgconfig', 'pkgconfig', 'pkgconfig'], c=False, nsub=3, subdirs=True)
    # a subproject that itself uses another subproject
    q['files']['subprojects/zsub/meson.build'] += "sub_of_sub = subproject('asub')\n"
    out.append(q)
    # build directory nested inside the source tree (`meson setup build`), with configure-time commands
    # whose @OUTPUT@/@DEPFILE@ live in that build directory; once at top level, once in a subdir
    q = make_project(rng, 'corp_nested_cmd', feats=['confcmd_all', 'confdata'], c=False, nsub=0, subdirs=False)
    q['layout'] = 'nested'
    out.append(q)
    q = make_project(rng, 'corp_nested_sub', feats=['confcmd_all', 'confcmd', 'custom'], c=False, nsub=1, subdirs=True)
    q['layout'] = 'nested'
    out.append(q)
    return out


# ------------------------------------------------------------------ running meson
EXCLUDE_DIRS = ('meson-logs',)


def classify(rel):
    """Property class of a generated file, or None when the file is not generated text the
    property speaks about (logs, pickles, compiler sanity-check binaries)."""
    parts = rel.split('/')
    base = parts[-1]
    if parts[0] in EXCLUDE_DIRS or '__pycache__' in parts:
        return None
    if parts[0] == 'meson-private' and len(parts) > 2 and (parts[1].startswith('cmake_') or parts[1].startswith('__CMake')):
        return None                    # scratch trees of the cmake executable (its own logs and caches)
    if base.endswith('.prev'):
        return None
    if base.endswith('~') or base.endswith('.tmp') or base == 'tmp_dump.json':
        return 'tempfile'              # a leftover temporary: reported by its own clause
    if rel == 'build.ninja':
        return 'ninja'
    if rel == 'meson-info/meson-info.json':
        return 'intro-meta'
    if parts[0] == 'meson-info':
        return 'intro'
    if base.endswith('.pc'):
        return 'pkgconfig'
    if base == 'depmf.json':
        return 'depmf'
    if parts[0] == 'meson-private':
        if base.endswith('.dat') or base == 'meson.lock' or base.startswith('sanity') or base.startswith('tmp'):
            return None
        if base == 'cmd_line.txt':
            return 'cmdline'
        if base.endswith('.cmake'):
            return 'cmake-pkg'
        return 'private-text'
    if parts[0] == 'meson-uninstalled':
        return 'pkgconfig'
    if rel in ('.gitignore', '.hgignore', 'CACHEDIR.TAG', 'compile_commands.json', 'rust-project.json'):   # IDE databases, rewritten unconditionally by design
        return 'marker'
    if rel.endswith('META-INF/MANIFEST.MF'):
        return 'jar-manifest'           # written directly by the backend on every configure (like *.pc): content only
    if base.startswith('extcmd_'):
        return 'configure_file_extcmd'  # written by the user's own command (configure_file(command:) without capture)
    return 'configure_file'            # everything else in the tree is an output of a configure-time command


# classes whose files must keep their mtime across a no-change reconfigure: the outputs written
# through replace_if_different (configure_file, cmake package files, unity/pch sources)
MTIME_CLASSES = ('configure_file', 'cmake-pkg')


def snapshot(bdir):
    snap = {}
    for root, dirs, fnames in os.walk(bdir):
        dirs.sort()
        for fn in sorted(fnames):
            p = os.path.join(root, fn)
            rel = os.path.relpath(p, bdir)
            cls = classify(rel)
            if cls is None:
                continue
            try:
                st = os.lstat(p)
                if not stat.S_ISREG(st.st_mode):
                    continue
                with open(p, 'rb') as f:
                    data = f.read()
            except OSError:
                continue
            snap[rel] = {'cls': cls, 'data': data, 'mtime': st.st_mtime_ns, 'mode': stat.S_IMODE(st.st_mode)}
    return snap


def write_tree(root, files):
    for rel, text in files.items():
        p = os.path.join(root, rel)
        os.makedirs(os.path.dirname(p), exist_ok=True)
        with open(p, 'w', encoding='utf-8') as f:
            f.write(text)


def variant_env(variant, rng_seed):
    """Environment for one variant: {'seed': PYTHONHASHSEED, 'envperm': int|None, 'shuffle': str|None}."""
    import random
    e = impl_env()
    e['NINJA'] = os.path.join(VERIF, 'tools', 'fakeninja')
    e['PYTHONHASHSEED'] = str(variant.get('seed', 0))
    # meson must not see the harness's own switches differently between variants
    e.pop('MESON_VERIF_SHUFFLE', None)
    pp = [REPO]
    if variant.get('shuffle') is not None:
        e['MESON_VERIF_SHUFFLE'] = str(variant['shuffle'])
    # the shuffling site directory is on the path in EVERY variant (inactive without the switch),
    # so that PYTHONPATH itself is the same string everywhere
    e['PYTHONPATH'] = os.pathsep.join([SHUFFLE_SITE] + pp)
    if variant.get('shuffle') is None:
        e['MESON_VERIF_SHUFFLE'] = ''
    if variant.get('envperm') is not None:
        items = sorted(e.items())
        random.Random(variant['envperm'] * 7919 + rng_seed).shuffle(items)
        e = dict(items)
    else:
        e = dict(sorted(e.items()))
    return e


def meson(args, env, cwd, timeout=600):
    return subprocess.run([PY, os.path.join(REPO, 'meson.py')] + list(args), cwd=cwd, env=env,
                          capture_output=True, text=True, timeout=timeout)
