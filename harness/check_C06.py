"""C06 — configuration is deterministic and does not disturb unchanged outputs.
Theorems: coq/Props/C06.v.  Models: coq/FS/Replace.v, coq/Determ/Model.v.
Implementation: mesonbuild (ninjabackend, backends, coredata, mintro, utils/universal,
utils/core) in-process for the modelled writers, and the real `meson setup` command line for
the whole configuration step (hash seeds, environment order, directory-listing order, build
directory histories)."""
import itertools, json, os, re, shutil, time, difflib
from common import *
import c06gen as G

SEP1, SEP2, MARK = '\x01', '\x02', '\x03'
NAMES = ['a', 'b', 'c', 'B', 'a b', 'x:y', 'p$q', 'sub/f.c', 'z', 'lib1.so', 'lib10.so', 'lib9.so', 'é', 'a\\b', '_', '0']
ANON_RE = re.compile(rb'"dep[0-9]{20,}"')


# ====================================================================== in-process cases
def J(l):
    return SEP2.join(l)


def gen_set(rng, k=None, pool=NAMES):
    k = rng.randint(0, 6) if k is None else k
    return rng.sample(pool, min(k, len(pool)))


def gen_nline(rng, nl=False):
    outs = gen_set(rng, rng.randint(1, 2))
    imp = gen_set(rng, rng.choice([0, 0, 1]))
    ins = gen_set(rng, rng.randint(0, 3))
    deps, odeps = gen_set(rng), gen_set(rng)
    if nl:
        which = rng.choice([outs, ins, deps, odeps])
        which.append('bad\nname')
    return ('nline', [rng.choice(['phony', 'CUSTOM_COMMAND', 'c_COMPILER']), J(outs), J(imp), J(ins), J(deps), J(odeps)])


def gen_oset(rng):
    ops = []
    for _ in range(rng.randint(0, 8)):
        k = rng.choice('aaaduuxfmp')
        if k in 'adm':
            ops.append(k + rng.choice(NAMES[:6]))
        elif k in 'uxf':
            ops.append(k + J(gen_set(rng, rng.randint(1, 4), NAMES[:7])))
        else:
            ops.append('p')
    return ('oset', ops)


def gen_envhash(rng):
    keys = gen_set(rng, rng.randint(0, 5), ['ZED', 'ALPHA', 'Mid', 'PATH', 'A', 'a', 'A_B', 'A10', 'A9'])
    args = []
    for k in keys:
        args += [k, rng.choice(['1', '', 'x y', '/usr/bin', 'é', 'a;b', 'a,b'])]
    return ('envhash', args)


DF_NODES = ['a', 'b', 'c', 'd', 'e', 'out', 'x/y.h', 'lib10', 'lib9', 'Z']


def gen_depfile(rng):
    n = rng.randint(1, 6)
    rules = []
    for _ in range(n):
        ts = rng.sample(DF_NODES, rng.randint(1, 2))
        ds = [rng.choice(DF_NODES) for _ in range(rng.randint(0, 4))]
        rules.append(J(ts) + SEP1 + J(ds) if ds else J(ts))
    return ('depfile', [rng.choice(DF_NODES)] + rules)


PC_NAMES = ['zlib', 'abar', 'Mid', 'glib-2.0', 'lib10', 'lib9']
PC_VREQS = ['>=1.0', '<3', '!=2.1', '==2', '=2.0', '>1', '<=9', '1.5', '>= 1.0']
PC_LIBS = ['-lz', '-la', '-L/opt/z', '-L/opt/a', '-pthread', '-framework', 'CoreAudio', 'CoreMedia', '-Wl,-z,now', 'zlib', '-lz']


def gen_pcreqs(rng):
    pub = [rng.choice(PC_NAMES) for _ in range(rng.randint(0, 4))]
    priv = [rng.choice(PC_NAMES) for _ in range(rng.randint(0, 3))]
    vr = []
    for _ in range(rng.randint(0, 5)):
        vs = rng.sample(PC_VREQS, rng.randint(0, 4))
        n = rng.choice(PC_NAMES)
        vr.append(n + SEP1 + J(vs) if vs else n)
    return ('pcreqs', [J(pub), J(priv)] + vr)


def gen_pcdedup(rng):
    pick = lambda pool, k: [rng.choice(pool) for _ in range(rng.randint(0, k))]
    return ('pcdedup', [J(rng.sample(PC_NAMES + PC_LIBS[:4], rng.randint(0, 3))), J(pick(PC_NAMES, 5)), J(pick(PC_LIBS, 7)),
                        J(pick(PC_NAMES, 4)), J(pick(PC_LIBS, 6)), J(pick(['-DZ', '-DA', '-I/z', '-pthread'], 5)),
                        J(pick(['-DZ', '-DP', '-I/z'], 4))])


def gen_base(rng, table):
    order = gen_set(rng, rng.randint(0, 7), table)
    pre = gen_set(rng, rng.choice([0, 0, 1, 3]), table)
    sub = rng.choice(['', '', 'sub', 'zsub'])
    return ('base', [J(table), sub, J(order), J(pre)])


FS_PATHS = ['out.h', 'out.h~', 'b.ninja', 'b.ninja~', 'x']
FS_DATA = ['', 'A', 'B', 'AB']


def fs_ops_alphabet(small=False):
    paths = FS_PATHS[:3] if small else FS_PATHS
    data = FS_DATA[:3]
    ops = []
    for p in paths:
        for d in data[:2] if small else data:
            ops.append(SEP1.join(['w', p, d]) if d else SEP1.join(['w', p]))
    for d in data:
        ops.append(SEP1.join(['c', 'out.h', d]) if d else SEP1.join(['c', 'out.h']))
    ops.append(SEP1.join(['r', 'out.h', 'out.h~']))
    ops.append(SEP1.join(['r', 'out.h', 'x']))
    for d in data[1:]:
        ops.append(SEP1.join(['n', 'b.ninja', d]))
    ops.append(SEP1.join(['u', 'out.h~']))
    ops.append(SEP1.join(['m', 'x', 'out.h']))
    return ops


def gen_fs(rng):
    ops = []
    alpha = fs_ops_alphabet()
    for _ in range(rng.randint(1, 9)):
        if rng.random() < 0.15:
            kinds = rng.sample(['a', 'b', 'c'], rng.randint(1, 3))
            items = []
            for k in kinds:
                items += ['d/intro-%s.json' % k, str(rng.randrange(1, 50))]
            ops.append(SEP1.join(['i', 'd', J(items)]))
        elif rng.random() < 0.3:
            p = rng.choice(['gen/config.h', 'out.h', 'sub dir/é.txt'])
            ops.append(SEP1.join(['c', p, rng.choice(['#define A\n', '#define B 1\n', 'x'])]))
        else:
            ops.append(rng.choice(alpha))
    return ('fs', ops)


def inprocess_cases(ctx, table):
    rng, thorough = ctx.rng, ctx.tier == 'thorough'
    cases = []
    # corpus first
    corpus = [
        ('nline', ['phony', 'all', '', 'a', J(['z', 'a', 'm']), J(['y', 'b'])]),
        ('nline', ['phony', 'o', '', '', J(['b', 'B', 'a b', 'a']), '']),
        ('nline', ['CUSTOM_COMMAND', J(['o 1', 'o:2']), 'imp', J(['i$n']), J(['lib10.so', 'lib9.so', 'lib1.so']), J(['x\\y'])]),
        ('nline', ['phony', 'o', '', 'i', J(['ok', 'new\nline']), '']),
        ('sorted', ['b', 'B', 'a', 'a b', 'ab', '', 'é', 'a']),
        ('uniq', ['b', 'a', 'b', 'c', 'a']),
        ('oset', ['ab', 'aa', 'ab', 'da', 'aa', 'u' + J(['c', 'b', 'd']), 'x' + J(['d', 'zz']), 'f' + J(['b']), 'mc', 'mb', 'p']),
        ('oset', ['mzz']), ('oset', ['p']),
        ('envhash', ['ZED', '1', 'ALPHA', 'x y', 'Mid', '']),
        ('base', [J(table), '', J(['b_pch', 'b_lto', 'b_ndebug', 'b_asneeded']), '']),
        ('base', [J(table), 'sub', J(['b_staticpic', 'b_pie', 'b_colorout']), J(['b_pie'])]),
        ('depfile', ['out', 'out' + SEP1 + J(['b', 'a']), 'a' + SEP1 + J(['z', 'c']), 'b' + SEP1 + J(['c', 'out']), 'c' + SEP1 + 'c', 'q' + SEP1 + 'r']),
        ('pcreqs', [J(['zlib', 'abar', 'zlib']), J(['Mid']), 'zlib' + SEP1 + J(['>=1.0', '<3', '!=2.1']), 'Mid' + SEP1 + '1.5', 'zlib' + SEP1 + J(['<3', '==2']), 'abar']),
        ('pcdedup', [J(['abar']), J(['zlib', 'abar', 'zlib', 'Mid']), J(['-lz', '-framework', 'CoreAudio', '-framework', 'CoreMedia', '-lz', '-pthread', 'zlib']),
                     J(['Mid', 'lib9', 'zlib']), J(['-pthread', '-lz', '-la', '-framework']), J(['-DZ', '-DZ', '-I/z']), J(['-DZ', '-DP'])]),
        ('depfile', ['missing', 'out' + SEP1 + 'a']), ('depfile', ['out', J(['out', 'o2']) + SEP1 + J(['a', 'a']), 'out' + SEP1 + 'b', 'o2']),
        ('fs', [SEP1.join(['c', 'out.h', 'A']), SEP1.join(['c', 'out.h', 'A']), SEP1.join(['c', 'out.h', 'B'])]),
        ('fs', [SEP1.join(['n', 'b.ninja', 'A']), SEP1.join(['n', 'b.ninja', 'A'])]),
        ('fs', [SEP1.join(['r', 'out.h', 'out.h~'])]),
        ('fs', [SEP1.join(['w', 'out.h~', 'A']), SEP1.join(['r', 'out.h', 'out.h~']), SEP1.join(['w', 'x', 'A']), SEP1.join(['r', 'out.h', 'x'])]),
        ('fs', [SEP1.join(['i', 'd', J(['d/intro-a.json', '1', 'd/intro-b.json', '2'])]), SEP1.join(['i', 'd', J(['d/intro-a.json', '1'])])]),
    ]
    cases += corpus
    n = 6000 if thorough else 1200
    for _ in range(n):
        k = rng.random()
        if k < 0.25:
            cases.append(gen_nline(rng, nl=rng.random() < 0.05))
        elif k < 0.33:
            cases.append(('sorted', gen_set(rng, rng.randint(0, 8)) + gen_set(rng, rng.randint(0, 2))))
        elif k < 0.4:
            cases.append(('uniq', [rng.choice(NAMES[:6]) for _ in range(rng.randint(0, 9))]))
        elif k < 0.55:
            cases.append(gen_oset(rng))
        elif k < 0.65:
            cases.append(gen_envhash(rng))
        elif k < 0.69:
            cases.append(gen_depfile(rng))
        elif k < 0.75:
            cases.append(gen_pcreqs(rng) if rng.random() < 0.5 else gen_pcdedup(rng))
        elif k < 0.8:
            cases.append(gen_base(rng, table))
        else:
            cases.append(gen_fs(rng))
    # exhaustive: every permutation of small dependency sets; every permutation of small base-option sets
    kmax = 5 if thorough else 4
    for s in (['z', 'a', 'm', 'B', 'a b'][:kmax], ['lib10.so', 'lib9.so', 'lib1.so', 'x:y'][:kmax]):
        for r in range(len(s) + 1):
            for perm in itertools.permutations(s, r):
                cases.append(('nline', ['phony', 'o', '', 'i', J(perm), J(perm[::-1])]))
    bs = ['b_pch', 'b_lto', 'b_ndebug', 'b_asneeded', 'b_pie'][:kmax]
    for r in range(len(bs) + 1):
        for perm in itertools.permutations(bs, r):
            for sub, pre in (('', ''), ('sp', 'b_lto')):
                cases.append(('base', [J(table), sub, J(perm), pre]))
    # exhaustive: every graph on 3 nodes (each node's deps any subset incl. self loops and cycles), every start node
    nodes = ['a', 'b', 'c']
    subsets = [[x for i, x in enumerate(nodes) if m >> i & 1] for m in range(8)]
    for sa in subsets:
        for sb in subsets:
            for sc in subsets:
                rules = [t + SEP1 + J(d) if d else t for t, d in zip(nodes, (sa, sb, sc))]
                cases.append(('depfile', [nodes[(len(sa) + len(sb)) % 3]] + rules))
    # exhaustive: every file-system program of length <= 3 (4) over a small op alphabet
    alpha = fs_ops_alphabet(small=True)
    depth = 4 if thorough else 3
    nfs = 0
    for L in range(1, depth + 1):
        for prog in itertools.product(alpha, repeat=L):
            if L == depth and not thorough and rng.random() > 0.35:
                continue
            cases.append(('fs', list(prog)))
            nfs += 1
    ctx.extra['exhaustive'] = True
    ctx.extra['exhaustive_detail'] = ('all permutations of dependency sets and base-option sets of size <= %d; '
                                      'all file-system programs of length <= %d over %d operations (length %d %s)'
                                      % (kmax, depth, len(alpha), depth, 'complete' if thorough else 'sampled 35%'))
    ctx.extra['fs_programs'] = nfs
    return cases, len(corpus)


def model_only_cases(ctx, table):
    """entry points whose implementation side is observed at the command line only"""
    rng = ctx.rng
    cases = []
    for _ in range(150):
        cases.append(('tdep', [rng.choice(NAMES[:6]) for _ in range(rng.randint(0, 6))]))
        deps = [rng.choice(['', 'Nthreads', 'Nzlib', '']) for _ in range(rng.randint(0, 4))]
        cases.append(('depnames', deps + [MARK] + [str(rng.randrange(10 ** 6)) for _ in range(rng.randint(0, 4))]))
        b = gen_base(rng, table)
        cases.append(('base_asfound', b[1]))
    return cases


def oracle_groups(ctx, table):
    rng, thorough = ctx.rng, ctx.tier == 'thorough'
    groups = []
    for _ in range(120 if thorough else 40):
        s = gen_set(rng, rng.randint(2, 7))
        orders = [s] + [rng.sample(s, len(s)) for _ in range(3)]
        groups.append({'kind': 'ninja', 'rule': 'phony', 'outs': ['o'], 'ins': ['i'], 'orders': orders})
    for _ in range(120 if thorough else 40):
        s = gen_set(rng, rng.randint(2, 9), table)
        orders = [s] + [rng.sample(s, len(s)) for _ in range(3)]
        groups.append({'kind': 'base', 'sub': rng.choice(['', 'sub']), 'pre': gen_set(rng, rng.choice([0, 1]), table), 'orders': orders})
    for _ in range(40):
        ks = gen_set(rng, rng.randint(2, 5), ['ZED', 'ALPHA', 'Mid', 'PATH', 'A', 'a'])
        kv = [[k, rng.choice(['1', 'x y', ''])] for k in ks]
        groups.append({'kind': 'envhash', 'orders': [kv] + [rng.sample(kv, len(kv)) for _ in range(3)]})
    # pkg-config Requires lines: the same version requirements added in shuffled order
    for _ in range(40 if thorough else 20):
        c = gen_pcreqs(rng)
        pub, priv, vr = c[1][0], c[1][1], c[1][2:]
        def shufv(es):
            out = []
            for e in rng.sample(es, len(es)):
                f = e.split(SEP1)
                v = f[1].split(SEP2) if len(f) > 1 else []
                out.append(f[0] + SEP1 + J(rng.sample(v, len(v))) if v else f[0])
            return out
        groups.append({'kind': 'pcreqs', 'pub': pub.split(SEP2) if pub else [], 'priv': priv.split(SEP2) if priv else [],
                       'orders': [vr] + [shufv(vr) for _ in range(3)]})
    # depfiles: same rules, rule order and deps order shuffled
    for _ in range(60 if thorough else 25):
        c = gen_depfile(rng)
        rules = c[1][1:]
        def shuf(rs):
            out = []
            for r in rng.sample(rs, len(rs)):
                f = r.split(SEP1)
                d = f[1].split(SEP2) if len(f) > 1 else []
                out.append(f[0] + SEP1 + J(rng.sample(d, len(d))) if d else f[0])
            return out
        groups.append({'kind': 'depfile', 'name': c[1][0], 'orders': [rules] + [shuf(rules) for _ in range(3)]})
    # exe-wrapper digest naming (backends.py as_meson_exe_cmdline) on environment objects built by
    # every method; the operations on DIFFERENT variables commute, so every order is the same object
    for _ in range(60 if thorough else 30):
        names = rng.sample(['ZED', 'ALPHA', 'Mid', 'PATH', 'A10', 'A9', 'a_b', 'LANG', 'TMPX'], rng.randint(3, 8))
        k = rng.randint(1, len(names) - 1)
        ops = [[rng.choice(['set', 'append', 'prepend']), n, rng.sample(['v1', 'x y', '/opt/z', ''], rng.randint(1, 2)), rng.choice([':', ',', ' '])]
               for n in names[:k]] + [['unset', n] for n in names[k:]]
        groups.append({'kind': 'exedigest', 'cmd': ['prog', 'a b', 'c'], 'capture': rng.choice([None, 'out.txt']),
                       'feed': rng.choice([None, 'in.txt']), 'orders': [ops] + [rng.sample(ops, len(ops)) for _ in range(3)]})
    for _ in range(40):
        seq = [rng.choice(NAMES) for _ in range(rng.randint(2, 9))]
        groups.append({'kind': 'uniq', 'seq': seq, 'orders': [seq]})
    for _ in range(40):
        base = gen_set(rng, rng.randint(2, 7))
        s = gen_set(rng, rng.randint(1, 5))
        groups.append({'kind': 'oset_diff', 'base': base, 'orders': [s] + [rng.sample(s, len(s)) for _ in range(3)]})
    return groups


def oracle_replace_cases(ctx):
    rng = ctx.rng
    cases = []
    texts = ['', 'a\n', 'b\n', 'a\nb\n', '#define X 1\n', 'é\n', 'a\r\n']
    for a in texts:
        for b in texts:
            cases.append({'kind': 'rid', 'first': a, 'second': b})
    cds = [[['A', 1]], [['A', 2]], [['B', 'x'], ['A', True]], [['A', True], ['B', 'x']], [], [['Z', False], ['Y', '"q"']]]
    for a in cds:
        for b in cds:
            cases.append({'kind': 'header', 'first': a, 'second': b, 'format': rng.choice(['c', 'nasm', 'json'])})
            cases.append({'kind': 'conf', 'first': a, 'second': b, 'template': '#mesondefine A\n@B@ text\n#mesondefine Z\n'})
    return cases


# ====================================================================== command-line stream
def variants_for(ctx, idx):
    """fresh variants (compared with the baseline: PYTHONHASHSEED=0, sorted environment, real
    directory order) and history variants for the idx-th project."""
    thorough = ctx.tier == 'thorough'
    rs = 4 + ctx.rng.randrange(10 ** 6)
    if thorough:
        fresh = [{'id': 'seed1', 'kind': 'hashseed', 'seed': 1}, {'id': 'seed2', 'kind': 'hashseed', 'seed': 2},
                 {'id': 'seed3', 'kind': 'hashseed', 'seed': 3}, {'id': 'seed%d' % rs, 'kind': 'hashseed', 'seed': rs},
                 {'id': 'env1', 'kind': 'environ', 'seed': 0, 'envperm': 1 + idx}, {'id': 'ls1', 'kind': 'readdir', 'seed': 0, 'shuffle': str(1 + idx)},
                 {'id': 'lsrev', 'kind': 'readdir', 'seed': 0, 'shuffle': 'rev'}]
        if idx % 4 == 0:
            fresh.append({'id': 'same', 'kind': 'rerun', 'seed': 0})
        hist = [['alt', 'seed'], ['wipe', 'src'], ['seed', 'src'], ['alt', 'wipe']][idx % 4]
    else:
        fresh = [{'id': 'seed%d' % (1 + idx % 3), 'kind': 'hashseed', 'seed': 1 + idx % 3},
                 {'id': 'env1', 'kind': 'environ', 'seed': 0, 'envperm': 1 + idx},
                 {'id': 'ls', 'kind': 'readdir', 'seed': 0, 'shuffle': ['rev', str(1 + idx)][idx % 2]}]
        hist = [['seed', 'alt', 'src', 'wipe'][idx % 4]]
    return fresh, hist


HIST_SKIP = ('cmdline', 'intro-meta')
HIST_APPEND = ("\nconfigure_file(output: 'hist_extra.h', configuration: {'HIST': 1})\n"
               "run_target('hist_extra_rt', command: ['true'])\n")


def first_diff(a, b):
    n = min(len(a), len(b))
    i = next((k for k in range(n) if a[k] != b[k]), n)
    lo = max(0, i - 60)
    return {'offset': i, 'a': a[lo:i + 60].decode('utf-8', 'replace'), 'b': b[lo:i + 60].decode('utf-8', 'replace')}


def file_kind(rel, cls):
    return os.path.basename(rel) if cls in ('ninja', 'intro', 'intro-meta') else cls


def compare(found, clause_variant, base, snap, skip=(), only_base_files=False):
    for rel in sorted(set(base) | set(snap)):
        fa, fb = base.get(rel), snap.get(rel)
        cls = (fa or fb)['cls']
        if cls in skip:
            continue
        if cls == 'tempfile':
            if fb is not None:
                found.append({'clause': 'tempfile-left', 'variant': clause_variant, 'file': rel, 'cls': cls,
                              'detail': 'temporary file left in the build directory'})
            continue
        if fa is None or fb is None:
            if only_base_files and fa is None:
                continue
            found.append({'clause': 'presence', 'variant': clause_variant, 'file': rel, 'cls': cls,
                          'detail': 'present only in %s' % ('baseline' if fb is None else 'variant')})
        elif fa['data'] != fb['data']:
            d = first_diff(fa['data'], fb['data'])
            anon = cls == 'intro' and ANON_RE.sub(b'"dep<anon>"', fa['data']) == ANON_RE.sub(b'"dep<anon>"', fb['data'])
            found.append({'clause': 'content', 'variant': clause_variant, 'file': rel, 'cls': cls, 'detail': d, 'anon_uuid_only': anon})


def run_project(job):
    """Configure one project under the baseline and every variant, in the same absolute build
    path, one after another.  Returns counts and the list of property failures."""
    p, root, fresh, hist, pidx = job
    src = os.path.join(root, 'src')
    # layout: build directory next to the source directory, or nested inside it (`meson setup build`)
    b = os.path.join(src, 'build') if p.get('layout') == 'nested' else os.path.join(root, 'b')
    shutil.rmtree(root, ignore_errors=True)
    G.write_tree(src, p['files'])
    found, stats = [], {'runs': 0, 'files': 0, 'invalid': False, 'name': p['name'], 'seconds': 0.0, 'facts': {}}
    t0 = time.time()
    base_v = {'id': 'base', 'kind': 'baseline', 'seed': 0}

    def setup(v, extra=(), wipe=True):
        if wipe:
            shutil.rmtree(b, ignore_errors=True)
        r = G.meson(['setup'] + p['opts'] + list(extra) + [b, src], G.variant_env(v, pidx), root)
        stats['runs'] += 1
        return r

    def reconf(v, extra=()):
        r = G.meson(['setup', '--reconfigure'] + list(extra) + [b, src], G.variant_env(v, pidx), root)
        stats['runs'] += 1
        return r

    r = setup(base_v)
    if r.returncode != 0:
        stats['invalid'] = True
        stats['why'] = (r.stdout + r.stderr)[-600:]
        shutil.rmtree(root, ignore_errors=True)
        return stats, found
    base = G.snapshot(b)
    stats['files'] = len(base)
    stats['classes'] = sorted({f['cls'] for f in base.values()})
    # facts for the command-line level model tie
    try:
        bo = json.loads(base['meson-info/intro-buildoptions.json']['data'])
        stats['facts']['base_section'] = [o['name'] for o in bo if o['section'] == 'base']
        tg = json.loads(base['meson-info/intro-targets.json']['data'])
        id2name = {t['id']: t['name'] for t in tg}
        ts = json.loads(base['meson-info/intro-tests.json']['data'])
        stats['facts']['test_depends'] = {t['name']: [id2name.get(d, d) for d in t['depends']] for t in ts}
    except Exception as e:       # not a property failure: facts simply unavailable
        stats['facts']['error'] = repr(e)

    def failed(tag, r):
        found.append({'clause': 'configure-failed', 'variant': tag, 'file': '', 'cls': 'run',
                      'detail': (r.stdout + r.stderr)[-800:]})

    # --- no-change reconfigure: content identical, replace_if_different outputs untouched
    time.sleep(0.03)
    r = reconf(base_v)
    if r.returncode != 0:
        failed('reconfigure', r)
    else:
        s2 = G.snapshot(b)
        compare(found, {'id': 'reconfigure', 'kind': 'reconfigure'}, base, s2, skip=HIST_SKIP)
        for rel, fa in base.items():
            fb = s2.get(rel)
            if fb and fa['cls'] in G.MTIME_CLASSES and fa['data'] == fb['data'] and fa['mtime'] != fb['mtime']:
                found.append({'clause': 'touched', 'variant': {'id': 'reconfigure', 'kind': 'reconfigure'}, 'file': rel, 'cls': fa['cls'],
                              'detail': 'content unchanged, mtime %d -> %d' % (fa['mtime'], fb['mtime'])})
        stats['mtime_checked'] = sum(1 for f in base.values() if f['cls'] in G.MTIME_CLASSES)
    # --- fresh variants
    for v in fresh:
        r = setup(v)
        if r.returncode != 0:
            failed(v, r)
            continue
        compare(found, v, base, G.snapshot(b))
    # --- histories
    for h in hist:
        tag = {'id': 'hist-' + h, 'kind': 'history'}
        if h == 'alt':
            n, other, orig = p['alt_opt']
            tag['steps'] = ['setup -D%s=%s' % (n, other), 'setup --reconfigure -D%s=%s' % (n, orig)]
            r = setup(base_v, ['-D%s=%s' % (n, other)])
            r = reconf(base_v, ['-D%s=%s' % (n, orig)]) if r.returncode == 0 else r
        elif h == 'seed':
            tag['steps'] = ['PYTHONHASHSEED=2 setup', 'PYTHONHASHSEED=0 setup --reconfigure']
            r = setup({'id': 's2', 'seed': 2})
            r = reconf(base_v) if r.returncode == 0 else r
        elif h == 'wipe':
            tag['steps'] = ['PYTHONHASHSEED=3 setup', 'PYTHONHASHSEED=0 setup --wipe']
            r = setup({'id': 's3', 'seed': 3})
            if r.returncode == 0:
                r = G.meson(['setup', '--wipe', b, src], G.variant_env(base_v, pidx), root)
                stats['runs'] += 1
        else:
            tag['steps'] = ['setup of meson.build + two extra statements', 'original meson.build restored', 'setup --reconfigure']
            mb = os.path.join(src, 'meson.build')
            with open(mb, 'a', encoding='utf-8') as f:
                f.write(HIST_APPEND)
            r = setup(base_v)
            with open(mb, 'w', encoding='utf-8') as f:
                f.write(p['files']['meson.build'])
            r = reconf(base_v) if r.returncode == 0 else r
        if r.returncode != 0:
            failed(tag, r)
            continue
        compare(found, tag, base, G.snapshot(b), skip=HIST_SKIP, only_base_files=True)
    stats['seconds'] = round(time.time() - t0, 1)
    shutil.rmtree(root, ignore_errors=True)
    return stats, found


def ident_of(f):
    if f['clause'] == 'content' and f.get('anon_uuid_only'):
        return 'C06:content:%s:anonymous-dependency-uuid-name' % os.path.basename(f['file'])
    if f['clause'] == 'content':
        return 'C06:content:%s' % file_kind(f['file'], f['cls'])
    if f['clause'] == 'touched':
        return 'C06:touched:%s' % f['cls']
    if f['clause'] == 'configure-failed':
        return 'C06:configure-failed:%s' % (f['variant'].get('kind') if isinstance(f['variant'], dict) else f['variant'])
    return 'C06:%s:%s' % (f['clause'], file_kind(f['file'], f['cls']))


def describe(f, p):
    return _describe(f, p) + (' [build directory nested inside the source directory]' if p.get('layout') == 'nested' else '')


def _describe(f, p):
    v = f['variant']
    vs = json.dumps(v) if isinstance(v, dict) else str(v)
    if f['clause'] == 'content':
        return ('project %s: %s differs between the baseline (PYTHONHASHSEED=0) and variant %s at byte %d: %r vs %r'
                % (p['name'], f['file'], vs, f['detail']['offset'], f['detail']['a'][-70:], f['detail']['b'][-70:]))
    return 'project %s: %s: %s (%s; variant %s)' % (p['name'], f['clause'], f['file'], f['detail'] if isinstance(f['detail'], str) else '', vs)


def cli_stream(ctx, projects):
    scratch = ctx.mkscratch()
    jobs = []
    for i, p in enumerate(projects):
        fresh, hist = variants_for(ctx, i)
        p.setdefault('layout', 'nested' if i % 2 == 1 else 'sibling')
        jobs.append((p, os.path.join(scratch, 'cli', 'p%03d' % i), fresh, hist, i))
    # C projects first (they take longest)
    order = sorted(range(len(jobs)), key=lambda i: (not jobs[i][0]['c'], i))
    results = dict(zip(order, pmap(run_project, [jobs[i] for i in order])))
    return jobs, [results[i] for i in range(len(jobs))]


# ====================================================================== replay
def replay(ctx):
    rec = json.load(open(ctx.replay))
    r = rec['replay']
    print('replaying', rec.get('id'))
    if 'project' in r:
        p = r['project']
        root = os.path.join(ctx.mkscratch(), 'replay')
        fresh = [r['variant']] if r['variant'].get('kind') in ('hashseed', 'environ', 'readdir', 'rerun') else []
        hist = [r['variant']['id'][5:]] if r['variant'].get('kind') == 'history' else []
        stats, found = run_project((p, root, fresh, hist, r.get('pidx', 0)))
        print('runs: %d; property failures on the implementation now: %d' % (stats['runs'], len(found)))
        for f in found[:10]:
            print(' ', ident_of(f), '|', describe(f, p))
    if 'oracle_sets' in r:
        outs = {}
        for seed in r.get('seeds', ['0', '1']):
            outs[seed] = run_impl('c06.py', {'oracle_sets': [r['oracle_sets']]}, env={'PYTHONHASHSEED': str(seed)})['oracle_sets']
            print('PYTHONHASHSEED=%s ->' % seed, json.dumps(outs[seed]['answers']), 'insertion-order failures:', len(outs[seed]['fails']))
    if 'oracle_replace' in r:
        print('implementation:', json.dumps(run_impl('c06.py', {'oracle_replace': [r['oracle_replace']]})['oracle_replace'], indent=1))
    if 'case' in r:
        res = run_impl('c06.py', {'cases': [r['case']]})
        print('implementation:', repr(res['results'][0]))
        if ctx.build('Props/C06.v', 'Determ/Extract.v', 'C06'):
            print('model         :', repr(ctx.run_model([tuple(r['case'])])[0]))
    ctx.cleanup()
    return 0


# ====================================================================== main
def run(ctx):
    if ctx.replay:
        return replay(ctx)
    rng, thorough = ctx.rng, ctx.tier == 'thorough'
    built = ctx.build('Props/C06.v', 'Determ/Extract.v', 'C06')

    # ---------------- in-process correspondence: real writers vs extracted model
    table = run_impl('c06.py', {'table': 1})['table']
    cases, ncorpus = inprocess_cases(ctx, table)
    impl = run_impl('c06.py', {'cases': cases})['results']
    model = ctx.run_model(cases) if built else impl
    kinds = {}
    for (fn, args), ri, rm in zip(cases, impl, model):
        ctx.count((fn, tuple(args)))
        kinds[fn] = kinds.get(fn, 0) + 1
        if ri.startswith('EXC:'):
            kinds['EXC'] = kinds.get('EXC', 0) + 1
        if ri != rm and len(ctx.disagreements) < 200:
            ctx.disagreements.append({'case': [fn, args], 'implementation': ri, 'model': rm})
    ctx.cov['traces_validated_against_impl'] = len(cases)
    for s in cases[:2] + cases[ncorpus + 3:ncorpus + 6]:
        ctx.sample({'fn': s[0], 'args': s[1]})
    if built:
        extra = model_only_cases(ctx, table)
        kc = cases + extra
        ctx.kernel_crosscheck('Determ.Entry', kc, model + ctx.run_model(extra), limit=300)

    # ---------------- failing-input search around model/implementation disagreements: the same case under
    # other hash seeds must give the same answer (a disagreement that is a nondeterminism becomes a concrete replay)
    if ctx.disagreements:
        dlist = [d for d in ctx.disagreements[:60] if isinstance(d['case'][1], list)]
        dcases = [d['case'] for d in dlist]
        alt = pmap(lambda sd: run_impl('c06.py', {'cases': dcases}, env={'PYTHONHASHSEED': sd})['results'], ['1', '2', '3'])
        for i, dc in enumerate(dcases):
            outs = [dlist[i]['implementation']] + [a[i] for a in alt]
            if len(set(outs)) > 1:
                ctx.violation('C06:seed-dependent:%s' % dc[0],
                              'in-process writer %s gives different answers for the same arguments under PYTHONHASHSEED 0/1/2/3: %r'
                              % (dc[0], outs), {'case': dc, 'answers_by_seed': outs})
                break
    # ---------------- in-process oracle 1: real Python sets, several insertion orders, four hash seeds
    groups = oracle_groups(ctx, table)
    seeds = ['0', '1', '2', '3'] + ([str(rng.randrange(4, 10 ** 6))] if thorough else [])
    per_seed = pmap(lambda s: run_impl('c06.py', {'oracle_sets': groups}, env={'PYTHONHASHSEED': s})['oracle_sets'], seeds)
    ctx.extra['oracle_set_groups'] = len(groups)
    ctx.extra['oracle_hash_seeds'] = seeds
    for res in per_seed:
        for f in res['fails']:
            ctx.violation('C06:set-order:%s' % f['kind'].split(':')[0],
                          'writer %s gives different bytes for two insertion orders of the same set: %r vs %r (orders %r / %r)'
                          % (f['kind'], f['output_a'], f['output_b'], f['order_a'], f['order_b']),
                          {'oracle_sets': dict(f['group'], orders=[f['order_a'], f['order_b']]), 'seeds': ['0']})
    for gi, g in enumerate(groups):
        ans = [res['answers'][gi] for res in per_seed]
        ctx.count(('oracle', gi))
        for s, a in zip(seeds, ans):
            if a != ans[0]:
                ctx.violation('C06:set-order:%s' % g['kind'],
                              'writer %s fed the same Python set gives different bytes under PYTHONHASHSEED=%s and %s: %r vs %r'
                              % (g['kind'], seeds[0], s, ans[0], a),
                              {'oracle_sets': dict(g, orders=g['orders'][:1]), 'seeds': [seeds[0], s]})
                break
    # ---------------- in-process oracle 2: replace_if_different and its callers on a real directory
    rc = oracle_replace_cases(ctx)
    for f in run_impl('c06.py', {'oracle_replace': rc})['oracle_replace']:
        ctx.violation('C06:%s' % f['kind'], 'replace clause fails on the implementation: %s (%s)' % (f['why'], json.dumps(f['case'])),
                      {'oracle_replace': f['case']})
    for i in range(len(rc)):
        ctx.count(('replace', i))
    ctx.extra['oracle_replace_cases'] = len(rc)

    # ---------------- command-line stream
    nproj = int(os.environ.get('C06_PROJECTS', '0')) or (600 if thorough else 28)
    projects = G.corpus(rng)
    k = 0
    while len(projects) < nproj:
        projects.append(G.make_project(rng, 'gen%03d' % k))
        k += 1
    projects = projects[:max(nproj, 1)]
    cov = run_impl('c06.py', {'coverage': [t for q in projects for f, t in q['files'].items()
                                           if f.endswith('meson.build')]})['coverage']
    ctx.extra['cli_function_kwargs_covered'] = cov['used']
    ctx.extra['cli_functions_not_exercised'] = [f for f in cov['interpreter_functions'] if f not in cov['used']]
    t = time.time()
    jobs, results = cli_stream(ctx, projects)
    ctx.extra['cli_wall_s'] = round(time.time() - t, 1)
    runs = invalid = compared = mt = 0
    classes, feats = {}, {}
    tie_cases, tie_expect = [], []
    for (p, root, fresh, hist, pidx), (stats, found) in zip(jobs, results):
        runs += stats['runs']
        if stats['invalid']:
            invalid += 1
            ctx.extra.setdefault('invalid_projects', []).append({'name': p['name'], 'why': stats.get('why', '')[-300:]})
            continue
        nvar = 1 + len(fresh) + len(hist)
        compared += stats['files'] * nvar
        mt += stats.get('mtime_checked', 0)
        for c in stats.get('classes', []):
            classes[c] = classes.get(c, 0) + 1
        for fn in p['features']:
            feats[fn] = feats.get(fn, 0) + 1
        for v in [{'id': 'reconfigure'}] + fresh + [{'id': 'hist-' + h} for h in hist]:
            ctx.count((p['name'], v['id']))
        for f in found:
            ctx.violation(ident_of(f), describe(f, p),
                          {'project': p, 'variant': f['variant'] if isinstance(f['variant'], dict) else {'id': str(f['variant'])},
                           'pidx': pidx, 'file': f['file'], 'detail': f['detail'],
                           'how': 'write the files of `project` to <dir>/src, then run `meson setup` with the baseline '
                                  'environment (PYTHONHASHSEED=0) and with the variant, both into the same build directory '
                                  '(<dir>/b for layout sibling, <dir>/src/build for layout nested), and compare the file',
                           'layout': p.get('layout')})
        # command-line level tie to the model: order of the base section and of tests' depends
        facts = stats['facts']
        if facts.get('base_section'):
            tie_cases.append(('sorted', facts['base_section']))
            tie_expect.append(('base section of intro-buildoptions.json', p['name'], SEP2.join(facts['base_section'])))
        for tname, inserted in p.get('expect_test_depends', {}).items():
            got = facts.get('test_depends', {}).get(tname)
            if got is not None:
                tie_cases.append(('tdep', inserted))
                tie_expect.append(('depends of test %s in intro-tests.json' % tname, p['name'], SEP2.join(got)))
    if built and tie_cases:
        for (what, pname, got), m in zip(tie_expect, ctx.run_model(tie_cases)):
            ctx.count(('tie', what, pname))
            if got != m and len(ctx.disagreements) < 200:
                ctx.disagreements.append({'case': [what, pname], 'implementation': got.split(SEP2), 'model': m.split(SEP2)})
    ctx.cov['traces_validated_against_impl'] += compared + len(tie_cases)
    ctx.extra.update({'cli_nested_build_dir_projects': sum(1 for q in projects if q.get('layout') == 'nested'),
                      'cli_projects': len(projects), 'cli_invalid_projects': invalid, 'cli_meson_runs': runs,
                      'cli_file_comparisons': compared, 'cli_mtime_checked_files': mt, 'cli_model_ties': len(tie_cases),
                      'cli_projects_with_class': classes, 'cli_feature_use': feats,
                      'case_kinds': kinds,
                      'cli_variants': 'baseline PYTHONHASHSEED=0; per project: ' +
                                      ('hash seeds 1,2,3 and one random, permuted os.environ, two shuffled directory-listing orders, identical rerun (every 4th project), '
                                       'two histories out of alt-option/other-seed/wipe/changed-and-restored source (rotating)' if thorough else
                                       'one other hash seed (1..3 rotating), permuted os.environ, shuffled or reversed directory listing, '
                                       'one history (other-seed / alt-option / changed-and-restored source / wipe, rotating)') +
                                      '; always a no-change `setup --reconfigure` with mtime comparison'})
    if invalid > len(projects) // 5:
        raise HarnessError('%d of %d generated projects do not configure under the baseline: generator out of date' % (invalid, len(projects)))

    return ctx.finish(
        level='proof',
        trusted=['Coq 8.16.1 kernel (coqc, vm_compute; no native_compute)',
                 'extraction with ExtrOcamlBasic directives only + OCaml + extract/driver.ml (cross-checked in-kernel on a 300-case sample each run)',
                 'harness/check_C06.py, harness/c06gen.py (project generator, variant environments, file classification), harness/impl/c06.py, '
                 'tools/shuffle_site/sitecustomize.py (os.listdir/os.scandir shuffler), tools/fakeninja',
                 'model covers: replace_if_different and the temp-then-replace callers (configure_file family, build.ninja, intro files), '
                 'NinjaBuildElement.write build line, OrderedSet/unique_list, base-option registration -> intro-buildoptions base section, '
                 'EnvironmentVariables.hash pre-image, test depends order; every other writer of meson is covered by the command-line '
                 'differential runs only'],
        assumptions=['Print Assumptions: all property theorems closed under the global context (no axioms)',
                     'a Python set is modelled as its iteration order, an arbitrary permutation of its elements',
                     'mtime is modelled by a logical clock advanced by every completed write',
                     'files rewritten unconditionally by design (build.ninja, meson-info/*.json, *.pc, depmf.json) are compared by content only; '
                     'the mtime clause is evaluated on the outputs written through replace_if_different (configure_file outputs, cmake package files)'],
        rule='in-process: seeded generator + exhaustive small permutations/programs, real writer vs extracted model, compared as canonical strings; '
             'oracle: same set under 4 insertion orders x 4-5 hash seeds must give the same bytes; replace clauses on a real directory. '
             'command line: generated + corpus projects configured with the real `meson setup` under the variants listed in cli_variants, all into the '
             'same absolute build path, byte comparison of every generated text file, mtimes across a no-change reconfigure. '
             'distinct = distinct (function,arguments) tuples, oracle groups and (project,variant) pairs')
