"""C15 — introspection files describe the build that was actually generated.
Theorems: coq/Props/C15.v (the judge decides Spec.Agree; list_installed / list_install_plan name
exactly the installer's destinations and tags; get_test_list shows mtest's command/environment).
Model: coq/Intro/{Path,Model,Judge}.v.  Implementation: mesonbuild/mintro.py, backend/backends.py,
minstall.py, mtest.py, scripts/__init__.py — in-process for the pure derivations, the meson CLI
on generated projects for the relational claim itself (harness/c15_cli.py)."""
import itertools, json, os, shutil, time
from common import *
import c15_cli as C

S1, S2, S3, S4 = '\x01', '\x02', '\x03', '\x04'
enlist = lambda t, l: ''.join(x + t for x in l)
enc_opt = lambda o: 'N' if o is None else 'S' + o

SEGS = ['a', 'b', 'usr', 'share', 'x.y', '.', '..', '', 'lib64', '{prefix}', 'é', 'inc lude', '.hidden', 'c.d.e']


def gen_path(rng, rel=None):
    n = rng.choice([0, 1, 1, 2, 2, 3, 4])
    s = '/'.join(rng.choice(SEGS) for _ in range(n))
    if rel is None:
        rel = rng.random() < 0.5
    if not rel:
        s = rng.choice(['/', '/', '//', '///']) + s
    if rng.random() < 0.15:
        s += '/'
    return s


def exhaustive_strings(symbols, maxlen):
    out = ['']
    for n in range(1, maxlen + 1):
        for t in itertools.product(symbols, repeat=n):
            out.append(''.join(t))
    return out


TAGPOOL = [None, None, 'runtime', 'devel', 'tagx', '']
SUBPROJ = ['', '', '', 'sp', 'other']


def gen_entry(rng, kind, srcroot='/S', safe=False, uid=[0]):
    uid[0] += 1
    k = uid[0]
    tag = enc_opt(rng.choice(TAGPOOL if not safe else TAGPOOL[:5]))
    sp = rng.choice(SUBPROJ)
    D = (lambda: rng.choice(['share', 'share/x', 'lib', 'a//b', './c', 'd/', 'include'])) if safe else (lambda: gen_path(rng))
    if kind == 'T':
        fname = rng.choice(['', 'sub/', 'sub/deep/']) + 't%d%s' % (k, rng.choice(['', '.so', '.a', '.txt']))
        odn = rng.choice([None, None, '{bindir}', '{libdir_static}', '{prefix}/x', 'plain/dir'])
        return 'T' + S1.join([fname, D(), enc_opt(odn), sp, tag, 'T' if rng.random() < 0.3 else 'F'])
    if kind in 'HMD':
        base = {'H': 'h%d.h', 'M': 'm%d.1', 'D': 'd%d.txt'}[kind] % (k if rng.random() < 0.8 or safe else rng.randint(1, 3))
        path = srcroot + '/' + rng.choice(['', 'sub/']) + base
        ip = D() if kind == 'H' else (D().rstrip('/') + '/' if not safe else D().rstrip('/') + '/') + 'f%d' % k
        ipn = rng.choice(['{includedir}', '{datadir}/x', '{mandir}/man1/x.1', ip, 'custom'])
        dt = enc_opt(rng.choice([None, None, None, 'configure', 'python', '']) if kind == 'D' else None)
        return kind + S1.join([path, ip, ipn, sp, tag, dt, '', ''])
    if kind == 'S':
        path = srcroot + '/tree%d' % (k if rng.random() < 0.8 or safe else rng.randint(1, 2))
        ip = (D().rstrip('/') + '/' if True else '') + 'sd%d' % k
        return 'S' + S1.join([path, ip, rng.choice(['{prefix}/' + ip, '{datadir}/t', ip]), sp, tag, 'N',
                              enlist(S3, sorted(rng.sample(['sub/skip.txt', 'a.txt', 'zz'], rng.randint(0, 2)))),
                              enlist(S3, sorted(rng.sample(['skipdir', 'sub'], rng.randint(0, 1))))])
    if kind == 'L':
        idir = D()
        name = 'l%d' % k
        full = os.path.join(idir, name) if rng.random() < 0.9 or safe else gen_path(rng) + name
        return 'L' + S1.join([rng.choice(['tgt', '../x', '/abs/t']), full, idir, sp, tag])
    if kind == 'E':
        return 'E' + S1.join([(D().rstrip('/') + '/' if True else '') + 'e%d' % k, sp, tag])


def gen_install_data(rng, srcroot='/S', bld='/B', prefix=None, safe=False, lo=0):
    prefix = prefix if prefix is not None else rng.choice(['/usr', '/usr/local/', '/opt//pp', '/', '/p/./q'])
    hdr = S1.join([srcroot, bld, prefix])
    es = [gen_entry(rng, rng.choice('TTDDHMSLE'), srcroot, safe) for _ in range(rng.randint(lo, 7))]
    if es and not safe and rng.random() < 0.3:
        es.append(rng.choice(es))              # duplicate key
    return hdr, es


SYS_OPTS = [('werror', 'b'), ('strip', 'b'), ('debug', 'b'), ('b_lto', 'b'), ('backend_max_links', 'i'), ('b_lto_threads', 'i'),
            ('licensedir', 's'), ('optimization', 's'), ('force_fallback_for', 'a'), ('c_args', 'a')]
OPT_VALS = {'b': ['b:true', 'b:false'], 'i': ['i:0', 'i:3', 'i:7'], 's': ['s:', 's:x', 's:a b'], 'a': ['a:', 'a:x', 'a:x,y']}


def gen_store_cases(rng, with_yield):
    """An option store (system options, project options of the top project and of subprojects, yielding ones,
    per-subproject overrides incl. falsy values against truthy ones and the reverse) and, for EVERY (sub)project and EVERY
    option name, what the listing reports and what get_option() returns."""
    sps = ['', 'sp0', 'sp1'][:rng.randint(1, 3)]
    opts, augs, names = [], [], []
    for n, k in rng.sample(SYS_OPTS, rng.randint(2, len(SYS_OPTS))):
        opts.append(S1.join([n, 'N', rng.choice(OPT_VALS[k]), 'N']))
        names.append(n)
        for sp in sps[1:]:
            if rng.random() < 0.5:
                augs.append(S1.join([n, 'S' + sp, rng.choice(OPT_VALS[k])]))
    top = {}
    for j in range(rng.randint(0, 4)):
        k = rng.choice('bisa')
        n = 'o_%s%d' % (k, j)
        for sp in sps:
            if rng.random() < 0.6:
                parent = 'N'
                if sp and with_yield and top.get(n) == k and rng.random() < 0.5:
                    parent = 'S' + n + S4 + 'S'
                opts.append(S1.join([n, 'S' + sp, rng.choice(OPT_VALS[k]), parent]))
                if not sp:
                    top[n] = k
        names.append(n)
    names.append('nosuch')
    o, a = enlist(S2, opts), enlist(S2, augs)
    out = []
    for sp in sps:
        for n in names:
            out.append(('reported', [o, a, sp, n]))
            out.append(('getopt', [o, a, sp, n]))
    return out


def inprocess_cases(rng, thorough, scratch):
    cases = []
    # corpus (corner cases first)
    cases += [('join', ['/usr', 'a', '/b', 'c/', 'd']), ('join', ['', 'a']), ('join', ['a/', '']), ('join', ['/', '/']),
              ('basename', ['a/b/']), ('basename', ['']), ('comps', ['//a/./b//c/']), ('comps', ['///a']), ('comps', ['.']),
              ('destdir_join', ['/dd/', '/usr//x/.']), ('destdir_join', ['/dd', 'rel/x']), ('destdir_join', ['', 'x']),
              ('destdir_join', ['//dd', '//usr']), ('destdir_join', ['/dd', '/']), ('destdir_join', ['dd', '/usr']),
              ('gdp', ['/dd', '/usr', 'share/x']), ('gdp', ['/dd', '/usr', '/abs/x']), ('gdp', ['', '/usr', '/abs/x']),
              ('gdp', ['/dd', '/usr/', '']), ('replace', ['{mandir}', 'share/man', '{mandir}/man1/{mandir}']),
              ('replace', ['.fr', '', 'foo.fr.1']), ('rstrip', ['a/b//']), ('rstrip', ['///'])]
    n = 6000 if thorough else 1500
    for _ in range(n):
        c = rng.random()
        if c < 0.2:
            cases.append(('join', [gen_path(rng) for _ in range(rng.randint(1, 4))]))
        elif c < 0.3:
            cases.append(('basename', [gen_path(rng)]))
        elif c < 0.45:
            cases.append(('comps', [gen_path(rng)]))
        elif c < 0.65:
            cases.append(('destdir_join', [gen_path(rng, rel=rng.random() < 0.15), gen_path(rng, rel=rng.random() < 0.15)]))
        elif c < 0.9:
            cases.append(('gdp', [rng.choice(['', gen_path(rng, rel=False)]), gen_path(rng, rel=False), gen_path(rng)]))
        elif c < 0.95:
            cases.append(('replace', [rng.choice(['{mandir}', '.fr', 'a', 'ab']), rng.choice(['share/man', '', 'a', 'ba']),
                                      ''.join(rng.choice(['{mandir}', '.fr', 'a', 'b', '/', 'ab']) for _ in range(rng.randint(0, 6)))]))
        else:
            cases.append(('rstrip', [gen_path(rng)]))
    # small exhaustive enumeration of the path functions
    ex = exhaustive_strings(['/', 'a', '.'], 4 if thorough else 3)
    for a in ex:
        cases.append(('comps', [a]))
        cases.append(('basename', [a]))
    sub = ex if thorough else ex
    for a in sub:
        for b in sub:
            cases.append(('destdir_join', [a, b]))
            cases.append(('join', [a, b]))
    ex2 = exhaustive_strings(['/', 'a', '.'], 2)
    for a in ex2:
        for b in ex2:
            if b.startswith('/'):
                for c in ex2:
                    cases.append(('gdp', [a, b, c]))
    # InstallData -> installed / plan
    for _ in range(2500 if thorough else 500):
        hdr, es = gen_install_data(rng)
        cases.append(('installed', [hdr] + es))
        cases.append(('plan', [hdr] + es))
    # the installer on real files
    for i in range(600 if thorough else 120):
        base = os.path.join(scratch, 'inst', 'c%d' % i)
        src, bld, prefix = base + '/s', base + '/b', base + rng.choice(['/pfx', '/pfx/', '/p/./fx', '//pfx2'.replace('//', '/')])
        hdr, es = gen_install_data(rng, srcroot=src, bld=bld, prefix=prefix, safe=True, lo=1)
        # absolute install paths stay inside the case directory
        if es and rng.random() < 0.4:
            j = rng.randrange(len(es))
            f = es[j][1:].split(S1)
            if es[j][0] in 'DMS':
                f[1] = base + '/abs/' + f[1]
                es[j] = es[j][0] + S1.join(f)
            elif es[j][0] in 'TH':
                f[1] = base + '/abs/' + f[1]
                es[j] = es[j][0] + S1.join(f)
        destdir = rng.choice([None, None, base + '/dest', base + '/dest/', 'stage', 'stage/sub', ''])
        skip = rng.choice([[''], [''], [''], [''], [''], ['sp'], ['*'], ['other', 'sp']])
        tags = rng.choice([[], [], [], [], [], [], ['runtime'], ['devel', 'tagx'], ['runtime', 'devel', 'tagx'], ['nosuch']])
        missing = []
        for e in es:
            if e[0] == 'T' and rng.random() < 0.25:
                missing.append(e[1:].split(S1)[0])
        opts = S1.join([enc_opt(destdir), enlist(S3, skip), enlist(S3, tags), enlist(S3, missing)])
        cases.append(('install', [opts, hdr] + es))
    # generate_*_install
    for _ in range(1500 if thorough else 300):
        c = rng.random()
        O = lambda l: enc_opt(rng.choice(l))
        if c < 0.25:
            hs = [S1.join([O([None, None, 'cust', '/abs/inc', '']), O([None, 'sub', 'a/b', '/abs/sub', '']),
                           enlist(S3, ['/S/' + gen_path(rng, rel=True).strip('/') + '/h%d.h' % j for j in range(rng.randint(0, 2))]),
                           rng.choice(SUBPROJ), O(TAGPOOL)]) for _ in range(rng.randint(0, 3))]
            cases.append(('genhdr', [rng.choice(['include', 'inc/', '/abs/include', ''])] + hs))
        elif c < 0.5:
            ms = []
            for _ in range(rng.randint(0, 3)):
                loc = rng.choice([None, None, 'fr', 'de', ''])
                srcs = []
                for j in range(rng.randint(0, 2)):
                    fn = rng.choice(['', 'man/']) + 'p%d%s.%s' % (j, '.' + loc if loc and rng.random() < 0.8 else '', rng.choice(['1', '3', '8', 'x']))
                    srcs.append(fn + S4 + '/S/' + fn)
                ms.append(S1.join([enlist(S3, srcs), O([None, None, 'share/myman', '{mandir}/x', '/abs/man']), enc_opt(loc), rng.choice(SUBPROJ), O(TAGPOOL)]))
            cases.append(('genman', [rng.choice(['share/man', 'man/', '/abs/man', ''])] + ms))
        elif c < 0.7:
            ds = []
            for _ in range(rng.randint(0, 3)):
                nsrc = rng.randint(0, 3)
                ds.append(S1.join([gen_path(rng), rng.choice(['{datadir}/x', 'share/d', '{prefix}']),
                                   enlist(S3, ['/S/d%d' % j for j in range(nsrc)]),
                                   enlist(S3, [rng.choice(['r%d' % j, 'z/r%d' % j, '/abs/r']) for j in range(rng.choice([nsrc, nsrc, max(0, nsrc - 1)]))]),
                                   rng.choice(SUBPROJ), O(TAGPOOL), O([None, None, 'configure', ''])]))
            cases.append(('gendata', ds))
        elif c < 0.9:
            ss = []
            for _ in range(rng.randint(0, 3)):
                idir = gen_path(rng)
                ss.append(S1.join([rng.choice(['/S', '/B', '/S/']), gen_path(rng, rel=True), rng.choice(['tree', 'tree/', 'a/tree//', '', '.']),
                                   idir, rng.choice([idir, idir, '{datadir}/t']), rng.choice('TF'), rng.choice(SUBPROJ), O(TAGPOOL)]))
            cases.append(('gensubdir', [rng.choice(['/usr', '/usr/', '/'])] + ss))
        else:
            cases.append(('gensym', [S1.join([rng.choice(['t', '../t', '/a/t']), rng.choice(['lnk', 'l.so.1', 'dir/lnk', '']), gen_path(rng),
                                              rng.choice(SUBPROJ), O(TAGPOOL)]) for _ in range(rng.randint(0, 3))]))
    # environments and suites
    names = ['A', 'B', 'PATHLIKE', 'MESON_TEST_ITERATION', 'E']
    for _ in range(3000 if thorough else 600):
        base = enlist(S2, [k + S1 + rng.choice(['b', '', 'x:y']) for k in rng.sample(names, rng.randint(0, 3))])
        ops = [S1.join([rng.choice('sap'), rng.choice(names), rng.choice([':', ';', '', '::']),
                        enlist(S3, [rng.choice(['v1', 'v2', '', 'x y']) for _ in range(rng.randint(0, 3))])]) for _ in range(rng.randint(0, 5))]
        cases.append((rng.choice(['getenv', 'mtestenv']), [base, ''] + ops))
    # option stores: intro-buildoptions listing vs get_option(), every option x every (sub)project
    with_yield = os.environ.get('C15_YIELD_OPTIONS', '1') == '1'   # on by default since fix 8eee044
    for _ in range(400 if thorough else 60):
        cases += gen_store_cases(rng, with_yield)
    suites = ['p', 'p:s1', 'p:s2', 'sp:s1', 'sp', 'p:a:b', ':x', 'q:']
    sels = ['p', 's1', ':s1', 'p:s1', 'sp:s2', 'sp', 'a:b', 'p:a:b', ':', '', 'q', 'q:']
    for _ in range(1500 if thorough else 400):
        cases.append(('suite', [enlist(S2, rng.sample(suites, rng.randint(0, 3))), enlist(S2, rng.sample(sels, rng.randint(0, 3)))]))
    return cases


# ---------------------------------------------------------------------------- CLI projects
def cli_plan(rng, thorough):
    n = int(os.environ.get('C15_PROJECTS', '0')) or (400 if thorough else 36)
    plan = []
    for i in range(n):
        use_c = rng.random() < 0.4
        dup = (i % 12 == 5)
        plan.append((i, rng.getrandbits(48), use_c, dup, thorough and i % 50 == 7))
    return plan


def baseline(root, use_c):
    g0 = C.Gen(None, 0, use_c)
    g0.files = {'meson.build': "project('base'%s)\n" % (", 'c'" if use_c else '')}
    d = os.path.join(root, 'base-c' if use_c else 'base-n')
    os.makedirs(d, exist_ok=True)
    r = C.setup(g0, d, use_strace=False)
    if r['rc'] != 0:
        raise HarnessError('baseline project does not configure: ' + r['stdout'][-1500:] + r['stderr'][-1500:])
    return C.reserved_phony(open(os.path.join(r['bld'], 'build.ninja')).read())


def run_cli_project(item):
    (i, seed, use_c, dup, big), root, reserved, thorough = item
    import random
    rng = random.Random(seed)
    g = C.gen_project(rng, i, use_c, dup=dup, big=big)
    g.do_configure = (i % 2 == 0)
    d = os.path.join(root, 'p%d' % i)
    os.makedirs(d, exist_ok=True)
    out = {'i': i, 'seed': seed, 'use_c': use_c, 'dup': dup, 'setup_args': g.setup_args, 'dup_dests': g.dup_dests,
           'configure_args': g.configure_args if g.do_configure else []}
    try:
        res = C.setup(g, d)
        out['rc'] = res['rc']
        if res['rc'] != 0:
            out['error'] = (res['stdout'][-1500:] + res['stderr'][-800:])
            out['files'] = g.files
            return out
        ob = C.observe(g, res, d, reserved[use_c], thorough)
        out['testser'] = run_impl('c15.py', {'testser': res['bld']})['testser']
        out['args'] = ob.judge_args()
        out['ob'] = ob
        out['perturbed'] = C.perturbations(ob, rng) if i % 3 == 0 else []
        out['sizes'] = {k: len(v) for k, v in ob.I.items()}
        out['expected_def_files'] = sorted(g.expected_def_files)
        out['unread'] = sorted(g.unread)
        out['files'] = g.files
    except Exception as e:                      # harness problem with this project: reported, not hidden
        import traceback
        out['exception'] = traceback.format_exc()[-2000:]
    finally:
        shutil.rmtree(d, ignore_errors=True)
    return out


def anonymise(s, root):
    return s.replace(root, '<ROOT>')


def replay(ctx):
    rec = json.load(open(ctx.replay))
    r = rec['replay']
    print('replaying', json.dumps({k: v for k, v in r.items() if k not in ('files', 'explain')})[:2000])
    ctx.build('Props/C15.v', 'Intro/Extract.v', 'C15')
    if 'case' in r:
        scratch = ctx.mkscratch()
        res = run_impl('c15.py', {'cases': [r['case']]})
        print('implementation:', repr(res['results'][0]))
        print('model         :', repr(ctx.run_model([tuple(r['case'])])[0]))
    if 'files' in r:
        import random
        root = ctx.mkscratch()
        g = C.Gen(random.Random(r.get('seed', 0)), r.get('i', 0), r.get('use_c', False))
        g.files, g.setup_args, g.exec_files = r['files'], r['setup_args'], {f for f in r['files'] if f.endswith('.py')}
        g.name = 'p%d' % r.get('i', 0)
        g.configure_args, g.do_configure = r.get('configure_args', []), bool(r.get('configure_args'))
        reserved = baseline(root, r.get('use_c', False))
        d = os.path.join(root, 'replay')
        os.makedirs(d)
        res = C.setup(g, d)
        print('meson setup rc =', res['rc'])
        if res['rc'] == 0:
            ob = C.observe(g, res, d, reserved, True)
            bits = ctx.run_model([('judge', ob.judge_args())])[0]
            print('judge verdict (targets,tests,benchmarks,options,install,files):', bits)
            print(json.dumps(C.explain(ob, bits), indent=1))
        else:
            print(res['stdout'][-2000:])
    ctx.cleanup()
    return 0


def run(ctx):
    if ctx.replay:
        return replay(ctx)
    rng = ctx.rng
    thorough = ctx.tier == 'thorough'
    built = ctx.build('Props/C15.v', 'Intro/Extract.v', 'C15')
    scratch = ctx.mkscratch()

    # ---- 1. CLI projects (started first: they dominate the wall time) --------------------
    t0 = time.time()
    reserved = {False: baseline(scratch, False), True: baseline(scratch, True)}
    plan = cli_plan(rng, thorough)
    from concurrent.futures import ThreadPoolExecutor
    ex = ThreadPoolExecutor(max_workers=max(4, NPROC - 2))
    futs = [ex.submit(run_cli_project, (p, scratch, reserved, thorough)) for p in plan]

    # ---- 2. in-process: model vs implementation -------------------------------------------
    cases = inprocess_cases(rng, thorough, scratch)
    impl = []
    CH = 20000
    for i in range(0, len(cases), CH):
        impl += run_impl('c15.py', {'cases': cases[i:i + CH]})['results']
    model = ctx.run_model(cases) if built else impl
    kinds = {}
    for (fn, args), ri, rm in zip(cases, impl, model):
        ctx.count((fn, tuple(args)))
        kinds[fn] = kinds.get(fn, 0) + 1
        if ri != rm and len(ctx.disagreements) < 200:
            ctx.disagreements.append({'case': [fn, [anonymise(a, scratch) for a in args]], 'implementation': anonymise(ri, scratch),
                                      'model': anonymise(rm, scratch), 'raw_case': [fn, args]})
    # oracle clause, no model involved: for one and the same option store, what _list_buildoptions reports for (sp, n)
    # is what OptionStore.get_value_for returns for OptionKey(n, sp)
    pairs = {}
    for (fn, args), ri in zip(cases, impl):
        if fn in ('reported', 'getopt'):
            pairs.setdefault(tuple(args), {})[fn] = ri
    nopt = 0
    for args, d in pairs.items():
        nopt += 1
        if d.get('getopt', 'N') != 'N' and d.get('reported') != d['getopt']:
            ctx.violation('C15:options:listing-vs-get_option:%s:%s' % (args[2], args[3]),
                          'for the same option store, get_option(%r) in (sub)project %r returns %r but _list_buildoptions reports %r'
                          % (args[3], args[2], d['getopt'], d.get('reported')), {'case': ['reported', list(args)], 'and': ['getopt', list(args)]})
    ctx.extra['option_store_queries'] = nopt
    ctx.extra['inprocess_cases'] = kinds
    ctx.extra['exhaustive'] = True
    ctx.extra['exhaustive_note'] = ('comps/basename on every string of length <= %d over {/,a,.}; destdir_join/join on every pair of them; '
                                    'get_destdir_path on every triple of strings of length <= 2 (absolute prefix); everything else is sampled'
                                    % (4 if thorough else 3))
    ctx.extra['out_of_model'] = 0
    ctx.extra['inprocess_s'] = round(time.time() - t0, 1)
    for s in cases[:2] + cases[30:32]:
        ctx.sample({'fn': s[0], 'args': s[1]})

    # ---- 3. CLI verdicts ------------------------------------------------------------------
    results = [f.result() for f in futs]
    ex.shutdown()
    jcases, jmeta = [], []
    nfail_setup = 0
    stats = {'projects': len(results), 'with_c': 0, 'targets': 0, 'tests': 0, 'benchmarks': 0, 'plan_entries': 0, 'options_observed': 0,
             'install_runs': 0, 'def_files': 0}
    for r in results:
        if 'exception' in r:
            raise HarnessError('CLI project %d: %s' % (r['i'], r['exception']))
        if r.get('rc') != 0:
            nfail_setup += 1
            ctx.extra.setdefault('setup_failures', []).append({'i': r['i'], 'seed': r['seed'], 'error': anonymise(r.get('error', ''), scratch)[-600:]})
            continue
        jcases.append(('judge', r['args']))
        jmeta.append(r)
        stats['with_c'] += 1 if r['use_c'] else 0
        for k in ('targets', 'tests', 'benchmarks'):
            stats[k] += r['sizes'][k]
        stats['plan_entries'] += r['sizes']['plan']
        stats['options_observed'] += len(r['ob'].W['opts'])
        stats['options_observed_after_configure'] = stats.get('options_observed_after_configure', 0) + sum(1 for n, _ in r['ob'].W['opts'] if n.startswith('cfg/'))
        stats['subproject_overrides'] = stats.get('subproject_overrides', 0) + sum(1 for a in r['setup_args'] if a.startswith('-Dsp') and ':o_' not in a)
        stats['install_runs'] += len(r['ob'].W['runs'])
        stats['def_files'] += r['sizes']['files']
    if nfail_setup > len(results) // 4:
        raise HarnessError('%d of %d generated projects do not configure: %s' % (nfail_setup, len(results), json.dumps(ctx.extra['setup_failures'][:2])))
    jimpl = run_impl('c15.py', {'cases': jcases})['results'] if jcases else []
    jmodel = ctx.run_model(jcases) if built and jcases else jimpl
    for (fn, args), r, bi, bm in zip(jcases, jmeta, jimpl, jmodel):
        ctx.count(('judge', r['i'], r['seed']))
        ctx.cov['traces_validated_against_impl'] += 1
        if bi != bm:
            ctx.disagreements.append({'case': ['judge', 'project %d seed %d' % (r['i'], r['seed'])], 'implementation(oracle)': bi, 'model(judge)': bm})
        bits = bm
        if set(bits) != {'T'}:
            exp = C.explain(r['ob'], bits)
            # the source-installed-twice finding: everything unaccounted is a destination of a source
            # that the project installs more than once, and nothing that is named is missing
            prefix = dict(r['ob'].I['opts'])['prefix']
            dups = {os.path.normpath(os.path.join(prefix, d)) for d in r['dup_dests']}
            only_dup = bool(exp) and all(e['clause'] == 'install' and not e['named_but_not_installed'] and
                                          all(os.path.normpath(x) in dups for x in e['installed_but_not_named']) for e in exp) and \
                [b for b in bits] == ['T', 'T', 'T', 'T', 'F', 'T']
            clause = ','.join(n for n, b in zip(['targets', 'tests', 'benchmarks', 'options', 'install', 'files'], bits) if b != 'T')
            if only_dup:
                ident = 'C15:install:source-installed-twice'
            else:
                ident = 'C15:%s:project-%d-seed-%d' % (clause, r['i'], r['seed'])
            what = 'intro files disagree with the generated build (%s) on generated project %d: %s' % (
                clause, r['i'], anonymise(json.dumps(exp), scratch)[:1500])
            ctx.violation(ident, what, {'i': r['i'], 'seed': r['seed'], 'use_c': r['use_c'], 'setup_args': r['setup_args'],
                                        'configure_args': r['configure_args'], 'verdict_bits': bits, 'explain': json.loads(anonymise(json.dumps(exp), scratch)),
                                        'files': r['files']})
        # generator-side cross-check of the strace observation (harness sanity, not a verdict)
        w = set(r['ob'].W['files'])
        if not set(r['expected_def_files']) <= w or (w & set(r['unread'])):
            ctx.extra.setdefault('strace_vs_generator_mismatch', []).append({'i': r['i'], 'expected_missing': sorted(set(r['expected_def_files']) - w)[:5],
                                                                             'unexpected': sorted(w & set(r['unread']))[:5]})
    # intro-tests.json / intro-benchmarks.json vs the pickled serialisation `meson test` loads, both from the one
    # configure: through the model (get_test_list as a function of the serialisation) and model-free (mintro.get_test_list
    # applied to the unpickled objects)
    tcases, tmeta = [], []
    for r in jmeta:
        for kind in ('tests', 'benchmarks'):
            ts = r['testser'][kind]
            tcases.append(('testintro', ts['serialised']))
            tmeta.append((r, kind, ts))
    if tcases:
        tmodel = ctx.run_model(tcases) if built else [m[2]['get_test_list'] for m in tmeta]
        nser = 0
        for (r, kind, ts), tm in zip(tmeta, tmodel):
            ctx.count(('testintro', r['i'], kind))
            nser += len(ts['serialised'])
            rep = {'i': r['i'], 'seed': r['seed'], 'use_c': r['use_c'], 'setup_args': r['setup_args'], 'configure_args': [], 'files': r['files']}

            def first_diff(a, b):
                la, lb = a.split(S2), b.split(S2)
                for x, y in zip(la, lb):
                    if x != y:
                        fa, fb = x.split(S1), y.split(S1)
                        names = ['cmd', 'env', 'name', 'workdir', 'timeout', 'suite', 'is_parallel', 'priority', 'protocol', 'depends', 'extra_paths']
                        for n, p, q in zip(names, fa, fb):
                            if p != q:
                                return {'test': fa[2] if len(fa) > 2 else '?', 'field': n, 'serialised': p.replace(S3, ' | ').replace(S4, '='), 'intro_file': q.replace(S3, ' | ').replace(S4, '=')}
                return {'entries': [len(la) - 1, len(lb) - 1]}
            if ts['get_test_list'] != ts['file']:
                d = first_diff(ts['get_test_list'], ts['file'])
                ctx.violation('C15:%s:serialisation-vs-intro:project-%d-seed-%d' % (kind, r['i'], r['seed']),
                              'intro-%s.json is not get_test_list(what `meson test` unpickles) for generated project %d: %s'
                              % (kind, r['i'], anonymise(json.dumps(d), scratch)), dict(rep, explain=[dict(d, clause=kind)]))
            if tm != ts['file']:
                ctx.disagreements.append({'case': ['testintro', 'project %d %s' % (r['i'], kind)],
                                          'model': anonymise(json.dumps(first_diff(tm, ts['file'])), scratch)})
        ctx.extra['serialised_tests_compared'] = nser
    # the judge's rejecting paths: perturbed observations, judge vs oracle (and the expected flip)
    pcases, pmeta = [], []
    for r in jmeta:
        base = jmodel[jmeta.index(r)]
        for label, args in r.get('perturbed', []):
            pcases.append(('judge', args))
            pmeta.append((r['i'], label, base))
    if pcases:
        pimpl = run_impl('c15.py', {'cases': pcases})['results']
        pmodel = ctx.run_model(pcases) if built else pimpl
        flips = {}
        for (i, label, base), bi, bm in zip(pmeta, pimpl, pmodel):
            ctx.count(('judge-perturbed', i, label))
            if bi != bm:
                ctx.disagreements.append({'case': ['judge', 'project %d perturbation %s' % (i, label)], 'implementation(oracle)': bi, 'model(judge)': bm})
            ok = (bm == base) if label == 'permute' else (bm != base or set(base) != {'T'})
            flips.setdefault(label, [0, 0])[0 if ok else 1] += 1
        ctx.extra['judge_perturbations'] = {k: {'as_expected': v[0], 'not_as_expected': v[1]} for k, v in flips.items()}
    ctx.extra['generator_coverage'] = C.coverage(jmeta)
    ctx.extra['cli'] = stats
    ctx.extra['cli_setup_failures'] = nfail_setup
    ctx.extra['cli_s'] = round(time.time() - t0, 1)
    if jmeta:
        r = jmeta[0]
        ctx.sample({'project': r['i'], 'setup_args': r['setup_args'], 'sizes': r['sizes'], 'verdict': jmodel[0]})

    # ---- 4. extraction tied to the kernel --------------------------------------------------
    if built:
        small = [(c, m) for c, m in zip(cases, model) if sum(len(a) for a in c[1]) < 600]
        jsmall = [(c, m) for c, m in zip(jcases, jmodel) if sum(len(a) for a in c[1]) < 30000][:6]
        rng.shuffle(small)
        kc = small[:300 - len(jsmall)] + jsmall
        ctx.kernel_crosscheck('Intro.Entry', [c for c, _ in kc], [m for _, m in kc], limit=300)
        ctx.extra['kernel_crosscheck_judge_cases'] = len(jsmall)

    # a model/implementation disagreement on an observable the property itself fixes is a
    # concrete failing input: the destinations / names derived from one InstallData
    if ctx.disagreements and not ctx.violations:
        for d in ctx.disagreements:
            if 'raw_case' in d:
                ctx.violation('C15:derivation:%s' % d['case'][0], 'implementation and verified model derive different %s results: impl=%r model=%r'
                              % (d['case'][0], d['implementation'][:300], d['model'][:300]), {'case': d['raw_case']})
                break
    for d in ctx.disagreements:
        d.pop('raw_case', None)
    return ctx.finish(
        level='proof',
        trusted=['Coq 8.16.1 kernel (coqc, vm_compute; no native_compute)',
                 'extraction with ExtrOcamlBasic directives only + OCaml + extract/driver.ml (cross-checked in-kernel on a sample each run)',
                 'harness/check_C15.py, harness/c15_cli.py (project generator, reduction of JSON / build.ninja / strace / recorder output to the '
                 'abstract artefacts of Spec.v), harness/ninja_py.py (reference reader of build.ninja), harness/impl/c15.py',
                 'strace (openat of the meson process) as the witness of which files were read',
                 'model covers mintro.py:53-113,368-391, backends.py:119-196,1956-2061, minstall.py:277-282,389-396,548-575,638-705,754-769, '
                 'mtest.py:1803-1816,1949-1981, scripts/__init__.py:6-10, utils/core.py:133-154 on POSIX; not modelled: create_install_data glue '
                 '(generate_target_install, guess_install_tag), list_targets/list_buildoptions/list_buildsystem_files (covered by the CLI correspondence '
                 'only), check_for_stampfile, directory-valued target outputs, install scripts, Windows paths'],
        assumptions=['Print Assumptions: all property theorems closed under the global context (no axioms)',
                     'the per-project claim (intro == build) is explored on generated projects, not proved; what is proved is the judge and the shared derivations'],
        rule='(1) in-process: seeded path strings (incl. exhaustive strings over {/,a,.}), InstallData records, Header/Man/Data/InstallDir/Symlink '
             'objects, environment operation lists and suite selectors are run through the real mintro/backends/minstall/mtest code (the installer on '
             'real files) and through the extracted model, results compared as canonical strings; (2) CLI: generated projects (custom targets incl. '
             'indexed outputs, C executables/libraries/modules, run/alias targets, generators, subdirs, subprojects, options of every type, '
             'tests/benchmarks with args/env/suites/depends/workdir, install rules of every kind with tags, configure_file, fs.read) are configured '
             'under strace; intro-*.json is compared with build.ninja, recorder output of `meson test`, `--list --suite`, the ninja targets '
             '`meson test NAME` requests, `meson install --destdir [--tags]` trees, message(get_option()) lines and the opened files by the extracted '
             'judge, and by an independent Python evaluation of the same clauses; distinct = distinct cases / projects')
