"""C02 — parsing is total, lossless and position-accurate.
Theorems: coq/Props/C02.v.  Model: coq/Syntax/{Lexer,Parser,Trivia,RawPrint}.v.
Implementation: mesonbuild/mparser.py (Lexer, Parser), ast/visitor.py (FullAstVisitor), ast/printer.py (RawPrinter)."""
import itertools, json, os, glob, time
from common import *

# token alphabet for exhaustive / soup generation (canonical spacing added by the renderer)
TOKS = ['a', 'b', '1', "'s'", '(', ')', '[', ']', '{', '}', ',', ':', '.', '=', '+=', '+', '-', '*',
        '==', 'not', 'in', 'and', 'or', '?', '\n', 'if', 'elif', 'else', 'endif', 'foreach', 'endforeach',
        'true', 'continue', 'break', '<', '!=', '%', '/']
SMALL = ['a', '1', '(', ')', '[', ']', ',', ':', '.', '=', '+', 'not', 'in', 'and', '?', '\n', 'if', 'endif',
         "'s'", '-', '{', '}']
TRIVIA = [' ', '  ', '\t', ' # c', ' \\\n ', '']
ODD = ["'''m\nl'''", "f'x@y@'", "f'''a\nb'''", '0x1F', '0b101', '0o17', '0', '007', "'a\\'b'", "'\\x41\\n'",
       "'a\nb'", '"', '$', '\\', "'unterminated", '#cmt', '>=', '<=', '>', 'é', "'é€'", '\r', '@', '!', "''",
       '1a', 'a1', '_x', 'foreach', 'endforeach', 'elif', 'else', 'false', '0x', '0b2', "'''", "'\\U0001F600'",
       "'\\777'", '\\\n', '\\ # c\n', "f'''", '00', '1_0', '~', ';', '\ufeff']


def render(tokens, rng=None):
    out = []
    for i, t in enumerate(tokens):
        if i:
            out.append(' ' if rng is None else rng.choice(TRIVIA[:3]) if rng.random() < 0.8 else rng.choice(TRIVIA))
        out.append(t)
    return ''.join(out)


# ------------------------------------------------------------------ grammar-directed generator
# Programs are generated as token lists and rendered with context-aware trivia between EVERY
# pair of adjacent tokens (inside brackets: newlines, indentation, comments, continuations).
IN_TRIVIA = [' ', ' ', '', '  ', '\t', '\n', '\n    ', ' # c\n  ', ' \\\n  ', '\n\n', ' #\n', '\n# c\n']
OUT_TRIVIA = [' ', ' ', ' ', '', '  ', '\t', ' \\\n ', ' \\ # c\n']


FILE_START = [' ', '  ', '\t', '# c\n', '\n', '\n\n', '  # c\n\n', ' \\\n', ' \\ # c\n  ', '#\n#\n', '\n  ']
FILE_END = [' ', '  ', ' # c', '# c', '\n', '\n\n', '\n  # c\n', '\n# c', '\t\n', ' \\\n', ' \\\n ', '\n  ']


def wordlike(t):
    return t[:1].isalnum() or t[:1] in "_'" or t[-1:].isalnum() or t[-1:] == "'"


def render_tokens(rng, toks, rich=0.35):
    out, depth = [], 0
    for i, t in enumerate(toks):
        if i:
            prev = toks[i - 1]
            if t == '\n' or prev == '\n':
                tr = rng.choice(['', '', ' ', '  ', ' # c']) if t == '\n' else rng.choice(['', '', '  ', '    ', '\t'])
            else:
                pool = IN_TRIVIA if depth > 0 else OUT_TRIVIA
                tr = rng.choice(pool) if rng.random() < rich else rng.choice([' ', ' ', ''])
                if tr == '' and wordlike(prev) and wordlike(t) and not (prev in '([{' or t in ')]},:.'):
                    tr = ' '
                if tr == '' and (prev + t in ('==', '+=', '!=', '<=', '>=') or (prev == '-' and t == '-')):
                    tr = ' '
            out.append(tr)
        out.append(t)
        if t in '([{' and len(t) == 1:
            depth += 1
        elif t in ')]}' and len(t) == 1:
            depth = max(0, depth - 1)
    return ''.join(out)


ATOMS = ['a', 'b', 'foo', '1', '42', "'s'", "'x y'", 'true', 'false', "'''ml'''", "f'@a@'", '0x10', "'''m\nl'''", "f'''a\nb'''"]


def g_expr(rng, d=0):
    k = rng.random()
    if d > 3 or k < 0.25:
        return [rng.choice(ATOMS)]
    if k < 0.35:
        return ['('] + g_expr(rng, d + 1) + [')']
    if k < 0.45:
        return ['['] + g_args(rng, d + 1, kw=False) + [']']
    if k < 0.5:
        out = ['{']
        for i in range(rng.randint(0, 2)):
            if i:
                out.append(',')
            out += g_expr(rng, d + 2) + [':'] + g_expr(rng, d + 2)
        return out + ['}']
    if k < 0.6:
        return [rng.choice(['f', 'g', 'files']), '('] + g_args(rng, d + 1) + [')']
    if k < 0.68:
        return g_expr(rng, d + 2) + ['.', rng.choice(['m', 'get']), '('] + g_args(rng, d + 1) + [')']
    if k < 0.73:
        return g_expr(rng, d + 2) + ['['] + g_expr(rng, d + 1) + [']']
    if k < 0.8:
        return [rng.choice(['not', '-'])] + g_expr(rng, d + 1)
    if k < 0.95:
        op = rng.choice([['+'], ['-'], ['*'], ['/'], ['%'], ['=='], ['!='], ['<'], ['<='], ['>'], ['>='], ['in'],
                         ['not', 'in'], ['not', 'in'], ['and'], ['or']])
        return g_expr(rng, d + 1) + op + g_expr(rng, d + 1)
    return g_expr(rng, d + 1) + ['?'] + g_expr(rng, d + 2) + [':'] + g_expr(rng, d + 2)


def g_args(rng, d, kw=True):
    n = rng.randint(0, 3)
    items = [g_expr(rng, d + 1) for _ in range(n)]
    if kw and rng.random() < 0.4:
        items += [[rng.choice(['k', 'kw', 'name']), ':'] + g_expr(rng, d + 1) for _ in range(rng.randint(1, 2))]
    if kw and rng.random() < 0.05:
        rng.shuffle(items)          # keyword before positional: accepted by the parser
    out = []
    for i, it in enumerate(items):
        if i:
            out.append(',')
        out += it
    if items and rng.random() < 0.15:
        out.append(',')
    return out


def g_stmt(rng, d=0):
    k = rng.random()
    if k < 0.4 or d > 2:
        return [rng.choice(['x', 'y', 'var']), rng.choice(['=', '+='])] + g_expr(rng)
    if k < 0.6:
        return g_expr(rng)
    if k < 0.8:
        s = ['if'] + g_expr(rng, 2) + ['\n'] + g_block(rng, d + 1)
        for _ in range(rng.randint(0, 2)):
            s += ['elif'] + g_expr(rng, 2) + ['\n'] + g_block(rng, d + 1)
        if rng.random() < 0.5:
            s += ['else', '\n'] + g_block(rng, d + 1)
        return s + ['endif']
    if k < 0.92:
        v = rng.choice([['i'], ['k', ',', 'v']])
        return ['foreach'] + v + [':'] + g_expr(rng, 2) + ['\n'] + g_block(rng, d + 1) + ['endforeach']
    return rng.choice([['continue'], ['break'], []])


def g_block(rng, d):
    out = []
    for _ in range(rng.randint(0, 3)):
        out += g_stmt(rng, d) + ['\n']
    return out


def g_program(rng):
    toks = []
    for _ in range(rng.randint(1, 5)):
        toks += g_stmt(rng) + ['\n']
        if rng.random() < 0.2:
            toks.append('\n')
    if rng.random() < 0.2 and toks:
        toks.pop()
    body = render_tokens(rng, toks, rich=rng.choice([0.0, 0.2, 0.5, 0.9]))
    # trivia at the very start and the very end of the file
    if rng.random() < 0.35:
        body = rng.choice(FILE_START) + body
    if rng.random() < 0.35:
        body = body + rng.choice(FILE_END)
    return body


def mutate(rng, s):
    if not s:
        return s
    for _ in range(rng.randint(1, 3)):
        i = rng.randrange(len(s) + 1)
        k = rng.random()
        if k < 0.35:
            s = s[:i] + s[i + 1:]
        elif k < 0.7:
            s = s[:i] + rng.choice(TOKS + ODD + [' ', '\n']) + s[i:]
        else:
            j = min(len(s), i + rng.randint(1, 6))
            s = s[:i] + s[j:]
    return s


def in_model(code):
    """Inputs whose behaviour depends on Unicode tables the model does not carry."""
    for ch in code:
        o = ord(ch)
        if o > 127 and ch.isdigit():
            return False
    if '\\N{' in code:
        return False
    return True


def corpus_files():
    fs = sorted(glob.glob(os.path.join(REPO, 'test cases', '*', '*', 'meson.build')) +
                glob.glob(os.path.join(REPO, 'test cases', '*', '*', '*', 'meson.build')) +
                glob.glob(os.path.join(REPO, 'test cases', '*', '*', '*', '*', 'meson.build')))
    fs += sorted(glob.glob(os.path.join(REPO, 'test cases', '*', '*', 'meson_options.txt')) +
                 glob.glob(os.path.join(REPO, 'test cases', '*', '*', 'meson.options')))
    return fs


CORPUS = ["(a not\n in b)", "(a not # c\n  in b)", "x = a not \\\n   in b", "[a not\n\n in\n b]", "x = a not\n", "foo(a not, b)\n", "if a not\nendif\n", "a not # c\n in b", "f(a: 1, b)\n", "f(a: 1, b, c: 2)\n",
          "x = 'a\nb'\ny = [1]\n", "foo('a\nb', [1])\n", "x = " + "1" * 4301 + "\n", "x = '\\U00110000'\n",
          "x = '\\\\U00110000'\n", "a.b\n", "x = 1.5\n", "\ufeffx=1\n", "x = [1,\n 2]\n", "foreach a,b : c\nendforeach",
          "x = f'''a\nb'''\ny=1", "not not a", "- - a", "a ? b : c ? d : e", "(a ? b : c) ? d : e", "a ? (b ? c : d) : e",
          "", "\n", "#c", "x", "x=", "=x", "f(,)", "f(a,,)", "f(a,)", "[,]", "{a}", "{a:1,}", "{:1}", "a.b().c[1].d()", "1.x()",
          "1.2", "f(a:1, a:2)", "x = a not in", "if a\nelse\nendif", "if a\nelif\nendif", "if\nendif", "foreach : c\nendforeach",
          "foreach a b : c\nendforeach", "continue x", "break\nbreak", "f(\n)", "f(a\n)", "(a\n+b)", "a\n+b", "x = '''a'''b'''",
          "x = ''''a'''", "'a' 'b'", "a = b = c", "a += b += c", "1 = 2", "a.b = 1", "f() = 1", "(a) = 1", "x = (", "x = )",
          "x = [", "x = ]", "x = {", "x = }", "if a\n", "endif", "else", "elif x", "endforeach", "x = a ?", "x = a ? b", "x = a ? b :",
          "x = : b", "a and", "and a", "a or", "or a", "not", "-", "a -", "a +", "a *", "* a", "a < b < c", "a == b == c",
          "a in b in c", "a not in b not in c", "x = y \\\n + z", "x = y \\ # c\n + z", "x = y \\ z", "x = y \\", "f(a) (b)", "f(a)[0](b)",
          "x = [a, b,\n# c\n c]\n", "x = {\n 'a' : 1,\n}\n", "x = -1", "x = - 1", "x = not true", "x = not(true)", "f(-a, not b)",
          "x = 0x", "x = 0b2", "x = 0o8", "x = 09", "x = 1_000", "x = 'a\\", "x = 'a\\'", "x = 'a\\\n'", "x = f'a'", "x = f 'a'",
          "x = f'''a'''", "x = f''''''", "x = ''''''", "x = '''''''", "x = ''", "x = '''a''", "\r\n", "x = 1\r\ny = 2\r\n", "\t\tx = 1",
          "x = 1 # c", "# c\nx = 1", "x = 1\n# c", "x = 1\n  # c\n", "if a # c\n x = 1 # d\nendif # e\n", "a.\nb()", "a\n.b()", "(a\n.b())",
          "f(a, b : c, d)", "f(a : b : c)", "f(1 : 2)", "f('k' : 2)", "{'k' : 2, k : 3, 1 : 4}", "{a : b, c}", "[a : b]", "x = [1, 2,]", "x = (1, 2)",
          "x = a[1", "x = a[1]]", "x = a.b(", "x = a.b)", "x = a.1()", "x = a.'s'()", "x = a.b", "x = a.b c", "x = 'a'.format()", "x = [1][0]",
          "x = {}['a']", "x = (1)[0]", "x = f()()", "foreach i : [1]\nif i\ncontinue\nendif\nendforeach", "if a\nif b\nendif\nendif", "if a\nforeach\nendif"]

# trivia-focused corner cases: comments, continuations, blank lines, CRLF, file start/end, around
# 'not in', inside empty argument lists, before closing brackets, after block ends
TRIVIA_CORPUS = ["# c\nx = 1", "  x = 1  ", "\n\nx = 1\n\n", "x = f( )", "x = f(\n)", "x = f( # c\n )", "x = [ ]", "x = [\n]", "x = { }",
                 "x = {\n # c\n}", "x = [1, 2 ,\n]", "x = [1 # c\n, 2 # d\n]", "f(a ,b : 1 , c : 2 ,)", "x = a.b( ).c( \n )", "x = a [ 1 ] [ 2 ]",
                 "x = ( a )", "x = (\n a\n)\n", "x = a ? b : c # t\n", "x = not a", "x = - a", "x = a not in b # c", "x = (a not  in b)",
                 "x = (a not\tin\tb)", "x = (a # c\n not # d\n in # e\n b)", "x = a not \\\n in \\\n b",
                 "if a # c\n  # d\n  x = 1 # e\n  # f\nelif b # g\n  y = 2\nelse # h\n  z = 3\nendif # i\n# j",
                 "foreach a , b : c # c\n  continue # d\n  break # e\nendforeach # f", "if a\nendif", "if a\n\n\nendif\n",
                 "if a\n  # only comment\nendif\n", "foreach x : y\n\n  # c\n\nendforeach", "x = 1 \\\n + 2", "x = 1 \\ # c\n + 2",
                 "x \\\n = \\\n 1", "x = '''a\nb''' # c\n", "\\\nx = 1", "x = 1\n\\\n", "x = 1 \\\n", "if a \\\n and b\nendif", "x = 1\r\n",
                 "x = [1,\r\n 2]\r\n", "# only a comment", "   ", "\n\n  \n", "# a\n# b\n", "\t# c", "x = 1 # c\n\n# d\n\ny = 2",
                 "if a\n  if b\n    x = 1\n  endif # c\n  # d\nendif", "if a\n  foreach i : l\n  endforeach\n  # tail\nendif\n",
                 "x = f(a : 1 , # c\n b : 2 # d\n )", "x = {'a' : 1 , # c\n 'b' : 2 # d\n }", "f(a, b # c\n)", "f(a, # c\n)", "(a) # c\n", "a # c\n",
                 "a.b() # c\n", "a[0] # c\n", "-a # c\n", "not a # c\n", "a+b # c\n", "a ? b : c # c\n", "x += 1 # c\n", "continue # c\n",
                 "break # c\n", "true # c\n", "1 # c\n", "'s' # c\n", "[1] # c\n", "{} # c\n", "f() # c\n", "(a)\n# c\n", "if a\nendif # c\n# d\n",
                 "foreach i : l\nendforeach # c\n# d\n", "if a\n  (b)\n  # c\nendif", "if\nendif", "if a\nelse\nendif", "if a\nelse # c\n # d\nendif",
                 "if a\nelif b # c\n # d\nelif c\nendif # e", "f(a: 1, b)", "f(a: 1, b, c: 2) # c", "f(a : 1 , b , c : 2 , d)", "f( a : 1 , b )",
                 "x = [ # c\n]", "x = f(a,\n  # c\n  b,\n  # d\n)", "x = (a) # c\n# d\n", "foreach i : l # c\n# d\nendforeach", " # c\n # d\nx=1",
                 "if a\n x=1\nendif\n\n\n# end", "if a # c1\n\n # c2\n\n x = 1\n\nendif", "x = a . b ( ) . c ( )", "x = a. # c\n b()", "(x = a.\n b())"]


def replay(ctx):
    rec = json.load(open(ctx.replay))
    if 'replay' in rec and 'code' in rec['replay']:
        codes = [rec['replay']['code']]
    else:
        # a correspondence replay (model and implementation disagree): the recorded inputs
        codes = list(dict.fromkeys(d['code'] for d in rec.get('correspondence_disagreements', [])))[:5]
    built = ctx.build('Props/C02.v', 'Syntax/Extract.v', 'C02')
    for code in codes:
        print('input:', json.dumps(code))
        res = run_impl('c02.py', {'cases': [['parse', [code]], ['lex', [code]], ['trivia', [code]]], 'oracle': [code]})
        print('implementation parse :', res['results'][0][:400])
        print('implementation trivia:', json.dumps(res['results'][2][:600]))
        print('property clauses on the implementation:', res['oracle'][0])
        if built:
            mo = ctx.run_model([('parse', [code]), ('lex', [code]), ('trivia', [code])])
            print('model parse          :', mo[0][:400])
            print('model trivia         :', json.dumps(mo[2][:600]))
            for fn, a, b in (('parse', res['results'][0], mo[0]), ('lex', res['results'][1], mo[1]), ('trivia', res['results'][2], mo[2])):
                if a != b and not (fn == 'trivia' and not a.startswith('OK:')):
                    print('DISAGREE on %s' % fn)
    return 0


def classify_known(code, fail):
    """Stable identifiers for the recorded findings (known_findings.json)."""
    if fail['kind'] == 'internal-error' and fail['exc'].startswith('RecursionError'):
        depth = max_nesting(code)
        if depth >= 60:
            return 'C02:internal-error:RecursionError:nesting>=60'
    if fail['kind'] == 'not-lossless' and kwarg_before_positional(code):
        return 'C02:not-lossless:keyword-argument-before-positional'
    return None


def max_nesting(code):
    d = m = 0
    for ch in code:
        if ch in '([{':
            d += 1; m = max(m, d)
        elif ch in ')]}':
            d -= 1
    # unary/postfix chains also recurse
    return max(m, code.count('.') // 2, code.count('not ') + code.count('-'))


def kwarg_before_positional(code):
    # decided by the model: the parse is accepted and some argument list has a positional
    # argument after a keyword argument (order_error); recomputed by the check from the model's tree
    return None


def run(ctx):
    if ctx.replay:
        return replay(ctx)
    rng = ctx.rng
    thorough = ctx.tier == 'thorough'
    phase = {}
    t0 = time.time()
    built = ctx.build('Props/C02.v', 'Syntax/Extract.v', 'C02')
    phase['build'] = round(time.time() - t0, 1); t0 = time.time()
    inputs = []
    src = {}

    def add(code, kind):
        inputs.append(code)
        src[kind] = src.get(kind, 0) + 1
    for c in CORPUS:
        add(c, 'corpus')
    for c in TRIVIA_CORPUS:
        add(c, 'trivia-corpus')
    add('x = ' + '(' * 200 + '1' + ')' * 200 + '\n', 'corpus')
    # exhaustive token sequences with canonical spacing
    L = 4 if thorough else 3
    alpha = SMALL
    for n in range(1, L + 1):
        for t in itertools.product(alpha, repeat=n):
            add(render(t), 'exhaustive')
    ctx.extra['exhaustive_bound'] = {'alphabet': len(alpha), 'max_len': L}
    # every ordered pair of tokens with every kind of trivia between them, inside brackets and outside
    PT = [t for t in TOKS if t != '\n']
    for t1 in PT:
        for t2 in PT:
            for tr in IN_TRIVIA[3:]:
                add('(a ' + t1 + tr + t2 + ' b)', 'pair-trivia')
            if thorough or rng.random() < 0.3:
                for tr in OUT_TRIVIA[3:]:
                    add('x = a ' + t1 + tr + t2 + ' b', 'pair-trivia')
    # longer sampled sequences / soups
    for _ in range(60000 if thorough else 6000):
        n = rng.randint(4, 9)
        add(render([rng.choice(TOKS) for _ in range(n)], rng), 'soup')
    for _ in range(30000 if thorough else 3000):
        n = rng.randint(1, 8)
        add(render([rng.choice(TOKS + ODD) for _ in range(n)], rng), 'odd-soup')
    # grammar-directed programs and their mutants
    for _ in range(30000 if thorough else 4000):
        p = g_program(rng)
        add(p, 'program')
        if rng.random() < 0.6:
            add(mutate(rng, p), 'mutant')
    # repository build files and mutants
    files = corpus_files()
    if not thorough:
        files = rng.sample(files, min(300, len(files)))
    nfile = 0
    for f in files:
        try:
            txt = open(f, encoding='utf-8').read()
        except Exception:
            continue
        if len(txt) > 6000:
            continue
        nfile += 1
        add(txt, 'repo-file')
        for _ in range(3 if thorough else 1):
            add(mutate(rng, txt), 'repo-file-mutant')
    ctx.extra['input_kinds'] = src
    inputs = list(dict.fromkeys(inputs))
    modelable = [c for c in inputs if in_model(c)]
    ctx.extra['out_of_model'] = len(inputs) - len(modelable)

    phase['generate'] = round(time.time() - t0, 1); t0 = time.time()
    # implementation: parse + lex renderings, and the property's clauses
    CH = 4000
    chunks = [inputs[i:i + CH] for i in range(0, len(inputs), CH)]

    def work(ch):
        return run_impl('c02.py', {'cases': [['parse', [c]] for c in ch] + [['lex', [c]] for c in ch] + [['trivia', [c]] for c in ch],
                                   'oracle': ch})
    outs = pmap(work, chunks)
    impl_parse, impl_lex, impl_triv, orc = {}, {}, {}, {}
    for ch, o in zip(chunks, outs):
        n = len(ch)
        for i, c in enumerate(ch):
            impl_parse[c] = o['results'][i]
            impl_lex[c] = o['results'][n + i]
            impl_triv[c] = o['results'][2 * n + i]
            orc[c] = o['oracle'][i]
    stats = {'accepted': 0, 'rejected': 0, 'internal': 0}
    for c in inputs:
        r = impl_parse[c]
        stats['accepted' if r.startswith('OK') else 'rejected' if r.startswith('ERR') else 'internal'] += 1
    ctx.extra['implementation_outcomes'] = stats

    phase['implementation'] = round(time.time() - t0, 1); t0 = time.time()
    model_parse = {}
    if built:
        # trivia view: every accepted input (the tree with the whitespace text attached to every node,
        # and the RawPrinter text)
        accepted = [c for c in modelable if impl_triv[c].startswith('OK:')]
        cases = [('parse', [c]) for c in modelable] + [('lex', [c]) for c in modelable] + [('trivia', [c]) for c in accepted]
        mo = ctx.run_model(cases, shards=NPROC)
        phase['model'] = round(time.time() - t0, 1); t0 = time.time()
        n = len(modelable)
        tstat = {'compared': len(accepted), 'model_pyerr': 0, 'with_comment': 0, 'with_continuation': 0, 'with_blank_line': 0,
                 'with_not_in': 0, 'leading_trivia': 0, 'trailing_trivia_no_newline': 0, 'printed_differs_from_input': 0,
                 'attached_whitespace_nodes': 0}
        for j, c in enumerate(accepted):
            mt = mo[2 * n + j]
            it = impl_triv[c]
            if mt == 'PYERR':
                tstat['model_pyerr'] += 1
            tstat['with_comment'] += '#' in c
            tstat['with_continuation'] += '\\\n' in c or '\\ ' in c
            tstat['with_blank_line'] += '\n\n' in c
            tstat['with_not_in'] += 'not' in c and 'in' in c
            tstat['leading_trivia'] += c[:1] in (' ', '\t', '#', '\n', '\\')
            tstat['trailing_trivia_no_newline'] += c[-1:] in (' ', '\t') or ('#' in c.rsplit('\n', 1)[-1])
            tstat['printed_differs_from_input'] += it.split('\x04', 1)[-1] != c
            tstat['attached_whitespace_nodes'] += it.count('\x02') // 2
            if it != mt and len(ctx.disagreements) < 100:
                ctx.disagreements.append({'fn': 'trivia', 'code': c, 'implementation': it[:600], 'model': mt[:600]})
        ctx.extra['trivia_view'] = tstat
        ctx.cov['trivia_views_validated_against_impl'] = len(accepted)
        fuel = 0
        for i, c in enumerate(modelable):
            model_parse[c] = mo[i]
            ctx.count(c)
            if mo[i] == 'FUEL':
                fuel += 1
            ip = impl_parse[c]
            if ip.startswith('DEPTH') and max_nesting(c) >= 60:
                # rejected at the interpreter's recursion limit with a located error (judged by the oracle below);
                # the model has no such resource bound
                ctx.cov['rejected_at_recursion_limit'] = ctx.cov.get('rejected_at_recursion_limit', 0) + 1
                continue
            if ip != mo[i]:
                if len(ctx.disagreements) < 100:
                    ctx.disagreements.append({'fn': 'parse', 'code': c, 'implementation': ip[:300], 'model': mo[i][:300]})
            il = impl_lex[c]
            if il != mo[n + i]:
                if len(ctx.disagreements) < 100:
                    ctx.disagreements.append({'fn': 'lex', 'code': c, 'implementation': il[:300], 'model': mo[n + i][:300]})
        ctx.extra['model_out_of_fuel'] = fuel
        if fuel:
            raise HarnessError('parser model ran out of fuel on %d inputs' % fuel)
        ctx.cov['traces_validated_against_impl'] = 2 * n
        small = [k for k in range(len(cases)) if len(cases[k][1][0]) < 200]
        rng.shuffle(small)
        small = small[:300]
        phase['compare'] = round(time.time() - t0, 1); t0 = time.time()
        ctx.kernel_crosscheck('Syntax.Entry', [cases[k] for k in small], [mo[k] for k in small], limit=300)
        phase['kernel_crosscheck'] = round(time.time() - t0, 1); t0 = time.time()
    for c in inputs[:2] + inputs[len(CORPUS) + 500:len(CORPUS) + 503] + inputs[-3:]:
        ctx.sample({'code': c[:200], 'implementation': impl_parse[c][:160]})

    # failing-input search: the property's clauses on the implementation
    for c in inputs:
        f = orc[c]
        if not f:
            continue
        ident = None
        if f['kind'] == 'internal-error' and f['exc'].startswith('RecursionError') and max_nesting(c) >= 60:
            ident = 'C02:internal-error:RecursionError:nesting>=60'
        elif f['kind'] == 'not-lossless' and built and c in model_parse and order_error(ctx, c):
            ident = 'C02:not-lossless:keyword-argument-before-positional'
        if ident is None:
            ident = 'C02:%s:%s' % (f['kind'], json.dumps(c))
        ctx.violation(ident, 'on input %s: %s' % (json.dumps(c[:120]), json.dumps(f)), {'code': c, 'failure': f})
    ctx.extra['phase_seconds'] = phase
    return ctx.finish(
        level='proof',
        trusted=['Coq 8.16.1 kernel (coqc, vm_compute; no native_compute)',
                 'extraction (ExtrOcamlBasic only) + OCaml + extract/driver.ml, cross-checked in-kernel on a sample each run',
                 'harness/check_C02.py generators, harness/impl/c02.py adapter (tree/token renderer, property clauses on the implementation)',
                 'modelled: mparser.py Lexer.lex, Parser (all of e1..e10, args, key_values, method/index calls, line, codeblock, if/foreach blocks), '
                 'node positions, the attachment of whitespace/comment/eol tokens to nodes (getsym/current_ws, create_node, pre_whitespaces, not-in, '
                 'end-of-block leftovers; coq/Syntax/Trivia.v) and RawPrinter/FullAstVisitor (coq/Syntax/RawPrint.v); not modelled (such inputs are only '
                 'judged by the direct clauses on the implementation, count in out_of_model): \\N{...} escapes, non-ASCII digits; testcase blocks are not generated'],
        assumptions=['Print Assumptions: property theorems closed under the global context'],
        rule='inputs: hand corpus, all token sequences up to the stated bound over the small alphabet (canonical spacing), random token soups '
             'with trivia, odd-token soups, grammar-directed programs with trivia and their mutants, repository build files and mutants; '
             'each is parsed and lexed by implementation and extracted model (tree, positions, error position compared), every accepted one '
             'also rendered as the trivia view (per node of the real tree: kind, whitespace text and position; RawPrinter output) and compared '
             'with the model, and each is judged by the property clauses; distinct = distinct input texts')


_order_cache = {}


def order_error(ctx, code):
    """True iff the model's tree of `code` has a positional argument after a keyword argument."""
    if code not in _order_cache:
        out = ctx.run_model([('order_error', [code])])[0]
        _order_cache[code] = (out == 'T')
    return _order_cache[code]
