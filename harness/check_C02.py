"""C02 — parsing is total, lossless and position-accurate.
Theorems: coq/Props/C02.v.  Model: coq/Syntax/{Lexer,Parser}.v.
Implementation: mesonbuild/mparser.py (Lexer, Parser), ast/printer.py (RawPrinter)."""
import itertools, json, os, glob
from common import *

# token alphabet for exhaustive / soup generation (canonical spacing added by the renderer)
TOKS = ['a', 'b', '1', "'s'", '(', ')', '[', ']', '{', '}', ',', ':', '.', '=', '+=', '+', '-', '*',
        '==', 'not', 'in', 'and', 'or', '?', '\n', 'if', 'elif', 'else', 'endif', 'foreach', 'endforeach',
        'true', 'continue', 'break', '<', '!=', '%', '/']
SMALL = ['a', '1', '(', ')', '[', ']', ',', ':', '.', '=', '+', 'not', 'in', 'and', '?', '\n', 'if', 'endif',
         "'s'", '-', '{', '}']
TRIVIA = [' ', '  ', '\t', ' # c', ' \\\n ', '']
ODD = ["'''m\nl'''", "f'x@y@'", "f'''a\nb'''", '0x1F', '0b101', '0o17', '0', '007', "'a\\'b'", "'\\x41\\n'",
       "'a\nb'", '"', '$', '\\', "'unterminated", '#cmt', '>=', '<=', '>', 'é', "'é€'", '\r', '@', '!', "''",
       '1a', 'a1', '_x', 'foreach', 'endforeach', 'elif', 'else', 'false', '0x', '0b2', "'''", "'\\U0001F600'",
       "'\\777'", '\\\n', '\\ # c\n', "f'''", '00', '1_0', '~', ';', '\ufeff']


def render(tokens, rng=None):
    out = []
    for i, t in enumerate(tokens):
        if i:
            out.append(' ' if rng is None else rng.choice(TRIVIA[:3]) if rng.random() < 0.8 else rng.choice(TRIVIA))
        out.append(t)
    return ''.join(out)


# ------------------------------------------------------------------ grammar-directed generator
# Programs are generated as token lists and rendered with context-aware trivia between EVERY
# pair of adjacent tokens (inside brackets: newlines, indentation, comments, continuations).
IN_TRIVIA = [' ', ' ', '', '  ', '\t', '\n', '\n    ', ' # c\n  ', ' \\\n  ', '\n\n', ' #\n', '\n# c\n']
OUT_TRIVIA = [' ', ' ', ' ', '', '  ', '\t', ' \\\n ', ' \\ # c\n']


def wordlike(t):
    return t[:1].isalnum() or t[:1] in "_'" or t[-1:].isalnum() or t[-1:] == "'"


def render_tokens(rng, toks, rich=0.35):
    out, depth = [], 0
    for i, t in enumerate(toks):
        if i:
            prev = toks[i - 1]
            if t == '\n' or prev == '\n':
                tr = rng.choice(['', '', ' ', '  ', ' # c']) if t == '\n' else rng.choice(['', '', '  ', '    ', '\t'])
            else:
                pool = IN_TRIVIA if depth > 0 else OUT_TRIVIA
                tr = rng.choice(pool) if rng.random() < rich else rng.choice([' ', ' ', ''])
                if tr == '' and wordlike(prev) and wordlike(t) and not (prev in '([{' or t in ')]},:.'):
                    tr = ' '
                if tr == '' and (prev + t in ('==', '+=', '!=', '<=', '>=') or (prev == '-' and t == '-')):
                    tr = ' '
            out.append(tr)
        out.append(t)
        if t in '([{' and len(t) == 1:
            depth += 1
        elif t in ')]}' and len(t) == 1:
            depth = max(0, depth - 1)
    return ''.join(out)


ATOMS = ['a', 'b', 'foo', '1', '42', "'s'", "'x y'", 'true', 'false', "'''ml'''", "f'@a@'", '0x10', "'''m\nl'''", "f'''a\nb'''"]


def g_expr(rng, d=0):
    k = rng.random()
    if d > 3 or k < 0.25:
        return [rng.choice(ATOMS)]
    if k < 0.35:
        return ['('] + g_expr(rng, d + 1) + [')']
    if k < 0.45:
        return ['['] + g_args(rng, d + 1, kw=False) + [']']
    if k < 0.5:
        out = ['{']
        for i in range(rng.randint(0, 2)):
            if i:
                out.append(',')
            out += g_expr(rng, d + 2) + [':'] + g_expr(rng, d + 2)
        return out + ['}']
    if k < 0.6:
        return [rng.choice(['f', 'g', 'files']), '('] + g_args(rng, d + 1) + [')']
    if k < 0.68:
        return g_expr(rng, d + 2) + ['.', rng.choice(['m', 'get']), '('] + g_args(rng, d + 1) + [')']
    if k < 0.73:
        return g_expr(rng, d + 2) + ['['] + g_expr(rng, d + 1) + [']']
    if k < 0.8:
        return [rng.choice(['not', '-'])] + g_expr(rng, d + 1)
    if k < 0.95:
        op = rng.choice([['+'], ['-'], ['*'], ['/'], ['%'], ['=='], ['!='], ['<'], ['<='], ['>'], ['>='], ['in'],
                         ['not', 'in'], ['not', 'in'], ['and'], ['or']])
        return g_expr(rng, d + 1) + op + g_expr(rng, d + 1)
    return g_expr(rng, d + 1) + ['?'] + g_expr(rng, d + 2) + [':'] + g_expr(rng, d + 2)


def g_args(rng, d, kw=True):
    n = rng.randint(0, 3)
    items = [g_expr(rng, d + 1) for _ in range(n)]
    if kw and rng.random() < 0.4:
        items += [[rng.choice(['k', 'kw', 'name']), ':'] + g_expr(rng, d + 1) for _ in range(rng.randint(1, 2))]
    if kw and rng.random() < 0.05:
        rng.shuffle(items)          # keyword before positional: accepted by the parser
    out = []
    for i, it in enumerate(items):
        if i:
            out.append(',')
        out += it
    if items and rng.random() < 0.15:
        out.append(',')
    return out


def g_stmt(rng, d=0):
    k = rng.random()
    if k < 0.4 or d > 2:
        return [rng.choice(['x', 'y', 'var']), rng.choice(['=', '+='])] + g_expr(rng)
    if k < 0.6:
        return g_expr(rng)
    if k < 0.8:
        s = ['if'] + g_expr(rng, 2) + ['\n'] + g_block(rng, d + 1)
        for _ in range(rng.randint(0, 2)):
            s += ['elif'] + g_expr(rng, 2) + ['\n'] + g_block(rng, d + 1)
        if rng.random() < 0.5:
            s += ['else', '\n'] + g_block(rng, d + 1)
        return s + ['endif']
    if k < 0.92:
        v = rng.choice([['i'], ['k', ',', 'v']])
        return ['foreach'] + v + [':'] + g_expr(rng, 2) + ['\n'] + g_block(rng, d + 1) + ['endforeach']
    return rng.choice([['continue'], ['break'], []])


def g_block(rng, d):
    out = []
    for _ in range(rng.randint(0, 3)):
        out += g_stmt(rng, d) + ['\n']
    return out


def g_program(rng):
    toks = []
    for _ in range(rng.randint(1, 5)):
        toks += g_stmt(rng) + ['\n']
        if rng.random() < 0.2:
            toks.append('\n')
    if rng.random() < 0.2 and toks:
        toks.pop()
    return render_tokens(rng, toks, rich=rng.choice([0.0, 0.2, 0.5, 0.9]))


def mutate(rng, s):
    if not s:
        return s
    for _ in range(rng.randint(1, 3)):
        i = rng.randrange(len(s) + 1)
        k = rng.random()
        if k < 0.35:
            s = s[:i] + s[i + 1:]
        elif k < 0.7:
            s = s[:i] + rng.choice(TOKS + ODD + [' ', '\n']) + s[i:]
        else:
            j = min(len(s), i + rng.randint(1, 6))
            s = s[:i] + s[j:]
    return s


def in_model(code):
    """Inputs whose behaviour depends on Unicode tables the model does not carry."""
    for ch in code:
        o = ord(ch)
        if o > 127 and ch.isdigit():
            return False
    if '\\N{' in code:
        return False
    return True


def corpus_files():
    fs = sorted(glob.glob(os.path.join(REPO, 'test cases', '*', '*', 'meson.build')) +
                glob.glob(os.path.join(REPO, 'test cases', '*', '*', '*', 'meson.build')) +
                glob.glob(os.path.join(REPO, 'test cases', '*', '*', '*', '*', 'meson.build')))
    fs += sorted(glob.glob(os.path.join(REPO, 'test cases', '*', '*', 'meson_options.txt')) +
                 glob.glob(os.path.join(REPO, 'test cases', '*', '*', 'meson.options')))
    return fs


CORPUS = ["(a not\n in b)", "(a not # c\n  in b)", "x = a not \\\n   in b", "[a not\n\n in\n b]", "x = a not\n", "foo(a not, b)\n", "if a not\nendif\n", "a not # c\n in b", "f(a: 1, b)\n", "f(a: 1, b, c: 2)\n",
          "x = 'a\nb'\ny = [1]\n", "foo('a\nb', [1])\n", "x = " + "1" * 4301 + "\n", "x = '\\U00110000'\n",
          "x = '\\\\U00110000'\n", "a.b\n", "x = 1.5\n", "\ufeffx=1\n", "x = [1,\n 2]\n", "foreach a,b : c\nendforeach",
          "x = f'''a\nb'''\ny=1", "not not a", "- - a", "a ? b : c ? d : e", "(a ? b : c) ? d : e", "a ? (b ? c : d) : e",
          "", "\n", "#c", "x", "x=", "=x", "f(,)", "f(a,,)", "f(a,)", "[,]", "{a}", "{a:1,}", "{:1}", "a.b().c[1].d()", "1.x()",
          "1.2", "f(a:1, a:2)", "x = a not in", "if a\nelse\nendif", "if a\nelif\nendif", "if\nendif", "foreach : c\nendforeach",
          "foreach a b : c\nendforeach", "continue x", "break\nbreak", "f(\n)", "f(a\n)", "(a\n+b)", "a\n+b", "x = '''a'''b'''",
          "x = ''''a'''", "'a' 'b'", "a = b = c", "a += b += c", "1 = 2", "a.b = 1", "f() = 1", "(a) = 1", "x = (", "x = )",
          "x = [", "x = ]", "x = {", "x = }", "if a\n", "endif", "else", "elif x", "endforeach", "x = a ?", "x = a ? b", "x = a ? b :",
          "x = : b", "a and", "and a", "a or", "or a", "not", "-", "a -", "a +", "a *", "* a", "a < b < c", "a == b == c",
          "a in b in c", "a not in b not in c", "x = y \\\n + z", "x = y \\ # c\n + z", "x = y \\ z", "x = y \\", "f(a) (b)", "f(a)[0](b)",
          "x = [a, b,\n# c\n c]\n", "x = {\n 'a' : 1,\n}\n", "x = -1", "x = - 1", "x = not true", "x = not(true)", "f(-a, not b)",
          "x = 0x", "x = 0b2", "x = 0o8", "x = 09", "x = 1_000", "x = 'a\\", "x = 'a\\'", "x = 'a\\\n'", "x = f'a'", "x = f 'a'",
          "x = f'''a'''", "x = f''''''", "x = ''''''", "x = '''''''", "x = ''", "x = '''a''", "\r\n", "x = 1\r\ny = 2\r\n", "\t\tx = 1",
          "x = 1 # c", "# c\nx = 1", "x = 1\n# c", "x = 1\n  # c\n", "if a # c\n x = 1 # d\nendif # e\n", "a.\nb()", "a\n.b()", "(a\n.b())",
          "f(a, b : c, d)", "f(a : b : c)", "f(1 : 2)", "f('k' : 2)", "{'k' : 2, k : 3, 1 : 4}", "{a : b, c}", "[a : b]", "x = [1, 2,]", "x = (1, 2)",
          "x = a[1", "x = a[1]]", "x = a.b(", "x = a.b)", "x = a.1()", "x = a.'s'()", "x = a.b", "x = a.b c", "x = 'a'.format()", "x = [1][0]",
          "x = {}['a']", "x = (1)[0]", "x = f()()", "foreach i : [1]\nif i\ncontinue\nendif\nendforeach", "if a\nif b\nendif\nendif", "if a\nforeach\nendif"]


def replay(ctx):
    rec = json.load(open(ctx.replay))
    r = rec['replay']
    code = r['code']
    print('input:', json.dumps(code))
    res = run_impl('c02.py', {'cases': [['parse', [code]], ['lex', [code]]], 'oracle': [code]})
    print('implementation parse:', res['results'][0][:400])
    print('property clauses on the implementation:', res['oracle'][0])
    if ctx.build('Props/C02.v', 'Syntax/Extract.v', 'C02'):
        print('model parse         :', ctx.run_model([('parse', [code])])[0][:400])
    return 0


def classify_known(code, fail):
    """Stable identifiers for the recorded findings (known_findings.json)."""
    if fail['kind'] == 'internal-error' and fail['exc'].startswith('RecursionError'):
        depth = max_nesting(code)
        if depth >= 60:
            return 'C02:internal-error:RecursionError:nesting>=60'
    if fail['kind'] == 'not-lossless' and kwarg_before_positional(code):
        return 'C02:not-lossless:keyword-argument-before-positional'
    return None


def max_nesting(code):
    d = m = 0
    for ch in code:
        if ch in '([{':
            d += 1; m = max(m, d)
        elif ch in ')]}':
            d -= 1
    # unary/postfix chains also recurse
    return max(m, code.count('.') // 2, code.count('not ') + code.count('-'))


def kwarg_before_positional(code):
    # decided by the model: the parse is accepted and some argument list has a positional
    # argument after a keyword argument (order_error); recomputed by the check from the model's tree
    return None


def run(ctx):
    if ctx.replay:
        return replay(ctx)
    rng = ctx.rng
    thorough = ctx.tier == 'thorough'
    built = ctx.build('Props/C02.v', 'Syntax/Extract.v', 'C02')
    inputs = []
    src = {}

    def add(code, kind):
        inputs.append(code)
        src[kind] = src.get(kind, 0) + 1
    for c in CORPUS:
        add(c, 'corpus')
    add('x = ' + '(' * 200 + '1' + ')' * 200 + '\n', 'corpus')
    # exhaustive token sequences with canonical spacing
    L = 4 if thorough else 3
    alpha = SMALL
    for n in range(1, L + 1):
        for t in itertools.product(alpha, repeat=n):
            add(render(t), 'exhaustive')
    ctx.extra['exhaustive_bound'] = {'alphabet': len(alpha), 'max_len': L}
    # every ordered pair of tokens with every kind of trivia between them, inside brackets and outside
    PT = [t for t in TOKS if t != '\n']
    for t1 in PT:
        for t2 in PT:
            for tr in IN_TRIVIA[3:]:
                add('(a ' + t1 + tr + t2 + ' b)', 'pair-trivia')
            if thorough or rng.random() < 0.3:
                for tr in OUT_TRIVIA[3:]:
                    add('x = a ' + t1 + tr + t2 + ' b', 'pair-trivia')
    # longer sampled sequences / soups
    for _ in range(60000 if thorough else 6000):
        n = rng.randint(4, 9)
        add(render([rng.choice(TOKS) for _ in range(n)], rng), 'soup')
    for _ in range(30000 if thorough else 3000):
        n = rng.randint(1, 8)
        add(render([rng.choice(TOKS + ODD) for _ in range(n)], rng), 'odd-soup')
    # grammar-directed programs and their mutants
    for _ in range(30000 if thorough else 4000):
        p = g_program(rng)
        add(p, 'program')
        if rng.random() < 0.6:
            add(mutate(rng, p), 'mutant')
    # repository build files and mutants
    files = corpus_files()
    if not thorough:
        files = rng.sample(files, min(300, len(files)))
    nfile = 0
    for f in files:
        try:
            txt = open(f, encoding='utf-8').read()
        except Exception:
            continue
        if len(txt) > 6000:
            continue
        nfile += 1
        add(txt, 'repo-file')
        for _ in range(3 if thorough else 1):
            add(mutate(rng, txt), 'repo-file-mutant')
    ctx.extra['input_kinds'] = src
    inputs = list(dict.fromkeys(inputs))
    modelable = [c for c in inputs if in_model(c)]
    ctx.extra['out_of_model'] = len(inputs) - len(modelable)

    # implementation: parse + lex renderings, and the property's clauses
    CH = 4000
    chunks = [inputs[i:i + CH] for i in range(0, len(inputs), CH)]

    def work(ch):
        return run_impl('c02.py', {'cases': [['parse', [c]] for c in ch] + [['lex', [c]] for c in ch], 'oracle': ch})
    outs = pmap(work, chunks)
    impl_parse, impl_lex, orc = {}, {}, {}
    for ch, o in zip(chunks, outs):
        n = len(ch)
        for i, c in enumerate(ch):
            impl_parse[c] = o['results'][i]
            impl_lex[c] = o['results'][n + i]
            orc[c] = o['oracle'][i]
    stats = {'accepted': 0, 'rejected': 0, 'internal': 0}
    for c in inputs:
        r = impl_parse[c]
        stats['accepted' if r.startswith('OK') else 'rejected' if r.startswith('ERR') else 'internal'] += 1
    ctx.extra['implementation_outcomes'] = stats

    model_parse = {}
    if built:
        cases = [('parse', [c]) for c in modelable] + [('lex', [c]) for c in modelable]
        mo = ctx.run_model(cases, shards=NPROC)
        n = len(modelable)
        fuel = 0
        for i, c in enumerate(modelable):
            model_parse[c] = mo[i]
            ctx.count(c)
            if mo[i] == 'FUEL':
                fuel += 1
            ip = impl_parse[c]
            if ip.startswith('DEPTH') and max_nesting(c) >= 60:
                # rejected at the interpreter's recursion limit with a located error (judged by the oracle below);
                # the model has no such resource bound
                ctx.cov['rejected_at_recursion_limit'] = ctx.cov.get('rejected_at_recursion_limit', 0) + 1
                continue
            if ip != mo[i]:
                if len(ctx.disagreements) < 100:
                    ctx.disagreements.append({'fn': 'parse', 'code': c, 'implementation': ip[:300], 'model': mo[i][:300]})
            il = impl_lex[c]
            if il != mo[n + i]:
                if len(ctx.disagreements) < 100:
                    ctx.disagreements.append({'fn': 'lex', 'code': c, 'implementation': il[:300], 'model': mo[n + i][:300]})
        ctx.extra['model_out_of_fuel'] = fuel
        if fuel:
            raise HarnessError('parser model ran out of fuel on %d inputs' % fuel)
        ctx.cov['traces_validated_against_impl'] = 2 * n
        small = [k for k in range(len(cases)) if len(cases[k][1][0]) < 200]
        rng.shuffle(small)
        small = small[:300]
        ctx.kernel_crosscheck('Syntax.Entry', [cases[k] for k in small], [mo[k] for k in small], limit=300)
    for c in inputs[:2] + inputs[len(CORPUS) + 500:len(CORPUS) + 503] + inputs[-3:]:
        ctx.sample({'code': c[:200], 'implementation': impl_parse[c][:160]})

    # failing-input search: the property's clauses on the implementation
    for c in inputs:
        f = orc[c]
        if not f:
            continue
        ident = None
        if f['kind'] == 'internal-error' and f['exc'].startswith('RecursionError') and max_nesting(c) >= 60:
            ident = 'C02:internal-error:RecursionError:nesting>=60'
        elif f['kind'] == 'not-lossless' and built and c in model_parse and order_error(ctx, c):
            ident = 'C02:not-lossless:keyword-argument-before-positional'
        if ident is None:
            ident = 'C02:%s:%s' % (f['kind'], json.dumps(c))
        ctx.violation(ident, 'on input %s: %s' % (json.dumps(c[:120]), json.dumps(f)), {'code': c, 'failure': f})
    return ctx.finish(
        level='proof',
        trusted=['Coq 8.16.1 kernel (coqc, vm_compute; no native_compute)',
                 'extraction (ExtrOcamlBasic only) + OCaml + extract/driver.ml, cross-checked in-kernel on a sample each run',
                 'harness/check_C02.py generators, harness/impl/c02.py adapter (tree/token renderer, property clauses on the implementation)',
                 'modelled: mparser.py Lexer.lex, Parser (all of e1..e10, args, key_values, method/index calls, line, codeblock, if/foreach blocks), '
                 'node positions; not modelled: attachment of whitespace/comment tokens to nodes and FullAstVisitor order (covered by the direct '
                 'RawPrinter(parse(s)) == s test on the implementation), \\N{...} escapes, non-ASCII digits, testcase blocks'],
        assumptions=['Print Assumptions: property theorems closed under the global context'],
        rule='inputs: hand corpus, all token sequences up to the stated bound over the small alphabet (canonical spacing), random token soups '
             'with trivia, odd-token soups, grammar-directed programs with trivia and their mutants, repository build files and mutants; '
             'each is parsed and lexed by implementation and extracted model (tree, positions, error position compared) and judged by the '
             'property clauses; distinct = distinct input texts')


_order_cache = {}


def order_error(ctx, code):
    """True iff the model's tree of `code` has a positional argument after a keyword argument."""
    if code not in _order_cache:
        out = ctx.run_model([('order_error', [code])])[0]
        _order_cache[code] = (out == 'T')
    return _order_cache[code]
