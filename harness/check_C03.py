"""C03 — commands receive exactly the arguments the build definition specifies.
Theorems: coq/Props/C03.v.  Model: coq/Quote/{Sh,Ninja,Rsp,Rule}.v, reference decoders and
execution semantics: coq/Quote/Spec.v.  Implementation: mesonbuild/backend/ninjabackend.py
(ninja_quote, gcc_rsp_quote, NinjaRule, NinjaBuildElement.write), backends.py
(as_meson_exe_cmdline, escape_extra_args, eval_custom_target_command), utils/universal.py
(quote_arg), scripts/meson_exe.py, mtest.py.

Streams:
  A  in-process encoders vs the extracted model (corpus, random, small exhaustive)
  B  the reference decoders vs the real thing: sh_tokens vs /bin/sh, gcc_rsp_args vs gcc @file
  C  in-process oracle: real encoders -> reference/real decoders must give back the input
  D  end-to-end CLI: generated projects, build.ninja decoded by the extracted ninja_eval, commands
     run by /bin/sh with a recording dumper, tests run by `meson test`
"""
import itertools, json, os, re, stat, subprocess, sys, time
from common import *
import c03_e2e as E2E

SEP1, SEP2, MARK = '\x01', '\x02', '\x03'

# the 20-symbol metacharacter alphabet of the exhaustive enumeration
META20 = [' ', "'", '"', '\\', '$', '#', ';', '&', ':', '*', '\n', '\r', '`', '|', '>', '~', '=', '{', 'a', '-']
META = [' ', ' ', "'", "'", '"', '"', '\\', '\\', '$', '$', '#', ';', '&', '&', '|', '*', '?', '<', '>', '(', ')',
        '`', '!', '~', '{', '}', '[', ']', ':', '=', '%', '@', ',', '\t', '-', '/', '.', '^', '+']
CTRL = ['\n', '\r', '\t', '\x0b', '\x0c', '\x1b', '\x7f', '\x08', '\x04']
PLAIN = list('abXz09_') + ['D', '-', '/']
NONASCII = ['é', '€', '\u00a0', '\u2028', '😀', 'ß', '\u0085']
CORPUS_ARGS = ['', ' ', 'a b', "it's", '"', "'", "''", '\\', '\\\\', 'a\\b', '$', '$$', '$x', '${x}', '$ ', '$\n', 'a:b', '#', ';', '&&', '&', '& &',
               '&&&', ' && ', '*', '?', '~', '`id`', '$(id)', 'a\nb', 'a\rb', '\n', '\r', '\r\n', 'é', '€ 😀', '-DFOO="a b\\n"', '-DX=\\', '/DY=a\\b',
               '-D', '-d\\', "-DS='q'", 'x=y', '@OUTPUT@', '--', '--capture', '--unpickle', '-h', '>', '<', '|', '!', '{', '}', '()', 'a\tb', "'\"'\"'",
               '"\'"', "\\'", '\\"', '\\$', 'C:\\path\\to', '%PATH%', '^', 'a  b', ' a', 'a ', "a'b'c", '$out', '$in', '$DESC', '${DESC}', '$ARGS']


def gen_arg(rng, nl=True, maxlen=9):
    """A hostile argument string.  nl=False: no newline / carriage return."""
    k = rng.random()
    if k < 0.12:
        s = rng.choice(CORPUS_ARGS)
    elif k < 0.2:
        s = rng.choice(['-D', '/D', '-DN=', '-I']) + gen_arg(rng, nl, 5)
    else:
        n = rng.choice([0, 1, 1, 2, 2, 3, 3, 4, 5, 6, maxlen])
        cs = []
        for _ in range(n):
            r = rng.random()
            if r < 0.5:
                cs.append(rng.choice(META))
            elif r < 0.8:
                cs.append(rng.choice(PLAIN))
            elif r < 0.9:
                cs.append(rng.choice(CTRL))
            else:
                cs.append(rng.choice(NONASCII))
        s = ''.join(cs)
    if not nl:
        s = s.replace('\n', 'n').replace('\r', 'r')
    return s


def gen_list(rng, nl=True, lo=0, hi=5):
    return [gen_arg(rng, nl) for _ in range(rng.randint(lo, hi))]


def exhaustive_strings(symbols, maxlen):
    out = ['']
    for n in range(1, maxlen + 1):
        for t in itertools.product(symbols, repeat=n):
            out.append(''.join(t))
    return out


def untlist(s):
    return s.split(SEP2)[:-1] if s else []


# ------------------------------------------------------------------ exe (as_meson_exe_cmdline) cases
def gen_exe_case(rng):
    flags = ('T' if rng.random() < 0.8 else 'F') + ('T' if rng.random() < 0.1 else 'F') + ('T' if rng.random() < 0.9 else 'F')
    opt = lambda p, f: ('S' + f()) if rng.random() < p else ''
    wd = opt(0.12, lambda: rng.choice(['/w d', 'sub', '']))
    cap = opt(0.25, lambda: rng.choice(['out.txt', 'o u t', '']))
    feed = opt(0.15, lambda: rng.choice(['in.txt', 'i$n']))
    ec = rng.choice([['/usr/bin/prog'], ['/p/python3', '/s/script.py'], ['/b/my prog'], ['prog']])
    ar = gen_list(rng, nl=(rng.random() < 0.25))
    ev = []
    if rng.random() < 0.5:
        for _ in range(rng.randint(1, 3)):
            ev += [rng.choice(['K', 'MV_A', 'MV_B', 'PATH']), gen_arg(rng, nl=(rng.random() < 0.25))]
    bc = rng.choice([['/venv/bin/python', '/repo/meson.py'], ['/usr/bin/meson'], ['/o dd/py thon', '/m$/meson.py']])
    return ('exe', [flags, wd, cap, feed, 'DATAFILE'] + ec + [MARK] + ar + [MARK] + ev + [MARK] + bc)


CORPUS_EXE = [
    ('exe', ['TFT', '', '', '', 'DATAFILE', '/p', MARK, 'a b', MARK, MARK, '/m']),
    ('exe', ['TFT', '', '', '', 'DATAFILE', '/p', MARK, 'a\nb', MARK, MARK, '/m']),
    ('exe', ['TFT', '', '', '', 'DATAFILE', '/p', MARK, 'a\rb', MARK, MARK, '/m']),
    ('exe', ['TFT', '', '', '', 'DATAFILE', '/p', MARK, 'a', MARK, 'K', 'v w', MARK, '/m']),
    ('exe', ['TFT', '', '', '', 'DATAFILE', '/p', MARK, 'a', MARK, 'K', 'l1\nl2', MARK, '/m']),
    ('exe', ['TFT', '', '', '', 'DATAFILE', '/p', MARK, 'a', MARK, 'K', 'l1\rl2', MARK, '/m']),
    ('exe', ['TFT', '', 'Sout', '', 'DATAFILE', '/p', MARK, '--', '--capture', 'x', MARK, MARK, '/m']),
    ('exe', ['TFT', '', 'Sout', 'Sin', 'DATAFILE', '/p', MARK, '-h', MARK, MARK, '/m']),
    ('exe', ['TFT', '', 'Sout', '', 'DATAFILE', '/p', MARK, 'a', MARK, 'K', 'v', MARK, '/m']),
    ('exe', ['TFT', 'S/wd', '', '', 'DATAFILE', '/p', MARK, 'a', MARK, MARK, '/m']),
    ('exe', ['FFT', '', '', '', 'DATAFILE', '/p', MARK, 'a', MARK, 'K', 'v', MARK, '/m']),
    ('exe', ['TTT', '', '', '', 'DATAFILE', '/p', MARK, 'a', MARK, MARK, '/m']),
    ('exe', ['TFF', '', '', '', 'DATAFILE', '/p', MARK, 'a', MARK, 'K', 'v', MARK, '/m']),
    ('exe', ['TFT', '', '', '', 'DATAFILE', '/p', MARK, 'a', MARK, 'K', 'v', 'K', 'w', 'L', 'x', MARK, '/m']),
]


# ------------------------------------------------------------------ rule cases
def gen_rule_case(rng):
    def item():
        k = rng.random()
        if k < 0.35:
            return 'S' + rng.choice(['$ARGS', '$in', '$out', '$LINK_ARGS', '$DEPFILE', '${ARGS}', '$DESC', '${description}', '$pool', '$DEPFILE_UNQUOTED', '$', '${', '$x y', '&&', '$COMMAND'])
        if k < 0.7:
            return 'S' + rng.choice(['cc', '-o', '-c', '-MD', '/usr/bin/my cc', 'rm', '-f']) if rng.random() < 0.6 else 'S' + gen_arg(rng, nl=(rng.random() < 0.05)).lstrip('$')
        return rng.choice('BHNX') + rng.choice(['$out', '-o', '$DEPFILE', 'a b', '$in', "q'", 'x$y'])
    c = [item() for _ in range(rng.randint(1, 4))]
    a = [item() for _ in range(rng.randint(0, 5))]
    return ('rule', c + [MARK] + a)


TMPL_VOCAB = ['@INPUT@', '@OUTPUT@', '@INPUT0@', '@INPUT1@', '@INPUT2@', '@OUTPUT0@', '@OUTPUT1@', '@OUTPUT3@', '@OUTDIR@', '@PLAINNAME@', '@BASENAME@',
              'x@INPUT@y', '@INPUT@@OUTPUT@', '@@INPUT@', '@INPUT', '@INPUT0@@INPUT9@', '@OUTPUT@/@PLAINNAME@', '@BASENAME@.c', '@INPUT12@', '@', '@@',
              'a@b', '-o@OUTPUT@', '--in=@INPUT0@', '@OUTDIR@/x\\y', '@PLAINNAME0@', '@BASENAME1@', '@OUTPUT@@OUTPUT@', '@INPUT@ @INPUT@', '@OUTPUT0',
              '@SOURCE_ROOT@', '@BUILD_ROOT@/@OUTPUT@', 'a@CURRENT_SOURCE_DIR@b', '@SOURCE_ROOT@@SOURCE_ROOT@', '@BUILD_ROOT', '@SOURCE_ROOT@\\x']
FILES_IN = ['a.c', 'sub/b.x.in', 'we ird$.txt', '../s/gin.txt', 'noext', '.hidden', 'd.ir/f', "q'.c", 'b\\s.c']
FILES_OUT = ['o.out', 'sub/o2.h', 'o ut.c', 'x', '@INPUT@.o']


def gen_tmpl_cmd(rng):
    n = rng.randint(0, 5)
    k = rng.random()
    def one():
        r = rng.random()
        if k >= 0.2 and r < 0.3:
            return rng.choice(TMPL_VOCAB)
        if k >= 0.2 and r < 0.6:
            return gen_tmpl_adversarial(rng)
        return gen_arg(rng)
    return [one() for _ in range(n)]


TMPL_KEYS = ['@INPUT@', '@OUTPUT@', '@INPUT0@', '@INPUT1@', '@OUTPUT0@', '@OUTPUT1@', '@OUTDIR@', '@PLAINNAME@', '@BASENAME@', '@PLAINNAME0@', '@BASENAME0@',
             '@SOURCE_ROOT@', '@BUILD_ROOT@', '@CURRENT_SOURCE_DIR@']
TMPL_NEIGH = ['@', '@X', '@X@', '@@', '@HOST@', '@HOST', 'X@', '0', '12', 'x', 'ab', 'X', '@INPUT', 'INPUT@', '@OUT', 'OUTPUT@', '@9@', '@x@', '@Xx@', '@X9@', '@X9', '-', '/', '=', ' ',
              'owner@HOST', '--tag=@X']


def gen_tmpl_adversarial(rng):
    """One argument: real template keys with hostile neighbours - a preceding / following @, @X, @X@,
    digits, lower case, another key sharing an @, keys that are prefixes of each other, at either end."""
    k = rng.random()
    key = rng.choice(TMPL_KEYS)
    if k < 0.15:
        return rng.choice(TMPL_NEIGH) + key
    if k < 0.3:
        return key + rng.choice(TMPL_NEIGH)
    if k < 0.45:
        other = rng.choice(TMPL_KEYS)
        return key[:-1] + other if rng.random() < 0.5 else key + other          # sharing the @ / adjacent
    if k < 0.55:
        return rng.choice(TMPL_NEIGH) + key + rng.choice(TMPL_NEIGH)
    parts = [rng.choice(TMPL_KEYS) if rng.random() < 0.45 else rng.choice(TMPL_NEIGH) for _ in range(rng.randint(2, 5))]
    return ''.join(parts)


def gen_io(rng):
    return (rng.sample(FILES_IN, rng.choice([0, 1, 1, 1, 2, 3])), rng.sample(FILES_OUT, rng.choice([0, 1, 1, 2])))


def gen_path(rng):
    k = rng.random()
    if k < 0.5:
        return rng.choice(['a.o', 'e.p/e.c.o', 'sub dir/x', 'C:\\x\\y', 'a:b', '$out', 'a$b', 'q|r', 'we ird', 'é/€', 'x\\', '#', "it's"])
    return gen_arg(rng, nl=(rng.random() < 0.05), maxlen=6)


def gen_bline(rng):
    pl = lambda lo, hi: [gen_path(rng) for _ in range(rng.randint(lo, hi))]
    us = lambda l: sorted(set(l))
    return ('bline', [rng.choice(['R', 'CUSTOM_COMMAND', 'c_COMPILER', 'phony'])] + pl(1, 2) + [MARK] + pl(0, 1) + [MARK] + pl(0, 3)
            + [MARK] + us(pl(0, 2)) + [MARK] + us(pl(0, 2)))


ELEM_NAMES = ['ARGS', 'LINK_ARGS', 'COMMAND', 'DESC', 'description', 'pool', 'DEPFILE_UNQUOTED', 'targetdep', 'dyndep', 'DEPFILE', 'desc', 'Pool']


def replay(ctx):
    rec = json.load(open(ctx.replay))
    if 'replay' not in rec:          # a '...-broken.json': re-run the disagreeing cases
        for d in rec.get('correspondence_disagreements', [])[:20]:
            if d['case'][0] in ('tables', 'shq', 'nq', 'rspq', 'elems', 'rule', 'esc', 'exe'):
                res = run_impl('c03.py', {'cases': [d['case']]})
                print(json.dumps(d['case'])[:300], '\n  implementation:', repr(res['results'][0])[:300], '\n  model (recorded):', repr(d['model'])[:300])
            else:
                print(json.dumps(d)[:600])
        print('broken obligations:', json.dumps(rec.get('broken_obligations', []))[:1500])
        return 0
    r = rec['replay']
    print('replaying', json.dumps(r)[:2000])
    if 'case' in r:
        res = run_impl('c03.py', {'cases': [r['case']]})
        print('implementation:', repr(res['results'][0]))
        if ctx.build('Props/C03.v', 'Quote/Extract.v', 'C03'):
            print('model         :', repr(ctx.run_model([tuple(r['case'])])[0]))
    if 'oracle_exe' in r:
        res = run_impl('c03.py', {'oracle_exe': [r['oracle_exe']]})
        print('property clauses failing on the implementation:', json.dumps(res['oracle_exe'], indent=1))
    if 'oracle_esc' in r:
        res = run_impl('c03.py', {'oracle_esc': [r['oracle_esc']]})
        print('property clauses failing on the implementation:', json.dumps(res['oracle_esc'], indent=1))
    if 'roundtrip' in r:
        ctx.build('Props/C03.v', 'Quote/Extract.v', 'C03')
        tools = E2E.Tools(ctx)
        fails = roundtrip_oracle(ctx, tools, [r['roundtrip']])
        print('property clauses failing on the implementation:', json.dumps(fails, indent=1))
    if 'project' in r:
        ctx.build('Props/C03.v', 'Quote/Extract.v', 'C03')
        tools = E2E.Tools(ctx)
        res, _st = E2E.run_projects(ctx, tools, [r['project']], bisect=False)
        print('end-to-end failures:', json.dumps(res, indent=1, default=str)[:6000])
    ctx.cleanup()
    return 0


# ------------------------------------------------------------------ stream C: real encoders -> decoders
def roundtrip_oracle(ctx, tools, lists):
    """For each argument list L (entries {'mode': 'S'|'R', 'args': [...]}) : the REAL
    NinjaBuildElement.write line, evaluated by the reference ninja evaluator, split by the REAL
    /bin/sh (mode S) or read by the reference gcc response-file reader (mode R), must give L back
    (an element that is exactly && being an operator in mode S).  Lists containing a newline or CR
    must be rejected by the writer (they cannot be represented; custom commands never get there)."""
    fails = []
    cases = [('elems', [l['mode'], 'COMMAND' if l['mode'] == 'S' else 'ARGS'] + l['args']) for l in lists]
    lines = run_impl('c03.py', {'cases': cases})['results']
    ok_idx = []
    for i, (l, line) in enumerate(zip(lists, lines)):
        bad = any('\n' in a or '\r' in a for a in l['args'])
        if line.startswith('EXC:'):
            if not bad or line != 'EXC:MesonException':
                fails.append({'kind': 'writer_rejects', 'list': l, 'got': line})
            continue
        if bad:
            fails.append({'kind': 'unrepresentable_accepted', 'list': l, 'line': line[1:]})
            continue
        ok_idx.append(i)
    ev = ctx.run_model([('neval', [lines[i][1:]]) for i in ok_idx])
    sh_jobs, sh_map = [], []
    rsp_cases, rsp_map = [], []
    for i, e in zip(ok_idx, ev):
        l = lists[i]
        if not e.startswith('O'):
            fails.append({'kind': 'ninja_cannot_evaluate', 'list': l, 'line': lines[i][1:]})
            continue
        if l['mode'] == 'S':
            if grammatical(['D'] + l['args']):
                sh_jobs.append(e[1:])
                sh_map.append(i)
        else:
            rsp_cases.append(('rspargs', [e[1:]]))
            rsp_map.append(i)
    # mode S: the real shell.  The command line is "<dumper> <value>"; after an && element the next
    # element is the command name, so expected records are computed from L directly.
    got = tools.sh_split_many(sh_jobs)
    for i, g in zip(sh_map, got):
        l = lists[i]
        want = expected_sh_records(l['args'])
        if g != want:
            fails.append({'kind': 'sh_argv_differs', 'list': l, 'line': lines[i][1:], 'got': g, 'want': want})
    for i, r in zip(rsp_map, ctx.run_model(rsp_cases)):
        l = lists[i]
        if untlist(r) != l['args']:
            fails.append({'kind': 'rsp_argv_differs', 'list': l, 'line': lines[i][1:], 'got': untlist(r)})
    return fails


def grammatical(args):
    """`args` (command name first) is an AND-list the check can observe: every && has a
    non-empty command on both sides (otherwise the shell reports a syntax error) and every
    command after the first is the dumper marker @D@ (any other word would be run as a program
    or shell builtin of that name - `:`, `w`, `[` ... - with effects the check cannot predict)."""
    seg, first = [], True
    for a in list(args) + ['&&']:
        if a == '&&':
            if not seg:
                return False
            if not first and seg[0] != '@D@':
                return False
            seg, first = [], False
        else:
            seg.append(a)
    return True


def expected_sh_records(args):
    """What `DUMPER a1 a2 ...` runs when an element equal to && splits the list: the first
    simple command is the dumper with the words before the first &&; the following simple
    commands are only observed when their first word is the dumper marker @D@."""
    cmds, cur = [], []
    for a in args:
        if a == '&&':
            cmds.append(cur)
            cur = []
        else:
            cur.append(a)
    cmds.append(cur)
    recs = [cmds[0]]
    for c in cmds[1:]:
        if c[:1] == ['@D@']:
            recs.append(c[1:])
        else:
            break                 # a command that is not the dumper: the AND-list stops (not found)
    return recs


def run(ctx):
    if ctx.replay:
        return replay(ctx)
    rng = ctx.rng
    thorough = ctx.tier == 'thorough'
    built = ctx.build('Props/C03.v', 'Quote/Extract.v', 'C03')
    tools = E2E.Tools(ctx)
    timing = {}
    found = []        # (class, ident, what, replay): reported round-robin by class at the end

    def report_all():
        by = {}
        for f in found:
            by.setdefault(f[0], []).append(f)
        k = 0
        while any(by.values()):
            for cls in list(by):
                if by[cls]:
                    _c, ident, what, rep = by[cls].pop(0)
                    ctx.violation(ident, what, rep)
            k += 1
            if k > 6:
                break

    # ================================================================ stream A
    t = time.time()
    cases = [('tables', [])]
    for s in CORPUS_ARGS:
        cases += [('shq', [s]), ('nq', ['F', s]), ('nq', ['T', s]), ('rspq', [s])]
    cases += [('elems', ['S', 'COMMAND'] + CORPUS_ARGS[:12]), ('elems', ['R', 'ARGS'] + CORPUS_ARGS[:12]),
              ('elems', ['S', 'COMMAND', 'a', '&&', 'b c']), ('elems', ['S', 'DESC', 'a b', '$x']),
              ('elems', ['S', 'ARGS']), ('esc', ['-DA=\\', '/DB=\\\\', '-I\\', 'x\\', '-D']),
              ('rule', ['Scc', MARK, 'S$ARGS', 'X-o', 'X$out', 'S-c', 'S$in']),
              ('rule', ['S/usr/bin/my cc', 'S&&', 'S$DESC', MARK, 'S${description}', 'S$LINK_ARGS'])]
    cases += CORPUS_EXE
    ncorpus = len(cases)
    nrand = 1500000 if thorough else 40000
    for _ in range(nrand):
        k = rng.random()
        if k < 0.25:
            cases.append(('shq', [gen_arg(rng)]))
        elif k < 0.45:
            cases.append(('nq', [rng.choice('TF'), gen_arg(rng, nl=(rng.random() < 0.2))]))
        elif k < 0.55:
            cases.append(('rspq', [gen_arg(rng)]))
        elif k < 0.75:
            cases.append(('elems', [rng.choice('SSR'), rng.choice(ELEM_NAMES)] + gen_list(rng, nl=(rng.random() < 0.1), hi=6)))
        elif k < 0.83:
            cases.append(gen_rule_case(rng))
        elif k < 0.9:
            cases.append(('esc', gen_list(rng, hi=6)))
        else:
            cases.append(gen_exe_case(rng))
    # build lines, @TEMPLATE@ substitution, eval_custom_target_command, test command lines
    scratch = ctx.mkscratch()
    ios = [([], []), (['a.c'], ['o.out']), (['a.c', 'sub/b.x.in'], ['o.out', 'sub/o2.h'])] + [gen_io(rng) for _ in range(60)]
    tds = run_impl('c03.py', {'tdicts': ios, 'scratch': scratch})['tdicts']
    ent = lambda k, v: SEP2.join([k, 'S', v]) if isinstance(v, str) else SEP2.join([k, 'L'] + list(v))
    odd_dicts = [[], [ent('@X@', '@Y@'), ent('@Y@', 'z')], [ent('@INPUT@', ['i 1']), ent('@INPUT0@', '@INPUT0@@OUTPUT@'), ent('@OUTPUT@', ['o', 'p'])],
                 [ent('@OUTPUT@', ['@INPUT@']), ent('@OUTPUT0@', 'a@OUTDIR@'), ent('@OUTDIR@', '.')]]

    def tmpl_case(kind):
        j = rng.randrange(len(ios))
        cmd = gen_tmpl_cmd(rng)
        if kind == 'subst':
            d = rng.choice(odd_dicts) if rng.random() < 0.1 else tds[j]
            return ('subst', cmd + [MARK] + d)
        sub = rng.choice(['', '', 'sub', 'a b'])
        return ('evalcmd', ['..', '.', os.path.join('..', sub)] + cmd + [MARK] + tds[j] + [MARK] + ios[j][0] + [MARK] + ios[j][1] + [MARK, sub])
    cases += [('subst', ['@INPUT@', 'x@OUTPUT@y', '@PLAINNAME@', 'a\\b', MARK] + tds[1]), ('subst', ['@INPUT@', '@OUTPUT1@', MARK] + tds[2]),
              ('subst', ['@BASENAME@', MARK] + tds[2]), ('subst', ['@INPUT5@', MARK] + tds[1]), ('subst', ['x@INPUT@', MARK] + tds[2]),
              ('subst', ['@OUTPUT@', MARK] + tds[0]), ('subst', ['a', 'b c', MARK]),
              ('evalcmd', ['..', '.', '../sub', '@SOURCE_ROOT@/x', '@BUILD_ROOT@', '@CURRENT_SOURCE_DIR@\\f', '@OUTPUT@', 'C:\\a', MARK] + tds[1]
               + [MARK, 'a.c', MARK, 'o.out', MARK, 'sub']),
              ('bline', ['R', 'a b', 'c:d', MARK, 'i$m', MARK, 'x\\y', 'in', MARK, 'd1', MARK, 'o1', 'o2']),
              ('bline', ['R', 'o', MARK, MARK, MARK, MARK]), ('bline', ['R', 'a|b', MARK, MARK, 'in', MARK, MARK]),
              ('testcmd', [MARK, '/p/t', MARK, 'a b', '', '$x', MARK]), ('testcmd', ['wrap', '-x', MARK, '/py', 's.py', MARK, 'a\nb', MARK, 'extra'])]
    for _ in range(nrand // 10):
        cases.append(gen_bline(rng))
        cases.append(tmpl_case('subst'))
        cases.append(tmpl_case('evalcmd'))
    for _ in range(nrand // 60):
        cases.append(('testcmd', gen_list(rng, hi=2) + [MARK] + rng.choice([['/p/t'], ['/py', '/s/t.py']]) + [MARK] + gen_list(rng, hi=4) + [MARK] + gen_list(rng, hi=2)))
    # small exhaustive enumeration: every argument made of up to 5 (thorough: 6) symbols of
    # { @, INPUT, OUTPUT, 0, X, x } against a one-file and a two-file dictionary, plus the real keys in every
    # neighbourhood of TMPL_NEIGH (before, after, both)
    tsym = ['@', 'INPUT', 'OUTPUT', '0', 'X', 'x']
    tex = exhaustive_strings(tsym, 6 if thorough else 5)
    for w in tex:
        cases.append(('subst', [w, MARK] + tds[1]))
        if thorough or len(w) <= 12:
            cases.append(('subst', [w, MARK] + tds[2]))
    for key in TMPL_KEYS:
        for nb in TMPL_NEIGH:
            for w in (nb + key, key + nb, nb + key + nb, key[:-1] + nb if nb.startswith('@') else key + nb + key):
                cases.append(('subst', [w, MARK] + tds[1]))
                cases.append(('evalcmd', ['..', '.', '../sub', w, MARK] + tds[2] + [MARK] + ios[2][0] + [MARK] + ios[2][1] + [MARK, 'sub']))
    ctx.extra['exhaustive_templates'] = {'alphabet': tsym, 'maxlen': 6 if thorough else 5, 'count': len(tex)}
    ex = exhaustive_strings(META20, 3)
    ctx.extra['exhaustive'] = True
    ctx.extra['exhaustive_strings'] = {'alphabet': META20, 'maxlen': 3, 'count': len(ex), 'functions': ['shq', 'nq F', 'nq T', 'rspq']}
    for s in ex:
        cases += [('shq', [s]), ('nq', ['F', s]), ('nq', ['T', s]), ('rspq', [s])]
    if thorough:
        ex4 = exhaustive_strings(META20[:12], 4)
        ctx.extra['exhaustive_strings']['len4_over_12_symbols'] = len(ex4)
        for s in ex4:
            cases += [('shq', [s]), ('rspq', [s])]

    impl = []
    CH = 100000
    for i in range(0, len(cases), CH):
        impl += run_impl('c03.py', {'cases': cases[i:i + CH], 'scratch': scratch})['results']
    model = ctx.run_model(cases) if built else impl
    dist = {}
    for (fn, args), ri, rm in zip(cases, impl, model):
        ctx.count((fn, tuple(args)), nontrivial=True)
        dist[fn] = dist.get(fn, 0) + 1
        if ri != rm and len(ctx.disagreements) < 200:
            ctx.disagreements.append({'case': [fn, args], 'implementation': ri, 'model': rm})
    ctx.cov['traces_validated_against_impl'] = len(cases)
    ctx.extra['inprocess_case_distribution'] = dist
    ctx.extra['inprocess_error_results'] = sum(1 for r in impl if r.startswith('EXC:'))
    for s in cases[1:3] + cases[ncorpus + 3:ncorpus + 8]:
        ctx.sample({'fn': s[0], 'args': s[1]})
    if built:
        ctx.kernel_crosscheck('Quote.Entry', cases[:ncorpus + 3000], model[:ncorpus + 3000], limit=300)
    timing['A_inprocess'] = round(time.time() - t, 1)

    # a disagreement whose observable is itself what the property fixes is a failing input
    for d in ctx.disagreements[:40]:
        fn, args = d['case']
        if fn in ('shq', 'rspq', 'nq', 'elems'):
            mode = 'R' if (fn == 'rspq' or (fn == 'elems' and args[0] == 'R')) else 'S'
            al = args[2:] if fn == 'elems' else [args[-1]]
            for f in (roundtrip_oracle(ctx, tools, [{'mode': mode, 'args': al}]) if built else []):
                found.append(('roundtrip:' + f['kind'], 'C03:roundtrip:%s:%s' % (f['kind'], json.dumps(f['list'], sort_keys=True)),
                              'quoting round trip fails on the implementation: %s' % json.dumps(f)[:600],
                              {'roundtrip': f['list'], 'failure': f}))

    # for these functions the model's answer is what the theorems of Props/C03.v are about and the observable
    # is the argument list itself: a disagreement is a concrete failing input
    nmodel = 0
    for d in ctx.disagreements:
        fn, args = d['case']
        if fn in ('subst', 'evalcmd', 'bline', 'testcmd', 'rule') and nmodel < 6:
            nmodel += 1
            found.append(('model:' + fn, 'C03:model:%s:%s' % (fn, json.dumps(args)),
                          '%s: the implementation answers %s where the proven model answers %s for %s'
                          % (fn, json.dumps(d['implementation'])[:250], json.dumps(d['model'])[:250], json.dumps(args)[:400]), {'case': [fn, args]}))

    # ================================================================ stream B: decoders vs the real thing
    if built:
        t = time.time()
        nb = 60000 if thorough else 4000
        shs = []
        for s in CORPUS_ARGS:
            shs.append(s)
        for _ in range(nb):
            k = rng.random()
            if k < 0.4:      # what the encoders produce
                shs.append(' '.join(tools.pyquote(a) for a in gen_list(rng, hi=4)))
            elif k < 0.7:    # free text over the shell alphabet
                shs.append(''.join(rng.choice([' ', "'", '"', '\\', 'a', 'b', '$', '`', '\n', '\t', '&', ';', 'é', '=', '-', '!', '#', '*'])
                                   for _ in range(rng.randint(0, 8))))
            else:
                shs.append(' '.join(rng.choice(["'a b'", '"x\'y"', '"a\\"b"', '"a\\$b"', '"a\\b"', '\\ ', 'a\\"b', "''", '""', 'w', "'\"'", '"\\\\"', "'\n'", '"\\\n"', '\t', '&&', '@D@', "a'b'\"c\"d"])
                                    for _ in range(rng.randint(0, 5))))
        for s in exhaustive_strings([' ', "'", '"', '\\', 'a', '&'], 5 if thorough else 4):
            shs.append(s)
        res = ctx.run_model([('shtok', [s]) for s in shs])
        jobs, want = [], []
        nunsup = nungram = 0
        for s, r in zip(shs, res):
            ctx.count(('shtok', s))
            if not r.startswith('O'):
                nunsup += 1
                continue
            toks = untlist(r[1:])
            args = ['&&' if tk == 'A' else tk[1:] for tk in toks]
            # an && must be followed by the dumper marker to be observable; otherwise only the first command is
            if any(tk.startswith('W') and tk[1:] == '&&' for tk in toks):
                continue                          # a quoted && word: cannot be told from the operator in `args`
            if not grammatical(['D'] + args):
                nungram += 1                      # `a &&` / `&& a`: a grammar error of the AND-list, beyond tokenisation
                continue
            jobs.append(s)
            want.append(expected_sh_records(args))
        got = tools.sh_split_many(jobs)
        nshbad = 0
        for s, g, w in zip(jobs, got, want):
            if g != w:
                nshbad += 1
                if len(ctx.disagreements) < 200:
                    ctx.disagreements.append({'case': ['shtok-vs-/bin/sh', [s]], 'implementation': g, 'model': w})
        ctx.extra['sh_tokens_validated_against_bin_sh'] = {'strings': len(shs), 'in_fragment_and_run': len(jobs), 'outside_fragment': nunsup, 'ungrammatical_and_list': nungram, 'mismatches': nshbad}
        # gcc @file
        ng = 1200 if thorough else 150
        contents = []
        for _ in range(ng):
            toks = []
            for _ in range(rng.randint(0, 6)):
                body = ''.join(rng.choice(['a', 'b', ' ', "'", '"', '\\', '\\\\', "\\'", '$', 'é', '#', '\t', ';', "'\"'\"'"]) for _ in range(rng.randint(0, 6)))
                toks.append('/nonexistent/' + body)
            contents.append(rng.choice([' ', '  ', '\t', '\n', ' \n ']).join(toks))
        contents += [' '.join(tools.rspquote('/nonexistent/' + a) for a in gen_list(rng, nl=False, hi=5)) for _ in range(ng)]
        contents += ['', ' ', ' \n', "''", "'' ''", '/nonexistent/a\\', "/nonexistent/'a", '"/nonexistent/a']
        mres = ctx.run_model([('rspargs', [c]) for c in contents])
        gres = tools.gcc_args_many(contents)
        ngbad = nskip = 0
        for c, m, g in zip(contents, mres, gres):
            ctx.count(('rspargs', c))
            ml = untlist(m)
            if g is None or any('\n' in a for a in ml):
                nskip += 1
                continue
            if ml != g:
                ngbad += 1
                if len(ctx.disagreements) < 200:
                    ctx.disagreements.append({'case': ['rspargs-vs-gcc', [c]], 'implementation': g, 'model': ml})
        ctx.extra['gcc_rsp_args_validated_against_gcc'] = {'contents': len(contents), 'skipped': nskip, 'mismatches': ngbad}
        timing['B_decoders'] = round(time.time() - t, 1)

    # ================================================================ stream C: in-process oracle
    t = time.time()
    nc = 20000 if thorough else 2500
    lists = [{'mode': 'S', 'args': [a]} for a in CORPUS_ARGS] + [{'mode': 'R', 'args': [a]} for a in CORPUS_ARGS]
    lists += [{'mode': 'S', 'args': ['a b', '&&', '@D@', 'c', "d'e"]}, {'mode': 'S', 'args': ['x', '&&', '@D@', '&&', '@D@', '$y']},
              {'mode': 'S', 'args': []}, {'mode': 'R', 'args': []}, {'mode': 'R', 'args': ['a', '&&', 'b']}]
    for _ in range(nc):
        nl = rng.random() < 0.04
        l = gen_list(rng, nl=nl, hi=6)
        if rng.random() < 0.1 and l:
            l.insert(rng.randint(0, len(l)), '&&')
            if rng.random() < 0.7:
                l.insert(l.index('&&') + 1, '@D@')
        lists.append({'mode': rng.choice('SSR'), 'args': l})
    for s in exhaustive_strings(META20, 2):
        lists.append({'mode': 'S', 'args': ['x', s]})
        lists.append({'mode': 'R', 'args': [s, 'y']})
    if built:
        for f in roundtrip_oracle(ctx, tools, lists):
            found.append(('roundtrip:' + f['kind'], 'C03:roundtrip:%s:%s' % (f['kind'], json.dumps(f['list'], sort_keys=True)),
                          'quoting round trip fails on the implementation: %s' % json.dumps(f)[:600],
                          {'roundtrip': f['list'], 'failure': f}))
    for l in lists:
        ctx.count(('rt', l['mode'], tuple(l['args'])))
    # build lines: the REAL first line of a build statement, read by the reference path-mode decoder,
    # must give back every name list (backslashes -> /, the established build-line rewrite)
    if built:
        bl = [gen_bline(rng)[1] for _ in range(8000 if thorough else 1200)]
        bl += [['R', 'a b', 'c:d', MARK, 'i$m', MARK, 'x\\y', 'in', MARK, 'd1', MARK, 'o1', 'o2'], ['R', 'o', MARK, MARK, MARK, MARK]]
        lines = run_impl('c03.py', {'cases': [('bline', a) for a in bl], 'scratch': scratch})['results']

        def sections(a):
            secs, cur = [], []
            for x in a[1:]:
                if x == MARK:
                    secs.append(cur)
                    cur = []
                else:
                    cur.append(x)
            secs.append(cur)
            return secs
        okl = []
        for a, ln in zip(bl, lines):
            names = [x for sec in sections(a) for x in sec]
            unrep = any('\n' in x or '\r' in x or '|' in x for x in names)
            if ln.startswith('EXC:'):
                if not unrep or ln != 'EXC:MesonException':
                    found.append(('bline:writer_rejects', 'C03:bline:%s' % json.dumps(a), 'build line rejected: %s -> %s' % (json.dumps(a)[:300], ln), {'case': ['bline', a]}))
                continue
            if unrep:
                found.append(('bline:unrepresentable_accepted', 'C03:bline:%s' % json.dumps(a), 'a name ninja cannot read on a build line was written: %s' % json.dumps(a)[:300], {'case': ['bline', a]}))
                continue
            if any(x == '' for x in names):
                continue                              # an empty name vanishes from the line: not an argument position
            okl.append((a, ln[1:]))
        dec = E2E.decode_build_lines(ctx, [ln for _a, ln in okl])
        for (a, ln), d in zip(okl, dec):
            secs = sections(a)
            want = dict(zip(('outs', 'implicit', 'ins', 'deps', 'orderdeps'), [[x.replace('\\', '/') for x in sec] for sec in secs]))
            want['rule'] = a[0]
            ctx.count(('obline', tuple(a)))
            if d != want:
                found.append(('bline:decodes_other', 'C03:bline:%s' % json.dumps(a), 'build line %r is read by ninja as %s, specified %s' % (ln, json.dumps(d), json.dumps(want)),
                              {'case': ['bline', a], 'decoded': d, 'want': want}))
        ctx.extra['oracle_build_lines'] = {'lines': len(bl), 'decoded': len(okl)}
    # rule commands: the REAL NinjaRule command string / rspfile_content, expanded by the reference ninja
    # evaluator in a statement environment and split by the REAL shell (resp. read by the reference @file
    # reader), must be the rule's words with each $VAR replaced by the variable's words
    if built:
        venv = {'ARGS': ("-DA='a b' -O2 '$x'", ['-DA=a b', '-O2', '$x']), 'LINK_ARGS': ('', []), 'in': ("x.c 'y z.c'", ['x.c', 'y z.c']),
                'out': ('x.o', ['x.o']), 'DEPFILE': ("'d f.d'", ['d f.d'])}
        flat = []
        for k, (v, _w) in venv.items():
            flat += [k, v]
        rl = []
        for _ in range(4000 if thorough else 500):
            def it():
                if rng.random() < 0.4:
                    return 'S$' + rng.choice(list(venv))
                a = gen_arg(rng, nl=False)
                return 'S' + (a if not a.startswith('$') and a != '&&' else 'w' + a)
            rl.append([it() for _ in range(rng.randint(1, 3))] + [MARK] + [it() for _ in range(rng.randint(0, 4))])
        rres = run_impl('c03.py', {'cases': [('rule', a) for a in rl], 'scratch': scratch})['results']
        ev_cases, ev_idx = [], []
        for i, (a, r) in enumerate(zip(rl, rres)):
            f = r.split(SEP1)
            if len(f) != 3 or not all(x.startswith('O') for x in f):
                found.append(('rule:rejected', 'C03:rule:%s' % json.dumps(a), 'NinjaRule rejects a representable command: %s -> %s' % (json.dumps(a)[:300], r[:100]), {'case': ['rule', a]}))
                continue
            ev_cases += [('neval', [f[0][1:]] + flat), ('nrsp', [f[2][1:]] + flat)]
            ev_idx.append(i)
        evr = ctx.run_model(ev_cases)
        words = lambda items: sum((venv[x[2:]][1] if x.startswith('S$') else [x[1:]] for x in items), [])
        shj, shi = [], []
        for n, i in enumerate(ev_idx):
            a = rl[i]
            k = a.index(MARK)
            cmdr, rspr = evr[2 * n], evr[2 * n + 1]
            ctx.count(('orule', tuple(a)))
            if not cmdr.startswith('O') or not rspr.startswith('O'):
                found.append(('rule:ninja_cannot_evaluate', 'C03:rule:%s' % json.dumps(a), 'rule command not evaluable by ninja: %s' % json.dumps(a)[:300], {'case': ['rule', a]}))
                continue
            # rspfile_content holds the args part only; $in/$ARGS values above are shell-quoted text, which the
            # @file reader reads the same way for these values (no backslashes)
            if untlist(rspr[1:]) != words(a[k + 1:]):
                found.append(('rule:rsp_args_differ', 'C03:rule:%s' % json.dumps(a), 'rspfile_content of %s is read as %s, specified %s'
                              % (json.dumps(a)[:300], json.dumps(untlist(rspr[1:]))[:300], json.dumps(words(a[k + 1:]))[:300]), {'case': ['rule', a]}))
            shj.append(cmdr[1:])
            shi.append(i)
        # the first word of the command is a rule word, not the dumper: run it as arguments of the dumper
        for i, g in zip(shi, tools.sh_split_many(shj)):
            a = rl[i]
            want = words([x for x in a if x != MARK])
            if g != [want]:
                found.append(('rule:sh_argv_differs', 'C03:rule:%s' % json.dumps(a), 'rule command of %s reaches the process as %s, specified %s'
                              % (json.dumps(a)[:300], json.dumps(g)[:300], json.dumps(want)[:300]), {'case': ['rule', a]}))
        ctx.extra['oracle_rules'] = {'rules': len(rl), 'run': len(shj)}
    # @TEMPLATE@ clause on the REAL eval_custom_target_command: strings without @ only get the backslash
    # rewrite, an element that is exactly @INPUT@ / @OUTPUT@ becomes the file list, nothing else moves
    tcases = []
    for _ in range(6000 if thorough else 1000):
        j = rng.randrange(len(ios))
        cmd = [rng.choice(['@INPUT@', '@OUTPUT@']) if rng.random() < 0.2 else gen_arg(rng).replace('@', 'a') for _ in range(rng.randint(0, 5))]
        if ('@INPUT@' in cmd and not ios[j][0]) or ('@OUTPUT@' in cmd and not ios[j][1]):
            continue
        sub = rng.choice(['', 'sub'])
        tcases.append((cmd, ios[j], ('evalcmd', ['..', '.', os.path.join('..', sub)] + cmd + [MARK] + tds[j] + [MARK] + ios[j][0] + [MARK] + ios[j][1] + [MARK, sub])))
    tres = run_impl('c03.py', {'cases': [c for _a, _b, c in tcases], 'scratch': scratch})['results']
    for (cmd, io, case), r in zip(tcases, tres):
        want = []
        for a in cmd:
            want += io[0] if a == '@INPUT@' else io[1] if a == '@OUTPUT@' else [a]
        want = [x.replace('\\', '/') for x in want]
        got = untlist(r[1:]) if r.startswith('O') else r
        ctx.count(('otmpl', tuple(case[1])))
        if got != want:
            found.append(('tmpl', 'C03:tmpl:%s' % json.dumps(case[1]), 'eval_custom_target_command rewrites more than the established rewrites: %s -> %s, expected %s'
                          % (json.dumps(cmd)[:300], json.dumps(got)[:300], json.dumps(want)[:300]), {'case': list(case)}))
    # second template clause, on embedded placeholders in hostile neighbourhoods: after the REAL substitution no
    # template key of the dictionary remains in any argument (the values used here contain neither @ nor capitals,
    # so a key in the result can only be a placeholder that was not substituted)
    kcases = []
    clean = [j for j in range(len(ios)) if not any('@' in f or f.lower() != f for f in ios[j][0] + ios[j][1]) and ios[j][0] and ios[j][1]]
    fixed_words = ['owner@HOST@INPUT@', '--tag=@X@OUTPUT@', '@X@OUTDIR@', '@INPUT@OUTPUT@', '@OUTPUT0@INPUT@', '@A@INPUT0@', 'x@Y@@OUTPUT@', '@HOST@PLAINNAME@']
    for n in range(8000 if thorough else 1500):
        j = rng.choice(clean)
        w = fixed_words[n] if n < len(fixed_words) else gen_tmpl_adversarial(rng)
        if n < len(fixed_words):
            j = 1
        if rng.random() < 0.5 or n < len(fixed_words):
            kcases.append((j, ('subst', [w, MARK] + tds[j])))
        else:
            kcases.append((j, ('evalcmd', ['..', '.', '../sub', w, MARK] + tds[j] + [MARK] + ios[j][0] + [MARK] + ios[j][1] + [MARK, 'sub'])))
    kres = run_impl('c03.py', {'cases': [c for _j, c in kcases], 'scratch': scratch})['results']
    nk = 0
    for (j, case), r in zip(kcases, kres):
        ctx.count(('okey', tuple(case[1])))
        if not r.startswith('O'):
            continue
        nk += 1
        keys = [e.split(SEP2)[0] for e in tds[j]] + (['@SOURCE_ROOT@', '@BUILD_ROOT@', '@CURRENT_SOURCE_DIR@'] if case[0] == 'evalcmd' else [])
        left = [(k, a) for a in untlist(r[1:]) for k in keys if k in a]
        if left:
            word = case[1][0] if case[0] == 'subst' else case[1][3]
            found.append(('tmpl:key_left', 'C03:tmpl-key-left:%s' % json.dumps(case[1]), 'placeholder %s of the argument %s is not substituted: %s gives %s'
                          % (left[0][0], json.dumps(word), case[0], json.dumps(untlist(r[1:]))[:300]), {'case': list(case)}))
    ctx.extra['oracle_templates'] = {'exact_and_plain': len(tcases), 'embedded_hostile': len(kcases), 'substituted_without_error': nk}
    exe_cases = [c[1] for c in CORPUS_EXE] + [gen_exe_case(rng)[1] for _ in range(6000 if thorough else 1500)]
    esc_cases = [['-DA=\\', '/DB=\\\\', '-I\\', 'x\\', '-D']] + [gen_list(rng, hi=6) for _ in range(3000 if thorough else 600)]
    res = run_impl('c03.py', {'oracle_exe': exe_cases, 'oracle_esc': esc_cases, 'scratch': scratch})
    for f in res['oracle_exe']:
        cls = f['kind']
        a = f['args']
        # stable identifiers of the two fixed-pending defects: which position carries which character
        found.append(('exe:' + cls, 'C03:exe:%s:%s' % (cls, json.dumps(a)),
                      'as_meson_exe_cmdline breaks the property (%s): %s' % (cls, json.dumps(f)[:700]),
                      {'oracle_exe': a, 'failure': f}))
    for f in res['oracle_esc']:
        found.append(('esc', 'C03:esc:%s' % json.dumps(f['args']), 'escape_extra_args breaks the -D rule: %s' % json.dumps(f)[:500],
                      {'oracle_esc': f['args'], 'failure': f}))
    for a in exe_cases:
        ctx.count(('oexe', tuple(a)))
    ctx.extra['oracle_inprocess'] = {'roundtrip_lists': len(lists), 'exe_cases': len(exe_cases), 'esc_cases': len(esc_cases)}
    timing['C_oracle'] = round(time.time() - t, 1)

    # ================================================================ stream D: end to end
    if built:
        t = time.time()
        E2E.stream(ctx, tools, thorough, found)
        timing['D_end_to_end'] = round(time.time() - t, 1)
    report_all()
    ctx.extra['timing_s'] = timing
    ctx.extra['failing_inputs_found'] = len(found)
    ctx.extra['disagreement_examples'] = ctx.disagreements[:12]

    return ctx.finish(
        level='proof',
        trusted=['Coq 8.16.1 kernel (coqc, vm_compute; no native_compute)',
                 'extraction with ExtrOcamlBasic directives only + OCaml + extract/driver.ml (cross-checked in-kernel on a sample each run)',
                 'harness/check_C03.py + harness/c03_e2e.py generators, build.ninja statement splitter, dumper program; harness/impl/c03.py adapter',
                 'reference semantics of ninja variable evaluation (coq/Quote/Ninja.v neval; written from the ninja lexer/manual; no ninja binary in the sandbox)',
                 'reference semantics of POSIX sh word splitting (validated against /bin/sh each run) and of libiberty buildargv (validated against gcc @file each run)',
                 'pickle round trip of ExecutableSerialisation / TestSerialisation and subprocess.Popen(argv) deliver argv unchanged (observed end to end, not modelled)'],
        assumptions=['Print Assumptions: all property theorems closed under the global context (no axioms)',
                     'POSIX branch only (quote_func = shlex.quote, GCC response-file syntax); Windows cmd_quote / MSVC rsp not modelled',
                     'NUL and the wire separators U+0001..U+0003 are never generated; lone surrogates are never generated'],
        rule='A: seeded hostile strings (shell/ninja metacharacters, control characters incl. newline/CR, non-ASCII) and lists of them, rule '
             'items, wrapping-decision inputs; each case is run through the real encoder and the extracted Coq model and compared; plus all '
             'strings of length <= 3 over a 20-symbol metacharacter alphabet.  B: decoder strings run through the extracted decoder and the '
             'real /bin/sh resp. gcc @file.  C: argument lists pushed through the real writer, the reference ninja evaluator and the real '
             'shell, compared with the input.  D: generated meson projects (see end_to_end in this file).  distinct = distinct inputs.')
