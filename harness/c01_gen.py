"""Generators for the C01 check (see harness/check_C01.py).

* ProgGen: a type-directed generator of core-language programs (all operators, methods, control
  forms, literal spellings, subdir()/subproject() files) that message()s every intermediate value
  with a tag:   message('#<tag>', value, '$')
  Operand nesting respects the documented precedence ladder when emitting text (minimal
  parentheses plus random redundant ones), so the grouping the parser must find is exercised.
* error statements (ill-typed / erroneous variants) injected at a random point of a valid program.
* typing_table(): every binary operator x operand-type pair, every unary operator x type.
* corpus(): hand-picked corner cases (run first).
* laws(): programs with expectations computed HERE in Python from the inputs (no model): the
  property's clauses evaluated on the implementation's answers by harness/impl/c01.py.
"""
import itertools

# characters allowed in generated string data ('#', '$' and '|' are reserved for the message
# framing; '"' would be a lexer error)
SAFE = 'abcxyzABZ019 _-.,:/@%+=()[]{}<>!?*&^~;'


def b36(n):
    d = '0123456789abcdefghijklmnopqrstuvwxyz'
    s = ''
    while True:
        s = d[n % 36] + s
        n //= 36
        if n == 0:
            return s


class E:
    """an expression text with the level of its outermost operator on the precedence ladder
    (1 ternary, 2 or, 3 and, 4 comparison, 5 + -, 6 * / %, 7 unary, 8 postfix/atom), whether it
    contains a ternary, and an upper bound of the size of its value (digits / characters /
    elements) so that generated programs cannot grow values without bound"""
    __slots__ = ('s', 'lvl', 'tern', 'sz')

    def __init__(self, s, lvl, tern=False, sz=4):
        self.s, self.lvl, self.tern, self.sz = s, lvl, tern, sz

    def at(self, lvl):
        return self.s if self.lvl >= lvl else '(' + self.s + ')'


VAR_LIMIT = 260       # largest value size kept in a variable
EXPR_LIMIT = 900      # largest value size of any generated expression
TQ = "'" * 3


class ProgGen:
    def __init__(self, rng, max_depth=4):
        self.rng = rng
        self.max_depth = max_depth
        self.tag = 0
        self.nvar = 0
        self.files = {}
        self.nsub = 0
        self.nsp = 0
        self.sp_files = {}        # build files of subprojects: always under the root's subprojects/
        self.sp_counter = [0]     # shared by nested generators: subproject names are global
        self.sp_depth = 0
        self.err = None           # pending error statement to inject (text lines) or None
        self.err_done = False
        self.err_p = 0

    # ------------------------------------------------------------ helpers
    def r(self):
        return self.rng.random()

    def pick(self, xs):
        return self.rng.choice(xs)

    def newtag(self):
        self.tag += 1
        return b36(self.tag)

    def fresh(self, prefix='v'):
        self.nvar += 1
        return '%s%d' % (prefix, self.nvar)

    def vars_of(self, env, ty, elem=None):
        return [n for n, t in env.items() if t[0] == ty and (elem is None or t[1] == elem)]

    def var(self, env, name):
        return E(name, 8, False, env[name][2])

    def maybe_paren(self, e):
        if self.r() < 0.08:
            return E('(' + e.s + ')', 8, e.tern, e.sz)
        return e

    # ------------------------------------------------------------ literals
    def str_data(self, maxlen=6):
        n = self.rng.randint(0, maxlen)
        return ''.join(self.pick(SAFE) for _ in range(n))

    def plain(self, maxlen=3):
        return self.str_data(maxlen).replace("'", '').replace('\\', '')

    def str_lit(self, data=None):
        """a spelling of a string literal; returns E"""
        if data is None:
            if self.r() < 0.1:
                # an escape-rich literal in the quoted or the triple-quoted form
                body = ''.join(self.pick(ESC_ASCII + ['a', ' ', 'Z']) for _ in range(self.rng.randint(1, 4)))
                if self.r() < 0.5:
                    return E("'" + body + "'", 8, False, len(body) + 2)
                if body.endswith("'"):
                    body += 'z'
                return E(TQ + body + TQ, 8, False, len(body) + 2)
            data = self.str_data()
        k = self.r()
        if k < 0.12 and TQ not in data and not data.endswith("'") and '\\' not in data:
            return E(TQ + data + TQ, 8, False, len(data) + 1)
        out = []
        for c in data:
            if c == "'":
                out.append("\\'")
            elif c == '\\':
                out.append('\\\\')
            elif c == '\n':
                out.append('\\n')
            elif c == '\t':
                out.append('\\t')
            elif self.r() < 0.04:
                out.append(self.pick(['\\x%02x' % ord(c), '\\u%04x' % ord(c), '\\%o' % ord(c) if ord(c) > 63 else c]))
            else:
                out.append(c)
        if self.r() < 0.06:
            out.insert(self.rng.randint(0, len(out)), self.pick(['\\n', '\\t', "\\'", '\\\\', '\\q', '\\x41', '\\101', '\\u00e9']))
        return E("'" + ''.join(out) + "'", 8, False, len(data) + 3)

    def int_lit(self):
        k = self.r()
        if k < 0.55:
            v = self.rng.randint(0, 12)
        elif k < 0.8:
            v = self.rng.randint(0, 1000)
        elif k < 0.9:
            v = self.rng.randint(0, 2 ** 70)
        else:
            v = self.rng.randint(0, 255)
            return E(self.pick([lambda x: '0x%x' % x, lambda x: '0X%X' % x, lambda x: '0o%o' % x,
                                lambda x: '0b' + bin(x)[2:], lambda x: '0O%o' % x])(v), 8, False, 3)
        return E(str(v), 8, False, len(str(v)))

    def nonzero_int(self, env, d):
        k = self.r()
        if k < 0.6:
            v = self.rng.randint(1, 9)
            return E(str(v), 8, False, 1) if self.r() < 0.8 else E('-%d' % v, 7, False, 1)
        e = self.gen_int(env, d + 1)
        return E('(%s * 2 + 1)' % e.at(6), 8, e.tern, e.sz + 1)

    # ------------------------------------------------------------ expressions by type
    def ternary(self, env, d, gen):
        c = self.gen_bool(env, d + 1, no_tern=True)
        a = gen(env, d + 1, no_tern=True)
        b = gen(env, d + 1, no_tern=True)
        return E('%s ? %s : %s' % (c.at(2), a.at(2), b.at(2)), 1, True, max(a.sz, b.sz))

    def gen(self, ty, env, d=0, no_tern=False, elem=None, novars=False):
        if novars:
            env = {}
        if ty == 'int':
            e = self.gen_int(env, d, no_tern)
        elif ty == 'bool':
            e = self.gen_bool(env, d, no_tern)
        elif ty == 'str':
            e = self.gen_str(env, d, no_tern)
        elif ty == 'arr':
            elem = elem or self.pick(['int', 'str', 'bool'])
            e = self.gen_arr(env, d, no_tern, elem)
        elif ty == 'dict':
            elem = elem or self.pick(['int', 'str'])
            e = self.gen_dict(env, d, no_tern, elem)
        else:
            raise ValueError(ty)
        if e.sz > EXPR_LIMIT and not novars:
            return self.gen(ty, env, self.max_depth + 5, True, elem, novars=True)
        return e

    def gen_int(self, env, d=0, no_tern=False):
        vs = self.vars_of(env, 'int')
        if d >= self.max_depth or self.r() < 0.3:
            if vs and self.r() < 0.5:
                return self.var(env, self.pick(vs))
            return self.int_lit()
        k = self.rng.randint(0, 15)
        nt = no_tern
        if k <= 2:
            op = self.pick(['+', '-'])
            a, b = self.gen_int(env, d + 1, nt), self.gen_int(env, d + 1, nt)
            return self.maybe_paren(E('%s %s %s' % (a.at(5), op, b.at(6)), 5, a.tern or b.tern, max(a.sz, b.sz) + 1))
        if k == 3:
            a, b = self.gen_int(env, d + 1, nt), self.gen_int(env, d + 1, nt)
            return self.maybe_paren(E('%s * %s' % (a.at(6), b.at(7)), 6, a.tern or b.tern, a.sz + b.sz))
        if k == 4:
            op = self.pick(['/', '%'])
            a, b = self.gen_int(env, d + 1, nt), self.nonzero_int(env, d)
            return self.maybe_paren(E('%s %s %s' % (a.at(6), op, b.at(7)), 6, a.tern or b.tern, max(a.sz, b.sz)))
        if k == 5:
            a = self.gen_int(env, d + 1, nt)
            return E('-' + a.at(8), 7, a.tern, a.sz)
        if k == 6 and not nt:
            return self.ternary(env, d, self.gen_int)
        if k == 7:
            a = self.gen_arr(env, d + 1, nt, self.pick(['int', 'str', 'bool']))
            return E(a.at(8) + '.length()', 8, a.tern, 4)
        if k == 8:
            a = self.gen_bool(env, d + 1, nt)
            return E(a.at(8) + '.to_int()', 8, a.tern, 1)
        if k == 9:
            v = self.rng.randint(-50, 5000)
            sp = self.pick(['%d', ' %d ', '%d\\n', '0x%x', '0b%s', '0o%o', '00%d'])
            if sp in ('0x%x', '0o%o'):
                txt = sp % abs(v)
            elif sp == '0b%s':
                txt = '0b' + bin(abs(v))[2:]
            elif sp == '00%d':
                txt = '00%d' % abs(v)
            else:
                txt = sp % v
            return E("'%s'.to_int()" % txt, 8, False, 5)
        if k == 10:
            n = self.rng.randint(1, 4)
            items = [self.gen_int(env, d + 2, True) for _ in range(n)]
            i = self.rng.randint(-n, n - 1)
            return E('[%s][%d]' % (', '.join(x.at(2) for x in items), i), 8, True, max(x.sz for x in items))
        if k == 11:
            a = self.gen_arr(env, d + 1, True, 'int')
            i = self.rng.randint(-3, 3)
            dflt = self.gen_int(env, d + 2, True)
            return E('%s.get(%d, %s)' % (a.at(8), i, dflt.at(2)), 8, True, max(a.sz, dflt.sz))
        if k == 12:
            a = self.gen_dict(env, d + 1, True, 'int')
            dflt = self.gen_int(env, d + 2, True)
            return E("%s.get('%s', %s)" % (a.at(8), self.pick(['a', 'b', 'k', 'zz']), dflt.at(2)), 8, True, max(a.sz, dflt.sz))
        if k == 13 and vs:
            n = self.pick(vs)
            return E("get_variable('%s')" % n, 8, False, env[n][2])
        if k == 14:
            a = self.gen_int(env, d + 1, nt)
            return E('(%s)' % a.s, 8, a.tern, a.sz)
        if vs:
            return self.var(env, self.pick(vs))
        return self.int_lit()

    def gen_bool(self, env, d=0, no_tern=False):
        vs = self.vars_of(env, 'bool')
        if d >= self.max_depth or self.r() < 0.25:
            if vs and self.r() < 0.5:
                return E(self.pick(vs), 8, False, 1)
            return E(self.pick(['true', 'false']), 8, False, 1)
        k = self.rng.randint(0, 17)
        nt = no_tern

        def B(s, lvl, tern):
            return E(s, lvl, tern, 1)
        if k <= 1:
            op = self.pick(['==', '!=', '<', '<=', '>', '>='])
            a, b = self.gen_int(env, d + 1, nt), self.gen_int(env, d + 1, nt)
            return self.maybe_paren(B('%s %s %s' % (a.at(5), op, b.at(5)), 4, a.tern or b.tern))
        if k == 2:
            op = self.pick(['==', '!=', '<', '<=', '>', '>='])
            a, b = self.gen_str(env, d + 1, nt), self.gen_str(env, d + 1, nt)
            return self.maybe_paren(B('%s %s %s' % (a.at(5), op, b.at(5)), 4, a.tern or b.tern))
        if k == 3:
            ty = self.pick(['bool', 'arr', 'dict'])
            el = self.pick(['int', 'str'])
            a, b = self.gen(ty, env, d + 1, nt, el), self.gen(ty, env, d + 1, nt, el)
            return self.maybe_paren(B('%s %s %s' % (a.at(5), self.pick(['==', '!=']), b.at(5)), 4, a.tern or b.tern))
        if k == 4:
            a, b = self.gen_bool(env, d + 1, nt), self.gen_bool(env, d + 1, nt)
            return self.maybe_paren(B('%s and %s' % (a.at(3), b.at(4)), 3, a.tern or b.tern))
        if k == 5:
            a, b = self.gen_bool(env, d + 1, nt), self.gen_bool(env, d + 1, nt)
            return self.maybe_paren(B('%s or %s' % (a.at(2), b.at(3)), 2, a.tern or b.tern))
        if k == 6:
            a = self.gen_bool(env, d + 1, nt)
            return B('not ' + a.at(8), 7, a.tern)
        if k == 7:
            el = self.pick(['int', 'str'])
            x, a = self.gen(el, env, d + 1, nt), self.gen_arr(env, d + 1, nt, el)
            return self.maybe_paren(B('%s %s %s' % (x.at(5), self.pick(['in', 'not in']), a.at(5)), 4, x.tern or a.tern))
        if k == 8:
            a = self.gen_dict(env, d + 1, nt, self.pick(['int', 'str']))
            key = self.str_lit(self.pick(['a', 'b', 'k', 'zz']))
            return self.maybe_paren(B('%s %s %s' % (key.s, self.pick(['in', 'not in']), a.at(5)), 4, a.tern))
        if k == 9:
            a, b = self.gen_str(env, d + 1, nt), self.gen_str(env, d + 2, nt)
            return B('%s.%s(%s)' % (a.at(8), self.pick(['contains', 'startswith', 'endswith']), b.at(2)), 8, a.tern or b.tern)
        if k == 10:
            a, b = self.gen_str(env, d + 2, nt), self.gen_str(env, d + 1, nt)
            return self.maybe_paren(B('%s %s %s' % (a.at(5), self.pick(['in', 'not in']), b.at(5)), 4, a.tern or b.tern))
        if k == 11:
            a = self.gen_int(env, d + 1, nt)
            return B('%s.%s()' % (a.at(8), self.pick(['is_even', 'is_odd'])), 8, a.tern)
        if k == 12:
            a = self.gen_dict(env, d + 1, nt, self.pick(['int', 'str']))
            return B("%s.has_key('%s')" % (a.at(8), self.pick(['a', 'b', 'k', 'zz'])), 8, a.tern)
        if k == 13:
            el = self.pick(['int', 'str'])
            a, x = self.gen_arr(env, d + 1, nt, el), self.gen(el, env, d + 2, nt)
            return B('%s.contains(%s)' % (a.at(8), x.at(2)), 8, a.tern or x.tern)
        if k == 14 and not nt:
            return self.ternary(env, d, self.gen_bool)
        if k == 15:
            return B("is_variable('%s')" % self.pick(list(env) + ['nope', 'v0']), 8, False)
        if k == 16:
            v = '%d.%d.%d' % (self.rng.randint(0, 3), self.rng.randint(0, 12), self.rng.randint(0, 3))
            c = self.pick(['>=', '<', '==', '!=', '>', '<=', '']) + '%d.%d' % (self.rng.randint(0, 3), self.rng.randint(0, 12))
            return B("'%s'.version_compare('%s')" % (v, c), 8, False)
        a = self.gen_bool(env, d + 1, nt)
        return B('(%s)' % a.s, 8, a.tern)

    def gen_str(self, env, d=0, no_tern=False):
        vs = self.vars_of(env, 'str')
        if d >= self.max_depth or self.r() < 0.35:
            if vs and self.r() < 0.45:
                return self.var(env, self.pick(vs))
            return self.str_lit()
        k = self.rng.randint(0, 19)
        nt = no_tern
        if k <= 1:
            a, b = self.gen_str(env, d + 1, nt), self.gen_str(env, d + 1, nt)
            return self.maybe_paren(E('%s + %s' % (a.at(5), b.at(6)), 5, a.tern or b.tern, a.sz + b.sz))
        if k == 2:
            a, b = self.gen_str(env, d + 1, nt), self.gen_str(env, d + 1, nt)
            return self.maybe_paren(E('%s / %s' % (a.at(6), b.at(7)), 6, a.tern or b.tern, a.sz + b.sz + 1))
        if k == 3:
            a = self.gen_str(env, d + 1, nt)
            m = self.pick(['strip()', 'to_upper()', 'to_lower()', 'underscorify()', "strip('%s')" % self.plain()])
            return E('%s.%s' % (a.at(8), m), 8, a.tern, a.sz)
        if k == 4:
            n = self.rng.randint(0, 3)
            args = [self.gen(self.pick(['int', 'str', 'bool', 'arr', 'dict']), env, d + 2, True) for _ in range(n)]
            parts = []
            np_ = 0
            for _ in range(self.rng.randint(0, 4)):
                parts.append(self.plain())
                if n and self.r() < 0.9:
                    parts.append('@%d@' % self.rng.randint(0, n - 1))
                    np_ += 1
                elif self.r() < 0.3:
                    parts.append(self.pick(['@', '@@', '@x@', '@1', '@01@' if n > 1 else '@00@' if n else '@']))
                    np_ += 1
            body = ''.join(parts)
            return E("'%s'.format(%s)" % (body, ', '.join(a.at(2) for a in args)), 8, True,
                     len(body) + np_ * (4 * max([a.sz for a in args] + [1]) + 4))
        if k == 5:
            a = self.gen_arr(env, d + 1, nt, 'str')
            sepd = self.pick(['', ',', ' ', '--'])
            sep = self.str_lit(sepd)
            return E('%s.join(%s)' % (sep.s, a.at(2)), 8, a.tern, a.sz * (1 + len(sepd)))
        if k == 6:
            a = self.gen_str(env, d + 1, nt)
            nd = self.pick(['', '_', 'QQ', 'a'])
            o = self.str_lit(self.pick(['a', 'b', ' ', 'ab', '', 'x', '/']))
            n = self.str_lit(nd)
            return E('%s.replace(%s, %s)' % (a.at(8), o.s, n.s), 8, a.tern, a.sz * (len(nd) + 1) + len(nd))
        if k == 7:
            a = self.gen_str(env, d + 1, nt)
            n = self.rng.randint(0, 2)
            idx = ', '.join(str(self.rng.randint(-4, 6)) for _ in range(n))
            return E('%s.substring(%s)' % (a.at(8), idx), 8, a.tern, a.sz)
        if k == 8:
            data = self.str_data(5) or 'q'
            i = self.rng.randint(-len(data), len(data) - 1)
            lit = self.str_lit(data)
            if lit.s.startswith(TQ) or '\\' in lit.s:
                lit = E("'" + data.replace("'", 'x') + "'", 8)
            return E('%s[%d]' % (lit.s, i), 8, False, 1)
        if k == 9:
            a = self.gen_int(env, d + 1, nt)
            kw = self.pick(['', '', 'fill: %d' % self.rng.randint(0, 8), "format: '%s'" % self.pick(['hex', 'oct', 'bin', 'dec']),
                            "fill: %d, format: '%s'" % (self.rng.randint(0, 10), self.pick(['hex', 'oct', 'bin', 'dec']))])
            return E('%s.to_string(%s)' % (a.at(8), kw), 8, a.tern, 4 * a.sz + 14)
        if k == 10:
            a = self.gen_bool(env, d + 1, nt)
            args = self.pick(['', '', "'yes', 'no'", "'', 'n'", "'Y', ''"])
            return E('%s.to_string(%s)' % (a.at(8), args), 8, a.tern, 5)
        if k == 11 and not nt:
            return self.ternary(env, d, self.gen_str)
        if k == 12:
            n = self.rng.randint(1, 3)
            items = [self.gen_str(env, d + 2, True) for _ in range(n)]
            i = self.rng.randint(-n, n - 1)
            return E('[%s][%d]' % (', '.join(x.at(2) for x in items), i), 8, True, max(x.sz for x in items))
        if k == 13:
            a = self.gen_dict(env, d + 1, True, 'str')
            dflt = self.gen_str(env, d + 2, True)
            return E("%s.get('%s', %s)" % (a.at(8), self.pick(['a', 'b', 'k', 'zz']), dflt.at(2)), 8, True, max(a.sz, dflt.sz))
        if k == 14:
            names = [n for n, t in env.items() if t[0] in ('int', 'str', 'bool', 'arr', 'dict')]
            parts = []
            sz = 0
            for _ in range(self.rng.randint(0, 4)):
                parts.append(self.plain())
                if names and self.r() < 0.8:
                    nm = self.pick(names)
                    parts.append('@%s@' % nm)
                    sz += 4 * env[nm][2] + 4
                elif self.r() < 0.4:
                    parts.append(self.pick(['@', '@@', '@0@', '@1x', '@ @']))
                if self.r() < 0.35:
                    parts.append(self.pick(ESC_ASCII))
            body = ''.join(parts)
            if self.r() < 0.35:
                if body.endswith("'"):
                    body += 'z'
                return E('f' + TQ + body + TQ, 8, False, len(body) + sz)
            return E("f'%s'" % body, 8, False, len(body) + sz)
        if k == 15 and vs:
            n = self.pick(vs)
            return E("get_variable('%s')" % n, 8, False, env[n][2])
        if k == 16:
            a = self.gen_arr(env, d + 1, True, 'str')
            dflt = self.gen_str(env, d + 2, True)
            return E('%s.get(%d, %s)' % (a.at(8), self.rng.randint(-3, 3), dflt.at(2)), 8, True, max(a.sz, dflt.sz))
        if k == 17:
            a = self.gen_str(env, d + 1, nt)
            return E('(%s)' % a.s, 8, a.tern, a.sz)
        if vs:
            return self.var(env, self.pick(vs))
        return self.str_lit()

    def gen_arr(self, env, d=0, no_tern=False, elem='int'):
        vs = self.vars_of(env, 'arr', elem)
        if d >= self.max_depth or self.r() < 0.35:
            if vs and self.r() < 0.45:
                return self.var(env, self.pick(vs))
            n = self.rng.randint(0, 3)
            items = [self.gen(elem, env, d + 1, True) for _ in range(n)]
            sep = self.pick([', ', ',', ' , ', ',\n  '])
            trail = ',' if n and self.r() < 0.1 else ''
            return E('[' + sep.join(x.at(2) for x in items) + trail + ']', 8, True, sum(x.sz for x in items) + n + 1)
        k = self.rng.randint(0, 9)
        nt = no_tern
        if k <= 1:
            a, b = self.gen_arr(env, d + 1, nt, elem), self.gen_arr(env, d + 1, nt, elem)
            return self.maybe_paren(E('%s + %s' % (a.at(5), b.at(6)), 5, a.tern or b.tern, a.sz + b.sz))
        if k == 2:
            a, b = self.gen_arr(env, d + 1, nt, elem), self.gen(elem, env, d + 1, nt)
            return self.maybe_paren(E('%s + %s' % (a.at(5), b.at(6)), 5, a.tern or b.tern, a.sz + b.sz + 1))
        if k == 3 and elem == 'str':
            a = self.gen_str(env, d + 1, nt)
            m = self.pick(['split()', "split(',')", "split(' ')", "split('a')", 'splitlines()', "split('--')"])
            return E('%s.%s' % (a.at(8), m), 8, a.tern, 2 * a.sz + 2)
        if k == 4 and elem == 'str':
            a = self.gen_dict(env, d + 1, nt, self.pick(['int', 'str']))
            return E(a.at(8) + '.keys()', 8, a.tern, a.sz)
        if k == 5 and elem in ('int', 'str'):
            a = self.gen_dict(env, d + 1, nt, elem)
            return E(a.at(8) + '.values()', 8, a.tern, a.sz)
        if k == 6:
            a = self.gen_arr(env, d + 1, nt, elem)
            form = self.pick(['%d, %d' % (self.rng.randint(-4, 4), self.rng.randint(-4, 5)),
                              'step: %d' % self.pick([1, 2, 3, -1, -2]),
                              '%d, %d, step: %d' % (self.rng.randint(-4, 4), self.rng.randint(-4, 5), self.pick([1, 2, -1, -2])), ''])
            return E('%s.slice(%s)' % (a.at(8), form), 8, a.tern, a.sz)
        if k == 7:
            a = self.gen_arr(env, d + 1, nt, elem)
            b = self.gen_arr(env, d + 1, nt, elem)
            return E('[%s, [%s, %s]].flatten()' % (a.at(2), b.at(2), a.at(2)), 8, True, 2 * a.sz + b.sz + 3)
        if k == 8 and not nt:
            return self.ternary(env, d, lambda e, dd, no_tern=False: self.gen_arr(e, dd, no_tern, elem))
        if vs:
            return self.var(env, self.pick(vs))
        return self.gen_arr(env, self.max_depth, nt, elem)

    def gen_dict(self, env, d=0, no_tern=False, elem='int'):
        vs = self.vars_of(env, 'dict', elem)
        if d >= self.max_depth or self.r() < 0.45:
            if vs and self.r() < 0.45:
                return self.var(env, self.pick(vs))
            keys = self.rng.sample(['a', 'b', 'k', 'c d', 'Z', '0', 'kwargz'], self.rng.randint(0, 3))
            vals = [self.gen(elem, env, d + 1, True) for _ in keys]
            items = ['%s: %s' % (self.str_lit(kk).s if self.r() < 0.8 else "'%s'" % kk, v.at(2)) for kk, v in zip(keys, vals)]
            return E('{' + self.pick([', ', ',', ',\n  ']).join(items) + '}', 8, True, sum(v.sz + 8 for v in vals) + 1)
        k = self.rng.randint(0, 3)
        if k <= 1:
            a, b = self.gen_dict(env, d + 1, no_tern, elem), self.gen_dict(env, d + 1, no_tern, elem)
            return self.maybe_paren(E('%s + %s' % (a.at(5), b.at(6)), 5, a.tern or b.tern, a.sz + b.sz))
        if k == 2 and not no_tern:
            return self.ternary(env, d, lambda e, dd, no_tern=False: self.gen_dict(e, dd, no_tern, elem))
        if vs:
            return self.var(env, self.pick(vs))
        return self.gen_dict(env, self.max_depth, no_tern, elem)

    # ------------------------------------------------------------ statements
    def msg(self, e, ind, mult=1):
        """message of an expression (E or text); large values are not printed inside loops"""
        if isinstance(e, E):
            if e.sz * mult > 6000:
                return []
            txt = e.at(2)
        else:
            txt = e
        return ['%smessage(\'#%s\', %s, \'$\')' % (ind, self.newtag(), txt)]

    def rand_type(self):
        ty = self.pick(['int', 'int', 'bool', 'str', 'str', 'arr', 'arr', 'dict'])
        el = None
        if ty == 'arr':
            el = self.pick(['int', 'str', 'bool'])
        if ty == 'dict':
            el = self.pick(['int', 'str'])
        return ty, el

    def mentions(self, e, name):
        return name in e.s.replace("'", ' ').replace('(', ' ').replace(')', ' ').replace('[', ' ').replace(']', ' ') \
            .replace(',', ' ').replace('@', ' ').replace('.', ' ').split()

    def stmt(self, env, depth, ind, path, mult=1, loopvars=None):
        """-> list of lines.  env: name -> (type, element type, size bound); mult: bound of the
        number of times this statement runs (product of the enclosing loop lengths); loopvars:
        inside a loop, the only variables an enclosing variable may be updated from"""
        if self.err is not None and not self.err_done and self.r() < self.err_p:
            self.err_done = True
            return [ind + l for l in self.err]
        k = self.rng.randint(0, 21)
        if k <= 5 or (depth >= 2 and k <= 12):
            ty, el = self.rand_type()
            e = self.gen(ty, env, 0, False, el)
            if (ind and self.r() < 0.7) or e.sz > VAR_LIMIT:
                return self.msg(e, ind, mult)      # inside blocks mostly only observe
            name = self.fresh()
            lines = ['%s%s = %s' % (ind, name, e.s)]
            env[name] = (ty, el, e.sz)
            return lines + self.msg(self.var(env, name), ind, mult)
        if k <= 7:
            cands = [n for n, t in env.items() if t[0] in ('int', 'str', 'arr', 'dict') and not (loopvars is not None and n in loopvars)]
            if not cands:
                return self.msg(self.gen_int(env), ind, mult)
            name = self.pick(cands)
            ty, el, sz = env[name]
            src = env if loopvars is None else {n: env[n] for n in loopvars if n in env}
            if ty == 'arr' and self.r() < 0.5:
                e = self.gen(el, src, 2, False)
                add = e.sz + 1
            else:
                e = self.gen(ty, src, 2, False, el)
                add = e.sz
            if self.mentions(e, name) or sz + add * mult > VAR_LIMIT:
                return self.msg(self.var(env, name), ind, mult)
            env[name] = (ty, el, sz + add * mult)
            return ['%s%s += %s' % (ind, name, e.s)] + self.msg(self.var(env, name), ind, mult)
        if k <= 9:
            ty, el = self.rand_type()
            return self.msg(self.gen(ty, env, 0, False, el), ind, mult)
        if k <= 12 and depth < 3:
            lines = []
            nb = self.rng.randint(1, 3)
            for i in range(nb):
                c = self.gen_bool(env, 1)
                lines.append('%s%s %s' % (ind, 'if' if i == 0 else 'elif', c.s))
                lines += self.block(env, depth + 1, ind + '  ', path, mult, loopvars)
            if self.r() < 0.5:
                lines.append(ind + 'else')
                lines += self.block(env, depth + 1, ind + '  ', path, mult, loopvars)
            lines.append(ind + 'endif')
            return lines
        if k <= 15 and depth < 3 and mult <= 40:
            form = self.rng.randint(0, 3)
            inner = dict(env)
            if form == 0:
                el = self.pick(['int', 'str', 'bool'])
                it = self.gen_arr(env, 1, False, el)
                v = self.fresh('i')
                inner[v] = (el, None, it.sz)
                lv = [v]
                n_it = max(1, it.sz)
                head = '%sforeach %s : %s' % (ind, v, it.s)
            elif form == 1:
                el = self.pick(['int', 'str'])
                it = self.gen_dict(env, 1, False, el)
                kv, vv = self.fresh('k'), self.fresh('w')
                inner[kv] = ('str', None, 8)
                inner[vv] = (el, None, it.sz)
                lv = [kv, vv]
                n_it = max(1, it.sz // 8)
                head = '%sforeach %s, %s : %s' % (ind, kv, vv, it.s)
            else:
                v = self.fresh('i')
                inner[v] = ('int', None, 2)
                lv = [v]
                a = self.rng.randint(0, 3)
                args = self.pick([str(self.rng.randint(0, 4)), '%d, %d' % (a, a + self.rng.randint(0, 4)),
                                  '%d, %d, %d' % (a, a + self.rng.randint(0, 7), self.rng.randint(1, 3))])
                n_it = 8
                head = '%sforeach %s : range(%s)' % (ind, v, args)
            if n_it * mult > 400:
                return self.msg(self.gen_int(env, 2), ind, mult)
            lines = [head]
            body = self.block(inner, depth + 1, ind + '  ', path, mult * n_it, (loopvars or []) + lv)
            for n in env:
                if n in inner:
                    env[n] = inner[n]
            if self.r() < 0.35:
                c = self.gen_bool(inner, 2)
                body += ['%s  if %s' % (ind, c.s), '%s    %s' % (ind, self.pick(['break', 'continue'])), '%s  endif' % ind]
                body += self.msg(self.gen_int(inner, 2), ind + '  ', mult * n_it)
            lines += body
            lines.append(ind + 'endforeach')
            return lines
        if k == 16:
            name = self.fresh('s')
            ty, el = self.rand_type()
            e = self.gen(ty, env, 1, False, el)
            if e.sz > VAR_LIMIT:
                return self.msg(e, ind, mult)
            lines = ["%sset_variable('%s', %s)" % (ind, name, e.at(2))]
            if not ind:
                env[name] = (ty, el, e.sz)
            return lines + self.msg(E("get_variable('%s')" % name, 8, False, e.sz), ind, mult) + self.msg("is_variable('%s')" % name, ind)
        if k == 17 and not ind and env:
            name = self.pick(list(env))
            del env[name]
            return ["unset_variable('%s')" % name] + self.msg("is_variable('%s')" % name, ind) + \
                self.msg("get_variable('%s', %s)" % (name, self.gen_int(env, 2).at(2)), ind)
        if k == 18 and not ind and len(path) < 2 and self.nsub < 3:
            self.nsub += 1
            dname = 'd%d' % self.nsub
            sub = path + [dname]
            body = []
            for _ in range(self.rng.randint(1, 5)):
                body += self.stmt(env, 0, '', sub)
            self.files['/'.join(sub + ['meson.build'])] = '\n'.join(body) + '\n'
            return ["subdir('%s')" % dname] + self.msg(self.gen_int(env, 2), ind)
        if k == 19 and not ind and self.nsp < 2 and self.sp_depth < 2 and self.sp_counter[0] < 3:
            self.nsp += 1
            self.sp_counter[0] += 1
            name = 'sp%d' % self.sp_counter[0]
            g = ProgGen(self.rng, self.max_depth)
            g.tag = self.tag + 500
            g.nvar = self.nvar + 500
            g.sp_files, g.sp_counter, g.sp_depth = self.sp_files, self.sp_counter, self.sp_depth + 1
            senv = {}
            body = ["project('%s')" % name]
            for _ in range(self.rng.randint(2, 6)):
                body += g.stmt(senv, 0, '', [])
            self.tag = g.tag
            self.nvar = max(self.nvar, g.nvar)
            self.sp_files['subprojects/%s/meson.build' % name] = '\n'.join(body) + '\n'
            for f, c in g.files.items():
                self.sp_files['subprojects/%s/%s' % (name, f)] = c
            lines = ["%s = subproject('%s')" % (name, name)]
            for vn, t in list(senv.items())[:4]:
                mine = self.fresh('g')
                lines.append("%s = %s.get_variable('%s')" % (mine, name, vn))
                env[mine] = t
                lines += self.msg(self.var(env, mine), ind)
            lines += self.msg("%s.get_variable('nope', %s)" % (name, self.gen_int(env, 2).at(2)), ind)
            lines += self.msg("is_variable('%s')" % (list(senv) + ['zz'])[0], ind)
            if self.r() < 0.3:
                lines += self.msg("subproject('%s').found()" % name, ind)
            return lines
        if k == 20:
            return ['%sassert(%s == %s, \'same\')' % (ind, n, n) for n in list(env)[:1]] or self.msg('1', ind)
        ty, el = self.rand_type()
        return self.msg(self.gen(ty, env, 0, False, el), ind, mult)

    def block(self, env, depth, ind, path, mult, loopvars):
        """statements of an if / foreach body.  New variables are local to the generator's view of
        the block (they may not exist afterwards); variables of the enclosing scope may be
        re-assigned with a value of the same type (aliasing / frame behaviour)."""
        local = dict(env)
        lines = []
        for _ in range(self.rng.randint(1, 3)):
            lines += self.stmt(local, depth, ind, path, mult, loopvars)
        for n in env:
            if n in local:
                env[n] = local[n]       # size bounds of enclosing variables updated inside the block
        names = [n for n in env if not (loopvars is not None and n in loopvars)]
        if names and self.r() < 0.5:
            name = self.pick(names)
            ty, el, sz = env[name]
            src = local if loopvars is None else {n: local[n] for n in loopvars if n in local}
            e = self.gen(ty, src, 2, False, el)
            if e.sz <= VAR_LIMIT and not self.mentions(e, name):
                lines.append('%s%s = %s' % (ind, name, e.s))
                env[name] = (ty, el, max(sz, e.sz))
                lines += self.msg(self.var(env, name), ind, mult)
        return lines

    def program(self, nstmts, err=None, at_end=False):
        """-> files dict.  err: lines of an erroneous statement injected at a random point (at_end:
        after the last statement of the root file)"""
        self.err = err
        self.err_done = False
        self.err_p = (2.5 / max(nstmts, 1)) if (err is not None and not at_end) else 0
        env = {}
        lines = ["project('p')"]
        for _ in range(nstmts):
            lines += self.stmt(env, 0, '', [])
        if err is not None and not self.err_done:
            lines += err
        for n in list(env)[:6]:
            lines += self.msg(self.var(env, n), '')
        self.files['meson.build'] = '\n'.join(lines) + '\n'
        self.files.update(self.sp_files)
        return dict(self.files)


# ---------------------------------------------------------------------------------- errors
ERRORS = [
    # strict typing
    ["x = 1 + 'a'"], ["x = 'a' + 1"], ["x = [1] - [1]"], ["x = true + 1"], ["x = not 1"], ["x = -'a'"],
    ["x = 'a' < 1"], ["x = 1 == 'a'"], ["x = true == 1"], ["x = 'a' == true"], ["x = [1] == 'a'"], ["x = {'a': 1} == [1]"],
    ["if 1", "endif"], ["if 'a'", "endif"], ["if []", "endif"], ["x = 1 and true"], ["x = true or 'a'"], ["x = 1 ? 2 : 3"],
    ["x = 'abc'['a']"], ["x = {'a': 1}[0]"], ["x = 1 in 2"], ["x = 1 in 'abc'"], ["x = 1 in {'a': 1}"], ["x = [1][0][0]"],
    ["x = 'a' * 2"], ["x = 'a' - 'b'"], ["x = 1 / 'a'"], ["x = 'a' % 2"], ["x = {'a': 1} + [1]"], ["x = {'a': 1} + 1"],
    ["x = true < false"], ["x = [1] < [2]"], ["x = {} < {}"], ["x = 1[0]"], ["x = true[0]"], ["x = -true"], ["x = -[1]"],
    ["x = not 'a'"], ["x = not []"], ["x = 'a' in 1"], ["x = 1 not in 2"],
    # values
    ["x = 1 / 0"], ["x = 1 % 0"], ["x = [1, 2][2]"], ["x = [1, 2][-3]"], ["x = 'ab'[2]"], ["x = {'a': 1}['b']"],
    ["x = [][0]"], ["x = ''[0]"], ["x = range(3)[3]"], ["x = 5 / false"],
    # unknown names
    ["x = undefined_var"], ["x = 'a'.nope()"], ["x = 1.nope()"], ["x = [1].nope()"], ["x = {}.nope()"], ["x = true.nope()"],
    ["x = nofunc(1)"], ["nofunc()"], ["x = undefined_var.foo()"], ["x += 1"],
    # void
    ["x = message('a')"], ["x = set_variable('q', 1)"], ["x = [message('a')]"], ["x = 1 + message('a')"], ["x = not message('a')"],
    ["x = message('a') == 1"], ["x = message('a') ? 1 : 2"], ["x = message('a')[0]"], ["x = message('a').foo()"],
    ["x = (y = 1)"], ["x = assert(true, 'm')"], ["x = unset_variable('nope')"],
    # arguments
    ["message(x = 1)"], ["x = [y = 1]"], ["message('a', b: 1)"], ["x = 'a'.strip(1)"], ["x = 'a'.strip('a', 'b')"],
    ["x = 'a'.to_upper(1)"], ["x = 'a'.to_upper(k: 1)"], ["x = [1].length(1)"], ["x = [1].get('a')"], ["x = [1].get()"],
    ["x = {'a': 1}.get(1)"], ["x = {'a': 1}.has_key()"], ["x = 'a'.join([1])"], ["x = 'a'.join(1)"], ["x = 'a'.replace('a')"],
    ["x = 'a'.split('')"], ["x = 'a'.contains(1)"], ["x = 'a'.substring('a')"], ["x = 1.to_string(1)"],
    ["x = 1.to_string(format: 'zzz')"], ["x = 1.to_string(fil: 1)"], ["x = 1.to_string(fill: 'a')"], ["x = true.to_string('a')"],
    ["x = true.to_string(1, 2)"], ["x = [1].slice(1)"], ["x = [1].slice(step: 0)"], ["x = [1].contains()"],
    ["x = [1].contains(1, 2)"], ["x = 'a'.format(k: 1)"], ["x = '@1@'.format(1)"], ["x = '@0@'.format()"],
    ["x = 'zz'.to_int()"], ["x = ''.to_int()"], ["x = '1 2'.to_int()"], ["x = '0x'.to_int()"], ["x = '1__2'.to_int()"],
    ["x = 'a'.version_compare()"], ["x = 'a'.version_compare(1)"],
    ["x = range()"], ["x = range('a')"], ["x = range(-1)"], ["x = range(3, 1)"], ["x = range(1, 5, 0)"], ["x = range(1, 2, 3, 4)"],
    ["assert(false, 'm')"], ["assert(false)"], ["assert(1)"], ["assert()"], ["assert(true, 1)"], ["error('boom')"], ["error('a', 1)"],
    ["set_variable('1x', 1)"], ["set_variable(1, 1)"], ["set_variable('a')"], ["set_variable('a b', 1)"], ["x = get_variable('nope')"],
    ["x = get_variable(1)"], ["x = get_variable()"], ["unset_variable('nope')"], ["x = is_variable(1)"], ["x = is_variable()"],
    ["set_variable('meson', 1)"], ["meson = 1"], ["host_machine = 1"], ["foreach meson : [1]", "endforeach"],
    ["message('a', kwargs: 1)"], ["message('a', kwargs: {'kwargs': {}})"], ["x = 'a'.strip(kwargs: {'a': 1})"],
    ["message(a: 1, 'b')"], ["x = [a: 1]"], ["x = {'a': 1, 'a': 2}"], ["x = {1: 2}"], ["x = {true: 2}"], ["x = {['a']: 2}"],
    ["k = 'q'", "x = {k: 1, 'q': 2}"],
    # control flow
    ["foreach a, b : [1]", "endforeach"], ["foreach a : {'k': 1}", "endforeach"], ["foreach a : 1", "endforeach"],
    ["foreach a : 'abc'", "endforeach"], ["foreach a : message('x')", "endforeach"], ["foreach a, b : range(2)", "endforeach"],
    ["break"], ["continue"], ["if true", "  break", "endif"],
    ["project('again')"],
    # f-strings
    ["x = f'@undefined_var@'"], ["r = range(2)", "x = f'@r@'"], ["message(range(2))"], ["message([range(2)])"],
    # precedence / grammar (parse errors: the whole file is rejected)
    ["x = 1 < 2 < 3"], ["x = 1 == 1 == true"], ["x = not not true"], ["x = - - 1"], ["x = true ? 1 : false ? 2 : 3"],
    ["x = true ? (false ? 1 : 2) : 3"], ["x = 1 +"], ["x = (1"], ["x = [1"], ["x = {'a' 1}"], ["x = {'a'}"], ["if true"],
    ["endif"], ["foreach x [1]", "endforeach"], ["x = 'abc"], ['x = "abc"'], ["x = 1 $ 2"], ["1 = 2"], ["'a' += 'b'"],
    ["x = 1 2"], ["x = 'a' 'b'"], ["f(1)(2)"], ["x = 1.5"], ["x = a not b"], ["x = 01"], ["else"], ["x = 1 ? 2"],
    ["x = '\\U00110000'"], ["x ="], ["x = *"], ["x = 1 not 2"],
]


def typing_table():
    """every binary operator x operand pair and every unary operator x operand over one sample
    value of each type -> list of (ident, statement)"""
    samples = [('int', '3'), ('zero', '0'), ('bool', 'true'), ('str', "'ab'"), ('estr', "''"), ('arr', '[1]'),
               ('sarr', "['ab']"), ('dict', "{'ab': 1}"), ('range', 'range(2)')]
    ops = ['+', '-', '*', '/', '%', '==', '!=', '<', '<=', '>', '>=', 'in', 'not in', 'and', 'or']
    out = []
    for (ta, a), op, (tb, b) in itertools.product(samples, ops, samples):
        if op in ('==', '!=') and ta == 'range' and tb == 'range':
            continue      # identity comparison of two objects: outside the model
        if op in ('in', 'not in') and ta == 'range' and tb in ('arr', 'sarr'):
            pass
        out.append(('%s %s %s' % (ta, op, tb), 'x = %s %s %s' % (a, op, b)))
    for op, (ta, a) in itertools.product(['not ', '-'], samples):
        out.append(('%s%s' % (op, ta), 'x = %s%s' % (op, a)))
    for (ta, a), (tb, b) in itertools.product(samples, samples):
        out.append(('%s[%s]' % (ta, tb), 'x = %s[%s]' % (a if ta not in ('int', 'zero') else '(' + a + ')', b)))
    for (ta, a) in samples:
        out.append(('if %s' % ta, 'if %s\nendif\nx = 1' % a))
        out.append(('%s ? :' % ta, 'x = %s ? 1 : 2' % a))
        out.append(('foreach %s' % ta, 'x = 0\nforeach i : %s\nx += 1\nendforeach' % a))
    return out


def method_table():
    """every documented method name on a sample receiver of every type, no arguments / one
    string argument / one int argument"""
    recv = [('int', '(7)'), ('bool', 'true'), ('str', "'a b'"), ('arr', "['x', 'y']"), ('dict', "{'k': 'v'}"), ('range', 'range(2)')]
    names = ['format', 'replace', 'strip', 'to_lower', 'to_upper', 'to_int', 'contains', 'startswith', 'endswith', 'substring',
             'split', 'splitlines', 'join', 'underscorify', 'version_compare', 'get', 'length', 'slice', 'flatten',
             'has_key', 'keys', 'values', 'is_even', 'is_odd', 'to_string', 'found', 'get_variable']
    argforms = ['', "'k'", '0', "'a', 'b'", '[]', "['x']", 'true']
    out = []
    for (t, r), n, a in itertools.product(recv, names, argforms):
        out.append(('%s.%s(%s)' % (t, n, a), 'x = %s.%s(%s)' % (r, n, a)))
    return out


# ---------------------------------------------------------------------------------- corpus
def P(body, **extra):
    d = {'meson.build': "project('p')\n" + body}
    for k, v in extra.items():
        d[k.replace('__', '/').replace('meson_build', 'meson.build')] = v
    return d


def corpus():
    """hand-picked corner cases -> list of (name, files)"""
    C = []

    def c(name, body, **extra):
        C.append((name, P(body, **extra)))
    c('subdir-shares-vars', "x = 1\nsubdir('a')\nmessage('#1', x, y, '$')\n",
      a__meson_build="y = x + 1\nx = 5\nmessage('#0', y, '$')\nsubdir('b')\n", a__b__meson_build="message('#b', x, '$')\nz = 1 +\n")
    c('subproject-get-variable', "sp = subproject('s1')\nmessage('#1', sp.get_variable('v'), sp.get_variable('w', 7), sp.found(), '$')\n"
      "message('#2', is_variable('v'), '$')\nsp2 = subproject('s1')\nmessage('#3', sp2.get_variable('nope'), '$')\n",
      subprojects__s1__meson_build="project('s1')\nv = [1, 'two']\nmessage('#s', v, is_variable('sp'), '$')\n")
    c('subproject-error-inside', "message('#0', '$')\nsp = subproject('s1')\n", subprojects__s1__meson_build="project('s1')\nv = 1\nx = v + 'a'\n")
    c('subproject-no-project', "sp = subproject('s1')\n", subprojects__s1__meson_build="v = 1\n")
    c('subproject-empty', "sp = subproject('s1')\n", subprojects__s1__meson_build="")
    c('subproject-blank', "sp = subproject('s1')\n", subprojects__s1__meson_build="  \n\n")
    c('subproject-parse-error', "message('#0', '$')\nsp = subproject('s1')\n", subprojects__s1__meson_build="project('s1')\nx = (1\n")
    c('subproject-missing', "message('#0', '$')\nsp = subproject('nothere')\n")
    c('subproject-empty-name', "sp = subproject('')\n")
    c('subproject-break', "foreach i : [1, 2]\n  sp = subproject('s1')\nendforeach\n", subprojects__s1__meson_build="project('s1')\nbreak\n")
    c('subproject-recursive', "subproject('s1')\n", subprojects__s1__meson_build="project('s1')\nsubproject('s1')\n")
    c('subproject-nested', "subproject('s1')\nmessage('#1', subproject('s2').get_variable('z'), '$')",
      subprojects__s1__meson_build="project('s1')\nsp = subproject('s2')\nmessage('#a', sp.get_variable('z'), '$')\n",
      subprojects__s2__meson_build="project('s2')\nz = 3\nsubdir('d')\n", subprojects__s2__d__meson_build="z += 1\nmessage('#d', z, '$')\n")
    c('subdir-break-in-loop', "foreach i : [1, 2]\n  message('#a', i, '$')\n  subdir('a')\nendforeach\nmessage('#e', '$')",
      a__meson_build="message('#s', '$')\nbreak\n")
    c('subdir-continue-toplevel', "subdir('a')\nmessage('#e', '$')", a__meson_build="message('#s', '$')\ncontinue\n")
    c('break-toplevel', "message('#a', '$')\nbreak\nmessage('#b', '$')\n")
    c('continue-in-if-toplevel', "if true\n  continue\nendif\n")
    c('dict-kwargs-key', "d = {'kwargs': {'a': 1}}\nmessage('#1', d, '$')\nd2 = {'kwargs': 1, 'b': 2}\nmessage('#2', d2, d2['kwargs'], '$')")
    c('call-kwargs-expansion', "message('#1', 'a', '$', kwargs: {})\nk = {'fill': 4}\nmessage('#2', 7.to_string(kwargs: k), '$')\nx = 7.to_string(fill: 1, kwargs: k)")
    c('range-index-str', "message('#1', range(3)['a'], '$')")
    c('range-index', "message('#1', range(3)[true], range(2, 10, 3)[-1], range(5)[-5], '$')\nmessage('#2', range(3)[5], '$')")
    c('to-string-fill-bool', "message('#1', 1.to_string(fill: true), '$')")
    c('to-string', "message('#1', 5.to_string(fill: 3), (-5).to_string(fill: 4), 10.to_string(format: 'bin'), (-10).to_string(format: 'oct', fill: 8), 0.to_string(format: 'hex'), 255.to_string(fill: -3), '$')")
    c('subdir-twice', "subdir('a')\nsubdir('a')\n", a__meson_build="x = 1\n")
    c('subdir-missing', "message('#0', '$')\nsubdir('nope')\n")
    c('subdir-nested-path', "subdir('a/b')\nmessage('#1', x, '$')\nsubdir('a')\n", a__b__meson_build="x = 1\n", a__meson_build="message('#2', x, '$')\nsubdir('b')\n")
    c('subdir-in-args', "x = [subdir('a')]\n", a__meson_build="y = 1\n")
    c('subdir-in-args-msg', "message('#1', 1, '$')\nmessage(subdir('a'))\n", a__meson_build="message('#2', 1, '$')\nz = 2\n")
    c('subdir-reserved', "subdir('subprojects')\n")
    c('subdir-dotdot', "subdir('a/../a')\n", a__meson_build="x = 1\n")
    c('subdir-empty', "subdir('')\n")
    c('subdir-abs', "subdir('/tmp')\n")
    c('subdir-meson-prefix', "subdir('meson-x')\n")
    c('subdir-parse-error', "message('#0', '$')\nsubdir('a')\n", a__meson_build="x = 1\ny = [\n")
    c('subdir-args', "subdir()\n")
    c('subdir-int', "subdir(1)\n")
    c('subdir-list', "subdir(['a'])\nmessage('#1', x, '$')", a__meson_build="x = 1\n")
    c('subproject-blank-messages', "sp = subproject('s1')\nmessage('#z', '\\n', '$')\n",
      subprojects__s1__meson_build="project('s1')\nmessage('#a', '\\n', '$')\nx = {'a': 1}.values()\nmessage('#b', '', '$')\nmessage('#c', ' ', '$')\n"
                                   "y = 1.to_string(fill: 2)\nmessage('#d', '\\n\\n', ' \\t', '$')\nmessage('#e', x, y, '$')\nmessage('#f', ' a \\n b \\n', '$')\n")
    c('nested-subdirs-share-store', "x = [1]\nsubdir('a')\nmessage('#1', x, y, z, '$')\nsubdir('a/b')\n",
      a__meson_build="y = x + [2]\nsubdir('b')\nx += 9\n", a__b__meson_build="z = y + [3]\nx += 8\nsubdir('c')\n", a__b__c__meson_build="message('#c', x, y, z, '$')\n")
    c('subdir-sibling-from-nested', "subdir('a')\nsubdir('b')\n", a__meson_build="subdir('b')\nv = 1\n", a__b__meson_build="message('#ab', '$')\n", b__meson_build="message('#b', v, '$')\n")
    c('subdir-escape-parent', "subdir('a')\n", a__meson_build="subdir('../b')\n", b__meson_build="x = 1\n")
    c('subdir-error-location-nested', "subdir('a')\n", a__meson_build="x = 1\nsubdir('b')\n", a__b__meson_build="y = 2\n\nz = x + y + 'q'\n")
    c('subdir-visited-after-error-free', "subdir('a')\nsubdir('a/b')\n", a__meson_build="subdir('b')\n", a__b__meson_build="x = 1\n")
    c('subproject-of-subproject', "a = subproject('s1')\nmessage('#1', a.get_variable('v'), a.get_variable('w'), is_variable('inner'), '$')\nb = subproject('s2')\nmessage('#2', b.get_variable('inner'), '$')\nc = inner\n",
      subprojects__s1__meson_build="project('s1')\ns = subproject('s2')\nv = s.get_variable('inner') + 1\nw = is_variable('inner')\nsubdir('d')\n",
      subprojects__s1__d__meson_build="message('#d', v, w, '$')\nw = [w, is_variable('s')]\n",
      subprojects__s2__meson_build="project('s2')\ninner = 41\nmessage('#s2', is_variable('v'), is_variable('s'), '$')\n")
    c('subproject-sees-no-parent-vars', "secret = 1\nsubproject('s1')\n", subprojects__s1__meson_build="project('s1')\nmessage('#0', is_variable('secret'), '$')\nx = secret\n")
    c('subproject-subdir-own-tree', "subdir('d')\nsubproject('s1')\nsubdir('e')\n", d__meson_build="message('#rd', '$')\n", e__meson_build="message('#re', '$')\n",
      subprojects__s1__meson_build="project('s1')\nsubdir('d')\nsubdir('d')\n", subprojects__s1__d__meson_build="message('#sd', '$')\n")
    c('subproject-subdir-missing', "subdir('d')\nsubproject('s1')\n", d__meson_build="message('#rd', '$')\n", subprojects__s1__meson_build="project('s1')\nsubdir('d')\n")
    c('subproject-cached-second-call', "a = subproject('s1')\nb = subproject('s1')\nmessage('#1', a.get_variable('v'), b.get_variable('v'), '$')\n", subprojects__s1__meson_build="project('s1')\nmessage('#once', '$')\nv = 3\n")
    c('subproject-method-errors', "a = subproject('s1')\nmessage('#1', a.found(), a.get_variable('v', 0), '$')\nx = a.get_variable()\n", subprojects__s1__meson_build="project('s1')\n")
    c('subproject-object-in-values', "a = subproject('s1')\nl = [a]\nmessage('#1', l.length(), '$')\nmessage('#2', l, '$')\n", subprojects__s1__meson_build="project('s1')\n")
    c('adjacent-strings', "message('#1', 'a' 'b', '$')")
    c('unclosed-call', "message('#1', 'abc', '$'")
    c('plusassign-type', "x = 3\nx += 'a'")
    c('aliasing', "x = [1]\ny = x\ny += 2\nmessage('#1', x, y, '$')\nd = {'a': x}\nx += 3\nmessage('#2', d, x, '$')\ne = d\ne += {'b': x}\nmessage('#3', d, e, '$')")
    c('builtin-assign', "meson = 1")
    c('if-int', "if 1\nendif")
    c('if-elif-lazy', "if true\n  message('#1', '$')\nelif 1/0 == 1\nelse\n message('#2','$')\nendif\nif false\nelif true\n message('#3', '$')\nendif")
    c('ternary-void', "x = true ? message('#1', '$') : 2")
    c('short-circuit', "message('#1', false and 1/0 == 1, true or 1/0 == 1, '$')\nmessage('#2', true and 1/0 == 1, '$')")
    c('void-plus', "message('#1', 1 + message('#0', '$'), '$')")
    c('void-left-then-error', "message('#1', message('#0', '$') + (1/0), '$')")
    c('container-plus', "message('#1', [1, 2] + 3, [1] + [[2]], {'a': 1} + {'b': 2, 'a': 3}, [] + {}, '$')")
    c('path-join', "message('#1', 'a/b' / 'c', 'a/' / 'c', 'a' / '/c', '' / 'c', 'a\\\\b' / 'c', 'a' / '', '$')")
    c('str-methods', "message('#1', 'aXbXc'.replace('X', '--'), 'abc'.replace('', '-'), 'a b  c'.split(), 'a b'.split(' '), ''.split(','), 'x\\ny\\r\\nz\\n'.splitlines(), ''.splitlines(), ' \\t'.split(), '$')")
    c('to-int', "message('#1', '  12 '.to_int(), '0x1F'.to_int(), '-0b11'.to_int(), '1_000'.to_int(), '007'.to_int(), '0o17'.to_int(), '+5'.to_int(), '-0'.to_int(), '0x_f'.to_int(), '$')\nmessage('#2', '1__0'.to_int(), '$')")
    c('to-int-long', "s = '99999'\nforeach i : range(10)\n  s += s\nendforeach\nmessage('#1', s.to_int() > 0, '$')")
    c('misc-str', "message('#1', 'a-b.c'.underscorify(), '1.2.3'.version_compare('>=1.2'), '1.2.3'.version_compare('<1.2', '>1'), 'Abc'.to_lower(), 'abc'.to_upper(), '$')")
    c('arr-methods', "message('#1', [1,[2,[3]]].flatten(), [1,[2,[3]]].contains(3), [1,[2]].contains([2]), [1,2,3].get(5, 'd'), [1,2,3,4,5].slice(1, 4), [1,2,3,4,5].slice(step: 2), [1,2,3,4,5].slice(4, 0, step: -1), [1,2,3].slice(-10, 10), '$')")
    c('dict-methods', "message('#1', {'b': 1, 'a': [2]}.keys(), {'b': 1, 'a': [2]}.values(), {'a': 1}.get('a'), {'a': 1}.get('z', 0), {'a': 1}.has_key('a'), 'a' in {'a': 1}, 'z' not in {'a': 1}, '$')\nmessage('#2', {'a': 1}['z'], '$')")
    c('bool-int-methods', "message('#1', true.to_int(), false.to_string(), true.to_string('Y', 'N'), 4.is_even(), (-3).is_odd(), true.to_string('', 'no'), false.to_string('yes', ''), '$')\nmessage('#2', true.to_string('Y'), '$')")
    c('variables-api', "set_variable('abc', [1])\nmessage('#1', abc, get_variable('abc'), get_variable('zz', 'dflt'), is_variable('abc'), '$')\nunset_variable('abc')\nmessage('#2', is_variable('abc'), '$')\nunset_variable('abc')")
    c('assert', "assert(true, 'x')\nassert(1 == 1)\nassert([true, 'm'])\nmessage('#1', '$')\nassert(false, 'boom')")
    c('dict-dup-key', "x = {'a': 1, 'a': 2}")
    c('dict-computed-keys', "k = 'kk'\nx = {k: 1, k + 'x': 2}\nmessage('#1', x, '$')")
    c('fstring', "x = [1, 'a']\ny = {'k': true}\nmessage('#1', f'x=@x@ y=@y@ @z', '$')\nmessage('#2', f'''m\n@x@''', '''@x@''', f'@@x@ @x@@', '$')")
    c('format', "a = 1\nmessage('#1', '@0@ @a@ @1@'.format('@1@', 2), '@0@@0@ @00@'.format('x'), '$')\nmessage('#2', '@2@'.format(1), '$')")
    c('index', "message('#1', 'abc'[-3], [[1,2],[3]][0][1], 'héé'[1], [1, 2][true], 'abc'[true], '$')\nmessage('#2', 'abc'[3], '$')")
    c('equality', "message('#1', 'a' < 'b', 'a' >= 'B', 'abc' == 'abc', 1 != 2, [1,2] == [1,2], [] != [1], {'a': 1, 'b': 2} == {'b': 2, 'a': 1}, [1, [2]] == [1, [2]], '$')\nmessage('#2', 'a' == 1, '$')")
    c('bool-int-leak', "message('#1', 5 / true, 5 % true, 1 == true, 1 < true, true in [1], [1] == [true], {'a': 1} == {'a': true}, 1 + true, [1, 2].get(true), 'abcd'.substring(true), '$')")
    c('arith', "message('#1', 2 - 3 - 4, 2 * 3 + 4 * 5, 100 / 10 / 5, 7 - 2 * 3 % 2, -2 * 3, not true == false, -7 / 2, -7 % 3, 7 % -3, 7 / -2, '$')")
    c('grouping', "message('#1', (1 + 2) * 3, 1 + 2 == 3 and 4 > 3 or false, 1 in [1] ? 'y' : 'n', (true ? 1 : 2) == 1 ? 'a' : 'b', '$')")
    c('number-forms', "message('#1', 0x1F, 0b101, 0o17, 0XfF, 0, 00, '$')")
    c('big-int', "x = 10\nforeach i : range(13)\n x = x * x\nendforeach\nmessage('#0', 'done', x > 0, x.is_even(), '$')\nmessage('#1', x, '$')")
    c('big-int-format', "x = 10\nforeach i : range(13)\n x = x * x\nendforeach\ny = '@0@'.format(x)\n")
    c('escapes', "message('#1', 'a\\nb\\\\c\\'d\\x41\\101\\u00e9\\U0001F600\\q\\8\\1234\\x4', '''a\\nb\\'c''', f'\\x41@x', '$')")
    c('newline-in-string', "message('#1', 'multi\nline', '$')\nmessage('#2', 1, '$')\nx = 1 + 'a'")
    c('multiline-expr', "z = [1,\n  2,\n  3 + 'a']")
    c('multiline-dict-error', "z = {'a': 1,\n  'b': [1,\n 2][5]}")
    c('foreach-snapshot', "x = [1,2,3]\nforeach i : x\n  x += [i * 10]\n  message('#a', i, x, '$')\nendforeach\nmessage('#1', x, '$')\nd = {'a': 1}\nforeach k, v : d\n  d += {k + 'x': v}\nendforeach\nmessage('#2', d, '$')")
    c('foreach-loopvar-after', "foreach i : [1,2,3]\n  if i == 2\n    break\n  endif\nendforeach\nmessage('#1', i, '$')\nforeach j : []\nendforeach\nmessage('#2', j, '$')")
    c('foreach-nested-break', "foreach i : [1,2]\n  foreach j : [1,2,3]\n    if j == 2\n      continue\n    endif\n    if i == 2\n      break\n    endif\n    message('#a', i, j, '$')\n  endforeach\nendforeach")
    c('assign-in-args', "message(x = 1)")
    c('plusassign-in-args', "x = 1\ny = [x += 1]")
    c('plusassign-in-args-2', "x = 1\nmessage('#1', x, '$', x += 1)")
    c('paren-assign', "(y = 1)\nmessage('#1', y, '$')\nx = (z = 2)")
    c('flatten-args', "message('#1', [1].length([]), 'a'.join(['x', ['y']]), 'abc'.contains(['b']), '$')\nforeach i : range([1, 3])\nmessage('#2', i, '$')\nendforeach\nassert([true])")
    c('empty-statement-forms', "x = 1\n\n\n  \n# comment\ny = 2 # trailing\nmessage('#1', x, y, '$')\n")
    c('line-continuation', "x = 1 + \\\n  2\nmessage('#1', x, '$')\ny = 1 + 'a'")
    c('project-only', "")
    c('unicode', "message('#1', 'é€' + 'x', 'é€'[1], 'é€'.substring(1), 'é€' < 'z', ['é'], '$')")
    c('message-forms', "message()\nmessage('#1', '$')\nmessage('#2', [], {}, '', '$')\nmessage(['#3', 'x', '$'])\nmessage('#4', [[]], [''], {'a': {}}, '$')")
    c('method-on-literals', "message('#1', 1.to_string(), (1).to_string(), -1.to_string(), [1][0].to_string(), 'a'.to_upper().to_lower(), '$')")
    c('not-precedence', "message('#1', not true == false, not (true == false), not false and false, '$')\nx = not 1 == 2")
    c('in-precedence', "message('#1', 1 + 1 in [2], 'a' + 'b' in ['ab'], 1 in [1] and true, not (1 in [1]), '$')")
    c('unary-minus-precedence', "message('#1', -2 * 3, - 2 + 3, 1 - -1, 2 * -3, -(2 + 3), (-2).to_string(), '$')")
    c('ternary-precedence', "message('#1', true or false ? 1 : 2, false and true ? 1 : 2, 1 + 1 == 2 ? 'a' + 'b' : 'c', '$')\nx = true ? 1 : 2 + 'a'")
    c('ternary-in-args-after-ternary', "x = [true ? 1 : 2, false ? 3 : 4]\nmessage('#1', x, '$')")
    c('get-variable-fallback-types', "message('#1', get_variable('q', [1]), get_variable('q', {}), get_variable(['q', 2]), '$')")
    c('get-variable-builtin', "x = get_variable('meson', 3)\nmessage('#1', x, '$')")
    c('set-variable-flat', "set_variable('a', [1, [2]])\nmessage('#1', a, '$')\nset_variable(['b', 1])")
    c('is-variable-builtin', "message('#1', is_variable('meson'), is_variable('x'), '$')")
    c('unset-in-loop', "x = 1\nforeach i : [1, 2]\n  if is_variable('x')\n    unset_variable('x')\n  endif\n  message('#a', is_variable('x'), '$')\nendforeach")
    c('string-compare', "message('#1', 'a' < 'ab', 'B' < 'a', '' < 'a', 'a' < 'a', 'é' > 'z', '10' < '9', '$')")
    c('dict-order', "d = {'b': 1, 'a': 2}\nd += {'c': 3, 'b': 4}\nmessage('#1', d, d.keys(), d.values(), '$')\nforeach k, v : d\n  message('#a', k, v, '$')\nendforeach")
    c('slice-forms', "a = [0,1,2,3,4,5]\nmessage('#1', a.slice(), a.slice(2, 4), a.slice(-2, 10), a.slice(4, 2), a.slice(5, 0, step: -2), a.slice(step: -1), a.slice(0, 6, step: 4), a.slice(step: true), '$')")
    c('substring-forms', "s = 'abcdef'\nmessage('#1', s.substring(), s.substring(2), s.substring(-2), s.substring(1, 3), s.substring(3, 1), s.substring(-10, 100), s.substring(0, -1), '$')")
    c('strip-forms', "message('#1', '  a b \\n'.strip(), 'xxaxx'.strip('x'), 'abcba'.strip('ab'), 'abc'.strip(''), ' a '.strip(' a'), '$')")
    c('contains-nested', "message('#1', [[1, [2]], 3].contains(2), [[1, [2]], 3].contains([2]), [[1]].contains(1), [].contains(1), ['a'].contains('a'), '$')")
    return C


# ---------------------------------------------------------------------------------- laws
# Reference evaluation of expression TREES in Python (documented meaning of each operator), and
# the minimal-parenthesis printer of the documented precedence ladder:
#   1 ?:   2 or   3 and   4 == != < <= > >= in 'not in' (non-associative)   5 + -   6 * / %
#   7 not, unary -  (do not stack)   8 atoms, (...)
class RefError(Exception):
    pass


def ref_eval(t):
    k = t[0]
    if k == 'lit':
        return t[1]
    if k in ('+', '-', '*', '/', '%'):
        a, b = ref_eval(t[1]), ref_eval(t[2])
        if isinstance(a, bool) or isinstance(b, bool):
            raise RefError('bool in arithmetic')
        if k == '+':
            if isinstance(a, list):
                return a + (b if isinstance(b, list) else [b])
            if type(a) is not type(b):
                raise RefError('type')
            return a + b
        if not (isinstance(a, int) and isinstance(b, int)):
            raise RefError('type')
        if k == '-':
            return a - b
        if k == '*':
            return a * b
        if b == 0:
            raise RefError('div0')
        return a // b if k == '/' else a % b
    if k in ('==', '!=', '<', '<=', '>', '>='):
        a, b = ref_eval(t[1]), ref_eval(t[2])
        if type(a) is not type(b):
            raise RefError('type')
        if k in ('<', '<=', '>', '>=') and not isinstance(a, (int, str)) or (k not in ('==', '!=') and isinstance(a, bool)):
            raise RefError('type')
        return {'==': a == b, '!=': a != b, '<': a < b if k == '<' else None, '<=': None, '>': None, '>=': None}[k] if k in ('==', '!=') else \
            {'<': lambda: a < b, '<=': lambda: a <= b, '>': lambda: a > b, '>=': lambda: a >= b}[k]()
    if k in ('in', 'not in'):
        a, b = ref_eval(t[1]), ref_eval(t[2])
        if not isinstance(b, list) or any(type(x) is not type(a) for x in b):
            raise RefError('type')
        return (a in b) if k == 'in' else (a not in b)
    if k == 'and':
        a = ref_eval(t[1])
        if not isinstance(a, bool):
            raise RefError('type')
        if not a:
            return False
        b = ref_eval(t[2])
        if not isinstance(b, bool):
            raise RefError('type')
        return b
    if k == 'or':
        a = ref_eval(t[1])
        if not isinstance(a, bool):
            raise RefError('type')
        if a:
            return True
        b = ref_eval(t[2])
        if not isinstance(b, bool):
            raise RefError('type')
        return b
    if k == 'not':
        a = ref_eval(t[1])
        if not isinstance(a, bool):
            raise RefError('type')
        return not a
    if k == 'neg':
        a = ref_eval(t[1])
        if isinstance(a, bool) or not isinstance(a, int):
            raise RefError('type')
        return -a
    if k == '?:':
        c = ref_eval(t[1])
        if not isinstance(c, bool):
            raise RefError('type')
        return ref_eval(t[2]) if c else ref_eval(t[3])
    raise ValueError(k)


LEVEL = {'?:': 1, 'or': 2, 'and': 3, '==': 4, '!=': 4, '<': 4, '<=': 4, '>': 4, '>=': 4, 'in': 4, 'not in': 4,
         '+': 5, '-': 5, '*': 6, '/': 6, '%': 6, 'not': 7, 'neg': 7, 'lit': 8}


def lit_text(v):
    if isinstance(v, bool):
        return 'true' if v else 'false'
    if isinstance(v, int):
        return str(v) if v >= 0 else '(-%d)' % -v     # negative literals are unary expressions
    if isinstance(v, str):
        return "'" + v.replace('\\', '\\\\').replace("'", "\\'").replace('\n', '\\n') + "'"
    if isinstance(v, list):
        return '[' + ', '.join(lit_text(x) for x in v) + ']'
    if isinstance(v, dict):
        return '{' + ', '.join('%s: %s' % (lit_text(k), lit_text(x)) for k, x in v.items()) + '}'
    raise TypeError(v)


def print_min(t):
    """minimal-parenthesis text of a tree under the documented ladder (left-associative binary
    operators; comparisons do not chain; unary operators do not stack; no ternary inside a ternary)"""
    k = t[0]
    if k == 'lit':
        return lit_text(t[1])

    def sub(x, need):
        s = print_min(x)
        return s if LEVEL[x[0]] >= need else '(' + s + ')'
    L = LEVEL[k]
    if k == '?:':
        return '%s ? %s : %s' % (sub(t[1], 2), sub(t[2], 2), sub(t[3], 2))
    if k in ('not', 'neg'):
        return ('not ' if k == 'not' else '-') + sub(t[1], 8)
    if L == 4:
        return '%s %s %s' % (sub(t[1], 5), k, sub(t[2], 5))
    return '%s %s %s' % (sub(t[1], L), k, sub(t[2], L + 1))


def has_ternary(t):
    return t[0] == '?:' or any(isinstance(x, tuple) and has_ternary(x) for x in t[1:])


def rand_tree(rng, ty, d):
    """random well-typed tree of result type ty in {'int','bool','str','ilist'}"""
    if d <= 0 or rng.random() < 0.2:
        if ty == 'int':
            return ('lit', rng.choice([0, 1, 2, 3, 5, 7, 10, 12, 100, -1, -7]))
        if ty == 'bool':
            return ('lit', rng.random() < 0.5)
        if ty == 'str':
            return ('lit', rng.choice(['', 'a', 'b', 'ab', 'B', 'x y']))
        return ('lit', [rng.randint(0, 4) for _ in range(rng.randint(0, 3))])
    r = rng.random()
    if ty == 'int':
        if r < 0.7:
            return (rng.choice(['+', '-', '*', '/', '%', '+', '-', '*']), rand_tree(rng, 'int', d - 1), rand_tree(rng, 'int', d - 1))
        if r < 0.8:
            return ('neg', rand_tree(rng, 'int', d - 1))
        return ('?:', rand_tree(rng, 'bool', d - 1), rand_tree(rng, 'int', d - 1), rand_tree(rng, 'int', d - 1))
    if ty == 'bool':
        if r < 0.3:
            return (rng.choice(['==', '!=', '<', '<=', '>', '>=']), rand_tree(rng, 'int', d - 1), rand_tree(rng, 'int', d - 1))
        if r < 0.4:
            return (rng.choice(['==', '!=', '<', '>=']), rand_tree(rng, 'str', d - 1), rand_tree(rng, 'str', d - 1))
        if r < 0.5:
            return (rng.choice(['==', '!=']), rand_tree(rng, 'bool', d - 1), rand_tree(rng, 'bool', d - 1))
        if r < 0.75:
            return (rng.choice(['and', 'or']), rand_tree(rng, 'bool', d - 1), rand_tree(rng, 'bool', d - 1))
        if r < 0.85:
            return ('not', rand_tree(rng, 'bool', d - 1))
        if r < 0.93:
            return (rng.choice(['in', 'not in']), rand_tree(rng, 'int', d - 1), rand_tree(rng, 'ilist', d - 1))
        return ('?:', rand_tree(rng, 'bool', d - 1), rand_tree(rng, 'bool', d - 1), rand_tree(rng, 'bool', d - 1))
    if ty == 'str':
        if r < 0.8:
            return ('+', rand_tree(rng, 'str', d - 1), rand_tree(rng, 'str', d - 1))
        return ('?:', rand_tree(rng, 'bool', d - 1), rand_tree(rng, 'str', d - 1), rand_tree(rng, 'str', d - 1))
    if r < 0.6:
        return ('+', rand_tree(rng, 'ilist', d - 1), rand_tree(rng, rng.choice(['ilist', 'int']), d - 1))
    return ('?:', rand_tree(rng, 'bool', d - 1), rand_tree(rng, 'ilist', d - 1), rand_tree(rng, 'ilist', d - 1))


def ok_tree(t, in_tern=False):
    """no ternary inside a ternary (at any depth), no stacked unary operators"""
    k = t[0]
    if k == 'lit':
        return True
    if k == '?:':
        if in_tern:
            return False
        return ok_tree(t[1], False) and ok_tree(t[2], True) and ok_tree(t[3], True)
    if k in ('not', 'neg') and t[1][0] in ('not', 'neg'):
        return False
    if k == 'neg' and t[1][0] == 'lit' and isinstance(t[1][1], int) and t[1][1] < 0:
        pass
    return all(ok_tree(x, in_tern) for x in t[1:] if isinstance(x, tuple))


def all_small_trees():
    """exhaustive: every two-operator tree shape over integer arithmetic and over boolean logic
    (both groupings), i.e. every ordered pair of binary operators - the whole precedence and
    associativity table"""
    out = []
    iops = ['+', '-', '*', '/', '%']
    a, b, c = ('lit', 17), ('lit', 5), ('lit', 3)
    for o1, o2 in itertools.product(iops, iops):
        out.append((o1, (o2, a, b), c))
        out.append((o1, a, (o2, b, c)))
    bops = ['and', 'or']
    for o1, o2 in itertools.product(bops, bops):
        for x, y, z in itertools.product([True, False], repeat=3):
            out.append((o1, (o2, ('lit', x), ('lit', y)), ('lit', z)))
            out.append((o1, ('lit', x), (o2, ('lit', y), ('lit', z))))
    cmps = ['==', '!=', '<', '<=', '>', '>=']
    for o1, o2 in itertools.product(cmps, iops):
        out.append((o1, (o2, a, b), c))
        out.append((o1, a, (o2, b, c)))
    for o1, o2 in itertools.product(bops, cmps):
        out.append((o1, (o2, a, b), ('lit', True)))
        out.append((o1, ('lit', False), (o2, b, c)))
    for o in iops:
        out.append(('neg', (o, a, b)))
        out.append((o, ('neg', a), b))
        out.append((o, a, ('neg', b)))
    for o in bops:
        out.append(('not', (o, ('lit', True), ('lit', False))))
        out.append((o, ('not', ('lit', True)), ('lit', False)))
    for o in ['==', '!=']:
        out.append(('not', (o, ('lit', True), ('lit', False))))
        out.append((o, ('not', ('lit', True)), ('lit', False)))
    for o in bops + cmps + iops:
        l, r = (('lit', True), ('lit', False)) if o in bops else (a, b)
        val = ('lit', 1) if o in iops else None
        out.append(('?:', (o, l, r) if o not in iops else ('==', (o, l, r), c), ('lit', 1), ('lit', 2)))
        if o in iops:
            out.append(('?:', ('lit', True), (o, l, r), (o, r, l)))
        else:
            out.append(('?:', ('lit', False), (o, l, r), (o, r, l)))
    return out


def decode_ref(body):
    """reference decoding of the documented escapes of '...' strings (Syntax.md "Strings"):
    \\\\ \\' \\a \\b \\f \\n \\r \\t \\v \\ooo \\xhh \\uxxxx \\Uxxxxxxxx; anything else is literal"""
    out, i = [], 0
    simple = {'\\': '\\', "'": "'", 'a': '\a', 'b': '\b', 'f': '\f', 'n': '\n', 'r': '\r', 't': '\t', 'v': '\v'}
    hexd = '0123456789abcdefABCDEF'
    while i < len(body):
        c = body[i]
        if c != '\\' or i + 1 >= len(body):
            out.append(c)
            i += 1
            continue
        x = body[i + 1]
        done = False
        for ch, n in (('U', 8), ('u', 4), ('x', 2)):
            if x == ch and len(body) >= i + 2 + n and all(h in hexd for h in body[i + 2:i + 2 + n]):
                out.append(chr(int(body[i + 2:i + 2 + n], 16)))
                i += 2 + n
                done = True
                break
        if done:
            continue
        if x == 'N' and body[i + 2:i + 3] == '{' and '}' in body[i + 4:]:
            j = body.index('}', i + 4)
            import unicodedata
            out.append(unicodedata.lookup(body[i + 3:j]))
            i = j + 1
            continue
        if x in '01234567':
            j = i + 1
            while j < len(body) and j < i + 4 and body[j] in '01234567':
                j += 1
            out.append(chr(int(body[i + 1:j], 8)))
            i = j
            continue
        if x in simple:
            out.append(simple[x])
            i += 2
            continue
        out.append(c)
        i += 1
    return ''.join(out)


# every escape kind the reference lists, unknown escapes, truncated escapes
ESC_ATOMS = ['\\\\', "\\'", '\\a', '\\b', '\\f', '\\n', '\\r', '\\t', '\\v', '\\7', '\\101', '\\1234', '\\x41', '\\x7e', '\\xe9',
             '\\u00e9', '\\u20ac', '\\U0001F600', '\\q', '\\8', '\\x4', '\\u12', '\\U0001', '\\ ', '\\@', '\\x40', '\\100']
ESC_ASCII = [a for a in ESC_ATOMS if a not in ('\\xe9', '\\u00e9', '\\u20ac', '\\U0001F600', '\\1234')]
PLAIN_ATOMS = ['a', 'Z', ' ', '0', '%', '-', '@', '@@', 'who', '0@']
FSTR_ATOMS = ['@who@', '@n@', '@who', '\\x40who@', '@who\\x40', '@0@']
FORMS = ['s', 'm', 'fs', 'fm']       # '...'  '''...'''  f'...'  f'''...'''
STR_VARS = {'who': 'X', 'n': 7}


def string_form_case(rng, named=False):
    """-> (form, body): one string literal in one of the four forms with escapes of every kind"""
    form = rng.choice(FORMS)
    atoms = []
    for _ in range(rng.randint(1, 6)):
        k = rng.random()
        if k < 0.55:
            atoms.append(rng.choice(ESC_ATOMS))
        elif k < 0.75:
            atoms.append(rng.choice(PLAIN_ATOMS))
        elif form in ('fs', 'fm') or k < 0.85:
            atoms.append(rng.choice(FSTR_ATOMS))
        elif form in ('m', 'fm'):
            atoms.append(rng.choice(['\n', '\\\n', '\t', "'", "''"]))     # raw newline, backslash-newline, lone quotes
        else:
            atoms.append(rng.choice(PLAIN_ATOMS))
    if named and rng.random() < 0.3:
        atoms.insert(rng.randint(0, len(atoms)), rng.choice(['\\N{LATIN SMALL LETTER A}', '\\N{EURO SIGN}', '\\N{DIGIT ONE}']))
    body = ''.join(atoms)
    if form in ('m', 'fm'):
        while TQ in body:
            body = body.replace(TQ, "''z")
        if body.endswith("'"):
            body += 'z'
    return form, body


def literal_text(form, body):
    if form == 's':
        return "'" + body + "'"
    if form == 'fs':
        return "f'" + body + "'"
    if form == 'm':
        return TQ + body + TQ
    return 'f' + TQ + body + TQ


def literal_value_ref(form, body):
    """the reference: escapes are decoded in '...' and f'...', never in the triple-quoted forms;
    @name@ of an f-string is replaced afterwards, in the resulting value"""
    import re
    v = decode_ref(body) if form in ('s', 'fs') else body
    if form in ('fs', 'fm'):
        v = re.sub(r'@([_a-zA-Z][_0-9a-zA-Z]*)@', lambda m: py_str(STR_VARS[m.group(1)]) if m.group(1) in STR_VARS else None, v) \
            if all(g in STR_VARS for g in re.findall(r'@([_a-zA-Z][_0-9a-zA-Z]*)@', _nonoverlap(v))) else None
    return v


def _nonoverlap(v):
    return v


def py_str(x):
    return ('true' if x else 'false') if isinstance(x, bool) else str(x)


def string_form_statements(rng, n, named=False):
    """-> list of (expression text, expected python value): the literal itself, its number of
    backslashes counted in-language, the literal as a dict key and as a format() template"""
    import re
    out = []
    while len(out) < n:
        form, body = string_form_case(rng, named)
        v = literal_value_ref(form, body)
        if v is None:
            continue                      # refers to an undefined variable
        lit = literal_text(form, body)
        out.append((lit, v))
        out.append(("%s.split('\\\\').length() - 1" % lit, v.count('\\')))
        k = rng.random()
        if k < 0.25:
            out.append(('{%s: 1}.keys()' % lit, [v]))
        elif k < 0.5:
            out.append(("{'k': %s}['k'] == %s" % (lit, lit), True))
        elif k < 0.75 and form in ('s', 'm'):
            try:
                fv = re.sub(r'@(\d+)@', lambda m: ['A', 'true'][int(m.group(1))], v)
            except IndexError:
                continue
            out.append(("%s.format('A', true)" % lit, fv))
        elif form in ('s', 'fs'):
            out.append(("%s.contains('\\\\')" % lit, '\\' in v))
    return out


def string_form_project(stmts):
    lines = ["who = 'X'", 'n = 7']
    vals = {}
    for i, (txt, val) in enumerate(stmts):
        tag = 's' + b36(i)
        lines.append("message('#%s', %s, '$')" % (tag, txt))
        vals[tag] = val
    return P('\n'.join(lines) + '\n'), vals


def laws(rng, thorough=False):
    """-> list of {'law', 'files', 'expect'}: the property's clauses with expectations computed in
    Python from the inputs (the model is not involved)"""
    L = []

    def values_law(name, stmts_vals, pre=''):
        """stmts_vals: list of (expression text, expected python value)"""
        lines, vals = [], {}
        for i, (txt, val) in enumerate(stmts_vals):
            tag = 'q' + b36(i)
            lines.append("message('#%s', %s, '$')" % (tag, txt))
            vals[tag] = val
        L.append({'law': name, 'files': P(pre + '\n'.join(lines) + '\n'), 'expect': {'kind': 'values', 'values': vals, 'exact': True}})

    # --- documented precedence and associativity: exhaustive operator pairs + random trees
    small = []
    for t in all_small_trees():
        try:
            small.append((print_min(t), ref_eval(t)))
        except RefError:
            pass
    for i in range(0, len(small), 120):
        values_law('precedence-table-%d' % (i // 120), small[i:i + 120])
    ntrees = 1200 if thorough else 240
    batch = []
    while len(batch) < ntrees:
        t = rand_tree(rng, rng.choice(['int', 'int', 'bool', 'bool', 'str', 'ilist']), rng.randint(2, 5))
        if not ok_tree(t):
            continue
        try:
            batch.append((print_min(t), ref_eval(t)))
        except RefError:
            continue
    for i in range(0, len(batch), 80):
        values_law('precedence-random-%d' % (i // 80), batch[i:i + 80])

    # --- floor division and modulo, sign of the remainder
    dm = []
    for a in list(range(-7, 8)) + [10 ** 20 + 7, -(10 ** 20) - 7]:
        for b in [-5, -3, -2, -1, 1, 2, 3, 5, 10 ** 19]:
            dm.append(('%s / %s' % (lit_text(a), lit_text(b)), a // b))
            dm.append(('%s %% %s' % (lit_text(a), lit_text(b)), a % b))
            dm.append(('%s * (%s / %s) + %s %% %s == %s' % (lit_text(b), lit_text(a), lit_text(b), lit_text(a), lit_text(b), lit_text(a)), True))
    for i in range(0, len(dm), 150):
        values_law('floor-div-mod-%d' % (i // 150), dm[i:i + 150])

    # --- short-circuit evaluation, laziness of ternary and if/elif
    values_law('short-circuit', [
        ('false and 1 / 0 == 1', False), ('true or 1 / 0 == 1', True), ('false and undefined_name', False),
        ('true or undefined_name', True), ('false and (true and 1 / 0 == 0)', False), ("true ? 'a' : 1 / 0", 'a'),
        ("false ? [][0] : 'b'", 'b'), ('(false and 1 / 0 == 1) or true', True), ('not (false and nofunc())', True)])
    L.append({'law': 'and-evaluates-right-when-left-true', 'files': P("message('#a', 1, '$')\nx = true and 1 / 0 == 1\nmessage('#b', 1, '$')\n"),
              'expect': {'kind': 'fails', 'line': 3, 'values': {'a': 1}, 'absent': ['b']}})
    L.append({'law': 'or-evaluates-right-when-left-false', 'files': P("x = false or 1 / 0 == 1\n"), 'expect': {'kind': 'fails', 'line': 2}})
    L.append({'law': 'if-lazy', 'files': P("if true\n  message('#a', 1, '$')\nelif 1 / 0 == 1\n  message('#b', 1, '$')\nelse\n  message('#c', 1, '$')\nendif\n"
                                             "if false\n  message('#d', 1, '$')\nelif true\n  message('#e', 1, '$')\nelif nofunc()\nendif\n"),
              'expect': {'kind': 'values', 'values': {'a': 1, 'e': 1}, 'exact': True}})

    # --- escapes decoded in '...' and not in '''...'''
    esc = []
    atoms = ['a', 'Z', ' ', '\\n', '\\t', '\\\\', "\\'", '\\x41', '\\x7e', '\\101', '\\7', '\\u00e9', '\\U0001F600', '\\q', '\\8', '\\x4', '\\u12', '@', '\\a\\b\\f\\r\\v'.replace('\\a', '').replace('\\b', '').replace('\\f', '').replace('\\r', '').replace('\\v', '') or 'k', '\\1234']
    for _ in range(60 if not thorough else 300):
        body = ''.join(rng.choice(atoms) for _ in range(rng.randint(0, 6)))
        esc.append(("'%s'" % body, decode_ref(body)))
        if "'''" not in body and not body.endswith("'") and not body.endswith('\\'):
            esc.append(("'''%s'''" % body, body))
    values_law('escapes', esc)
    # all four literal forms x every escape kind (+ @var@ interplay, dict keys, format templates,
    # backslash counts computed in-language); \\N{...} only here (not in the model)
    for k in range(6 if thorough else 2):
        files, vals = string_form_project(string_form_statements(rng, 150, named=(k % 2 == 1)))
        L.append({'law': 'string-forms-%d' % k, 'files': files, 'expect': {'kind': 'values', 'values': vals, 'exact': True}})

    # --- sorted keys, negative indexing, bounds
    ks = []
    for _ in range(12):
        keys = rng.sample(['b', 'a', 'c', 'B', 'aa', 'a b', '0', 'z', 'Zz', '10', '9', '_'], rng.randint(0, 7))
        d = {k: i for i, k in enumerate(keys)}
        ks.append((lit_text(d) + '.keys()', sorted(keys)))
        ks.append((lit_text(d) + '.values()', [d[k] for k in sorted(keys)]))
    for _ in range(12):
        arr = [rng.randint(0, 9) for _ in range(rng.randint(1, 6))]
        i = rng.randint(1, len(arr))
        ks.append(('%s[-%d]' % (lit_text(arr), i), arr[-i]))
        ks.append(('%s[%d]' % (lit_text(arr), len(arr) - i), arr[-i]))
        s = ''.join(rng.choice('abcdef') for _ in range(len(arr)))
        ks.append(("'%s'[-%d]" % (s, i), s[-i]))
    values_law('keys-sorted-negative-index', ks)
    for arr, i in (([1, 2, 3], 3), ([1, 2, 3], -4), ([], 0), ([], -1)):
        L.append({'law': 'index-out-of-bounds %r[%d]' % (arr, i), 'files': P("message('#a', 1, '$')\nx = %s[%d]\n" % (lit_text(arr), i)),
                  'expect': {'kind': 'fails', 'line': 3, 'values': {'a': 1}}})

    # --- immutability: no operation on one name changes the value seen through another
    al = "a = [1, [2], {'k': [3]}]\nb = a\nb += [4]\nmessage('#1', a, '$')\nmessage('#2', b, '$')\n" \
         "d = {'x': a}\ne = d\na += 5\ne += {'y': 1}\nmessage('#3', d, '$')\nmessage('#4', e, '$')\nmessage('#5', a, '$')\n" \
         "s = 'st'\nt = s\nt += 'uv'\nmessage('#6', s, t, '$')\nn = 1\nm = n\nm += 1\nmessage('#7', n, m, '$')\n" \
         "foreach i : a\n  a += [0]\nendforeach\nmessage('#8', a.length(), '$')\nset_variable('z', a)\nz += 9\nmessage('#9', a.length(), z.length(), '$')\n" \
         "x = [a, a]\na = []\nmessage('#a', x[0].length(), x[1].length(), a, '$')\n"
    L.append({'law': 'immutability-aliasing', 'files': P(al), 'expect': {'kind': 'values', 'exact': True, 'values': {
        '1': [1, [2], {'k': [3]}], '2': [1, [2], {'k': [3]}, 4], '3': {'x': [1, [2], {'k': [3]}]},
        '4': {'x': [1, [2], {'k': [3]}], 'y': 1}, '5': [1, [2], {'k': [3]}, 5], '6': 'st stuv', '7': '1 2', '8': 8, '9': '8 9', 'a': '8 8 []'}}})

    # --- foreach iterates over the value at loop entry; break / continue
    fe = "x = [1, 2, 3]\nforeach i : x\n  x += [i * 10]\n  message('#a', i, '$')\nendforeach\nmessage('#b', x, '$')\n" \
         "foreach i : [1, 2, 3, 4]\n  if i == 2\n    continue\n  endif\n  if i == 4\n    break\n  endif\n  message('#c', i, '$')\nendforeach\n" \
         "foreach k, v : {'b': 1, 'a': 2}\n  message('#d', k, v, '$')\nendforeach\nforeach i : range(1, 8, 3)\n  message('#e', i, '$')\nendforeach\n"
    L.append({'law': 'foreach-snapshot-break-continue', 'files': P(fe), 'expect': {'kind': 'values', 'values': {'b': [1, 2, 3, 10, 20, 30]}}})

    # --- subdir() shares all variables; subproject() variables only through get_variable()
    L.append({'law': 'subdir-shares-variables', 'files': P("x = 1\nsubdir('d')\nmessage('#1', x, y, '$')\n", d__meson_build="y = x + 1\nx += 10\n"),
              'expect': {'kind': 'values', 'values': {'1': '11 2'}, 'exact': True}})
    L.append({'law': 'subproject-isolated', 'files': P("x = 1\nsp = subproject('q')\nmessage('#1', is_variable('v'), x, sp.get_variable('v'), '$')\n",
                                                        subprojects__q__meson_build="project('q')\nv = 7\nmessage('#0', is_variable('x'), '$')\nx = 99\n"),
              'expect': {'kind': 'values', 'values': {'0': False, '1': 'false 1 7'}, 'exact': True}})
    L.append({'law': 'subproject-variable-not-in-scope', 'files': P("sp = subproject('q')\nmessage('#1', 1, '$')\ny = v\n", subprojects__q__meson_build="project('q')\nv = 7\n"),
              'expect': {'kind': 'fails', 'line': 4, 'file': 'meson.build', 'values': {'1': 1}}})

    # --- nested scoping: subdirs of subdirs share one store; subprojects of subprojects are isolated
    L.append({'law': 'nested-subdirs-one-store',
              'files': P("x = [1]\nsubdir('a')\nmessage('#1', x, y, z, '$')\n", a__meson_build="y = x + [2]\nsubdir('b')\nx += 9\n",
                         a__b__meson_build="z = y + [3]\nx += 8\nmessage('#b', x, '$')\n"),
              'expect': {'kind': 'values', 'values': {'b': [1, 8], '1': '[1, 8, 9] [1, 2] [1, 2, 3]'}, 'exact': True}})
    L.append({'law': 'subproject-of-subproject-isolated',
              'files': P("top = 1\na = subproject('s1')\nmessage('#1', a.get_variable('v'), is_variable('inner'), is_variable('v'), '$')\n",
                         subprojects__s1__meson_build="project('s1')\ns = subproject('s2')\nv = s.get_variable('inner') + 1\nmessage('#a', is_variable('inner'), is_variable('top'), '$')\n",
                         subprojects__s2__meson_build="project('s2')\ninner = 41\nmessage('#b', is_variable('v'), is_variable('top'), is_variable('s'), '$')\n"),
              'expect': {'kind': 'values', 'values': {'b': 'false false false', 'a': 'false false', '1': '42 false false'}, 'exact': True}})
    L.append({'law': 'subdir-twice-fails', 'files': P("subdir('a')\nmessage('#1', 1, '$')\nsubdir('a')\n", a__meson_build="x = 1\n"),
              'expect': {'kind': 'fails', 'line': 4, 'file': 'meson.build', 'values': {'1': 1}}})
    L.append({'law': 'subdir-twice-via-nested-path-fails', 'files': P("subdir('a')\nsubdir('a/b')\n", a__meson_build="subdir('b')\n", a__b__meson_build="x = 1\n"),
              'expect': {'kind': 'fails', 'line': 3, 'file': 'meson.build'}})
    L.append({'law': 'subdir-cannot-leave-the-tree', 'files': P("subdir('a')\n", a__meson_build="message('#1', 1, '$')\nsubdir('../b')\n", b__meson_build="message('#2', 1, '$')\n"),
              'expect': {'kind': 'fails', 'line': 2, 'file': 'a/meson.build', 'values': {'1': 1}, 'absent': ['2']}})
    L.append({'law': 'subdir-absolute-fails', 'files': P("subdir('/')\n"), 'expect': {'kind': 'fails', 'line': 2}})
    L.append({'law': 'subdir-error-located-in-its-file', 'files': P("subdir('a')\n", a__meson_build="x = 1\nsubdir('b')\n", a__b__meson_build="y = 2\n\nz = x + y + 'q'\n"),
              'expect': {'kind': 'fails', 'line': 3, 'file': 'a/b/meson.build'}})
    L.append({'law': 'subproject-variable-of-nested-not-in-scope',
              'files': P("a = subproject('s1')\nb = subproject('s2')\nmessage('#1', b.get_variable('inner'), '$')\nc = inner\n",
                         subprojects__s1__meson_build="project('s1')\ns = subproject('s2')\n", subprojects__s2__meson_build="project('s2')\ninner = 41\nmessage('#once', 1, '$')\n"),
              'expect': {'kind': 'fails', 'line': 5, 'file': 'meson.build', 'values': {'once': 1, '1': 41}}})

    # --- strict typing: no implicit conversion (a sample of the table; the full table is in the
    #     correspondence stream)
    strict = ["1 + 'a'", "'a' + 1", "'1' == 1", "true == 'true'", "[1] == 1", "1 < 'a'", "'a' * 2", "not 1", "-'a'", "1 and true",
              "'3'.to_int() + '4'", "[1] + 1 == 2", "{'a': 1} + [1]", "1 in 1", "true + true", "'a' - 'a'", "true == 1"]
    for sx in strict:
        L.append({'law': 'strict-typing %s' % sx, 'files': P("message('#a', 1, '$')\nx = %s\nmessage('#b', 1, '$')\n" % sx),
                  'expect': {'kind': 'fails', 'line': 3, 'values': {'a': 1}, 'absent': ['b']}})
    # int operators given a bool (recorded finding C01:bool-accepted-as-int)
    L.append({'law': 'bool-accepted-as-int', 'files': P("x = 1 + true\n"), 'expect': {'kind': 'fails', 'line': 2}, 'ident': 'C01:bool-accepted-as-int'})

    # --- integers are unbounded: a large integer can be printed (recorded finding)
    L.append({'law': 'int-str-limit', 'ident': 'C01:internal-error:ValueError:int-str-limit',
              'files': P("x = 10\nforeach i : range(13)\n  x = x * x\nendforeach\nmessage('#1', x == x, '$')\nmessage('#2', x, '$')\n"),
              'expect': {'kind': 'values', 'values': {'1': True, '2': '1' + '0' * (2 ** 13)}}})

    # --- behaviour of the pending fixes (dictionaries are plain data; type errors are meson errors)
    L.append({'law': 'dict-kwargs-key', 'ident': 'C01:dict-literal-kwargs-key',
              'files': P("d = {'kwargs': {'a': 1}, 'b': 2}\nmessage('#1', d, '$')\nmessage('#2', {'kwargs': 3}['kwargs'], '$')\n"),
              'expect': {'kind': 'values', 'values': {'1': {'kwargs': {'a': 1}, 'b': 2}, '2': 3}, 'exact': True}})
    L.append({'law': 'range-index-type', 'ident': 'C01:internal-error:TypeError:range-index',
              'files': P("x = range(3)['a']\n"), 'expect': {'kind': 'fails', 'line': 2}})
    L.append({'law': 'to-string-fill-bool', 'ident': 'C01:internal-error:ValueError:to_string-fill-bool',
              'files': P("x = 1.to_string(fill: true)\n"), 'expect': {'kind': 'fails', 'line': 2}})
    L.append({'law': 'break-outside-loop', 'ident': 'C01:internal-error:BreakRequest:outside-loop',
              'files': P("message('#a', 1, '$')\nbreak\n"), 'expect': {'kind': 'fails', 'line': 3, 'values': {'a': 1}}})
    L.append({'law': 'continue-outside-loop', 'ident': 'C01:internal-error:BreakRequest:outside-loop',
              'files': P("if true\n  continue\nendif\n"), 'expect': {'kind': 'fails', 'line': 3}})
    return L


# ---------------------------------------------------------------------------------- primitives
def prim_exprs(rng, n):
    """random applications of the documented methods / operators to literal operands with
    awkward contents (whitespace of every kind, separators, signs, underscores, empty strings,
    negative / out-of-range indices) -> list of (ident, expression text)"""
    WS = [' ', '\\t', '\\n', '\\r', '\\x0b', '\\x0c', '\\x1c', '\\x85', '\\u2028', '\\xa0']
    ATOMS = ['a', 'b', 'ab', 'A', 'Z', '0', '1', '12', '-', '+', '_', ',', ',,', '.', '/', '//', '\\\\', 'x', ' ', '  ', '@', '@0@', '--'] + WS

    def sdata(maxn=6):
        return ''.join(rng.choice(ATOMS) for _ in range(rng.randint(0, maxn)))

    def slit(maxn=6):
        return "'" + sdata(maxn) + "'"

    def num():
        return rng.choice([0, 1, 2, 3, 5, -1, -2, -3, -7, 10, 100])

    def ilit():
        v = rng.choice([0, 1, 2, 7, 10, 255, 256, 1000, -1, -7, -255, 2 ** 64, -(2 ** 70) + 1])
        return str(v) if v >= 0 else '(%d)' % v

    def alit(kind='str'):
        k = rng.randint(0, 5)
        if kind == 'str':
            return '[' + ', '.join(slit(3) for _ in range(k)) + ']'
        if kind == 'int':
            return '[' + ', '.join(str(rng.randint(-3, 9)) for _ in range(k)) + ']'
        items = []
        for _ in range(k):
            items.append(rng.choice([slit(2), str(rng.randint(0, 5)), 'true', '[%s]' % rng.choice(['', '1', "'a', [2]", '[[3]]'])]))
        return '[' + ', '.join(items) + ']'

    def dlit():
        keys = rng.sample(['b', 'a', 'c', 'B', 'aa', 'a b', '0', 'z', '10', '9', '_', ''], rng.randint(0, 5))
        return '{' + ', '.join("'%s': %s" % (k, rng.choice([str(rng.randint(0, 9)), slit(2), '[1]'])) for k in keys) + '}'

    out = []
    forms = [
        lambda: '%s.split(%s)' % (slit(8), rng.choice(['', slit(1), "','", "' '", "'ab'", "'--'"])),
        lambda: '%s.splitlines()' % slit(8),
        lambda: '%s.strip(%s)' % (slit(8), rng.choice(['', '', slit(2), "' '", "'ab'"])),
        lambda: '%s.replace(%s, %s)' % (slit(8), slit(2), slit(2)),
        lambda: '%s.substring(%s)' % (slit(8), rng.choice(['', str(num()), '%d, %d' % (num(), num())])),
        lambda: '%s.join(%s)' % (slit(2), alit('str')),
        lambda: '%s.contains(%s)' % (slit(6), slit(2)),
        lambda: '%s.startswith(%s)' % (slit(6), slit(2)),
        lambda: '%s.endswith(%s)' % (slit(6), slit(2)),
        lambda: '%s.underscorify()' % slit(8),
        lambda: "'%s%s%s'.to_int()" % (rng.choice(['', ' ', '\\t', '\\n']), rng.choice(['', '-', '+', '--']) + rng.choice(['0', '7', '12', '007', '1_000', '1__0', '_1', '1_', '0x1F', '0X_a', '0b101', '0o17', '0b2', '0x', '١٢' if False else '12', '1 2', '', 'a', '0_0', '00', '9' * 30]), rng.choice(['', ' ', '\\n'])),
        lambda: '%s.to_upper()' % slit(6).replace('\\u2028', 'q').replace('\\x85', 'q').replace('\\xa0', 'q'),
        lambda: '%s.to_lower()' % slit(6).replace('\\u2028', 'q').replace('\\x85', 'q').replace('\\xa0', 'q'),
        lambda: "'%s'.format(%s)" % (''.join(rng.choice(['a', ' ', '@0@', '@1@', '@2@', '@', '@@', '@00@', '@0', '0@', '@a@', '@-1@']) for _ in range(rng.randint(0, 5))),
                                     ', '.join(rng.choice([slit(2), ilit(), 'true', alit('mixed'), dlit()]) for _ in range(rng.randint(0, 3)))),
        lambda: '%s[%d]' % (slit(5), num()),
        lambda: '%s %s %s' % (slit(4), rng.choice(['+', '/', '==', '!=', '<', '<=', '>', '>=', 'in', 'not in']), slit(4)),
        lambda: "'%s'.version_compare('%s')" % (rng.choice(['1.2.3', '1.0', '0.50', '1.10', '1.2rc1', '2', '1.2.3.4']), rng.choice(['>=', '<', '==', '!=', '>', '<=', '=', '']) + rng.choice(['1.2', '1.2.3', '1.10', '0.9', '2.0', '1.2.0'])),
        lambda: '%s.to_string(%s)' % (ilit(), rng.choice(['', 'fill: %d' % rng.choice([0, 1, 3, 8, 12, -4]), "format: '%s'" % rng.choice(['dec', 'hex', 'oct', 'bin']),
                                                          "fill: %d, format: '%s'" % (rng.choice([0, 2, 6, 10]), rng.choice(['dec', 'hex', 'oct', 'bin']))])),
        lambda: '%s %s %s' % (ilit(), rng.choice(['+', '-', '*', '/', '%', '==', '!=', '<', '<=', '>', '>=']), rng.choice([ilit(), '3', '(-3)', '7', '(-7)', '1'])),
        lambda: '%s.%s()' % (ilit(), rng.choice(['is_even', 'is_odd'])),
        lambda: '%s.get(%d%s)' % (alit('int'), num(), rng.choice(['', ', 99', ", 'd'"])),
        lambda: '%s[%d]' % (alit('int'), num()),
        lambda: '%s.slice(%s)' % (alit('int'), rng.choice(['', '%d, %d' % (num(), num()), 'step: %d' % rng.choice([1, 2, 3, -1, -2, -3]),
                                                            '%d, %d, step: %d' % (num(), num(), rng.choice([1, 2, -1, -2, 5]))])),
        lambda: '%s.contains(%s)' % (alit('mixed'), rng.choice(['1', "'a'", '[2]', '[[3]]', 'true', '3', '[]'])),
        lambda: '%s.flatten()' % alit('mixed'),
        lambda: '%s.length()' % alit('mixed'),
        lambda: '%s %s %s' % (alit('mixed'), rng.choice(['+', '==', '!=']), alit('mixed')),
        lambda: '%s %s %s' % (rng.choice(['1', "'a'", '[2]', 'true', '3']), rng.choice(['in', 'not in']), alit('mixed')),
        lambda: '%s.keys()' % dlit(),
        lambda: '%s.values()' % dlit(),
        lambda: "%s.get('%s'%s)" % (dlit(), rng.choice(['a', 'b', '', 'zz', '0']), rng.choice(['', ', 0', ', []'])),
        lambda: "%s.has_key('%s')" % (dlit(), rng.choice(['a', 'b', '', 'zz'])),
        lambda: "%s['%s']" % (dlit(), rng.choice(['a', 'b', '', 'zz'])),
        lambda: '%s %s %s' % (dlit(), rng.choice(['+', '==', '!=']), dlit()),
        lambda: "'%s' %s %s" % (rng.choice(['a', 'b', '', 'zz']), rng.choice(['in', 'not in']), dlit()),
        lambda: 'range(%s)[%d]' % (rng.choice(['3', '0', '1, 4', '2, 11, 3', '0, 10, 4']), num()),
        lambda: '%s.to_string(%s)' % (rng.choice(['true', 'false']), rng.choice(['', "'y', 'n'", "'', 'n'", "'y', ''", "'y'"])),
    ]
    for i in range(n):
        f = forms[i % len(forms)] if i < 3 * len(forms) else rng.choice(forms)
        out.append(('prim%d' % i, f()))
    return out


# ---------------------------------------------------------------------------------- documented API
def documented_api(repo):
    """the documented methods of the elementary types and the core functions, read from the
    reference manual sources of the tree under test (docs/yaml) -> {(type, method): doc}"""
    import glob, os, re
    api = {}
    for f in sorted(glob.glob(os.path.join(repo, 'docs', 'yaml', 'elementary', '*.y*ml'))):
        txt = open(f, encoding='utf-8').read()
        m = re.search(r'^name:\s*(\w+)', txt, re.M)
        if not m:
            continue
        ty = m.group(1)
        for mm in re.finditer(r'^- name:\s*(\w+)', txt, re.M):
            api[(ty, mm.group(1))] = os.path.basename(f)
    for fn in ('range', 'set_variable', 'get_variable', 'is_variable', 'unset_variable', 'assert', 'message', 'error', 'subdir', 'subproject'):
        if os.path.exists(os.path.join(repo, 'docs', 'yaml', 'functions', fn + '.yaml')):
            api[('function', fn)] = fn + '.yaml'
    return api


# what coq/Eval models (Methods.v str_method/int_method/bool_method/arr_method/dict_method, Interp.v call_function)
MODELLED = {
    'str': ['format', 'replace', 'strip', 'to_lower', 'to_upper', 'to_int', 'contains', 'startswith', 'endswith', 'substring',
            'split', 'splitlines', 'join', 'underscorify', 'version_compare'],
    'array': ['contains', 'get', 'slice', 'length', 'flatten'],
    'dict': ['has_key', 'get', 'keys', 'values'],
    'int': ['is_even', 'is_odd', 'to_string'],
    'bool': ['to_int', 'to_string'],
    'function': ['range', 'set_variable', 'get_variable', 'is_variable', 'unset_variable', 'assert', 'message', 'error', 'subdir', 'subproject'],
}
RECEIVERS = {'int': ['(7)', '(-12)'], 'bool': ['true', 'false'], 'str': ["'a b,c'", "' 12 '"],
             'array': ["['x', ['y'], 'x']", '[3, 1, 2]'], 'dict': ["{'k': 'v', 'a': 1}", '{}']}
ARG_SAMPLES = ["'ab'", "''", "'k'", '1', '0', '-1', 'true', "['x']", '[]', '[1, 2]', "{'k': 'v'}", 'range(2)']
KW_NAMES = ['fill', 'format', 'step', 'bogus']
KW_VALUES = ['2', '-1', "'hex'", "'zz'", 'true', '[]']


def api_rows(rng, api, per_method_three=12):
    """every documented method x every arity 0..2 over one sample of each type (and a sample of
    3-argument calls) x every keyword name any core method takes -> [((type, method), ident, lines)]"""
    rows = []
    for (ty, name) in sorted(api):
        argsets = [[]] + [[a] for a in ARG_SAMPLES] + [[a, b] for a in ARG_SAMPLES for b in ARG_SAMPLES]
        argsets += [[rng.choice(ARG_SAMPLES) for _ in range(3)] for _ in range(per_method_three)]
        kwsets = [''] * len(argsets)
        for kn in KW_NAMES:
            for kv in KW_VALUES:
                argsets.append([] if rng.random() < 0.7 else [rng.choice(ARG_SAMPLES)])
                kwsets.append('%s: %s' % (kn, kv))
        argsets.append([])
        kwsets.append("fill: 3, format: 'oct'")
        argsets.append(['0', '2'])
        kwsets.append('step: 2')
        argsets.append([])
        kwsets.append('kwargs: {}')
        for args, kw in zip(argsets, kwsets):
            a = ', '.join(args + ([kw] if kw else []))
            if ty == 'function':
                if name in ('subdir', 'subproject'):
                    continue          # need build files: covered by the corpus and the random programs
                if name == 'range':
                    lines = ['x = 0', 'foreach i : range(%s)' % a, '  x += i', 'endforeach']
                elif name in ('set_variable', 'assert', 'message', 'unset_variable'):
                    lines = (['uv = 1'] if name == 'unset_variable' else []) + ['%s(%s)' % (name, a), 'x = 1']
                elif name == 'error':
                    lines = ['if false', '  error(%s)' % a, 'endif', 'x = [%s]' % ', '.join(args)] if not kw else ['error(%s)' % a, 'x = 1']
                else:
                    lines = ['gv = 5', 'x = %s(%s)' % (name, a)]
                rows.append(((ty, name), '%s(%s)' % (name, a), lines))
            else:
                for r in RECEIVERS.get(ty, []):
                    if len(args) == 2 and rng.random() < 0.5:
                        continue      # half of the 2-argument grid per receiver
                    rows.append(((ty, name), '%s.%s(%s)' % (r, name, a), ['x = %s.%s(%s)' % (r, name, a)]))
    return rows
