"""C20 - Cargo version requirements and cfg() expressions mean what Cargo says.
Theorems: coq/Props/C20.v.  Models: coq/Cargo/{SemVer,Req,Cfg}.v, spec coq/Cargo/Spec.v.
Implementation: mesonbuild/cargo/version.py (split, SemVer, cargo_parse) and
mesonbuild/cargo/cfg.py (lexer, parse, eval_cfg), run in-process by harness/impl/c20.py."""
import itertools, json
from common import *

NUMS = [0, 1, 2, 10]
OPS = ['', '^', '~', '=', '<', '<=', '>', '>=']
PRES1 = [[['a', 'alpha']], [['a', 'rc1']], [['n', 1]], [['n', 2]], [['n', 10]], [['a', '1b']]]
PRESX = [[['a', 'alpha'], ['n', 1]], [['a', 'alpha'], ['a', 'beta']], [['a', 'beta'], ['n', 2]],
         [['a', 'beta'], ['n', 11]], [['a', 'rc'], ['n', 1]], [['a', 'x-y']], [['a', '-x']], [['n', 0]],
         [['a', 'alpha'], ['n', 1], ['n', 0]], [['a', 'Alpha']], [['a', 'a'], ['a', '-']], [['n', 1], ['a', 'a1']],
         [['a', 'alpha'], ['a', 'b7']], [['n', 7], ['n', 7], ['a', 'x']], [['a', '0a']], [['a', '1-']]]
# identifiers after a '.' that start with a digit but are alphanumeric: recorded finding
PRESPLIT = [[['a', 'alpha'], ['a', '1b']], [['a', 'alpha'], ['n', 2]], [['a', 'rc'], ['a', '1-x']], [['a', 'rc'], ['n', 1]],
            [['a', 'rc'], ['n', 1], ['a', '-x']], [['a', 'alpha'], ['a', '0x']]]
KNOWN_SPLIT = 'C20:prerelease-ident-split'
KNOWN_MULTI = 'C20:cfg-multivalued-key'
KNOWN_LEAK = 'C20:target-deps-leak-across-machines'
MARK = '\x03'


def ver(a, b, c, pre=None, build=None):
    return {'maj': a, 'min': b, 'pat': c, 'pre': pre or [], 'build': build}


def comp(op, a, b=None, c=None, pre=None):
    return {'op': op, 'maj': a, 'min': b, 'pat': c, 'pre': pre or []}


def grid_versions():
    rel = [ver(a, b, c) for a in NUMS for b in NUMS for c in NUMS]
    pre = [ver(a, b, c, p) for a in NUMS for b in NUMS for c in NUMS for p in PRES1]
    return rel, pre


def grid_comps():
    out = [comp('*', None)]
    for a in NUMS:
        out.append(comp('*', a))
        for b in NUMS:
            out.append(comp('*', a, b))
    for op in OPS:
        for a in NUMS:
            out.append(comp(op, a))
            for b in NUMS:
                out.append(comp(op, a, b))
                for c in NUMS:
                    out.append(comp(op, a, b, c))
    withpre = [comp(op, a, b, c, p) for op in OPS for a in NUMS for b in NUMS for c in NUMS for p in PRES1]
    return out, withpre


# ---------------------------------------------------------------- unstructured strings
VPARTS = ['0', '1', '2', '10', '007', '3', '99', 'alpha', 'rc1', 'x', 'b', '1b', 'A', 'z-z', '-', '--', 'a1', '00']
VSEPS = ['.', '.', '.', '-', '-', '+', '', ' ', '_', '..', '.-', '-.', '*', '~', 'é', ' ', '/']


def gen_verstr(rng):
    k = rng.choice([0, 1, 2, 3, 3, 3, 4, 5, 6])
    parts = []
    for i in range(k):
        parts.append(rng.choice(VPARTS))
        if i + 1 < k or rng.random() < 0.12:
            parts.append(rng.choice(VSEPS))
    s = ''.join(parts)
    if rng.random() < 0.08:
        s = rng.choice([' ', 'v', '-', '+', '.']) + s
    return s


ROPS = ['', '', '^', '~', '=', '<', '<=', '>', '>=', '!=', '==', '=>', '*', '> =', '~>', '^^']


def gen_piece(rng):
    r = rng.random()
    if r < 0.08:
        return rng.choice(['*', ' * ', '', ' ', '**', '*.*'])
    v = gen_verstr(rng) if rng.random() < 0.35 else '.'.join(str(rng.choice(NUMS + [3, 7])) for _ in range(rng.choice([1, 2, 3, 3])))
    if rng.random() < 0.25:
        v += '-' + rng.choice(['alpha', 'rc.1', '1', '2.x', 'beta-2', '10'])
    if rng.random() < 0.12:
        v += '.*'
    return rng.choice(ROPS) + rng.choice(['', '', ' ', '  ', '\t']) + v


def gen_reqstr(rng):
    n = rng.choice([0, 1, 1, 1, 2, 2, 3, 4])
    s = rng.choice([',', ', ', ' ,', ' , ']).join(gen_piece(rng) for _ in range(n))
    if rng.random() < 0.2:
        s = rng.choice([' ', '\n', ' ']) + s + rng.choice(['', ' ', '\t'])
    return s


# ---------------------------------------------------------------- cfg expressions
ATOMS = [['id', 'a'], ['eq', 'b', 'x'], ['eq', 'b', 'y']]
ASSIGN = [{}, {'a': ''}, {'b': 'x'}, {'b': 'y'}, {'b': 'z'}, {'a': '', 'b': 'x'}, {'a': '', 'b': 'y'}, {'a': 'q', 'b': ''}]


def cfg_depth(atoms, depth, maxlist):
    """all expressions of nesting depth <= depth with argument lists of length <= maxlist"""
    cur = list(atoms)
    for _ in range(depth):
        nxt = list(atoms)
        nxt += [['not', e] for e in cur]
        for k in ('all', 'any'):
            for n in range(0, maxlist + 1):
                for t in itertools.product(cur, repeat=n):
                    nxt.append([k, list(t)])
        cur = nxt
    return cur


def gen_cfg(rng, depth):
    if depth == 0 or rng.random() < 0.25:
        r = rng.random()
        if r < 0.4:
            return ['id', rng.choice(['a', 'unix', 'windows', 'target_os', 'f-1', 'x.y', 'anyx', 'al', 'é'])]
        return ['eq', rng.choice(['a', 'b', 'target_os', 'feature']),
                rng.choice(['x', 'y', '', 'linux', 'all', 'x86_64', 'a b', 'p,q', '(', 'k=v', ' x', 'x ', 'not'])]
    k = rng.choice(['not', 'all', 'any', 'all', 'any'])
    if k == 'not':
        return ['not', gen_cfg(rng, depth - 1)]
    return [k, [gen_cfg(rng, depth - 1) for _ in range(rng.choice([0, 1, 1, 2, 2, 3]))]]


def atoms_of(e, acc):
    if e[0] == 'id':
        acc.setdefault(e[1], set())
    elif e[0] == 'eq':
        acc.setdefault(e[1], set()).add(e[2])
    elif e[0] == 'not':
        atoms_of(e[1], acc)
    else:
        for x in e[1]:
            atoms_of(x, acc)
    return acc


def assignments_for(e, rng, limit=12):
    """all assignments of the expression's names to {absent, each mentioned value, an unmentioned value}"""
    at = atoms_of(e, {})
    names = sorted(at)
    choices = [[None] + sorted(at[n]) + ['~other'] for n in names]
    allv = list(itertools.product(*choices)) if names else [()]
    if len(allv) > limit:
        allv = rng.sample(allv, limit)
    return [{n: v for n, v in zip(names, t) if v is not None} for t in allv]


SOUP = ['all', 'any', 'not', 'a', 'b', 'unix', '(', ')', '(', ')', ',', '=', '"', '"x"', '"y"', ' ', ' ', '', 'b = "x"', 'all(', 'not(', '")', '=="', 'a b', '\t']


def gen_soup(rng):
    return ''.join(rng.choice(SOUP) for _ in range(rng.choice([0, 1, 2, 3, 4, 5, 6, 8, 10])))


def mutate_cfg_text(rng, s):
    if not s:
        return s
    i = rng.randrange(len(s))
    r = rng.random()
    if r < 0.4:
        return s[:i] + s[i + 1:]
    if r < 0.7:
        return s[:i] + rng.choice(['(', ')', ',', '"', '=', ' ', 'a']) + s[i:]
    return s[:i] + rng.choice(['(', ')', ',', '"', '=', ' ']) + s[i + 1:]


BARE = ['unix', 'windows', 'debug_assertions', 'panic_unwind', 'foo', 'docsrs']
KEYS = {'target_os': ['linux', 'windows', 'macos'], 'target_arch': ['x86_64', 'aarch64'], 'target_family': ['unix', 'wasm'],
        'target_feature': ['sse', 'sse2', 'fxsr', 'crt-static'], 'target_has_atomic': ['8', '16', '32', '64', 'ptr'],
        'target_pointer_width': ['64', '32'], 'feature': ['std', 'a b'], 'bar': ['1', '']}


def gen_options(rng, multi):
    """what rustc --print cfg shows (+ --cfg flags): bare names and name="value" options; with
    multi=False every key has one value (so the dict meson builds loses nothing)"""
    opts = [[n, None] for n in rng.sample(BARE, rng.randint(0, 4))]
    for k in rng.sample(sorted(KEYS), rng.randint(1, 6)):
        vals = KEYS[k]
        n = rng.randint(1, len(vals)) if (multi and k in ('target_feature', 'target_has_atomic', 'target_family')) else 1
        for v in rng.sample(vals, n):
            opts.append([k, v])
    rng.shuffle(opts)
    return opts


def gen_glue_cfg(rng, opts, depth):
    if depth == 0 or rng.random() < 0.3:
        if rng.random() < 0.35:
            return ['id', rng.choice(BARE)]
        k = rng.choice(sorted(KEYS))
        pres = [v for n, v in opts if n == k]
        return ['eq', k, rng.choice(pres) if pres and rng.random() < 0.6 else rng.choice(KEYS[k])]
    k = rng.choice(['not', 'all', 'any'])
    if k == 'not':
        return ['not', gen_glue_cfg(rng, opts, depth - 1)]
    return [k, [gen_glue_cfg(rng, opts, depth - 1) for _ in range(rng.choice([0, 1, 2, 2, 3]))]]


def glue_lines(c):
    opts, nl = c['options'], c.get('nlines', len(c['options']))
    lines = [n if v is None else '%s="%s"' % (n, v) for n, v in opts[:nl]]
    flags = []
    for n, v in opts[nl:]:
        flags += c.get('filler', []) + ['--cfg', n if v is None else '%s="%s"' % (n, v)]
    return lines, flags


def to_args(d):
    out = []
    for k, v in d.items():
        out += [k, v]
    return out


def replay(ctx):
    rec = json.load(open(ctx.replay))
    r = rec['replay']
    print('replaying', json.dumps(r))
    if 'case' in r:
        res = run_impl('c20.py', {'cases': [r['case']]})
        print('implementation:', repr(res['results'][0]))
        if ctx.build('Props/C20.v', 'Cargo/Extract.v', 'C20'):
            print('model         :', repr(ctx.run_model([tuple(r['case'])])[0]))
    if 'oracle' in r:
        res = run_impl('c20.py', {'oracle': [r['oracle']]})
        print('property clauses failing on the implementation:', json.dumps(res['oracle'], indent=1))
    return 0


def run(ctx):
    if ctx.replay:
        return replay(ctx)
    rng = ctx.rng
    thorough = ctx.tier == 'thorough'
    built = ctx.build('Props/C20.v', 'Cargo/Extract.v', 'C20')

    rel, pre = grid_versions()
    comps, comps_pre = grid_comps()
    extra_versions = [ver(1, 0, 0, p) for p in PRESX] + [ver(1, 0, 0, None, 'build.5'), ver(1, 0, 0, [['a', 'alpha']], 'exp.sha-1'),
                                                       ver(0, 0, 0, [['n', 0]]), ver(2, 10, 1, [['a', 'rc'], ['n', 1]], '001')]
    split_versions = [ver(1, 0, 0, p) for p in PRESPLIT]

    # printers live in the adapter (one printer for generator, oracle and replay)
    reqs_single = [{'comps': [c], 'sp': (i % 4)} for i, c in enumerate(comps + comps_pre)]
    nlists = 60000 if thorough else 2500
    reqs_lists = []
    for _ in range(nlists):
        k = rng.choice([2, 2, 3])
        pool = comps if rng.random() < 0.6 else comps + comps_pre
        reqs_lists.append({'comps': [rng.choice(pool) for _ in range(k)], 'sp': rng.randrange(4)})
    allvers = rel + pre + extra_versions + split_versions
    cfg_ex = cfg_depth(ATOMS, 2, 2)
    ncfg_rand = 150000 if thorough else 4000
    cfg_items = [{'ast': e, 'sp': i % 5, 'assignments': ASSIGN} for i, e in enumerate(cfg_ex)]
    if thorough:
        cfg_items += [{'ast': e, 'sp': (i + 1) % 5, 'assignments': ASSIGN} for i, e in enumerate(cfg_ex)]
        d3 = [['not', e] for e in cfg_ex] + [[k, [x, y]] for k in ('all', 'any') for x in rng.sample(cfg_ex, 120) for y in rng.sample(cfg_ex, 40)]
        cfg_items += [{'ast': e, 'sp': i % 5, 'assignments': ASSIGN} for i, e in enumerate(d3)]
    for i in range(ncfg_rand):
        e = gen_cfg(rng, rng.choice([1, 2, 3, 3, 4, 5]))
        cfg_items.append({'ast': e, 'sp': i % 5, 'assignments': assignments_for(e, rng)})
    pr = run_impl('c20.py', {'print': {'versions': allvers, 'reqs': reqs_single + reqs_lists, 'cfg': cfg_items}})['print']
    pv = pr['versions']
    prel, ppre = pv[:len(rel)], pv[len(rel):len(rel) + len(pre)]
    pextra = pv[len(rel) + len(pre):]
    preq_single, preq_lists = pr['reqs'][:len(reqs_single)], pr['reqs'][len(reqs_single):]
    pcfg = pr['cfg']

    cases = []
    corpus = [('cmp', ['1.0.0-2', '1.0.0-10']), ('cmp', ['1.0.0-alpha.1b', '1.0.0-alpha.2']), ('req', ['*', '1.0.0-alpha', '1.0.0']),
              ('req', ['', '1.0.0-alpha', '0.0.0']), ('req', ['<= 1.0.0-alpha', '1.0.0', '1.0.0-alpha', '0.9.9', '1.0.0-a']),
              ('req', ['<=', '0.0.0', '1.0.0']), ('req', ['<= alpha', '0.0.0', '0.0.0-alpha']), ('req', ['= 1', '1', '1.0', '1.0.1']),
              ('req', ['> 1', '1.0.1', '1']), ('req', ['^0.0.0', '0.0.5', '1']), ('req', ['^0.0', '0.5', '1.0.0']),
              ('req', ['>= 1.0.0-alpha, < 1.0.0', '1.0.0-alpha', '1.0.0-beta', '1.0.0-rc.1', '1.0.0', '0.9']),
              ('req', ['>=1.0.0-alpha', '2.0.0-beta']), ('req', ['1.*, <1.5', '1.4.9', '1.5.0', '2.0.0']),
              ('req', [' >=1 , *, 1.* ,,=2', '2', '2.0.0', '1.9.0']), ('split', [' >=1 , *, 1.* ,,=2']), ('split', ['!=1.2, ~ 1, ^  2,<=3,<4,>5']),
              ('semver', ['1.2.3.4']), ('semver', ['1.2-x.5.y']), ('semver', ['1.2.3-a+b-c']), ('semver', ['x']), ('semver', ['1-']),
              ('semver', ['1--']), ('semver', ['1.0.0-007']), ('semver', ['1.0.0-0a.1']), ('semver', ['+1']), ('semver', ['']),
              ('sort', ['1.0.0', '1.0.0+b', '1.0.0-rc.1', '2', '1.0', '0.9.9', '1.0.0-alpha']),
              ('cfg', ['cfg(any)', 'any', '']), ('cfg', ['cfg()']), ('cfg', ['cfg(']), ('cfg', ['unix', 'unix', '']), ('cfg', ['cfg(all(a b))', 'a', '', 'b', '']),
              ('cfg', ['cfg(not())']), ('cfg', ['cfg(not(a,b))', 'a', '']), ('cfg', ['cfg(a,)', 'a', '']), ('cfg', ['cfg("x")', 'x', '']),
              ('cfg', ['cfg(b = " x")', 'b', 'x']), ('cfg', ['cfg(b = "x y")', 'b', 'x y']), ('cfg', ['cfg(b="p,q")', 'b', 'p,q']),
              ('cfg', ['cfg("abc)', 'abc', '']), ('cfg', ['cfg(a")', 'a', '']), ('cfg', ['cfg(all(a"))', 'a', '']), ('cfg', ['cfg(b="x)', 'b', 'x']),
              ('cfg', ['cfg(all(a,any(),not(b="x")))', 'a', '']), ('lex', ['all(target_arch = "x86_64", unix)']), ('lex', ['"a b" x']),
              ('parse', ['all(any(target_os = "android", target_os = "linux"), any(custom_cfg))']), ('parse', ['all(unix,)']), ('parse', [''])]
    cases += corpus
    # exhaustive grid requirement x version
    npre_q = 40
    for text in preq_single:
        vs = prel + (ppre if thorough else rng.sample(ppre, npre_q))
        cases.append(('req', [text] + vs))
    for text in preq_lists:
        cases.append(('req', [text] + rng.sample(prel, 24) + rng.sample(ppre, 12)))
    # SemVer order / parsing on structured and on unstructured strings
    spool = pextra + rng.sample(ppre, 40) + rng.sample(prel, 12)
    for a in spool:
        cases.append(('semver', [a]))
        for b in spool:
            cases.append(('cmp', [a, b]))
    junk = [gen_verstr(rng) for _ in range(600 if thorough else 200)]
    nj = 600000 if thorough else 20000
    for _ in range(nj):
        a = rng.choice(junk) if rng.random() < 0.7 else gen_verstr(rng)
        b = rng.choice(junk) if rng.random() < 0.6 else rng.choice(pv)
        k = rng.random()
        if k < 0.55:
            cases.append(('cmp', [a, b]))
        elif k < 0.75:
            cases.append(('semver', [a]))
        elif k < 0.8:
            cases.append(('sort', [rng.choice(junk + pv) for _ in range(rng.randint(0, 7))]))
        elif k < 0.9:
            cases.append(('split', [gen_reqstr(rng)]))
        else:
            cases.append(('req', [gen_reqstr(rng), a, b] + rng.sample(pv, 3)))
    # cfg
    ncfg_eval = 0
    for c, text in zip(cfg_items, pcfg):
        for d in c['assignments']:
            cases.append(('cfg', [text] + to_args(d)))
            ncfg_eval += 1
    for text in rng.sample(pcfg, min(len(pcfg), 3000)):
        inner = text[4:-1]
        cases.append(('lex', [inner]))
        cases.append(('parse', [inner]))
    nsoup = 150000 if thorough else 5000
    soups = []
    for i in range(nsoup):
        s = gen_soup(rng) if i % 2 else mutate_cfg_text(rng, rng.choice(pcfg)[4:-1])
        soups.append(s)
        cases.append(('cfg', ['cfg(' + s + ')', 'a', '', 'b', 'x', 'unix', '']))
        if i % 4 == 0:
            cases.append(('lex', [s]))
            cases.append(('parse', [s]))
        if i % 16 == 1:
            cases.append(('cfg', [s, 'a', '']))

    # the callers: lock-file resolution and the rustc-cfg dict
    nres = 40000 if thorough else 4000
    resolve_items = []
    for i in range(nres):
        r = rng.random()
        vs = [rng.choice(allvers) for _ in range(rng.choice([0, 1, 2, 3, 4, 5, 6, 8]))]
        if r < 0.45:
            item = {'comps': [rng.choice(comps)], 'sp': rng.randrange(4), 'versions': vs}
        elif r < 0.7:
            item = {'comps': [rng.choice(comps + comps_pre)], 'sp': rng.randrange(4), 'versions': vs}
        else:
            item = dict(rng.choice(reqs_lists), versions=vs)
        resolve_items.append(item)
    rtexts = run_impl('c20.py', {'print': {'reqs': resolve_items, 'versions': []}})['print']['reqs']
    vtext = dict((json.dumps(v, sort_keys=True), t) for v, t in zip(allvers, pv))
    for item, text in zip(resolve_items, rtexts):
        cases.append(('resolve', [text] + [vtext[json.dumps(v, sort_keys=True)] for v in item['versions']]))
    for _ in range(nres // 8):
        cases.append(('resolve', [gen_reqstr(rng)] + [rng.choice(junk + pv) for _ in range(rng.randint(0, 6))]))
    # sessions of _get_cfgs calls on one interpreter with the real caching RustCompiler
    def session_args(r):
        lines = [n if v is None else '%s="%s"' % (n, v) for n, v in r['rustc']]
        out = []
        for c, text in zip(r['calls'], r['texts']):
            flags = []
            for n, v in r['own'][c['key']]:
                flags += r.get('filler', []) + ['--cfg', n if v is None else '%s="%s"' % (n, v)]
            out.append('\x02'.join([c['key'], text, '\x01'.join(flags)]))
        return lines + [MARK] + out
    sess_items = []
    XOPTS = [['tokio_unstable', None], ['feature', 'extra'], ['docsrs', None], ['foo', None], ['bar', '1'], ['target_os', 'linux']]
    base_rustc = [['unix', None], ['target_os', 'linux'], ['target_arch', 'x86_64'], ['debug_assertions', None]]
    keys3 = ['h:a', 'h:b', 'b:']
    for own_a in ([XOPTS[0]], [XOPTS[0], XOPTS[1]], [XOPTS[4]]):
        own = {'h:a': own_a, 'h:b': [], 'b:': []}
        probes = [['id', own_a[0][0]] if own_a[0][1] is None else ['eq', own_a[0][0], own_a[0][1]]]
        probes.append(['not', probes[0]])
        probes.append(['all', [['id', 'unix'], ['not', probes[0]]]])
        for n in (1, 2, 3) if not thorough else (1, 2, 3, 4):
            for seq in itertools.product(keys3, repeat=n):
                for pr in probes:
                    sess_items.append({'rustc': base_rustc, 'own': own, 'filler': ['-C', 'opt-level=2'],
                                       'calls': [{'key': k, 'ast': pr, 'sp': 0} for k in seq]})
    for i in range(12000 if thorough else 1200):
        rustc_o = gen_options(rng, multi=False)
        ks = rng.sample(['h:', 'b:', 'h:a', 'h:b', 'b:a', 'h:serde-1-rs', 'b:proc-macro2-1-rs'], rng.randint(2, 4))
        own = {k: (rng.sample(XOPTS, rng.randint(1, 3)) if rng.random() < 0.55 else []) for k in ks}
        names = [o for k in ks for o in own[k]] + rustc_o
        calls = []
        for _ in range(rng.randint(2, 6)):
            o = rng.choice(names) if names else ['foo', None]
            atom = ['id', o[0]] if o[1] is None else ['eq', o[0], o[1]]
            ast = rng.choice([atom, ['not', atom], ['any', [atom, ['id', 'windows']]], ['all', [['not', atom], gen_glue_cfg(rng, rustc_o, 1)]]])
            calls.append({'key': rng.choice(ks), 'ast': ast, 'sp': i % 5})
        sess_items.append({'rustc': rustc_o, 'own': own, 'filler': rng.choice([[], ['-O'], ['-C', 'opt-level=3']]), 'calls': calls})
    flat = [{'ast': c['ast'], 'sp': c.get('sp', 0)} for r in sess_items for c in r['calls']]
    ftexts = iter(run_impl('c20.py', {'print': {'cfg': flat}})['print']['cfg'])
    for r in sess_items:
        r['texts'] = [next(ftexts) for _ in r['calls']]
        cases.append(('cfgsession', session_args(r)))
    ctx.extra['get_cfgs_sessions'] = {'sessions': len(sess_items), 'exhaustive_call_orders_up_to_length': 4 if thorough else 3,
                                      'keys': 'h:a (own --cfg flags), h:b, b: (none) + random machine/subproject keys',
                                      'compiler': 'real RustCompiler (lru_cached get_cfgs), rustc process mocked'}
    # _prepare_package sessions: target-specific dependency tables merged for a sequence of machines
    def prepare_args(r, texts):
        hl = [n if v is None else '%s="%s"' % (n, v) for n, v in r['host']]
        bl = [n if v is None else '%s="%s"' % (n, v) for n, v in r['build']]
        return (['d' + n for n in r['base']] + ['t' + t + '\x02' + '\x01'.join(x['deps']) for t, x in zip(texts, r['targets'])]
                + ['h' + l for l in hl] + ['b' + l for l in bl] + ['c' + ('h' if c else 'b') for c in r['calls']])
    prep_items = []
    DEPN = ['base', 'libc', 'winapi', 'serde', 'cfg-if', 'mio', 'windows-sys']
    for i in range(6000 if thorough else 700):
        same = (i % 3 == 0)
        host_o = gen_options(rng, multi=False)
        build_o = host_o if same else gen_options(rng, multi=False)
        targets = [{'ast': gen_glue_cfg(rng, rng.choice([host_o, build_o]), rng.choice([0, 0, 1, 2])),
                    'deps': rng.sample(DEPN, rng.randint(1, 2))} for _ in range(rng.randint(0, 3))]
        uniq = {}
        for t in targets:                      # a TOML table cannot carry the same condition twice
            uniq.setdefault(json.dumps(t['ast']), t)
        targets = list(uniq.values())
        calls = [rng.random() < 0.5 for _ in range(rng.randint(1, 3))]
        prep_items.append({'base': rng.sample(DEPN, rng.randint(0, 2)), 'targets': targets, 'host': host_o, 'build': build_o, 'calls': calls})
    prep_items.append({'base': ['base'], 'targets': [{'ast': ['id', 'windows'], 'deps': ['winapi']}, {'ast': ['id', 'unix'], 'deps': ['libc']}],
                       'host': [['windows', None], ['target_os', 'windows']], 'build': [['unix', None], ['target_os', 'linux']], 'calls': [True, False]})
    flat = [{'ast': t['ast'], 'sp': 0} for r in prep_items for t in r['targets']]
    ftexts = iter(run_impl('c20.py', {'print': {'cfg': flat}})['print']['cfg'])
    for r in prep_items:
        cases.append(('prepare', prepare_args(r, [next(ftexts) for _ in r['targets']])))
    # one Dependency object: reads of accepts_version / api and update_version() in every order
    DEP_TRIPLES = [('1', '=1.2.3', '^2'), ('>=1.0, <2', '=1.5.0', '0.5'), ('*', '~1.2', '=0.0.3'), ('^0.2', '>=0.2.0-rc.1', '=0.2.0-rc.1'),
                   ('=2.0.113', '2', '>= 1, < 3'), ('1.*', '', '<=1.0.0-alpha'), ('>=1, >=2', '=1.2.3', '0.0')]
    DEP_PROBES = ['1.2.3', '1.5.0', '2.0.113', '0.2.0-rc.1', '0.5.1', '0.0.3', '1.0.0-alpha']
    dep_items = []
    maxlen = 5 if thorough else 4
    for ti, (r0, r1, r2) in enumerate(DEP_TRIPLES):
        pa, pb = DEP_PROBES[ti % len(DEP_PROBES)], DEP_PROBES[(ti + 1) % len(DEP_PROBES)]
        alphabet = ['a' + pa, 'a' + pb, 'p', 'u' + r1, 'u' + r2]
        for n in range(1, maxlen + 1):
            for seq in itertools.product(alphabet, repeat=n):
                if seq[-1][0] == 'u':
                    continue                      # a trailing update is not observed
                dep_items.append({'req': r0, 'ops': list(seq)})
    for _ in range(20000 if thorough else 1500):
        reqs3 = [rng.choice(preq_single + preq_lists) for _ in range(3)]
        ops = []
        for _ in range(rng.randint(1, 8)):
            k = rng.random()
            ops.append('a' + rng.choice(pv) if k < 0.5 else ('p' if k < 0.7 else 'u' + rng.choice(reqs3 + [gen_reqstr(rng)])))
        dep_items.append({'req': reqs3[0], 'ops': ops})
    for it in dep_items:
        cases.append(('depseq', [it['req']] + it['ops']))
    ctx.extra['dependency_op_sequences'] = {'exhaustive_orders_up_to_length': maxlen, 'requirement_triples': len(DEP_TRIPLES),
                                            'alphabet': 'accepts(v1), accepts(v2), api, update(r1), update(r2)', 'sequences': len(dep_items)}
    # version.api through Dependency.api / CargoLockPackage.api (names of generated subprojects)
    napi = 0
    for text in rng.sample(preq_single, 600) + rng.sample(preq_lists, 300) + [gen_reqstr(rng) for _ in range(6000 if thorough else 600)]:
        cases.append(('api', [text])); napi += 1
    for v in pv[::3] + junk[:150] + ['0.0', '0', '0.0.0-x', '00.1', '0.00.3', '.5', '', '1. 2', '0.+1', '0._', '0.x', '٣.1', '0.1_0']:
        cases.append(('pkgapi', [v])); napi += 1
    nglue = 30000 if thorough else 3000
    glue_items = []
    for i in range(nglue):
        opts = gen_options(rng, multi=(i % 5 == 0))
        item = {'options': opts, 'nlines': rng.randint(0, len(opts)), 'ast': gen_glue_cfg(rng, opts, rng.choice([0, 1, 2, 3])),
                'sp': i % 5, 'filler': rng.choice([[], ['-O'], ['-C', 'opt-level=3'], ['--cap-lints', 'allow']])}
        glue_items.append(item)
    gtexts = run_impl('c20.py', {'print': {'cfg': glue_items}})['print']['cfg']
    for item, text in zip(glue_items, gtexts):
        lines, flags = glue_lines(item)
        cases.append(('getcfg', [text] + lines + [MARK] + flags))
    for i in range(nglue // 6):
        raw = rng.choice(['a=b=c', 'a="', 'a=', '=', '', 'k="v"x', 'k = "v"', 'unix', 'f="a=b"', '"q"', 'k="', "k='v'"]) if i % 3 == 0 \
            else rng.choice(sorted(KEYS)) + rng.choice(['=', '="', '', '==']) + rng.choice(['x', 'linux"', '"', ''])
        cases.append(('splitcfg', [raw]))
        if i % 4 == 0:
            cases.append(('getcfg', ['cfg(unix)', 'unix', raw, MARK] + rng.choice([['--cfg'], ['-O', '--cfg'], ['--cfg', raw], []])))

    # implementation vs extracted model
    CH = 20000
    chunks = [cases[i:i + CH] for i in range(0, len(cases), CH)]
    impl = []
    for r in pmap(lambda ch: run_impl('c20.py', {'cases': ch})['results'], chunks):
        impl += r
    model = ctx.run_model(cases, shards=NPROC) if built else impl
    nev = noom = 0
    for (fn, args), ri, rm in zip(cases, impl, model):
        ctx.count((fn, tuple(args)), nontrivial=True)
        nev += (len(args) - 1) if fn == 'req' else 1
        if rm == 'OOM' or (fn == 'depseq' and 'OOM' in rm.split('\x01')):
            noom += 1
            continue
        if ri != rm:
            if len(ctx.disagreements) < 200:
                ctx.disagreements.append({'case': [fn, args], 'implementation': ri, 'model': rm})
    ctx.cov['evaluations'] = nev
    ctx.cov['traces_validated_against_impl'] = len(cases)
    for s in cases[:2] + cases[len(corpus) + 3:len(corpus) + 5] + cases[-3:]:
        ctx.sample({'fn': s[0], 'args': s[1][:6]})
    if built:
        small = [(i, c) for i, c in enumerate(cases) if len(c[1]) <= 12 and sum(len(a) for a in c[1]) < 400]
        ctx.kernel_crosscheck('Cargo.Entry', [c for _, c in small], [model[i] for i, _ in small], limit=300)
    dist = {}
    for fn, args in cases:
        dist[fn] = dist.get(fn, 0) + 1
    ctx.extra['input_distribution'] = {
        'cases_by_entry_point': dist, 'requirement_version_pairs': sum(len(a) - 1 for f, a in cases if f == 'req'),
        'grid': {'single_comparator_requirements': len(preq_single), 'release_versions': len(prel), 'prerelease_versions': len(ppre),
                 'component_domain': NUMS, 'prerelease_domain': [p[0][1] for p in PRES1],
                 'exhaustive': bool(thorough), 'note': 'every single-comparator requirement x every release version in both tiers; '
                 'x every pre-release version in the thorough tier, x %d sampled ones in the quick tier' % npre_q},
        'comma_lists': len(preq_lists), 'cfg_exhaustive_depth2_exprs': len(cfg_ex), 'cfg_expr_x_assignment': ncfg_eval,
        'cfg_malformed_strings': nsoup,
        'error_classes_impl': {k: sum(1 for r in impl if r == k) for k in sorted(set(r for r in impl if r.startswith('EXC:')))}}
    ctx.extra['exhaustive'] = bool(thorough)
    ctx.extra['out_of_model'] = noom

    # ------------------------------------------------------------ the oracle (implementation vs property clauses)
    groups = []
    # section 11 on structured versions, including the recorded split class
    groups.append({'versions': [ver(1, 0, 0, p) for p in PRESX] + [ver(1, 0, 0), ver(1, 0, 1), ver(0, 10, 2), ver(1, 0, 0, None, 'b1')]
                   + [ver(1, 0, 0, p) for p in PRES1] + [ver(1, 0, 0, [['a', 'alpha']], 'x')]})
    groups.append({'versions': split_versions})
    for _ in range(12 if thorough else 3):
        groups.append({'versions': rng.sample(pre, 30) + rng.sample(rel, 10)})
    # order axioms on arbitrary strings
    for _ in range(120 if thorough else 25):
        groups.append({'strings': rng.sample(junk, 8) + rng.sample(pv, 4) + [gen_verstr(rng) for _ in range(2)]})
    # requirement x version grid
    RCH = 250
    gv = rel + (pre if thorough else rng.sample(pre, 60))
    for i in range(0, len(reqs_single), RCH):
        groups.append({'versions': gv, 'reqs': reqs_single[i:i + RCH]})
    for i in range(0, len(reqs_lists), 500):
        groups.append({'versions': rng.sample(rel, 40) + rng.sample(pre, 20), 'reqs': reqs_lists[i:i + 500]})
    groups.append({'versions': [ver(1, 0, 0, [['a', 'alpha']]), ver(0, 0, 0, [['n', 1]]), ver(2, 10, 0, [['a', 'rc1']]), ver(1, 0, 0)],
                   'reqs': [{'comps': [], 'sp': 0, 'text': t} for t in ['*', '', ' ', ' * ', '*, *', '*,*']]})
    # cfg meaning and rejection
    for i in range(0, len(cfg_items), 1500):
        groups.append({'cfg': cfg_items[i:i + 1500]})
    groups.append({'cfg': [{'ast': ['eq', 'b', v], 'sp': s, 'assignments': [{}, {'b': 'x'}, {'b': v}, {'b': v.strip()}]}
                           for v in [' x', 'x ', 'x y', 'p,q', '(x', 'x)', 'k=v', '', ' ', 'all', '\tx'] for s in range(5)]})
    groups.append({'malformed': ['"abc', 'a"', 'all(a")', 'b="x', 'all(a b)', 'not()', 'not(a,b)', 'a,', '"x"', '', ' ', 'all(a,)', 'any(', 'not(',
                                 'not(all(unix,))', 'not(any)', 'a=b', 'a==\"x\"', '(a)', 'all a', 'all(a))', 'a = "x" "y"', 'a="x"y', '=a', ',', '()']})
    for i in range(0, len(soups), 2500):
        groups.append({'malformed': soups[i:i + 2500]})
    for i in range(0, len(resolve_items), 1000):
        groups.append({'resolve': resolve_items[i:i + 1000]})
    for i in range(0, len(glue_items), 1500):
        groups.append({'cfgglue': glue_items[i:i + 1500]})
    for i in range(0, len(dep_items), 3000):
        groups.append({'depseq': dep_items[i:i + 3000]})
    for i in range(0, len(prep_items), 400):
        groups.append({'prepare': prep_items[i:i + 400]})
    for i in range(0, len(sess_items), 600):
        groups.append({'cfgsession': [{k: v for k, v in r.items() if k != 'texts'} for r in sess_items[i:i + 600]]})
    groups.append({'cfgglue': [{'options': [['target_feature', 'sse'], ['target_feature', 'sse2'], ['unix', None]],
                                'ast': ['eq', 'target_feature', 'sse'], 'sp': 0}]})
    if ctx.disagreements:
        # neighbourhood of every disagreeing case: re-ask the oracle about its inputs
        for d in ctx.disagreements[:40]:
            fn, args = d['case']
            if fn in ('cmp', 'semver', 'sort'):
                groups.append({'strings': list(dict.fromkeys(args))[:12]})
            elif fn in ('cfg', 'lex', 'parse'):
                t = args[0]
                groups.append({'malformed': [t[4:-1] if t.startswith('cfg(') and t.endswith(')') else t]})
    fails = []
    for r in pmap(lambda g: run_impl('c20.py', {'oracle': [g]})['oracle'], groups):
        fails += r
    ctx.extra['oracle_groups'] = len(groups)
    # one violation per clause kind first, so that every distinct defect gets a replay file;
    # within a kind prefer mis-evaluations over rejections and short inputs over long ones
    def weight(f):
        text = ''.join(str(f.get(k, '')) for k in ('a', 'b', 'c', 'req', 'version', 'versions', 'expr', 'rustc_cfg', 'ops', 'calls'))
        return (isinstance(f.get('got'), str), len(text) + 3 * len(f.get('cfgs') or {}))
    fails.sort(key=lambda f: (f['kind'],) + weight(f))
    seen_kind, ordered = set(), []
    for f in fails:
        if f['kind'] not in seen_kind:
            seen_kind.add(f['kind']); ordered.append(f)
    ordered += [f for f in fails if f not in ordered]
    for f in ordered:
        kind = f['kind']
        if kind == 'semver_order' and f.get('split_class'):
            ident = KNOWN_SPLIT
        elif kind in ('cfg_glue', 'cfg_session') and f.get('multivalued'):
            ident = KNOWN_MULTI
        elif kind == 'prepare' and f.get('leak'):
            ident = KNOWN_LEAK
        elif kind == 'exception':
            raise HarnessError('oracle crashed: ' + f['exc'])
        else:
            ident = 'C20:%s:%s' % (kind, json.dumps({k: v for k, v in f.items() if k in ('a', 'b', 'c', 'req', 'version', 'versions', 'expr', 'cfgs', 'rustc_cfg', 'rust_args', 'ops', 'calls', 'base', 'targets', 'host_cfg', 'build_cfg')}, sort_keys=True))
        if kind in ('semver_order',):
            rp = {'case': ['cmp', [f['a'], f['b']]], 'failure': f}
        elif kind == 'api':
            rp = {'case': ['api', [f['req']]], 'failure': f}
        elif kind == 'cfg_session':
            rp = {'case': ['cfgsession', f['rustc_cfg'] + [MARK] + ['\x02'.join([k, e, '\x01'.join(fl)]) for k, e, fl in f['calls']]], 'failure': f}
        elif kind == 'prepare':
            rp = {'case': ['prepare', ['d' + n for n in f['base']] + ['t' + c + '\x02' + '\x01'.join(ds) for c, ds in f['targets']]
                           + ['h' + l for l in f['host_cfg']] + ['b' + l for l in f['build_cfg']] + ['c' + c for c in f['calls']]], 'failure': f}
        elif kind == 'dep_state':
            rp = {'case': ['depseq', [f['req']] + f['ops']], 'failure': f}
        elif kind in ('req_release', 'req_gate', 'req_prerelease'):
            rp = {'case': ['req', [f['req'], f['version']]], 'failure': f}
        elif kind == 'resolve':
            rp = {'case': ['resolve', [f['req']] + f['versions']], 'failure': f}
        elif kind == 'cfg_glue':
            rp = {'case': ['getcfg', [f['expr']] + f['rustc_cfg'] + [MARK] + f['rust_args']], 'failure': f}
        elif kind in ('cfg_eval', 'cfg_malformed'):
            rp = {'case': ['cfg', [f['expr']] + to_args(f['cfgs'])], 'failure': f}
        else:
            rp = {'oracle': {'strings': [f[k] for k in ('a', 'b', 'c') if k in f]}, 'failure': f}
        ctx.violation(ident, 'property clause %s fails on the implementation: %s' % (kind, json.dumps(f)), rp)
    # an escaping non-Meson exception is a failing input by itself
    if ctx.disagreements and not ctx.violations:
        for d in ctx.disagreements:
            if d['implementation'].startswith('EXC:') and d['implementation'] != 'EXC:MesonException':
                ctx.violation('C20:exc:' + json.dumps(d['case']), 'implementation raises %s on %s'
                              % (d['implementation'], json.dumps(d['case'])), {'case': d['case']})
                break
    return ctx.finish(
        level='proof',
        trusted=['Coq 8.16.1 kernel (coqc, vm_compute; no native_compute)',
                 'extraction with ExtrOcamlBasic directives only + OCaml + extract/driver.ml (cross-checked in-kernel on a 300-case sample each run)',
                 'harness/check_C20.py generators and harness/impl/c20.py adapter/canonicaliser/oracle',
                 "Cargo's matcher (semver crate 1.x matches_exact/greater/less/tilde/caret) transcribed by hand into coq/Cargo/Spec.v and, "
                 'independently, into the Python oracle; no cargo binary in the sandbox to validate it against',
                 'model covers cargo/version.py (whole), cargo/cfg.py:51-217, manifest.py:735-740 (CargoLock._versions), interpreter.py:520-530 '
                 '(_resolve_package), 701-719 (_get_cfgs, _split_cfg); not modelled: non-ASCII \\d digits, int() beyond ASCII digit strings (counted '
                 'out_of_model), int() of >4300-digit runs, Python recursion limit for very deep cfg nesting, lru_cache identity, TOML loading, rustc'],
        assumptions=['Print Assumptions: all property theorems closed under the global context (no axioms)',
                     'regex \\d restricted to ASCII digits in generated inputs',
                     'the model is of the code after the four C20 fix: commits in /repo (pending/C20-*.diff)'],
        rule='grid of single-comparator requirements (9 operator forms x partial versions over {0,1,2,10} x optional pre-release) against all '
             'release versions and (thorough: all / quick: sampled) pre-release versions over the same domain, random comma lists, structured and junk '
             'SemVer strings (cmp/semver/sort), cfg expressions exhaustively to depth 2 (lists <= 2) over atoms a, b="x", b="y" x 8 assignments x 5 '
             'spacing variants plus random deeper ones, token soups and one-character mutations of valid expressions; each case is run through the '
             'implementation and the extracted Coq model and compared; evaluations counts every (requirement, version) pair; distinct = distinct '
             '(entry point, arguments) tuples')
