"""C15, CLI side: generated projects -> `meson setup` (under strace) -> meson-info/intro-*.json
compared with (a) build.ninja read by the reference reader ninja_py, (b) argv / environment /
working directory seen by the test programs under `meson test`, the suites `meson test --list
--suite` selects and the targets `meson test NAME` asks ninja to build, (c) the trees
`meson install --destdir [--tags]` creates, (d) the get_option() values printed by message()
during configuration, (e) the build-definition files the meson process opened.

Everything is reduced to the abstract artefacts of coq/Intro/Spec.v (intro I, world W); the
extracted judge (coq/Intro/Judge.v) gives the verdict, `explain` names the first disagreeing
field for the replay."""
import json, os, re, shutil, subprocess, stat
from common import *
import ninja_py

S1, S2, S3 = '\x01', '\x02', '\x03'
BUILD_FILES = ('meson.build', 'meson.options', 'meson_options.txt')
ENV_POOL = ['C15_A', 'C15_B', 'C15_LIST', 'C15_E', 'LD_LIBRARY_PATH']

GEN_PY = '''#!/usr/bin/env python3
import sys
n = int(sys.argv[1])
for o in sys.argv[2:2 + n]:
    open(o, 'w').write('gen ' + ' '.join(sys.argv[2 + n:]) + '\\n')
'''

REC_PY = '''#!/venv/bin/python -SE
import sys, os, json, time
d = os.environ.get('C15_REC_DIR')
if d:
    with open(os.path.join(d, '%d-%d.json' % (os.getpid(), time.time_ns())), 'w') as f:
        json.dump({'argv': sys.argv, 'env': dict(os.environ), 'cwd': os.getcwd()}, f)
'''

LOGNINJA = '''#!/bin/sh
case "$1" in
  --version) echo "1.11.1";;
  *) if [ -n "$C15_NINJA_LOG" ]; then for a in "$@"; do printf '%s\\n' "$a" >> "$C15_NINJA_LOG"; done; printf '%s\\n' '--' >> "$C15_NINJA_LOG"; fi; exit 0;;
esac
'''


# ---------------------------------------------------------------------------- project generator
class Block:
    """Statements for one meson.build (a directory of a project)."""
    def __init__(self, proj, sub, rel):
        self.proj, self.sub, self.rel = proj, sub, rel      # sub = subproject name or '', rel = dir relative to (sub)project root
        self.lines = []

    def path(self, name):
        """source-tree path (relative to the top source dir) of a file of this directory"""
        base = os.path.join('subprojects', self.sub) if self.sub else ''
        return os.path.normpath(os.path.join(base, self.rel, name))


def mstr(s):
    return "'" + s.replace('\\', '\\\\').replace("'", "\\'") + "'"


def mlist(l):
    return '[' + ', '.join(l) + ']'


ARG_POOL = ['a b', 'c', '--flag=1', 'it\'s', '$HOME', 'x;y', 'a"b', 'é', '*', '', '-', 'back\\slash', '#c', 'tab\tx']
VAL_POOL = ['bar baz', '1', '', 'x:y', '/some/path', 'v=w', 'q"r', 'ü']
TAGS = ['runtime', 'devel', 'tagx', 'doc']


class Gen:
    def __init__(self, rng, idx, use_c, dup=False, big=False):
        self.rng, self.idx, self.use_c, self.dup, self.big = rng, idx, use_c, dup, big
        self.files = {}
        self.exec_files = set()
        self.n = 0
        self.setup_args = []
        self.dup_dests = []          # destinations (relative to prefix or absolute) of sources installed more than once
        self.expected_def_files = set()
        self.unread = set()
        self.test_names = []
        self.targets = {}            # per block key -> list of (var, kind, nout)
        self.top_str_opts = []
        self.top_opts = {}
        self.subprojects_used = []
        self.global_opts = {}        # built-in options set globally on the command line
        self.configure_args = []     # a later `meson configure` (swaps the overrides)
        self.yield_opts = os.environ.get('C15_YIELD_OPTIONS', '1') == '1'   # on by default since fix 8eee044
        # build_subdir: (meson >= 1.10) on a share of the targets; decided per project, together with the layout
        self.flat = rng is not None and rng.random() < 0.12
        # (also combined with --layout=flat: intro-targets.json said meson-out/<output> where build.ninja produces
        # meson-out/<build_subdir>/<output> until fix b98a4c2)
        self.build_subdirs = rng is not None and rng.random() < 0.6

    def uid(self):
        self.n += 1
        return self.n

    def add_file(self, path, content, exe=False):
        self.files[path] = content
        if exe:
            self.exec_files.add(path)

    # --- option files
    def option_file(self, blk, sp):
        rng = self.rng
        kinds = ['string', 'boolean', 'integer', 'array', 'combo', 'feature']
        chosen = [k for k in kinds if rng.random() < 0.6]
        if not chosen:
            return []
        fname = rng.choice(['meson.options', 'meson_options.txt'])
        lines, opts = [], []
        for k in chosen:
            name = 'o_%s%s' % (k[:3], rng.choice(['', '_x']))
            if k == 'string':
                val = rng.choice(['dflt', 'a b', '', 'sub/dir'])
                lines.append("option(%s, type: 'string', value: %s)" % (mstr(name), mstr(val)))
            elif k == 'boolean':
                lines.append("option(%s, type: 'boolean', value: %s)" % (mstr(name), rng.choice(['true', 'false'])))
            elif k == 'integer':
                lines.append("option(%s, type: 'integer', value: %d, min: 0, max: 100)" % (mstr(name), rng.randint(0, 100)))
            elif k == 'array':
                lines.append("option(%s, type: 'array', value: %s)" % (mstr(name), mlist([mstr(x) for x in rng.sample(['a', 'b', 'c c', 'd'], rng.randint(0, 3))])))
            elif k == 'combo':
                lines.append("option(%s, type: 'combo', choices: ['x', 'y', 'z'], value: %s)" % (mstr(name), mstr(rng.choice('xyz'))))
            else:
                lines.append("option(%s, type: 'feature', value: %s)" % (mstr(name), mstr(rng.choice(['auto', 'enabled', 'disabled']))))
            if sp and self.yield_opts and self.top_opts.get(name) == k and rng.random() < 0.5:
                lines[-1] = lines[-1][:-1] + ', yield: true)'
            opts.append((name, k))
            if rng.random() < 0.35:
                v = {'string': rng.choice(['cli', 'with space', 'p/q']), 'boolean': rng.choice(['true', 'false']),
                     'integer': str(rng.randint(0, 100)), 'array': rng.choice(['a,b', 'z', '']),
                     'combo': rng.choice('xyz'), 'feature': rng.choice(['auto', 'enabled', 'disabled'])}[k]
                self.setup_args.append('-D%s%s=%s' % (sp + ':' if sp else '', name, v))
        self.add_file(blk.path(fname), '\n'.join(lines) + '\n')
        self.expected_def_files.add(blk.path(fname))
        return opts

    def option_messages(self, blk, sp, opts):
        pre = sp + ':' if sp else ''
        for name, k in opts:
            g = "get_option(%s)" % mstr(name)
            if k in ('string', 'combo'):
                e = g
            elif k in ('boolean', 'integer'):
                e = g + '.to_string()'
            elif k == 'array':
                e = "','.join(%s)" % g
            else:
                v = 'f%d' % self.uid()
                blk.lines.append('%s = %s' % (v, g))
                e = "(%s.enabled() ? 'enabled' : '') + (%s.disabled() ? 'disabled' : '') + (%s.auto() ? 'auto' : '')" % (v, v, v)
            blk.lines.append("message('OPT %s%s=' + %s)" % (pre, name, e))
        builtins = [('prefix', 's'), ('bindir', 's'), ('datadir', 's'), ('includedir', 's'), ('mandir', 's'), ('libdir', 's'),
                    ('buildtype', 's'), ('optimization', 's'), ('debug', 'b'), ('warning_level', 's'), ('default_library', 's'),
                    ('werror', 'b'), ('strip', 'b'), ('unity', 's'), ('layout', 's'), ('backend_max_links', 'i'), ('licensedir', 's'),
                    ('sysconfdir', 's'), ('auto_features', 'f')]
        if self.use_c:
            builtins += [('c_std', 's'), ('b_ndebug', 's'), ('b_lto', 'b'), ('b_staticpic', 'b'), ('b_lto_threads', 'i'),
                         ('c_args', 'a'), ('c_link_args', 'a')]
        # every built-in of the list is observed in every (sub)project: a per-subproject override must show up as the
        # value get_option() returns there
        for name, k in builtins:
            g = "get_option(%s)" % mstr(name)
            if k == 'f':
                v = 'f%d' % self.uid()
                blk.lines.append('%s = %s' % (v, g))
                e = "(%s.enabled() ? 'enabled' : '') + (%s.disabled() ? 'disabled' : '') + (%s.auto() ? 'auto' : '')" % (v, v, v)
            else:
                e = {'s': g, 'b': g + '.to_string()', 'i': g + '.to_string()', 'a': "','.join(%s)" % g}[k]
            blk.lines.append("message('OPT %s%s=' + %s)" % (pre, name, e))

    def contrast_overrides(self, sps):
        """Per-subproject overrides of built-in / base / compiler options whose value is falsy against a truthy global
        value and the reverse, for every value type; plus the `meson configure` arguments that swap them later."""
        rng = self.rng
        table = [('werror', 'b'), ('debug', 'B'), ('backend_max_links', 'i'), ('licensedir', 's')]
        if not self.use_c:
            table.append(('strip', 'b'))          # (stripping the fake binaries of C projects would fail at install time)
        else:
            table += [('b_lto', 'b'), ('b_staticpic', 'b'), ('b_lto_threads', 'i'), ('c_args', 'a'), ('c_link_args', 'l')]
        truthy = {'b': 'true', 'B': 'true', 'i': '3', 's': 'lic', 'a': '-DA,-DB', 'l': '-lm'}
        falsy = {'b': 'false', 'B': 'false', 'i': '0', 's': '', 'a': '', 'l': ''}
        for sp in sps:
            for name, k in table:
                if rng.random() >= 0.4:
                    continue
                if k == 'B':                      # debug follows buildtype globally: override in the subproject only
                    sub = rng.choice(['true', 'false'])
                    self.setup_args.append('-D%s:%s=%s' % (sp, name, sub))
                    self.configure_args.append('-D%s:%s=%s' % (sp, name, 'false' if sub == 'true' else 'true'))
                    continue
                if name not in self.global_opts:
                    self.global_opts[name] = rng.choice([truthy[k], falsy[k]])
                gv = self.global_opts[name]
                sv = falsy[k] if gv == truthy[k] else truthy[k]
                self.setup_args.append('-D%s:%s=%s' % (sp, name, sv))
                # later: swap (the global one only once)
                self.configure_args.append('-D%s:%s=%s' % (sp, name, gv))
                if ('-D%s=%s' % (name, sv)) not in self.configure_args and not any(a.startswith('-D%s=' % name) for a in self.configure_args):
                    self.configure_args.append('-D%s=%s' % (name, sv))

    # --- targets
    def custom_target(self, blk, avail):
        rng = self.rng
        k = self.uid()
        var = 'ct%d' % k
        nout = rng.choice([1, 1, 2, 3])
        outs = ['o%d_%d.%s' % (k, j, rng.choice(['txt', 'dat', 'h', 'c'])) for j in range(nout)]
        ins = []
        for _ in range(rng.choice([0, 1, 1, 2])):
            c = rng.random()
            if c < 0.4 or not avail:
                f = 'in%d.txt' % self.uid()
                self.add_file(blk.path(f), 'input\n')
                ins.append(mstr(f))
            else:
                v, kind, n = rng.choice(avail)
                if kind == 'ct' and rng.random() < 0.6:
                    ins.append('%s[%d]' % (v, rng.randrange(n)))
                else:
                    ins.append(v)
        if self.use_c and rng.random() < 0.15:
            f = 'gi%d.in' % self.uid()
            self.add_file(blk.path(f), 'g\n')
            ins.append("g.process(%s)" % mstr(f))
        kw = ["output: %s" % mlist([mstr(o) for o in outs]),
              "command: [gen, '%d', '@OUTPUT@'%s]" % (nout, ", '@INPUT@'" if ins else '')]
        if ins:
            kw.append('input: %s' % mlist(ins))
        if rng.random() < 0.3:
            kw.append('build_by_default: %s' % rng.choice(['true', 'false']))
        if self.build_subdirs and rng.random() < 0.25:
            kw.append('build_subdir: %s' % mstr(rng.choice(['bs%d' % k, 'bs%d/deep' % k])))
        if avail and rng.random() < 0.25:
            kw.append('depends: %s' % rng.choice(avail)[0])
        if rng.random() < 0.45:
            kw.append('install: true')
            c = rng.random()
            if c < 0.35:
                kw.append("install_dir: %s" % mstr(rng.choice(['share/cts', 'libexec', 'share/cts/deep/er'])))
            elif c < 0.6 and nout > 1:
                dirs = [rng.choice([mstr('share/cta'), mstr('share/ctb'), 'false', 'false']) for _ in range(nout)]
                if all(d == 'false' for d in dirs):
                    dirs[0] = mstr('share/cta')
                kw.append('install_dir: %s' % mlist(dirs))
            elif c < 0.8:
                kw.append("install_dir: get_option('datadir') / 'ctd%d'" % k)
            else:
                kw.append("install_dir: get_option('prefix') / 'abs%d'" % k)
            c = rng.random()
            if c < 0.3:
                kw.append('install_tag: %s' % mstr(rng.choice(TAGS)))
            elif c < 0.5:
                kw.append('install_tag: %s' % mlist([mstr(rng.choice(TAGS)) for _ in range(nout)]))
        blk.lines.append("%s = custom_target(%s, %s)" % (var, mstr(var + ('x' * rng.randint(0, 1))), ', '.join(kw)))
        return (var, 'ct', nout)

    def c_target(self, blk, avail):
        rng = self.rng
        k = self.uid()
        kind = rng.choice(['executable', 'executable', 'static_library', 'shared_library', 'both_libraries', 'shared_module', 'library'])
        var = 'bt%d' % k
        src = 'src%d.c' % k
        body = 'int f%d(void) { return %d; }\n' % (k, k)
        if kind == 'executable':
            body += 'int main(void) { return 0; }\n'
        self.add_file(blk.path(src), body)
        srcs = [mstr(src)]
        if rng.random() < 0.3:
            f = 'extra%d.c' % k
            self.add_file(blk.path(f), 'int g%d(void) { return 1; }\n' % k)
            srcs.append("files(%s)" % mstr(f))
        cts_c = [a for a in avail if a[1] == 'ct']
        if cts_c and rng.random() < 0.4:
            v, _, n = rng.choice(cts_c)
            srcs.append(v if rng.random() < 0.5 else '%s[%d]' % (v, rng.randrange(n)))
        if rng.random() < 0.3:
            f = 'x%d.in' % k
            self.add_file(blk.path(f), 'x\n')
            srcs.append("g.process(%s)" % mstr(f))
        kw = []
        libs = [a for a in avail if a[1] == 'lib']
        if libs and rng.random() < 0.5:
            kw.append('link_with: %s' % rng.choice(libs)[0])
        if rng.random() < 0.5:
            kw.append('install: true')
            c = rng.random()
            if c < 0.3:
                kw.append('install_dir: %s' % mstr(rng.choice(['libexec/foo', 'opt/bin', 'lib/x'])))
            elif c < 0.4:
                kw.append("install_dir: get_option('libexecdir') / 'l%d'" % k)
            if rng.random() < 0.4:
                kw.append('install_tag: %s' % mstr(rng.choice(TAGS)))
        if kind in ('shared_library', 'library', 'both_libraries') and rng.random() < 0.5:
            kw.append("version: '1.2.3'")
            if rng.random() < 0.7:
                kw.append("soversion: '%s'" % rng.choice(['1', '4']))
        if rng.random() < 0.2:
            f = 'README%d' % k
            self.add_file(blk.path(f), 'r\n')
            kw.append('extra_files: %s' % mstr(f))
        if rng.random() < 0.15:
            kw.append('build_by_default: false')
        if self.build_subdirs and rng.random() < 0.25:
            kw.append('build_subdir: %s' % mstr(rng.choice(['bs%d' % k, 'bs%d/deep' % k])))
        blk.lines.append('%s = %s(%s, %s%s)' % (var, kind, mstr('t%d' % k), ', '.join(srcs), ''.join(', ' + x for x in kw)))
        return (var, 'exe' if kind == 'executable' else ('mod' if kind == 'shared_module' else 'lib'), 1)

    def misc_target(self, blk, avail):
        rng = self.rng
        k = self.uid()
        if rng.random() < 0.5 or not avail:
            blk.lines.append("rt%d = run_target(%s, command: [gen, '0'])" % (k, mstr('run%d' % k)))
        else:
            deps = [a[0] for a in rng.sample(avail, min(len(avail), rng.randint(1, 2))) if a[1] != 'bothx']
            blk.lines.append("al%d = alias_target(%s, %s)" % (k, mstr('alias%d' % k), ', '.join(deps)))

    # --- install rules
    def install_rules(self, blk):
        rng = self.rng
        L = blk.lines
        pname = blk.sub or self.name
        for _ in range(rng.randint(0, 2)):           # headers
            k = self.uid()
            hs = []
            for j in range(rng.randint(1, 2)):
                f = 'h%d_%d.h' % (k, j)
                if rng.random() < 0.3:
                    f = 'hd%d/' % k + f
                self.add_file(blk.path(f), '/* h */\n')
                hs.append(mstr(f))
            kw = []
            c = rng.random()
            if c < 0.35:
                kw.append('subdir: %s' % mstr(rng.choice(['myinc', 'a/b', pname])))
            elif c < 0.55:
                kw.append('install_dir: %s' % mstr(rng.choice(['custominc', 'include/c2'])))
            elif c < 0.65:
                kw.append("install_dir: get_option('includedir') / 'viaopt'")
            if rng.random() < 0.25:
                kw.append('preserve_path: true')
            if rng.random() < 0.3:
                kw.append('install_tag: %s' % mstr(rng.choice(TAGS)))
            L.append('install_headers(%s%s)' % (', '.join(hs), ''.join(', ' + x for x in kw)))
        for _ in range(rng.randint(0, 2)):           # man
            k = self.uid()
            loc = rng.choice([None, None, 'fr', 'de'])
            sec = rng.choice('1358')
            f = 'm%d%s.%s' % (k, '.' + loc if loc else '', sec)
            self.add_file(blk.path(f), '.TH\n')
            kw = []
            if loc:
                kw.append('locale: %s' % mstr(loc))
            if rng.random() < 0.25:
                kw.append('install_dir: %s' % mstr(rng.choice(['share/myman', 'man/custom'])))
            if rng.random() < 0.25:
                kw.append('install_tag: %s' % mstr(rng.choice(TAGS)))
            L.append('install_man(%s%s)' % (mstr(f), ''.join(', ' + x for x in kw)))
        for _ in range(rng.randint(0, 3)):           # data
            k = self.uid()
            fs = []
            for j in range(rng.randint(1, 2)):
                f = 'd%d_%d.txt' % (k, j)
                if rng.random() < 0.25:
                    f = 'dd%d/' % k + f
                self.add_file(blk.path(f), 'data %d\n' % k)
                fs.append(f)
            kw = []
            c = rng.random()
            idir = None
            if c < 0.4:
                idir = rng.choice(['share/data', 'etc/x', 'share/data/deep'])
                kw.append('install_dir: %s' % mstr(idir))
            elif c < 0.6:
                kw.append("install_dir: get_option('datadir') / 'viaopt%d'" % k)
            elif c < 0.7:
                kw.append("install_dir: get_option('sysconfdir')")
            elif c < 0.8 and not blk.sub and self.top_str_opts:
                kw.append("install_dir: get_option(%s) / 'viaopt%d'" % (mstr(rng.choice(self.top_str_opts)), k))
            if rng.random() < 0.3:
                kw.append('rename: %s' % mlist([mstr(rng.choice(['r%d_%d.txt' % (k, j), 'sub%d/r%d.txt' % (k, j)])) for j in range(len(fs))]))
            elif rng.random() < 0.2:
                kw.append('preserve_path: true')
            if rng.random() < 0.35:
                kw.append('install_tag: %s' % mstr(rng.choice(TAGS)))
            L.append('install_data(%s%s)' % (', '.join(mstr(f) for f in fs), ''.join(', ' + x for x in kw)))
            if self.dup and idir is not None and rng.random() < 0.7:
                # the SAME source installed to a second place (known finding stream)
                idir2 = idir + '_again'
                L.append('install_data(%s, install_dir: %s)' % (mstr(fs[0]), mstr(idir2)))
                self.dup_dests += [os.path.join(idir, os.path.basename(fs[0])), os.path.join(idir2, os.path.basename(fs[0]))]
                for j in range(len(fs)):
                    self.dup_dests += [os.path.join(idir, x) for x in ('r%d_%d.txt' % (k, j), 'sub%d/r%d.txt' % (k, j), fs[j])]
        for _ in range(rng.randint(0, 2)):           # subdirs
            k = self.uid()
            d = 'tree%d' % k
            self.add_file(blk.path(d + '/a.txt'), 'a\n')
            self.add_file(blk.path(d + '/sub/b.txt'), 'b\n')
            self.add_file(blk.path(d + '/sub/skip.txt'), 's\n')
            self.add_file(blk.path(d + '/skipdir/c.txt'), 'c\n')
            kw = ['install_dir: %s' % rng.choice([mstr('share/t'), mstr('share/t%d' % k), "get_option('datadir') / 'tt%d'" % k])]
            if rng.random() < 0.4:
                kw.append('strip_directory: true')
            if rng.random() < 0.4:
                kw.append("exclude_files: ['sub/skip.txt']")
            if rng.random() < 0.3:
                kw.append("exclude_directories: ['skipdir']")
            if rng.random() < 0.3:
                kw.append('install_tag: %s' % mstr(rng.choice(TAGS)))
            L.append('install_subdir(%s, %s)' % (mstr(d), ', '.join(kw)))
        if rng.random() < 0.3:
            kw = ''
            if rng.random() < 0.4:
                kw = ', install_tag: %s' % mstr(rng.choice(TAGS))
            L.append('install_emptydir(%s%s)' % (mstr('share/empty%d' % self.uid()), kw))
        if rng.random() < 0.3:
            k = self.uid()
            kw = ''
            if rng.random() < 0.4:
                kw = ', install_tag: %s' % mstr(rng.choice(TAGS))
            L.append('install_symlink(%s, pointing_to: %s, install_dir: %s%s)' % (mstr('lnk%d' % k), mstr(rng.choice(['target.txt', '../x', '/abs/t'])),
                                                                                     mstr(rng.choice(['share/links', 'bin'])), kw))
        if rng.random() < 0.3:
            k = self.uid()
            f = 'conf%d.h.in' % k
            self.add_file(blk.path(f), '#define V @V@\n')
            self.expected_def_files.add(blk.path(f))
            mode = rng.choice(["configuration: {'V': %d}" % k, 'copy: true'])
            inst = ''
            if rng.random() < 0.6:
                inst = ', install_dir: %s' % rng.choice([mstr('include/conf'), "get_option('includedir')"])
                if rng.random() < 0.4:
                    inst += ', install_tag: %s' % mstr(rng.choice(TAGS))
            L.append('configure_file(input: %s, output: %s, %s%s)' % (mstr(f), mstr('conf%d.h' % k), mode, inst))

    # --- tests
    def tests(self, blk, avail):
        rng = self.rng
        L = blk.lines
        progs = [('tp', 'prog')]
        progs += [(a[0], a[1]) for a in avail if a[1] in ('exe', 'ct')]
        block_envs = []
        for _ in range(rng.randint(0, 3)):
            k = self.uid()
            name = 'test%d' % k
            if rng.random() < 0.2:
                name = rng.choice(['test %d with blanks', 't\u00e9st%d', 'test-%d.x+y', '%d'])  % k      # unusual but legal names
            fn = 'benchmark' if rng.random() < 0.2 else 'test'
            p, pk = rng.choice(progs)
            prog = p if pk != 'ct' or rng.random() < 0.5 else p + '[0]'
            kw = []
            args = []
            for _ in range(rng.randint(0, 4)):
                c = rng.random()
                if c < 0.7 or not avail:
                    args.append(mstr(rng.choice(ARG_POOL)))
                elif c < 0.8:
                    f = 'arg%d.txt' % self.uid()
                    self.add_file(blk.path(f), 'x\n')
                    args.append('files(%s)' % mstr(f))
                else:
                    v, kind, n = rng.choice(avail)
                    args.append('%s[%d]' % (v, rng.randrange(n)) if kind == 'ct' and rng.random() < 0.5 else v)
            if args:
                kw.append('args: %s' % mlist(args))
            c = rng.random()
            keys = rng.sample(ENV_POOL[:4], rng.randint(1, 3))
            if c < 0.25:
                kw.append('env: {%s}' % ', '.join('%s: %s' % (mstr(x), mstr(rng.choice(VAL_POOL))) for x in keys))
            elif c < 0.45:
                kw.append('env: %s' % mlist([mstr('%s=%s' % (x, rng.choice(VAL_POOL))) for x in keys]))
            elif c < 0.75 and block_envs and rng.random() < 0.5:
                kw.append('env: %s' % rng.choice(block_envs))       # ONE environment() object shared by several tests
            elif c < 0.75:
                ev = 'env%d' % k
                block_envs.append(ev)
                L.append('%s = environment()' % ev)
                if rng.random() < 0.25:
                    L.append("%s.unset('C15_UNSET')" % ev)
                for x in keys:
                    op = rng.choice(['set', 'append', 'prepend'])
                    vals = [mstr(rng.choice(VAL_POOL)) for _ in range(rng.randint(1, 2))]
                    sep = ", separator: %s" % mstr(rng.choice([';', ',', '::'])) if rng.random() < 0.4 else ''
                    L.append('%s.%s(%s, %s%s)' % (ev, op, mstr(x), ', '.join(vals), sep))
                    if rng.random() < 0.3:
                        L.append('%s.%s(%s, %s)' % (ev, rng.choice(['append', 'prepend']), mstr(x), mstr(rng.choice(VAL_POOL))))
                kw.append('env: %s' % ev)
            c = rng.random()
            if c < 0.3:
                kw.append('suite: %s' % mstr(rng.choice(['s1', 's2', 'slow'])))
            elif c < 0.5:
                kw.append('suite: %s' % mlist([mstr(x) for x in rng.sample(['s1', 's2', 'slow', 'unit'], 2)]))
            if avail and rng.random() < 0.35:
                kw.append('depends: %s' % mlist([a[0] for a in rng.sample(avail, min(len(avail), rng.randint(1, 2)))]))
            if rng.random() < 0.2:
                kw.append('workdir: meson.current_source_dir()')
            elif rng.random() < 0.1:
                kw.append('workdir: meson.project_build_root()')
            if fn == 'test' and rng.random() < 0.2:
                kw.append('is_parallel: false')
            if rng.random() < 0.2:
                kw.append('priority: %d' % rng.randint(-2, 5))
            if rng.random() < 0.2:
                kw.append('timeout: %d' % rng.choice([0, -1, 5, 100]))
            L.append('%s(%s, %s%s)' % (fn, mstr(name), prog, ''.join(', ' + x for x in kw)))
            self.test_names.append(name)

    def block_body(self, blk, nest):
        rng = self.rng
        avail = []
        n_ct = rng.randint(0, 3) + (2 if self.big else 0)
        for _ in range(n_ct):
            avail.append(self.custom_target(blk, avail))
        if self.use_c:
            for _ in range(rng.randint(0, 3) + (2 if self.big else 0)):
                avail.append(self.c_target(blk, avail))
        for _ in range(rng.choice([0, 0, 1, 2])):
            self.misc_target(blk, avail)
        self.install_rules(blk)
        self.tests(blk, avail)
        if nest > 0 and rng.random() < 0.6:
            d = 'dir%d' % self.uid()
            sub = Block(self, blk.sub, os.path.join(blk.rel, d))
            self.block_body(sub, nest - 1)
            self.add_file(sub.path('meson.build'), '\n'.join(sub.lines) + '\n')
            self.expected_def_files.add(sub.path('meson.build'))
            cond = None
            blk.lines.append('subdir(%s)' % mstr(d))
        if nest > 0 and rng.random() < 0.35:
            # a directory with a meson.build that is never entered
            d = 'unused%d' % self.uid()
            self.add_file(blk.path(d + '/meson.build'), "message('never')\n")
            self.unread.add(blk.path(d + '/meson.build'))
            if rng.random() < 0.5:
                blk.lines.append("if get_option('buildtype') == 'nonexistent'\n  subdir(%s)\nendif" % mstr(d))

    def project(self):
        rng = self.rng
        self.name = 'p%d' % self.idx
        top = Block(self, '', '')
        self.add_file('gen.py', GEN_PY, exe=True)
        self.add_file('tp.py', REC_PY, exe=True)
        langs = ", 'c'" if self.use_c else ''
        dopts = []
        if rng.random() < 0.3:
            dopts.append('default_library=%s' % rng.choice(['static', 'shared', 'both']))
        if rng.random() < 0.3:
            dopts.append('warning_level=%s' % rng.choice('0123'))
        pkw = ''
        if dopts:
            pkw += ', default_options: %s' % mlist([mstr(x) for x in dopts])
        if rng.random() < 0.25:
            self.add_file('VERSION', '1.%d.0\n' % self.idx)
            self.expected_def_files.add('VERSION')
            pkw += ", version: files('VERSION')"
        top.lines.append("project(%s%s%s, meson_version: '>=1.10')" % (mstr(self.name), langs, pkw))
        self.expected_def_files.add('meson.build')
        opts = self.option_file(top, '')
        self.top_str_opts = [n for n, k in opts if k == 'string']
        self.top_opts = dict(opts)
        self.option_messages(top, '', opts)
        top.lines.append("gen = find_program('gen.py')")
        top.lines.append("tp = find_program('tp.py')")
        if self.use_c:
            top.lines.append("g = generator(gen, output: '@BASENAME@.c', arguments: ['1', '@OUTPUT@', '@INPUT@'])")
        if rng.random() < 0.25:
            self.add_file('notes.txt', 'some text\n')
            self.expected_def_files.add('notes.txt')
            top.lines.append("fs = import('fs')\nnotes = fs.read('notes.txt')")
        self.block_body(top, 2)
        # subprojects
        nsp = rng.choice([0, 0, 1, 1, 2])
        for s in range(nsp):
            sp = 'sp%d' % s
            sb = Block(self, sp, '')
            sdopts = []
            if rng.random() < 0.4:
                sdopts.append('default_library=%s' % rng.choice(['static', 'shared']))
            if rng.random() < 0.3:
                sdopts.append('warning_level=%s' % rng.choice('0123'))
            sb.lines.append("project(%s%s%s)" % (mstr(sp), langs, ', default_options: %s' % mlist([mstr(x) for x in sdopts]) if sdopts else ''))
            sopts = self.option_file(sb, sp)
            self.option_messages(sb, sp, sopts)
            sb.lines.append("gen = find_program('gen.py')")
            sb.lines.append("tp = find_program('tp.py')")
            self.add_file(sb.path('gen.py'), GEN_PY, exe=True)
            self.add_file(sb.path('tp.py'), REC_PY, exe=True)
            if self.use_c:
                sb.lines.append("g = generator(gen, output: '@BASENAME@.c', arguments: ['1', '@OUTPUT@', '@INPUT@'])")
            self.block_body(sb, 1)
            self.add_file(sb.path('meson.build'), '\n'.join(sb.lines) + '\n')
            self.expected_def_files.add(sb.path('meson.build'))
            top.lines.append('subproject(%s)' % mstr(sp))
            self.subprojects_used.append(sp)
            if rng.random() < 0.4:
                self.setup_args.append('-D%s:default_library=%s' % (sp, rng.choice(['static', 'shared'])))
        if rng.random() < 0.3:
            # a subproject directory that is never used
            self.add_file('subprojects/spunused/meson.build', "project('spunused')\n")
            self.unread.add('subprojects/spunused/meson.build')
        self.add_file('meson.build', '\n'.join(top.lines) + '\n')
        # command line
        if rng.random() < 0.6:
            self.setup_args.append('--prefix=%s' % rng.choice(['/opt/pp', '/usr', '/usr/local/', '/p//q']))
        for o, vals in (('datadir', ['dd', 'share/x']), ('includedir', ['inc', 'include/']), ('mandir', ['man']),
                        ('bindir', ['b/in']), ('libdir', ['lib', 'lib64']), ('sysconfdir', ['/etc', 'etc2']),
                        ('buildtype', ['release', 'debugoptimized', 'plain']), ('warning_level', ['0', '3']),
                        ('default_library', ['static', 'both']), ('werror', ['true']), ('unity', ['off'])):
            if rng.random() < 0.2:
                self.global_opts[o] = rng.choice(vals)
        self.contrast_overrides(self.subprojects_used)
        for o, v in self.global_opts.items():
            self.setup_args.append('-D%s=%s' % (o, v))
        if self.flat:
            self.setup_args.append('--layout=flat')
        return self


FEATURES = [('custom_target', r'custom_target\('), ('ct indexed input', r'input: \[[^\]]*ct\d+\['), ('ct generator input', r'input: \[[^\]]*g\.process'),
            ('build_subdir', r'build_subdir:'), ('install_tag', r'install_tag:'), ('install_dir list with false', r"install_dir: \[[^\]]*false"),
            ('install_dir via option', r"install_dir: get_option"), ('executable', r'= executable\('), ('shared_library', r'= shared_library\('),
            ('both_libraries', r'= both_libraries\('), ('shared_module', r'= shared_module\('), ('static_library', r'= static_library\('),
            ('versioned library', r"soversion:"), ('run_target', r'run_target\('), ('alias_target', r'alias_target\('),
            ('install_headers', r'install_headers\('), ('install_man', r'install_man\('), ('man locale', r'locale:'), ('install_data', r'install_data\('),
            ('data rename', r'rename:'), ('preserve_path', r'preserve_path: true'), ('install_subdir', r'install_subdir\('),
            ('strip_directory', r'strip_directory: true'), ('exclude', r'exclude_(files|directories):'), ('install_emptydir', r'install_emptydir\('),
            ('install_symlink', r'install_symlink\('), ('configure_file', r'configure_file\('), ('fs.read', r'fs\.read\('),
            ('version file', r"version: files"), ('test', r'(?m)^test\('), ('benchmark', r'(?m)^benchmark\('), ('test on built exe/ct', r'(?m)^(test|benchmark)\([^,]*, (bt|ct)'),
            ('test target args', r'args: \[[^\]]*(ct|bt)\d+'), ('env dict', r'env: \{'), ('env list', r"env: \['"), ('environment() object', r'= environment\(\)'),
            ('shared environment() object', None), ('env append/prepend', r'\.(append|prepend)\('), ('env separator', r'separator:'), ('env unset', r'\.unset\('),
            ('suite', r'suite:'), ('depends', r'(?m)^(test|benchmark)\(.*depends:'), ('workdir', r'workdir:'), ('is_parallel', r'is_parallel:'),
            ('priority', r'priority:'), ('timeout', r'timeout:'), ('unusual test name', r"(?m)^(test|benchmark)\('(test \d+ with|t\u00e9st|test-\d+\.x|\d+')"),
            ('subdir', r'(?m)^subdir\('), ('unentered subdir', r"nonexistent"), ('subproject', r'(?m)^subproject\('), ('yield option', r'yield: true'),
            ('option file', None), ('default_options', r'default_options:')]


def coverage(gens):
    """What the generator produced how often (projects having it / occurrences): gaps become visible."""
    table = {}
    for g in gens:
        text = '\n'.join(v for k, v in g['files'].items() if k.endswith(('meson.build', 'meson.options', 'meson_options.txt')))
        for name, rx in FEATURES:
            if rx is None:
                if name == 'option file':
                    n = sum(1 for k in g['files'] if k.endswith(('meson.options', 'meson_options.txt')))
                else:
                    envs = re.findall(r'env: (env\d+)', text)
                    n = len(envs) - len(set(envs))
            else:
                n = len(re.findall(rx, text))
            t = table.setdefault(name, [0, 0])
            t[0] += 1 if n else 0
            t[1] += n
        for a in g['setup_args']:
            key = 'setup ' + ('--layout=flat' if a == '--layout=flat' else '--prefix' if a.startswith('--prefix') else
                              '-Dsub:builtin override' if re.match(r'-Dsp\d:(?!o_)', a) else '-Dsub:user option' if re.match(r'-Dsp\d:o_', a) else
                              '-Duser option' if a.startswith('-Do_') else '-Dbuiltin')
            t = table.setdefault(key, [0, 0])
            t[1] += 1
        for key in {'setup ' + ('--layout=flat' if a == '--layout=flat' else '') for a in g['setup_args']} - {'setup '}:
            table[key][0] += 1
        if g.get('configure_args'):
            t = table.setdefault('later meson configure', [0, 0])
            t[0] += 1
            t[1] += len(g['configure_args'])
    return {k: {'projects': v[0], 'occurrences': v[1]} for k, v in table.items()}


def gen_project(rng, idx, use_c, dup=False, big=False):
    return Gen(rng, idx, use_c, dup, big).project()


# ---------------------------------------------------------------------------- running meson
def run_meson(args, cwd, env_extra=None, ninja=None, timeout=300):
    e = impl_env(env_extra)
    e['NINJA'] = ninja or os.path.join(VERIF, 'tools', 'fakeninja')
    for k in ENV_POOL + ['DESTDIR', 'MESON_TESTTHREADS']:
        e.pop(k, None)
    if env_extra:
        e.update(env_extra)
    return subprocess.run([PY, os.path.join(REPO, 'meson.py')] + list(args), cwd=cwd, env=e,
                          capture_output=True, text=True, timeout=timeout)


def write_project(g, src):
    for rel, content in g.files.items():
        p = os.path.join(src, rel)
        os.makedirs(os.path.dirname(p), exist_ok=True)
        with open(p, 'w') as f:
            f.write(content)
        if rel in g.exec_files:
            os.chmod(p, 0o755)


def setup(g, root, use_strace=True):
    """Configure under strace (openat of the meson process itself).  Returns a dict."""
    src, bld = os.path.join(root, 'src'), os.path.join(root, 'bld')
    write_project(g, src)
    e = impl_env()
    e['NINJA'] = os.path.join(VERIF, 'tools', 'fakeninja')
    for k in ENV_POOL + ['DESTDIR']:
        e.pop(k, None)
    cmd = [PY, os.path.join(REPO, 'meson.py'), 'setup', src, bld] + g.setup_args
    stlog = os.path.join(root, 'strace.log')
    use_strace = use_strace and shutil.which('strace') is not None
    if use_strace:
        cmd = ['strace', '-o', stlog, '-e', 'trace=openat,open', '-e', 'status=successful'] + cmd
    r = subprocess.run(cmd, cwd=root, env=e, capture_output=True, text=True, timeout=600)
    return {'src': src, 'bld': bld, 'rc': r.returncode, 'stdout': r.stdout, 'stderr': r.stderr, 'strace': stlog if use_strace else None}


def opened_files(stlog, src):
    """Regular files under the source tree the meson process opened read-only."""
    out = set()
    rsrc = os.path.realpath(src)
    for line in open(stlog, errors='replace'):
        m = re.match(r'open(?:at)?\((?:AT_FDCWD, )?"((?:[^"\\]|\\.)*)", ([A-Z_|]+)', line)
        if not m:
            continue
        path, flags = m.group(1), m.group(2).split('|')
        if 'O_DIRECTORY' in flags or 'O_RDONLY' not in flags:
            continue
        try:
            path = path.encode('latin-1').decode('unicode_escape').encode('latin-1').decode('utf-8')
        except Exception:
            pass
        if not os.path.isabs(path):
            continue
        rp = os.path.realpath(path)
        if rp.startswith(rsrc + os.sep) and os.path.isfile(rp):
            out.add(os.path.relpath(rp, rsrc))
    return out


# ---------------------------------------------------------------------------- canonical forms
def canon_val(v):
    if isinstance(v, bool):
        return 'true' if v else 'false'
    if isinstance(v, list):
        return ','.join(str(x) for x in v)
    return str(v)


def npath(p):
    return os.path.normpath(p)


def enc_item(ordered, unordered):
    return ''.join(x + S2 for x in ordered) + S1 + ''.join(x + S2 for x in sorted(set(unordered)))


def enc_items(items):
    return ''.join(enc_item(o, u) + S3 for o, u in items)


def enc_list(l):
    return ''.join(x + S2 for x in l)


def enc_pairs(l):
    return ''.join(k + S1 + v + S2 for k, v in l)


def enc_opt(o):
    return 'N' if o is None else 'S' + o


def suite_matches(sel, prjst):
    pm, sm = (sel.split(':', 1) + [''])[:2] if ':' in sel else (sel, '')
    prj, st = (prjst.split(':', 1) + [''])[:2] if ':' in prjst else (prjst, '')
    if not sm:
        return pm in (prj, st)
    if not pm:
        return st == sm
    return prj == pm and st == sm


def resolve_placeholder(dest, opts):
    """Plan destination -> path relative to the prefix (or absolute)."""
    m = re.match(r'^\{([A-Za-z0-9_]+)\}(.*)$', dest)
    if not m:
        return dest
    name, rest = m.group(1), m.group(2)
    name = {'libdir_static': 'libdir', 'libdir_shared': 'libdir', 'moduledir_shared': 'libdir'}.get(name, name)
    if name not in opts:
        return None
    val = opts[name]
    # the name is os.path.join('{opt}', other) and the path os.path.join(value, other)
    return os.path.join(val, rest[1:]) if rest.startswith('/') else val + rest


class Observation:
    """intro I and world W of one configured project, in the wire form of Entry.run 'judge'."""
    def __init__(self):
        self.I = {'targets': [], 'tests': [], 'benchmarks': [], 'opts': [], 'plan': [], 'files': []}
        self.W = {'targets': [], 'tests': [], 'benchmarks': [], 'opts': [], 'runs': [], 'files': []}
        self.notes = []
        self.opt_raw = []

    def judge_args(self):
        I, W = self.I, self.W
        return [enc_items(I['targets']), enc_items(W['targets']), enc_items(I['tests']), enc_items(W['tests']),
                enc_items(I['benchmarks']), enc_items(W['benchmarks']), enc_pairs(I['opts']), enc_pairs(W['opts']),
                ''.join(k + S1 + d + S1 + enc_opt(t) + S2 for k, d, t in I['plan']),
                ''.join(enc_list(r['tags']) + S1 + enc_list(r['files']) + S1 + enc_list(r['dirs']) + S1 + enc_list(r['links']) + S3 for r in W['runs']),
                enc_list(I['files']), enc_list(W['files'])]


def parse_list(stdout):
    """`meson test --list` lines: [<s1>+<s2> - ]<project>:<name> (mtest.get_pretty_suite)."""
    out = []
    for line in stdout.splitlines():
        line = line.rstrip('\n')
        ss = []
        if ' - ' in line:
            a, line = line.split(' - ', 1)
            ss = a.split('+')
        if ':' not in line:
            continue
        prj, name = line.split(':', 1)
        out.append((ss, prj, name))
    return out


def perturbations(ob, rng):
    """Variants of an observation that must flip (or must not flip) the verdict: exercises the
    rejecting paths of the judge against the independent oracle."""
    import copy
    out = []

    def variant(label, f):
        o = Observation()
        o.I, o.W = copy.deepcopy(ob.I), copy.deepcopy(ob.W)
        if f(o) is not False:
            out.append((label, o.judge_args()))
    def permute(o):
        for d in (o.I, o.W):
            for k in ('targets', 'tests', 'benchmarks', 'files'):
                rng.shuffle(d[k])
        rng.shuffle(o.I['plan'])
    variant('permute', permute)
    variant('drop-world-target', lambda o: o.W['targets'].pop(rng.randrange(len(o.W['targets']))) if o.W['targets'] else False)
    variant('dup-intro-test', lambda o: o.I['tests'].append(rng.choice(o.I['tests'])) if o.I['tests'] else False)

    def chg_src(o):
        c = [i for i, (a, b) in enumerate(o.W['targets']) if b]
        if not c:
            return False
        i = rng.choice(c)
        o.W['targets'][i] = (o.W['targets'][i][0], list(o.W['targets'][i][1])[1:] + ['/extra/source.c'])
    variant('change-consumed-source', chg_src)

    def chg_opt(o):
        if not o.W['opts']:
            return False
        i = rng.randrange(len(o.W['opts']))
        o.W['opts'][i] = (o.W['opts'][i][0], o.W['opts'][i][1] + 'x')
    variant('change-option-value', chg_opt)

    def drop_file(o):
        c = [r for r in o.W['runs'] if r['files']]
        if not c:
            return False
        r = rng.choice(c)
        r['files'].pop(rng.randrange(len(r['files'])))
    variant('drop-installed-file', drop_file)

    def add_file(o):
        if not o.W['runs']:
            return False
        rng.choice(o.W['runs'])['files'].append('/not/in/the/plan.txt')
    variant('add-installed-file', add_file)
    variant('dup-listed-file', lambda o: o.I['files'].append(o.I['files'][0]) if o.I['files'] else False)
    variant('extra-read-file', lambda o: o.W['files'].append('unlisted/meson.build'))
    return out


def reserved_phony(baseline_text):
    m = ninja_py.Manifest(baseline_text)
    res = set()
    for b in m.builds:
        if b.rule == 'phony':
            res.update(b.outs)
    return res


def ninja_targets(text, bld, reserved):
    """Target-producing build statements of build.ninja: (outputs, consumed sources)."""
    m = ninja_py.Manifest(text)
    ab = lambda p: npath(os.path.join(bld, p))
    regen = set()
    for b in m.builds:
        if b.rule == 'REGENERATE_BUILD':
            regen.update(b.ins)
    compile_by_dir = {}
    for b in m.builds:
        if b.rule.endswith('_COMPILER') and b.outs:
            mm = re.match(r'^(.*\.p)/', b.outs[0])
            if mm:
                compile_by_dir.setdefault(mm.group(1), []).append(b)
    items = []
    for b in m.builds:
        if not b.outs:
            continue
        o0 = b.outs[0]
        if re.search(r'(^|/)[^/]+\.p/', o0):
            continue                                      # something inside a target's private directory
        if b.rule.endswith('_LINKER') or b.rule == 'STATIC_LINKER' or b.rule.endswith('_LINKER_RSP') or b.rule == 'STATIC_LINKER_RSP':
            srcs = set()
            for c in compile_by_dir.get(o0 + '.p', []):
                srcs.update(ab(x) for x in c.ins)
            items.append(([ab(o) for o in b.outs], sorted(srcs)))
        elif b.rule.startswith('CUSTOM_COMMAND'):
            if o0.startswith('meson-internal__'):
                continue
            items.append(([ab(o) for o in b.outs], sorted(ab(x) for x in b.ins)))
        elif b.rule == 'phony':
            if any(o in reserved for o in b.outs) or set(b.outs) <= regen or o0.startswith('meson-'):
                continue
            # run_target / alias_target: pseudo targets without output files; the ninja name is
            # [<subproject>@@]<name>
            items.append((['pseudo-target'] + [o.split('@@')[-1] for o in b.outs], []))
    prereq = {}
    for b in m.builds:
        if b.rule == 'phony' and b.outs and b.outs[0] in ('meson-test-prereq', 'meson-benchmark-prereq'):
            prereq[b.outs[0]] = sorted({stmt_of(m, x) for x in b.ins})
    return m, items, prereq


def stmt_of(m, relpath):
    """The build statement that produces a path, named by its first output (asking ninja for any
    output of a statement runs the statement)."""
    b = m.producer.get(relpath)
    return 'stmt:' + b.outs[0] if b is not None else 'no-producer:' + relpath


def walk_tree(root):
    files, dirs, links = [], [], []
    for dp, dn, fn in os.walk(root):
        for d in list(dn):
            p = os.path.join(dp, d)
            if os.path.islink(p):
                links.append('/' + os.path.relpath(p, root))
                dn.remove(d)
            else:
                dirs.append('/' + os.path.relpath(p, root))
        for f in fn:
            p = os.path.join(dp, f)
            (links if os.path.islink(p) else files).append('/' + os.path.relpath(p, root))
    return sorted(files), sorted(dirs), sorted(links)


def observe(g, res, root, reserved, thorough=False):
    """Build (I, W) for a configured project; runs meson test / install."""
    ob = Observation()
    src, bld = res['src'], res['bld']
    info = os.path.join(bld, 'meson-info')
    J = lambda k: json.load(open(os.path.join(info, 'intro-%s.json' % k)))
    targets, tests, benchmarks = J('targets'), J('tests'), J('benchmarks')
    buildopts, plan, installed, bsfiles = J('buildoptions'), J('install_plan'), J('installed'), J('buildsystem_files')
    ob.raw = {'targets': targets, 'tests': tests, 'benchmarks': benchmarks, 'install_plan': plan, 'installed': installed,
              'buildsystem_files': bsfiles}

    # ---- (a) targets vs build.ninja
    text = open(os.path.join(bld, 'build.ninja')).read()
    man, nitems, prereq = ninja_targets(text, bld, reserved)
    ob.W['targets'] = nitems
    for t in targets:
        srcs = []
        for s in t['target_sources']:
            srcs += [npath(x) for x in s.get('sources', [])] + [npath(x) for x in s.get('generated_sources', [])]
        if t['type'] in ('run', 'alias'):
            ob.I['targets'].append((['pseudo-target', t['name']], srcs))
        else:
            ob.I['targets'].append(([npath(f) for f in t['filename']], srcs))
    by_id = {t['id']: t for t in targets}

    # ---- fake build: every target output exists; test programs are recorders
    test_exes = set()
    for t in tests + benchmarks:
        if t['cmd']:
            test_exes.add(npath(t['cmd'][0]))
    for outs, _ in nitems:
        if outs[0] == 'pseudo-target':
            continue
        for o in outs:
            if os.path.exists(o):
                continue
            os.makedirs(os.path.dirname(o), exist_ok=True)
            with open(o, 'w') as f:
                f.write(REC_PY if o in test_exes else 'fake %s\n' % os.path.relpath(o, bld))
            if o in test_exes:
                os.chmod(o, 0o755)

    # ---- (b) tests
    rel = lambda p: os.path.relpath(p, bld)

    def intro_test_items(lst, prereq_name):
        items = []
        union = set()
        for t in lst:
            env = ['%s=%s' % kv for kv in t['env'].items()]
            items.append((['run'] + t['cmd'] + ['wd:' + npath(t['workdir'] or bld)], env))
            items.append((['suites-of', t['name']], t['suite']))
            deps = set()
            for d in t['depends']:
                for f in by_id.get(d, {'filename': ['?unknown-target-id:' + d]})['filename']:
                    deps.add(stmt_of(man, rel(f)) if not f.startswith('?') else f)
            union |= deps
        items.append((['prereq', prereq_name], sorted(union)))
        return items
    ob.I['tests'] = intro_test_items(tests, 'meson-test-prereq')
    ob.I['benchmarks'] = intro_test_items(benchmarks, 'meson-benchmark-prereq')
    pool = set(ENV_POOL)
    for t in tests + benchmarks:
        pool |= set(t['env'])

    def run_tests(kind):
        rec = os.path.join(root, 'rec-' + kind)
        os.makedirs(rec, exist_ok=True)
        lst = tests if kind == 'test' else benchmarks
        items = []
        if lst:
            r = run_meson(['test', '--no-rebuild', '-C', bld, '--num-processes', '4'] + (['--benchmark'] if kind == 'benchmark' else []),
                          cwd=root, env_extra={'C15_REC_DIR': rec})
            ob.notes.append('meson %s rc=%d' % (kind, r.returncode))
        for fn in sorted(os.listdir(rec)):
            o = json.load(open(os.path.join(rec, fn)))
            env = ['%s=%s' % (k, o['env'][k]) for k in sorted(pool) if k in o['env']]
            items.append((['run'] + o['argv'] + ['wd:' + npath(o['cwd'])], env))
        # suites as mtest prints them
        if lst:
            r = run_meson(['test', '--no-rebuild', '-C', bld, '--list'] + (['--benchmark'] if kind == 'benchmark' else []), cwd=root)
            for ss, prj, name in parse_list(r.stdout):
                items.append((['suites-of', name], [prj + ':' + x for x in ss] if ss else [prj]))
        items.append((['prereq', 'meson-%s-prereq' % kind], prereq.get('meson-%s-prereq' % kind, [])))
        return items
    ob.W['tests'] = run_tests('test')
    ob.W['benchmarks'] = run_tests('benchmark')

    # suite selection and per-test rebuild targets (tests only)
    sels = []
    allsuites = sorted({s for t in tests for s in t['suite']})
    if allsuites:
        s = g.rng.choice(allsuites)
        sels.append(s)
        if ':' in s:
            sels.append(':' + s.split(':', 1)[1])
            sels.append(s.split(':', 1)[1])
        sels = sels[:2] if not thorough else sels
    for sel in sels:
        r = run_meson(['test', '--no-rebuild', '-C', bld, '--list', '--suite', sel], cwd=root)
        names = [name for _, _, name in parse_list(r.stdout)]
        ob.W['tests'].append((['selected-by', sel], names))
        ob.I['tests'].append((['selected-by', sel], [t['name'] for t in tests if any(suite_matches(sel, x) for x in t['suite'])]))
    # (when the selection is every test, mtest asks for meson-test-prereq instead: mtest.py:1911-1916)
    cand = [t for t in tests if t['depends']] if len(tests) > 1 else []
    g.rng.shuffle(cand)
    names_count = {}
    for t in tests:
        names_count[t['name']] = names_count.get(t['name'], 0) + 1
    lognin = os.path.join(root, 'logninja')
    with open(lognin, 'w') as f:
        f.write(LOGNINJA)
    os.chmod(lognin, 0o755)
    for t in cand[:(3 if thorough else 1)]:
        if names_count[t['name']] != 1:
            continue
        log = os.path.join(root, 'ninja-%s.log' % t['name'])
        run_meson(['test', '-C', bld, t['name']], cwd=root, ninja=lognin,
                  env_extra={'C15_NINJA_LOG': log, 'C15_REC_DIR': ''})
        asked = []
        if os.path.exists(log):
            for grp in open(log).read().split('\n--\n'):
                words = grp.split('\n')
                if words[:1] == ['-C']:
                    asked = [w for w in words[2:] if w]
        deps = set()
        for d in t['depends']:
            for f in by_id.get(d, {'filename': ['?unknown-target-id:' + d]})['filename']:
                deps.add(rel(f) if not f.startswith('?') else f)
        ob.I['tests'].append((['rebuild-targets-of', t['name']], sorted(deps)))
        ob.W['tests'].append((['rebuild-targets-of', t['name']], asked))

    # ---- (d) options
    ob.I['opts'] = [(o['name'], canon_val(o['value'])) for o in buildopts]
    names = {o['name'] for o in buildopts}
    ob.pending_opts = (res['stdout'], names)

    def observed_opts(stdout, intro_names, prefix=''):
        for line in stdout.splitlines():
            m = re.search(r'Message: OPT ([^=]+)=(.*)$', line)
            if m:
                n, v = m.group(1), m.group(2)
                raw = n
                if n not in intro_names and ':' in n:
                    n = n.split(':', 1)[1]      # no `sub:name` entry: the subproject sees the global option
                ob.W['opts'].append((prefix + n, v))
                ob.opt_raw.append(prefix + raw)

    # ---- (c) install
    optmap = {o['name']: canon_val(o['value']) for o in buildopts}
    prefix = optmap['prefix']
    plan_keys = set()
    for sec, entries in plan.items():
        for key, e in entries.items():
            plan_keys.add(key)
            kind = 'D' if sec == 'install_subdirs' else 'F'
            r = resolve_placeholder(e['destination'], optmap)
            dest = os.path.join(prefix, r) if r is not None else '?unresolved:' + e['destination']
            ob.I['plan'].append((kind, dest, e['tag']))
            if key in installed:
                ob.I['plan'].append((kind, installed[key], None))
            else:
                ob.I['plan'].append((kind, '?plan-key-not-in-installed:' + key, None))
    for key, dest in installed.items():
        if key not in plan_keys:
            ob.I['plan'].append(('L' if not os.path.isabs(key) else 'F', dest, None))
    tags = sorted({e['tag'] for entries in plan.values() for e in entries.values() if e['tag']})
    runs = [[]]
    if tags:
        runs.append([g.rng.choice(tags)])
        if thorough and len(tags) > 1:
            runs.append(g.rng.sample(tags, 2))
    for i, sel in enumerate(runs):
        dest = os.path.join(root, 'dest%d' % i)
        r = run_meson(['install', '--no-rebuild', '-C', bld, '--destdir', dest] + (['--tags', ','.join(sel)] if sel else []), cwd=root)
        ob.notes.append('meson install %s rc=%d' % (sel, r.returncode))
        if r.returncode != 0:
            ob.notes.append(r.stdout[-600:] + r.stderr[-600:])
        files, dirs, links = walk_tree(dest) if os.path.isdir(dest) else ([], [], [])
        ob.W['runs'].append({'tags': sel, 'files': files, 'dirs': dirs, 'links': links if not sel else []})

    observed_opts(*ob.pending_opts)
    # ---- (e) build-definition files
    ob.I['files'] = [os.path.relpath(f, src) if os.path.isabs(f) else f for f in bsfiles]
    ob.W['files'] = sorted(opened_files(res['strace'], src)) if res.get('strace') else sorted(g.expected_def_files)

    # ---- (d') options again after `meson configure` (writes intro-buildoptions.json on its own) and what get_option()
    # returns at the next reconfiguration; last, because it rewrites the build directory
    if getattr(g, 'configure_args', None) and getattr(g, 'do_configure', False):
        r = run_meson(['configure', bld] + g.configure_args, cwd=root)
        ob.notes.append('meson configure rc=%d' % r.returncode)
        if r.returncode == 0:
            bo2 = J('buildoptions')
            r2 = run_meson(['setup', '--reconfigure', src, bld], cwd=root)
            ob.notes.append('meson setup --reconfigure rc=%d' % r2.returncode)
            if r2.returncode == 0:
                ob.I['opts'] += [('cfg/' + o['name'], canon_val(o['value'])) for o in bo2]
                observed_opts(r2.stdout, {o['name'] for o in bo2}, 'cfg/')
                bo3 = J('buildoptions')       # and the file the reconfiguration itself wrote
                ob.I['opts'] += [('recfg/' + o['name'], canon_val(o['value'])) for o in bo3]
                observed_opts(r2.stdout, {o['name'] for o in bo3}, 'recfg/')
            else:
                ob.notes.append((r2.stdout + r2.stderr)[-500:])
        else:
            ob.notes.append((r.stdout + r.stderr)[-500:])
    return ob


# ---------------------------------------------------------------------------- explanation (first disagreeing field)
def comps(p):
    return [c for c in p.split('/') if c not in ('', '.')]


def explain(ob, bits):
    """For each false clause, the first disagreeing field (for the replay / message)."""
    out = []
    names = ['targets', 'tests', 'benchmarks', 'opts', 'install', 'files']
    from collections import Counter
    for i, nm in enumerate(names[:3]):
        if bits[i] == 'T':
            continue
        a = Counter((tuple(o), frozenset(u)) for o, u in ob.I[nm])
        b = Counter((tuple(o), frozenset(u)) for o, u in ob.W[nm])
        only_i = list((a - b).elements())
        only_w = list((b - a).elements())
        out.append({'clause': nm, 'only_in_intro': [[list(o), sorted(u)] for o, u in only_i[:4]],
                    'only_in_world': [[list(o), sorted(u)] for o, u in only_w[:4]]})
    if bits[3] != 'T':
        im = {}
        for n, v in ob.I['opts']:
            im.setdefault(n, []).append(v)
        raw = ob.opt_raw if len(ob.opt_raw) == len(ob.W['opts']) else [n for n, _ in ob.W['opts']]
        bad = [{'get_option': r, 'returned': v, 'intro_entry': n, 'intro_values': im.get(n)}
               for (n, v), r in zip(ob.W['opts'], raw) if im.get(n) != [v]]
        out.append({'clause': 'opts', 'get_option_vs_intro': bad[:6]})
    if bits[4] != 'T':
        for r in ob.W['runs']:
            sel = r['tags']
            chosen = [e for e in ob.I['plan'] if not sel or (e[2] is not None and e[2] in sel)]
            obs = {'F': [comps(x) for x in r['files']], 'D': [comps(x) for x in r['dirs']], 'L': [comps(x) for x in r['links']]}
            missing = [e for e in chosen if comps(e[1]) not in obs[e[0]]]
            unacc = []
            for k in 'FL':
                for x, raw in zip(obs[k], r['files'] if k == 'F' else r['links']):
                    if not any(e[0] == k and comps(e[1]) == x for e in chosen) and \
                            not any(e[0] == 'D' and x[:len(comps(e[1]))] == comps(e[1]) for e in chosen):
                        unacc.append(raw)
            if missing or unacc:
                out.append({'clause': 'install', 'tags': sel, 'named_but_not_installed': [list(e) for e in missing[:6]],
                            'installed_but_not_named': unacc[:6]})
    if bits[5] != 'T':
        a, b = ob.I['files'], ob.W['files']
        out.append({'clause': 'files', 'listed_but_not_read': sorted(set(a) - set(b))[:6], 'read_but_not_listed': sorted(set(b) - set(a))[:6],
                    'duplicates': sorted({x for x in a if a.count(x) > 1})[:6]})
    return out
