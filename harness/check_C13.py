"""C13 — compiler argument lists honour the append/override/dedup contract.
Theorems: coq/Props/C13.v.  Model: coq/Arglist/{Model,Tables,Ops}.v, spec: coq/Arglist/Eager.v.
Implementation: mesonbuild/arglist.py (CompilerArgs), mesonbuild/compilers/mixins/clike.py
(CLikeCompilerArgs), compilers/d.py (DCompilerArgs tables); CLI glue: backend/backends.py
generate_basic_compiler_args, backend/ninjabackend.py _generate_single_compile_target_args."""
import itertools, json, os, re, shutil
from common import *

S1, S2 = '\x01', '\x02'


def rl(l):
    return ''.join(S2 + a for a in l)


def pl(s):
    return s.split(S2)[1:]


# ------------------------------------------------------------------ alphabets
DD_ROOT = '/mvx'          # must not exist: realpath is modelled for non-existent components
ALPHA_C = [
    # bare prefixes (NO_DEDUP), prepend/override, append/override
    '-I', '-L', '-D', '-U', '-isystem',
    '-Ia', '-Ib', '-I.', '-I/abs/inc', '-La', '-Lb', '-L/x/libz.a',
    '-DA', '-DB', '-DA=1', '-UA', '-isystema', '-isystem/mvx/inc', '-isystem=/mvx/sys',
    # once-only
    '-la', '-lb', '-lm', '-lpthread', '-l', '-Wl,-la', '-Wl,-l', '-Wl,-rpath,/x', '-Wl,-rpath-link,/y', '-Wl,-rpath,',
    '-c', '-S', '-E', '-pipe', '-pthread', '-Wl,--export-dynamic',
    'foo.a', 'libfoo.so', 'libbar.so.1', 'libbar.so.1.2.3', 'x/libq.so.1.2.3.4', 'notlib.so.1', 'a.lib', 'b.dll',
    'c.dylib', '/abs/libz.a', '/abs/libz.so', '/abs/plain', '/abs/dir/', '/abs/libv.so.12.3',
    # never de-duplicated
    '-O2', '-O3', '-Wall', '-g', 'foo', 'inc', '', '-Wl,--start-group', '-Wl,--end-group', '-Wl,foo.so.1', '-Wl,-lfoo',
    '-include', 'x.h', '-D', 'A', '-Dé', 'lib€.so', '.a', '.so', 'lib.so', 'lib.so.', 'lib.so.1.',
    'liblib.so.0', 'x\\libw.so.2', 'xlib.so.1', '-isystem=', '-isystem=/..', '-isystemmvx/inc', '/mvx/inc',
    '-isystem/mvx/./inc/', '-isystem/mvx/a/../inc', '-iquote', '-i', '-', '-Lib.so.3', '-Ufoo.a',
]
DDIRS = [[], [], ['/mvx/inc'], ['/mvx/inc', '/mvx/sys'], ['/'], ['/mvx/sys/', '/mvx//inc/.']]

FRAG_PRE = ['-I', '-L', '-D', '-U', '-isystem', '-isystem=', '-l', '-Wl,-l', '-Wl,-rpath,', '-Wl,-rpath-link,', '-Wl,', '',
            '/', 'lib', 'x/lib', 'x\\lib', '/a/lib', '-', '-i', '-W']
FRAG_MID = ['', 'a', 'b', 'foo', 'lib', '/', '.', '..', 'é', '1', 'so', 'A=1', 'mvx/inc', '/mvx/inc']
FRAG_SUF = ['', '.a', '.so', '.so.1', '.so.1.2', '.so.1.2.3', '.so.1.2.3.4', '.so.', '.so.a', '.lib', '.dll', '.dylib',
            '.so.12.345', '.o', '.A', '.so.1.', 'so', '.so.-1', '.so..1']


def gen_arg(rng, live):
    """a structured random argument (never contains \\n, \\0 or the separators)"""
    k = rng.random()
    if k < 0.25 and live:
        t = rng.choice(live)
        k2 = rng.random()
        return t if k2 < 0.3 else (t + rng.choice(FRAG_MID) if k2 < 0.65 else rng.choice(FRAG_MID) + t)
    return rng.choice(FRAG_PRE) + rng.choice(FRAG_MID) + rng.choice(FRAG_SUF)


def gen_batch(rng, pool, maxn=4):
    n = rng.choice([0, 1, 1, 1, 2, 2, 2, 3, 3, 4][:maxn * 2 + 2])
    return [rng.choice(pool) for _ in range(n)]


def gen_index(rng):
    return rng.choice([0, 0, 1, 1, 2, 3, 5, -1, -1, -2, -3, -7, 9])


def gen_op(rng, pool, cls):
    k = rng.random() * 100
    b = lambda n=4: rl(gen_batch(rng, pool, n))
    a = lambda: rng.choice(pool)
    if k < 34: return '+' + b()
    if k < 38: return 'e' + b()
    if k < 46: return 'a' + a()
    if k < 54: return 'i'
    if k < 57: return 'g%d' % gen_index(rng)
    if k < 59: return 's%d' % gen_index(rng) + S1 + a()
    if k < 61: return 'd%d' % gen_index(rng)
    if k < 65: return 'n%d' % gen_index(rng) + S1 + a()
    if k < 68: return 'c'
    if k < 69: return 'C'
    if k < 72: return 'l'
    if k < 76: return 'D' + a()
    if k < 80: return 'X' + b(3)
    if k < 83: return 'P' + b()
    if k < 85: return 'A' + b()
    if k < 87: return 'R' + b()
    if k < 89: return 'q' + b()
    if k < 91: return 'Q' + b(2) + S1 + b(3)
    if k < 92.5: return 't'
    if k < 95.5: return 'T'
    if k < 97.5: return 'm' + a()
    if k < 99: return 'v' + a()
    return 'z'


def gen_seq(rng, alpha, live_extra, maxlen):
    cls = rng.choice('CCCCCCBD')
    base = alpha if rng.random() < 0.9 else alpha + live_extra
    pool = [rng.choice(base) for _ in range(rng.choice([3, 4, 5, 6, 8, 12]))]
    if rng.random() < 0.15:
        pool.append(gen_arg(rng, live_extra))
    flags = rng.choice('G-')
    dd = rng.choice(DDIRS)
    if dd and rng.random() < 0.7:
        pool += [rng.choice(['-isystem/mvx/inc', '-isystem=/mvx/sys', '-isystem', '/mvx/inc', '-isystem/mvx/./inc/',
                             '-isystemmvx/inc', '-isystem=', '-isystem=/..', '/mvx/sys']) for _ in range(2)]
    if flags == 'G' and rng.random() < 0.5:
        pool += [rng.choice(['-la', 'foo.a', 'libbar.so.1', '-Wl,-la', 'notlib.so.1', '-Wl,foo.so.1']) for _ in range(2)]
    init = gen_batch(rng, pool, 3) if rng.random() < 0.5 else []
    n = rng.randint(1, maxlen)
    ops = [gen_op(rng, pool, cls) for _ in range(n)]
    return ('seq', [cls, flags, rl(dd), rl(init)] + ops)


def exhaustive(opset, maxlen, cls='C', flags='-', dd=(), init=()):
    out = []
    for n in range(1, maxlen + 1):
        for t in itertools.product(opset, repeat=n):
            out.append(('seq', [cls, flags, rl(list(dd)), rl(list(init))] + list(t)))
    return out


def iadd_ops(alpha, maxb):
    out = []
    for n in range(0, maxb + 1):
        for t in itertools.product(alpha, repeat=n):
            out.append('+' + rl(list(t)))
    return out


CORPUS = [
    # docstring examples of the class
    ('seq', ['C', '-', '', rl(['-Lfoo', '-lbar']), '+' + rl(['-Lpho', '-lbaz'])]),
    ('seq', ['C', '-', '', rl(['-Ifoo', '-Ibar']), 'A' + rl(['-Ifez', '-Ibaz', '-Werror'])]),
    ('seq', ['C', '-', '', rl(['-Ifez', '-Ibaz', '-Werror']), 'A' + rl(['-Ifoo', '-Ibar'])]),
    # upstream internaltests (not importable from the pinned suite)
    ('seq', ['C', '-', '', rl(['-I.']), 'a-I..', 'a-I./tests/', 'a-I./tests2/', 'a-I.', '+' + rl(['-I.', '-I./tests/']),
             'q' + rl(['-I.', '-I./tests/', '-I./tests2/', '-I..']), '+' + rl(['-I.', '-I./tests2/'])]),
    ('seq', ['D', '-', '', rl(['-Ifirst', '-Isecond', '-Ithird']), '+' + rl(['-Ifirst'])]),
    ('seq', ['C', '-', '', rl(['-I.', '-I..']), 'a-I..', 'a-O3', '+' + rl(['-O2', '-O2']), 'i']),
    ('seq', ['C', 'G', rl(['/usr/include']), rl(['-Lfoodir', '-lfoo']), 'T', 'X' + rl(['-Lbardir', '-lbar']), 'T', 'D-lbar', 'T',
             'D/libbaz.a', 'T', 'D/libbaz.a', 'T', '+' + rl(['-Lfoo', '-Wl,--export-dynamic']), 'T', 'a-Wl,-ldl', 'T']),
    ('seq', ['C', 'G', rl(['/mvx/inc', '/mvx/sys', '/mvx/local']), rl(['-Lfoodir', '-lfoo']),
             '+' + rl(['-isystem/mvx/inc', '-isystem=/mvx/sys', '-DSOMETHING_IMPORTANT=1', '-isystem', '/mvx/local']), 'T']),
    # a bare prefix and its operand; pending reads; comparison with a pending operand
    ('seq', ['C', '-', '', rl(['foo']), '+' + rl(['-I', 'inc'])]),
    ('seq', ['C', '-', '', rl(['-DA']), '+' + rl(['-L', 'libdir', '-I', 'inc']), 'i']),
    ('seq', ['C', '-', '', '', '+' + rl(['-Ia', '-Ia', '-DX', '-DX']), 'l']),
    ('seq', ['C', '-', '', '', '+' + rl(['-Ia', '-Ia', '-DX', '-DX']), 'z']),
    ('seq', ['C', '-', '', rl(['-Ia']), 'Q' + S1 + rl(['-Ia'])]),
    ('seq', ['C', '-', '', '', 'Q' + S1 + rl(['-Ia'])]),
    # to_native twice without copy nests the groups; literal markers in the input
    ('seq', ['C', 'G', '', rl(['-la', '-lb']), 't', 't']),
    ('seq', ['C', 'G', '', rl(['-Wl,--start-group', '-la', 'x', 'foo.a']), 'T', '+' + rl(['-lb']), 'T']),
    # -isystem= whose own text is a path below a default dir; duplicate removal index
    ('seq', ['C', '-', rl(['/']), rl(['-isystem', '-isystem=/..', 'x', 'y']), 'T', 't']),
    ('seq', ['C', '-', rl(['/']), rl(['x', '-isystem', '-isystem=/..']), 'T']),
    ('seq', ['C', '-', rl(['/mvx/inc']), rl(['-isystem']), 'T']),
    # once-only prepend argument (D tables): not looked up within its own batch
    ('seq', ['D', '-', '', '', '+' + rl(['-L/x/libfoo.a', '-L/x/libfoo.a']), 'i', '+' + rl(['-L/x/libfoo.a'])]),
    ('seq', ['B', '-', '', rl(['a.so', 'b']), '+' + rl(['a.so', 'b', 'liby.so.1', 'liby.so.1'])]),
    # override in the container that pre/post do not touch; insert between pending adds
    ('seq', ['C', '-', '', rl(['-DA', '-DA', '-Ia', '-Ia']), '+' + rl(['-DB']), 'i', '+' + rl(['-DA']), 'i']),
    ('seq', ['C', '-', '', '', '+' + rl(['-Ia']), 'n0' + S1 + '-Ia', '+' + rl(['-Ib', '-Ia']), 'g0', 'g-1', 'g5', 'd7', 's0' + S1 + 'q']),
    ('seq', ['C', '-', '', rl(['-la']), 'X' + rl(['/abs/libz.a', 'rel', '/abs/libz.a']), 'P' + rl(['-lm', '-lq', '-Lz', '-DA', '-lq'])]),
    ('seq', ['C', '-', '', rl(['-DA']), 'R' + rl(['-DA', '-Ia', '-lx']), 'c', '+' + rl(['-DA']), 'C', 'v-DA', 'v-DA', 'm-Ia']),
]


def live_tables(ctx):
    """the class attributes of the tree under test, per class"""
    res = run_impl('c13.py', {'cases': [['tables', [c]] for c in 'CBD']})['results']
    out = {}
    for c, r in zip('CBD', res):
        out[c] = None if r.startswith('EXC:') else [pl(f) for f in r.split(S1)]
    return out, res


def replay(ctx):
    rec = json.load(open(ctx.replay))
    r = rec['replay']
    print('replaying', json.dumps(r))
    built = ctx.build('Props/C13.v', 'Arglist/Extract.v', 'C13')
    if 'case' in r:
        fn, args = r['case']
        res = run_impl('c13.py', {'cases': [[fn, args], ['eseq', args]]})['results']
        print('implementation            :', repr(res[0]))
        print('eager meaning (oracle)    :', repr(res[1]))
        if built:
            m = ctx.run_model([(fn, args), ('eseq', args)])
            print('model (Coq, lazy)         :', repr(m[0]))
            print('spec  (Coq, eager)        :', repr(m[1]))
    if 'step' in r:
        res = run_impl('c13.py', {'oracle_step': [r['step']]})
        print('property clauses failing on the implementation:', json.dumps(res['oracle_step'], indent=1))
    return 0


def run(ctx):
    if ctx.replay:
        return replay(ctx)
    rng = ctx.rng
    thorough = ctx.tier == 'thorough'
    if os.path.lexists(DD_ROOT):
        raise HarnessError('%s exists: the default-include-dir cases assume it does not' % DD_ROOT)
    built = ctx.build('Props/C13.v', 'Arglist/Extract.v', 'C13')

    if thorough and built:
        # independent re-check of the compiled closure of the property file
        import subprocess
        r = subprocess.run(['timeout', '900', 'coqchk', '-silent', '-o', '-Q', COQ, 'MV', 'MV.Props.C13'], capture_output=True, text=True)
        out = r.stdout + r.stderr
        m = re.search(r'\* Axioms:\s*(.*?)\n\s*\n', out, re.S)
        ctx.extra['coqchk'] = {'returncode': r.returncode, 'axioms': (m.group(1).strip() if m else '?')}
        if r.returncode != 0 or not m or m.group(1).strip() != '<none>':
            ctx.broken.append({'obligation': 'coqchk MV.Props.C13', 'detail': out[-1500:]})

    # ---- tables of the tree under test (they also seed the alphabet, so a new row is exercised)
    live, live_raw = live_tables(ctx)
    live_extra = sorted({e for t in live.values() if t for f in t for e in f})
    cases = [('tables', [c]) for c in 'CBD']

    # ---- classification of single arguments (tables + regexes)
    cls_args = list(dict.fromkeys(ALPHA_C + live_extra
                                  + [e + m for e in live_extra for m in ('a', '/x', '=1')]
                                  + [m + e for e in live_extra for m in ('a', 'x/lib')]
                                  + [p + m + s for p in FRAG_PRE for m in FRAG_MID[:8] for s in FRAG_SUF]))
    for _ in range(20000 if thorough else 3000):
        cls_args.append(gen_arg(rng, live_extra))
    cls_cases = [('cls', [c, a]) for a in cls_args for c in 'CBD']
    rp_args = list(dict.fromkeys(['', '/', '.', '..', 'a', '/a/b', '/a/../b', 'a/./b/', '//a', '///a//b', '/..', '../x', 'a/..', '/mvx/inc/']
                                 + ['/'.join(rng.choice(['', '.', '..', 'mvx', 'inc', 'é', 'q.r', '...']) for _ in range(rng.randint(1, 5)))
                                    for _ in range(1500 if thorough else 300)]))
    rp_args = [a for a in rp_args if not a.startswith('//') or a.startswith('///')]   # POSIX '//' root is implementation-defined
    rp_cases = [('realpath', [a]) for a in rp_args]

    # ---- sequences: corpus, random, exhaustive small scopes
    seqs = list(CORPUS)
    nrand = 120000 if thorough else 14000
    for _ in range(nrand):
        seqs.append(gen_seq(rng, ALPHA_C, live_extra, 25 if rng.random() < 0.3 else 10))
    small = ['-Ia', '-DA', '-la', 'x', '-I']
    reads = ['i', 'l', 'c', 'n0' + S1 + '-Ia', 'X' + rl(['-DA', '/lib.a']), 'Q' + S1 + rl(['-Ia', 'x'])]
    if thorough:
        ex = exhaustive(iadd_ops(small + ['-Ib', '-UA', 'foo.a', '-L', '-isystemq'], 2) + reads + ['z', 'T', 'D/lib.a', 'P' + rl(['-la', '-Lq'])], 3)
        ex += exhaustive(iadd_ops(small, 1) + iadd_ops(['-Ia', '-DA'], 2)[3:] + reads + ['z', 'A' + rl(['-DA']), 'R' + rl(['-Ia', 'x'])], 4)
        ex += exhaustive(iadd_ops(['-Ia', '-DA', '-la'], 1) + [ '+' + rl(['-Ia', '-Ia']), '+' + rl(['-DA', '-Ia']), 'i', 'l', 'c',
                                                               'n0' + S1 + '-DA', 'Q' + S1 + rl(['-DA'])], 5, flags='G')
    else:
        ex = exhaustive(iadd_ops(small, 2) + reads, 3)
    ctx.extra['exhaustive'] = True
    ctx.extra['exhaustive_scope'] = ('all operation sequences up to the stated length over the stated operation sets '
                                     '(see harness/check_C13.py run()): %d sequences' % len(ex))
    seqs += ex
    eseqs = [('eseq', a) for (_, a) in seqs[:len(CORPUS) + nrand]]

    cases += cls_cases + rp_cases + seqs + eseqs
    # ---- implementation (sharded) and model
    CH = max(5000, (len(cases) + NPROC - 1) // NPROC)
    chunks = [cases[i:i + CH] for i in range(0, len(cases), CH)]
    impl = []
    for part in pmap(lambda ch: run_impl('c13.py', {'cases': ch})['results'], chunks):
        impl += part
    model = ctx.run_model(cases, shards=NPROC) if built else impl
    dist = {}
    for (fn, args), ri, rm in zip(cases, impl, model):
        key = (fn, tuple(args))
        ctx.count(key, nontrivial=True)
        dist[fn] = dist.get(fn, 0) + 1
        if fn == 'tables' and ri != rm and not ri.startswith('EXC:'):
            # order inside a table is not behaviour
            if [sorted(pl(f)) for f in ri.split(S1)] == [sorted(pl(f)) for f in rm.split(S1)]:
                continue
        if ri != rm:
            if len(ctx.disagreements) < 200:
                ctx.disagreements.append({'case': [fn, args], 'implementation': ri, 'model': rm})
    ctx.cov['traces_validated_against_impl'] = len(cases)
    oplen = {}
    for _, a in seqs:
        n = len(a) - 4
        oplen[n] = oplen.get(n, 0) + 1
    ctx.extra['input_distribution'] = {'by_function': dist, 'sequence_lengths': dict(sorted(oplen.items())),
                                       'classes': 'C (CLike) 75%, B (base) 12%, D 12% of random sequences',
                                       'alphabet_size': len(ALPHA_C), 'classified_arguments': len(cls_args),
                                       'error_classes': ['IndexError', 'ValueError']}
    for s in [seqs[0], seqs[8], seqs[len(CORPUS) + 3], seqs[len(CORPUS) + 11], seqs[-1], cls_cases[7], rp_cases[5]]:
        ctx.sample({'fn': s[0], 'args': s[1]})
    if built:
        o_cls, o_rp = 3, 3 + len(cls_cases)
        o_seq = o_rp + len(rp_cases)
        o_eseq = o_seq + len(seqs)
        kidx = (list(range(0, 3)) + list(range(o_cls, o_cls + min(2000, len(cls_cases)))) + list(range(o_rp, o_rp + min(200, len(rp_cases))))
                + list(range(o_seq, o_seq + len(CORPUS) + min(3000, nrand))) + list(range(o_seq + len(CORPUS) + nrand, min(o_eseq, o_seq + len(CORPUS) + nrand + 800)))
                + list(range(o_eseq, o_eseq + min(800, len(eseqs)))))
        ctx.kernel_crosscheck('Arglist.Entry', [cases[i] for i in kidx], [model[i] for i in kidx], limit=300)

    # ---- oracle: the property's clauses on the implementation's own answers
    oseqs = [a for (_, a) in seqs]
    extra = []
    for d in ctx.disagreements[:60]:            # neighbourhood of every disagreeing case
        if d['case'][0] in ('seq', 'eseq'):
            extra.append(d['case'][1])
    OCH = max(5000, (len(oseqs) + NPROC - 1) // NPROC)
    ochunks = [extra] + [oseqs[i:i + OCH] for i in range(0, len(oseqs), OCH)]
    ofail, ototal = [], 0
    for res in pmap(lambda ch: run_impl('c13.py', {'oracle_seq': ch, 'shrink_max': 6})['oracle_seq'] if ch else {'failing': 0, 'shrunk': []}, ochunks):
        ototal += res['failing']
        ofail += res['shrunk']
    steps = []
    pool_s = ALPHA_C + live_extra
    for _ in range(60000 if thorough else 8000):
        c = rng.choice('CCCCCBD')
        pool = [rng.choice(pool_s) for _ in range(rng.choice([2, 3, 4, 6, 9]))]
        steps.append([c, gen_batch(rng, pool, 4), gen_batch(rng, pool, 4)])
    for c in 'CBD':                              # exhaustive: lists and batches of <= 2 over the small alphabet
        sm = ['-Ia', '-DA', '-la', 'x', '-I', '-L', '-isystem'] + live_extra[:0]
        lists = [list(t) for n in range(3) for t in itertools.product(sm, repeat=n)]
        steps += [[c, l, b] for l in lists for b in lists]
    for d in ctx.disagreements[:60]:
        if d['case'][0] == 'cls':
            a = d['case'][1][1]
            steps += [['C', ['x'], [a, 'y']], ['C', [a, 'x'], [a]], ['C', ['x', a], ['y', a, a]]]
    SCH = max(5000, (len(steps) + NPROC - 1) // NPROC)
    sfail, stotal = [], 0
    for res in pmap(lambda ch: run_impl('c13.py', {'oracle_step': ch, 'shrink_max': 12})['oracle_step'],
                    [steps[i:i + SCH] for i in range(0, len(steps), SCH)]):
        stotal += res['failing']
        sfail += res['shrunk']
    ctx.cov['evaluations'] += len(oseqs) + len(steps)
    ctx.extra['oracle'] = {'sequences_checked_against_eager_meaning': len(oseqs) + len(extra), 'sequences_failing': ototal,
                           'single_step_clause_checks': len(steps), 'clause_failures': stotal}
    # one representative (the shortest) per kind of failure first, so that the replays written out
    # show every distinct defect; then the others
    OPNAME = {'l': 'len', 'z': 'reversed', 'Q': 'eq_other_pending', 'q': 'eq_list', 'i': 'iter', 'g': 'getitem', 't': 'to_native',
              'T': 'to_native_copy', 'm': 'contains', 'v': 'remove', 'd': 'delitem', 's': 'setitem'}
    found = []
    for f in ofail:
        ops = f['case'][1][4:]
        exp, got = f['eager_meaning'], f['implementation']
        k = next((i for i in range(min(len(exp), len(got))) if exp[i] != got[i]), min(len(exp), len(got)))
        kind = OPNAME.get(ops[k][0], 'op_' + ops[k][0]) if k < len(ops) else ('final_list' if got[:1] != ['EXC'] and len(got) == len(exp) else 'exception_or_alias')
        ident = 'C13:lazy_vs_eager:%s:%s' % (kind, json.dumps(f['case'][1]))
        found.append((kind, len(ident), ident,
                      'the implementation differs from the eager meaning (%s) on the operation sequence %s: expected %s, got %s'
                      % (kind, json.dumps(f['case'][1]), json.dumps(exp), json.dumps(got)),
                      {'case': f['case'], 'eager_meaning': exp, 'implementation': got, 'original': f['original']}))
    for f in sfail:
        ident = 'C13:%s:%s' % (f['kind'], json.dumps([f['cls'], f['list'], f['batch']]))
        found.append((f['kind'], len(ident), ident,
                      'property clause %s fails on the implementation: %s(cc, %s) += %s gives %s'
                      % (f['kind'], {'C': 'CLikeCompilerArgs', 'B': 'CompilerArgs', 'D': 'DCompilerArgs'}[f['cls']],
                         json.dumps(f['list']), json.dumps(f['batch']), json.dumps(f['implementation'])),
                      {'step': [f['cls'], f['list'], f['batch']], 'failure': f}))
    found.sort(key=lambda t: (t[1], t[2]))
    first, rest, kinds = [], [], set()
    for t in found:
        (rest if t[0] in kinds else first).append(t)
        kinds.add(t[0])
    seen = set()
    for kind, _, ident, what, rep in first + rest:
        if ident not in seen:
            seen.add(ident)
            ctx.violation(ident, what, rep)
    ctx.extra['oracle']['failure_kinds'] = sorted(kinds)

    cli_glue(ctx, thorough, built)

    return ctx.finish(
        level='proof',
        trusted=['Coq 8.16.1 kernel (coqc, vm_compute; no native_compute)',
                 'extraction with ExtrOcamlBasic directives only + OCaml + extract/driver.ml (cross-checked in-kernel on a sample each run)',
                 'harness/check_C13.py generators and harness/impl/c13.py adapter/canonicaliser/oracle',
                 'model covers arglist.py (whole class; int indices only) and clike.py:47-123; not modelled: slices, lru_cache, '
                 'compiler.unix_args_to_native (identity for GCC), Windows isabs, os.path.realpath beyond lexical normalisation '
                 '(non-existent components, cwd=/), arguments containing newline/NUL, repr'],
        assumptions=['Print Assumptions: all property theorems closed under the global context (no axioms)',
                     'generated arguments contain no newline (regex . and $), no NUL and no code point below 5'],
        rule='seeded generator of operation sequences (+=, extend, append, insert, set/del/get item, copy, re-init, len, append_direct, '
             'extend_direct, extend_preserving_lflags, +, reversed +, ==, in, remove, reversed, to_native with/without copy, list()) over an '
             'alphabet of argument kinds covering every table row and both regexes, for the three table sets (CLike, base, D), GNU-like '
             'linker or not, five default-include-dir settings; corpus first, then random sequences, then every sequence of a small scope; '
             'each case is run through the implementation, the extracted lazy Coq model and (random part) the extracted eager spec; '
             'distinct = distinct (function,arguments) tuples; every case runs the classifier and at least one operation')


# ------------------------------------------------------------------ CLI glue
# Generated projects: the ARGS of the compile statement in build.ninja are compared with the
# Coq model of the backend's increment order (Arglist/Backend.v, entry points bk / ebk) and
# checked against the property clauses directly.
HOSTILE = ['-D_FILE_OFFSET_BITS=64', '-Wall', '-g', '-fPIC', '-O0', '-Winvalid-pch', '-U_FILE_OFFSET_BITS', '-DNDEBUG', '-pipe', '-pthread']
DEFS = ['-DA', '-DB', '-DA=1', '-UA', '-DC=2', '-UB']
KINDS = {'executable': ('e', '%s.p'), 'static_library': ('s', 'lib%s.a.p'), 'shared_library': ('s', 'lib%s.so.p')}


def ml(l):
    return '[' + ', '.join("'" + a + "'" for a in l) + ']'


def inc_expr(o):
    return 'include_directories(%s%s)' % (', '.join("'" + d + "'" for d in o['dirs']), ', is_system: true' if o['system'] else '')


def write_project(d, spec):
    src = os.path.join(d, 'src')
    os.makedirs(os.path.join(src, 'sub'))
    for n in ('i1', 'i2', 'i3', 'i4'):
        os.makedirs(os.path.join(src, n), exist_ok=True)
    name = KINDS[spec['kind']][0]
    lines = ["project('p', 'c')"]
    if spec['glob']:
        lines.append("add_global_arguments(%s, language: 'c')" % ml(spec['glob']))
    for chunk in spec['proj']:
        lines.append("add_project_arguments(%s, language: 'c')" % ml(chunk))
    for k, o in enumerate(spec['tincs']):
        lines.append('inc%d = %s' % (k, inc_expr(o)))
    for k, dp in enumerate(spec['deps']):
        lines.append('dep%d = declare_dependency(compile_args: %s%s)' % (
            k, ml(dp['args']), (', include_directories: ' + inc_expr(dp['inc'])) if dp['inc'] else ''))
    # generated sources: outputs of custom targets living in other directories (gen, gen2) or in the
    # target's own directory (same), and of a generator (its output goes to the target's private dir)
    ct = spec.get('ct', [])
    ctdef = lambda var, out: "%s = custom_target('%s', input: '%s.in', output: '%s', command: ['cp', '@INPUT@', '@OUTPUT@'])" % (var, var, out, out)
    for g in ('gen', 'gen2'):
        if g in ct:
            os.makedirs(os.path.join(src, g))
            open(os.path.join(src, g, 'c%s.h.in' % g), 'w').write('#define X_%s 1\n' % g)
            open(os.path.join(src, g, 'meson.build'), 'w').write(ctdef('ct_' + g, 'c%s.h' % g) + '\n')
            lines.append("subdir('%s')" % g)
    here = []
    tdir = os.path.join(src, 'sub') if spec['subdir'] else src
    if 'same' in ct:
        open(os.path.join(tdir, 'csame.h.in'), 'w').write('#define X_same 1\n')
        here.append(ctdef('ct_same', 'csame.h'))
    if spec.get('generator'):
        open(os.path.join(tdir, 'g.h.in'), 'w').write('#define X_g 1\n')
        here.append("gen_h = generator(find_program('cp'), output: '@BASENAME@', arguments: ['@INPUT@', '@OUTPUT@']).process('g.h.in')")
    gsrc = ''.join(', ct_' + c for c in ct) + (', gen_h' if spec.get('generator') else '')
    tgt = "%s('%s', 'main.c'%s, c_args: %s, include_directories: [%s], dependencies: [%s]%s)" % (
        spec['kind'], name, gsrc, ml(spec['targs']), ', '.join('inc%d' % k for k in range(len(spec['tincs']))),
        ', '.join('dep%d' % k for k in range(len(spec['deps']))),
        '' if spec['implicit'] else ', implicit_include_directories: false')
    body = 'int f(void) { return 0; }\n' if spec['kind'] != 'executable' else 'int main(void) { return 0; }\n'
    if spec['subdir']:
        lines.append("subdir('sub')")
        open(os.path.join(src, 'sub', 'meson.build'), 'w').write('\n'.join(here + [tgt]) + '\n')
        open(os.path.join(src, 'sub', 'main.c'), 'w').write(body)
    else:
        lines += here + [tgt]
        open(os.path.join(src, 'main.c'), 'w').write(body)
    open(os.path.join(src, 'meson.build'), 'w').write('\n'.join(lines) + '\n')
    return src


def cli_one(job):
    """configure one generated project and return the ARGS of its compile statement"""
    d, spec = job
    src = write_project(d, spec)
    opt = ['-Dc_args=' + ' '.join(spec['optargs'])] if spec['optargs'] else []
    r = meson_cli(['setup'] + opt + [os.path.join(d, 'build'), src], timeout=240)
    if r.returncode != 0:
        return {'error': (r.stdout + r.stderr)[-800:]}
    txt = open(os.path.join(d, 'build', 'build.ninja'), encoding='utf-8').read()
    m = re.search(r'^build [^\n]*main\.c\.o: c_COMPILER [^\n]*\n((?: [^\n]*\n)+)', txt, re.M)
    if not m:
        return {'error': 'no compile statement'}
    a = re.search(r'^ ARGS = (.*)$', m.group(1), re.M)
    return {'args': a.group(1).split(' ') if a else []}


def inc_args(o):
    """(sargs, bargs) of every directory of one include object, as ninjabackend.generate_inc_dir spells them"""
    flag = '-isystem' if o['system'] else '-I'
    out = []
    for dname in o['dirs']:
        s = [flag + ('../src' if dname == '.' else '../src/' + dname)]
        b = [flag + '.'] if dname == '.' else []          # the build dir of an include dir exists only for '.'
        out.append((s, b))
    return out


def custom_dir_args(spec):
    """backends.get_custom_target_dir_include_args: one -I per distinct output dir of the custom targets among
    the sources, in source order (ninjabackend.py:3147-3148, only with implicit include directories)"""
    if not spec['implicit']:
        return []
    dirs = []
    for c in spec.get('ct', []):
        d = {'same': ('sub' if spec['subdir'] else '.')}.get(c, c)
        if d not in dirs:
            dirs.append(d)
    return ['-I' + d for d in dirs]


def predict_tsrc(spec, ref_args):
    """the increments of Arglist/Backend.v for a generated project; compiler-specific fixed arguments are
    taken from the reference project of the same target kind"""
    noni = [a for a in ref_args if not a.startswith('-I')]
    k = next((i for i, a in enumerate(noni) if a[:2] in ('-D', '-W', '-O', '-g') or a.startswith('-std')), len(noni))
    base, fixed = noni[:k], noni[k:]
    pic = []
    if spec['kind'] != 'executable' and fixed[-1:] == ['-fPIC']:
        fixed, pic = fixed[:-1], ['-fPIC']
    name, privfmt = KINDS[spec['kind']]
    sub = 'sub/' if spec['subdir'] else ''
    objs = list(spec['tincs']) + [dp['inc'] for dp in spec['deps'] if dp['inc']]
    lists = lambda ls: S1.join(rl(x) for x in ls)
    custom = custom_dir_args(spec)
    enc_obj = lambda o: S1.join(rl(x) for sb in inc_args(o) for x in sb) + '\x04'
    return [lists([base]), lists([[a] for a in fixed]), rl([a for ch in spec['proj'] for a in ch]),
            rl(spec['glob']), rl(spec['optargs']), rl(pic), lists([dp['args'] for dp in spec['deps']]), '', rl(custom),
            '\x03'.join(enc_obj(o) for o in objs), rl(spec['targs']),
            rl(['-I../src' + ('/sub' if spec['subdir'] else '')] if spec['implicit'] else []),
            rl(['-I' + ('sub' if spec['subdir'] else '.')] if spec['implicit'] else []),
            rl(['-I' + sub + privfmt % name])]


def gen_cli_spec(rng, k):
    pool = DEFS + (HOSTILE if rng.random() < 0.6 else [])
    pick = lambda lo, hi: [rng.choice(pool) for _ in range(rng.randint(lo, hi))]
    names = ['i1', 'i2', 'i3', 'i4', '.']
    obj = lambda: {'dirs': rng.sample(names, rng.randint(1, 3)), 'system': rng.random() < 0.3}
    return {'kind': rng.choice(['executable', 'executable', 'static_library', 'shared_library']),
            'subdir': rng.random() < 0.35, 'implicit': rng.random() < 0.7,
            'optargs': pick(0, 2), 'glob': pick(0, 2), 'proj': [pick(0, 3)],
            'targs': pick(0, 4) + ([rng.choice(['-I/opt/c13/t1', '-I/opt/c13/t2']) for _ in range(rng.randint(1, 2))] if rng.random() < 0.4 else []),
            'ct': rng.choice([[], [], ['gen'], ['same'], ['gen', 'same'], ['same', 'gen2', 'gen'], ['gen2', 'gen']]),
            'generator': rng.random() < 0.2,
            'tincs': [obj() for _ in range(rng.choice([0, 1, 1, 2]))],
            'deps': [{'args': pick(0, 3), 'inc': obj() if rng.random() < 0.6 else None} for _ in range(rng.choice([0, 1, 1, 2, 3]))]}


def cli_glue(ctx, thorough, built):
    if shutil.which('cc') is None and shutil.which('gcc') is None:
        ctx.extra['cli_glue'] = 'skipped: no C compiler'
        return
    rng = ctx.rng
    n = 120 if thorough else 14
    base = ctx.mkscratch()
    empty = {'subdir': False, 'implicit': True, 'optargs': [], 'glob': [], 'proj': [[]], 'targs': [], 'tincs': [], 'deps': []}
    refs = [(os.path.join(base, 'ref-' + kind), dict(empty, kind=kind)) for kind in KINDS]
    jobs = [(os.path.join(base, 'cli%d' % k), gen_cli_spec(rng, k)) for k in range(n)]
    fixed_shapes = [
        dict(empty, kind='executable', subdir=True, ct=['gen'], targs=['-I/opt/c13/t1', '-DLEVEL=2'],
             tincs=[{'dirs': ['i1'], 'system': False}]),
        dict(empty, kind='static_library', ct=['same', 'gen'], targs=['-DA'], tincs=[{'dirs': ['i2', 'i1'], 'system': False}],
             deps=[{'args': ['-DB'], 'inc': {'dirs': ['i3'], 'system': False}}]),
        dict(empty, kind='executable', ct=['gen2', 'gen'], generator=True, targs=['-I/opt/c13/t2'], implicit=True),
    ]
    jobs += [(os.path.join(base, 'clif%d' % k), sp) for k, sp in enumerate(fixed_shapes)]
    res = pmap(cli_one, refs + jobs)
    ref = {}
    for (d, spec), r in zip(refs, res[:len(refs)]):
        if 'error' in r:
            ctx.extra.setdefault('cli_errors', []).append(r['error'][-300:])
        else:
            ref[spec['kind']] = r['args']
    good, cases = [], []
    for (d, spec), r in zip(jobs, res[len(refs):]):
        if 'error' in r or spec['kind'] not in ref:
            ctx.extra.setdefault('cli_errors', []).append(r.get('error', 'no reference')[-300:])
            continue
        t = predict_tsrc(spec, ref[spec['kind']])
        good.append((spec, r['args'], t))
        cases += [('bk', ['C'] + t), ('ebk', ['C'] + t)]
    model = ctx.run_model(cases, shards=1) if (built and cases) else None
    shapes = {}
    for k, (spec, args, t) in enumerate(good):
        ctx.cov['evaluations'] += 1
        ctx.count(('cli', json.dumps(spec, sort_keys=True)))
        shapes[spec['kind']] = shapes.get(spec['kind'], 0) + 1
        if model is not None:
            for fn, got in (('bk', model[2 * k]), ('ebk', model[2 * k + 1])):
                if pl(got) != args and len(ctx.disagreements) < 200:
                    ctx.disagreements.append({'case': [fn, ['C'] + t], 'cli_project': spec, 'implementation': rl(args), 'model': got})
        fails = []
        # the clauses, evaluated on what the backend wrote.  Sources in order of addition (backends.py:1023-1134,
        # ninjabackend.py:3139-3222): fixed/option-derived, project, global, c_args option, -fPIC, dependencies in
        # REVERSED declaration order, per-target c_args.
        ref_noni = [a for a in ref[spec['kind']] if not a.startswith('-I')]
        added = ref_noni[:-1] if (ref_noni[-1:] == ['-fPIC']) else list(ref_noni)
        added += [a for ch in spec['proj'] for a in ch] + spec['glob'] + spec['optargs']
        added += ['-fPIC'] if ref_noni[-1:] == ['-fPIC'] else []
        for dp in reversed(spec['deps']):
            added += dp['args']
        added += spec['targs']
        isov = lambda a: a[:2] in ('-D', '-U')
        exp = []
        for a in reversed(added):                 # last added occurrence of a define survives, in order of addition
            if isov(a) and a not in exp:
                exp.append(a)
        exp.reverse()
        got = [a for a in args if isov(a)]
        if got != exp:
            fails.append({'clause': 'defines: the last added occurrence survives, in order of addition', 'expected': exp, 'got': got})
        plain = lambda xs: [a for a in xs if not isov(a) and not a.startswith(('-I', '-isystem')) and a not in ('-pipe', '-pthread')]
        if plain(args) != plain(added):
            fails.append({'clause': 'never-de-duplicated arguments keep order and multiplicity', 'expected': plain(added), 'got': plain(args)})
        for a in ('-pipe', '-pthread'):
            if args.count(a) != (1 if a in added else 0):
                fails.append({'clause': 'a once-only argument appears once', 'arg': a, 'got': args})
        iargs = [a for a in args if a.startswith('-I')]
        if len(set(iargs)) != len(iargs):
            fails.append({'clause': 'identical -I survive once', 'got': iargs})
        # custom-target output dirs are added "before target-specific include directories" (ninjabackend.py:3145):
        # every -I of the target's include_directories / internal deps and of its per-target c_args, being added
        # later, stands in front of them
        later_i = [x for o in (list(spec['tincs']) + [dp['inc'] for dp in spec['deps'] if dp['inc']]) if not o['system']
                   for sb in inc_args(o) for xs in sb for x in xs] + [a for a in spec['targs'] if a.startswith('-I')]
        implicit_i = pl(t[11]) + pl(t[12]) + pl(t[13])
        for c in custom_dir_args(spec):
            if c in later_i or c in implicit_i:
                continue                     # the same directory is added again later: that occurrence survives
            if c not in args:
                fails.append({'clause': 'the custom target output dir is on the line', 'missing': c, 'got': iargs})
                continue
            late = [x for x in later_i if x in args and args.index(x) > args.index(c)]
            if late:
                fails.append({'clause': "the target's include_directories and per-target -I precede the custom target dirs",
                              'custom_target_dir': c, 'behind_it': late, 'got': iargs})
        for f in fails:
            ctx.violation('C13:cli:' + json.dumps(spec, sort_keys=True), 'build.ninja ARGS break the contract for project %s: %s'
                          % (json.dumps(spec), json.dumps(f)), {'cli_project': spec, 'failure': f, 'ARGS': args})
    ctx.extra['cli_glue'] = {'projects': len(jobs), 'with_custom_target_sources': sum(1 for sp, _, _ in good if sp.get('ct')), 'configured': len(good), 'compared_with_backend_model': model is not None, 'target_kinds': shapes}
