"""C12, CLI part: the real `meson test` on generated language-free projects.  Every test is the
shell script t.sh, which appends `s <name> <iteration>` / `e <name> <iteration>` to $C12_LOG by itself
(`k <name> <iteration>` when it is terminated by SIGTERM), sleeps, prints a TAP / rust-harness text if asked, and exits with a
chosen status."""
import json, os, re, shutil, subprocess, sys
from common import *
import c12 as O

SEP1, SEP2, SEP3 = O.SEP1, O.SEP2, O.SEP3

SCRIPT = r'''#!/bin/sh
# $1 name, $2 sleep seconds, $3 exit codes per iteration (comma separated), $4 text to print (printf %b)
name="$1"; it="${MESON_TEST_ITERATION:-0}"
echo "s $name $it" >> "$C12_LOG"
trap 'echo "k $name $it" >> "$C12_LOG"; exit 143' TERM
[ -n "$4" ] && printf '%b' "$4"
sleep "$2"
trap '' TERM
code=0; n=0
IFS=,
for c in $3; do n=$((n+1)); code=$c; [ "$n" -ge "$it" ] && break; done
echo "e $name $it" >> "$C12_LOG"
case "$code" in k*) kill -"${code#k}" $$; sleep 5;; esac      # k9 = die from SIGKILL, k11 = SIGSEGV
exit "$code"
'''

TAP_TEXTS = ['1..1\nok 1\n', '1..2\nok 1\nnot ok 2\n', '1..1\nok 1 # SKIP nope\n', '1..0 # SKIP all\n', 'Bail out! x\n',
             '1..2\nok 1\n', 'ok 1\nok 2\n1..2\n', '1..1\nnot ok 1 # TODO later\n', '1..1\nok 1 # TODO\n', '']
RUST_TEXTS = ['test a ... ok\n', 'test a ... ok\ntest b ... FAILED\n', 'test a ... ignored\n', '', 'test a ... what\n']


def code_rc(c):
    """exit code token of t.sh -> returncode meson sees (k<N> = killed by signal N)"""
    return -int(c[1:]) if isinstance(c, str) and c.startswith('k') else int(c)


def mk_test(i, **kw):
    t = {'name': 't%d' % i, 'par': True, 'prio': 0, 'should_fail': False, 'timeout': None, 'suites': [], 'proto': 'exitcode',
         'sleep': '0.02', 'codes': [0], 'will_timeout': False, 'expected_exitcode': None, 'text': ''}
    t.update(kw)
    return t


def corpus_project():
    """hand-picked: tap tests whose stream says SKIP / OK while the program exits non-zero (or dies from a signal),
    with and without should_fail, next to plain exit-code tests"""
    K = O.TAP_KINDS
    return {'tests': [
        mk_test(0, proto='tap', text=K['allskip'], codes=[1]),
        mk_test(1, proto='tap', text=K['planskip'], codes=[3], par=False),
        mk_test(2, proto='tap', text=K['empty'], codes=[99], should_fail=True),
        mk_test(3, proto='tap', text=K['allskip'], codes=[0]),
        mk_test(4, proto='tap', text=K['pass'], codes=[77]),
        mk_test(5, proto='tap', text=K['empty'], codes=['k9']),
        mk_test(6, proto='exitcode', codes=['k11'], should_fail=True, suites=['x']),
        mk_test(7, proto='tap', text=K['fail'], codes=[1], should_fail=True, prio=5),
    ]}


def corpus_project2():
    """hand-picked exit-code corner cases: 77 / 99 with and without should_fail, expected_exitcode, rust and gtest
    protocols, a hostile name, a serial test of high priority"""
    return {'tests': [
        mk_test(0, codes=[77]),
        mk_test(1, codes=[99], should_fail=True),
        mk_test(2, codes=[77], should_fail=True, par=False, prio=10),
        mk_test(3, codes=[0], should_fail=True, suites=['x', 'y']),
        mk_test(4, codes=[3], expected_exitcode=3, mname="t4 it's \u00fc"),
        mk_test(5, codes=[0], expected_exitcode=3),
        mk_test(6, proto='rust', text='test a ... ok\n', codes=[0]),
        mk_test(7, proto='gtest', codes=[99, 0], verbose=True),
    ]}


def corpus_project3():
    """time limits: timeout 1 with a 2.2 s sleep (limit in force -> TIMEOUT; multiplier <= 0 -> no limit), timeout 0 / -1
    (never a limit), a quick test with timeout 1, the default timeout"""
    return {'tests': [
        mk_test(0, timeout=1, sleep='2.2'),
        mk_test(1, timeout=0, sleep='0.3'),
        mk_test(2, timeout=-1, sleep='0.3', codes=[1]),
        mk_test(3, timeout=1, sleep='0.02'),
        mk_test(4, sleep='0.05'),
        mk_test(5, timeout=1, sleep='2.2', should_fail=True, proto='tap', text=O.TAP_KINDS['pass']),
    ]}


def gen_project(rng, adversarial=False):
    n = rng.randint(2, 8)
    pser = rng.choice([0.0, 0.2, 0.4, 0.7])
    dur = rng.choice(['mixed', 'mixed', 'equal', 'zero', 'onelong']) if adversarial else 'mixed'
    tests = []
    for i in range(n):
        proto = rng.choice(['exitcode'] * 6 + ['tap', 'tap', 'rust', 'gtest'])
        will_timeout = rng.random() < 0.08
        if dur == 'equal':
            ms = 60
        elif dur == 'zero':
            ms = 0
        elif dur == 'onelong':
            ms = 200 if i == 0 else rng.choice([0, 10, 20])
        else:
            ms = rng.choice([10, 20, 30, 50, 80, 120, 150])
        ncodes = rng.choice([1, 1, 1, 2, 3])
        if proto in ('tap', 'rust'):
            codes = [rng.choice([0, 0, 0, 1, 2, 3, 77, 99, 'k9']) for _ in range(ncodes)]
        else:
            codes = [rng.choice([0, 0, 0, 0, 0, 1, 2, 77, 99, 127, 3, 'k9', 'k11']) for _ in range(ncodes)]
        t = {'name': 't%d' % i, 'par': rng.random() >= pser, 'prio': rng.choice([0, 0, 0, 0, 5, 10, -1, 5]),
             'should_fail': rng.random() < 0.2, 'timeout': 1 if will_timeout else None,
             'suites': rng.choice([[], [], ['x'], ['y'], ['x', 'y']]), 'proto': proto,
             'sleep': '30' if will_timeout else '%.2f' % (ms / 1000.0), 'codes': codes, 'will_timeout': will_timeout,
             'expected_exitcode': 3 if (proto == 'exitcode' and rng.random() < 0.08) else None,
             'text': rng.choice(TAP_TEXTS + sorted(O.TAP_KINDS.values()) * 2) if proto == 'tap' else rng.choice(RUST_TEXTS) if proto == 'rust' else ''}
        if rng.random() < 0.3:
            t['mname'] = t['name'] + rng.choice([' x', '\u00fc', "'q", '+', '#1', '.sh', ' \u00e9 \u00fc', '"d"', '$HOME', '\\n'])
        if rng.random() < 0.15:
            t['verbose'] = True
        tests.append(t)
    return {'tests': tests}


def mname(t):
    """the name in meson.build (may hold blanks, quotes, non-ASCII); t['name'] is the id the script logs"""
    return t.get('mname', t['name'])


def meson_build(proj):
    out = ["project('p')", "sh = find_program('t.sh')"]
    q = lambda s: "'" + s.replace('\\', '\\\\').replace("'", "\\'").replace('\n', '\\\\n') + "'"
    for t in proj['tests']:
        kw = ["args: [%s, %s, %s, %s]" % (q(t['name']), q(t['sleep']), q(','.join(map(str, t['codes']))), q(t['text'])),
              'is_parallel: %s' % ('true' if t['par'] else 'false'), 'priority: %d' % t['prio']]
        if t['should_fail']:
            kw.append('should_fail: true')
        if t['timeout'] is not None:
            kw.append('timeout: %d' % t['timeout'])
        if t['suites']:
            kw.append('suite: [%s]' % ', '.join(q(s) for s in t['suites']))
        if t['proto'] != 'exitcode':
            kw.append('protocol: %s' % q(t['proto']))
        if t['expected_exitcode'] is not None:
            kw.append('expected_exitcode: %d' % t['expected_exitcode'])
        if t.get('verbose'):
            kw.append('verbose: true')
        out.append("test(%s, sh, %s)" % (q(mname(t)), ', '.join(kw)))
    return '\n'.join(out) + '\n'


def write_project(d, proj):
    os.makedirs(d, exist_ok=True)
    with open(os.path.join(d, 'meson.build'), 'w') as f:
        f.write(meson_build(proj))
    p = os.path.join(d, 't.sh')
    with open(p, 'w') as f:
        f.write(SCRIPT)
    os.chmod(p, 0o755)
    r = meson_cli(['setup', 'b'], cwd=d, timeout=120)
    return r


def gen_invocation(rng, proj):
    n = len(proj['tests'])
    inv = {'jobs': rng.choice([1, 2, 2, 3, 3, 4, 8]), 'repeat': rng.choice([1, 1, 1, 2, 2, 3]),
           'maxfail': rng.choice([0, 0, 0, 1, 1, 2]), 'include': [], 'exclude_suites': [], 'exclude': [], 'args': [], 'slice': ''}
    k = rng.random()
    if k < 0.15:
        inv['include'] = [rng.choice(['x', 'y', 'p:x', ':y', 'p'])]
    elif k < 0.3:
        inv['exclude_suites'] = [rng.choice(['x', 'y', 'p:x', ':y'])]
    elif k < 0.4:
        inv['exclude'] = [rng.choice([mname(proj['tests'][0]), mname(proj['tests'][1]), 'p:' + mname(proj['tests'][1])])]
    elif k < 0.48:
        m0, m1, m2 = (mname(proj['tests'][min(i, n - 1)]) for i in range(3))
        inv['args'] = sorted(set(rng.choice([m0, m1, m2, 'p:' + m1, ':' + m0]) for _ in range(2)))
    elif k < 0.72:
        # overlapping test-name arguments: the same test is matched by several of them
        a = mname(proj['tests'][rng.randrange(n)])
        inv['args'] = rng.choice([[a, 't*'], ['p:' + a, a, '*' + a[1:]], ['p:', a], [a, a], [':' + a, a], ['t?', a],
                                  ['*', 'p:*'], [a, 'p:t*', '?' + a[1:]], [a, '[t]' + a[1:]], ['t[!x]*', a], ['[p]:' + a, '[!q]:t*']])
    if rng.random() < 0.3:
        m = rng.randint(1, min(n, 4))
        inv['slice'] = '%d/%d' % (rng.randint(1, m), m)
    # console options (must not change what runs nor the totals)
    inv['flags'] = rng.choice([[], [], [], ['--verbose'], ['--quiet'], ['--print-errorlogs'], ['--no-stdsplit'],
                               ['--print-errorlogs', '--no-stdsplit'], ['--verbose', '--print-errorlogs']])
    return inv


def sel_flags(inv):
    a = []
    for s in inv['include']:
        a += ['--suite', s]
    for s in inv['exclude_suites']:
        a += ['--no-suite', s]
    for s in inv['exclude']:
        a += ['--exclude', s]
    if inv['slice']:
        a += ['--slice', inv['slice']]
    return a + list(inv.get('flags') or []) + list(inv['args'])


def tmult(inv):
    """--timeout-multiplier of an invocation: a number, or None when the option is not given (default 0.3)"""
    return inv.get('tmult', 0.3)


def tm_flag(inv):
    m = tmult(inv)
    return [] if m is None else ['--timeout-multiplier=%s' % (('%g' % m))]


def command_line(inv, k=0):
    # with inv['env'] the number of jobs comes from MESON_TESTTHREADS / MESON_NUM_PROCESSES (no -j)
    nj = [] if inv.get('env') else ['--num-processes', str(inv['jobs'])]
    return ['test', '-C', 'b', '--no-rebuild'] + nj + ['--repeat', str(inv['repeat']),
            '--maxfail', str(inv['maxfail'])] + tm_flag(inv) + ['--logbase', 'L%d' % k] + sel_flags(inv)


def shown_command(inv):
    return ' '.join(['C12_LOG=<log>'] + ['%s=%s' % kv for kv in sorted((inv.get('env') or {}).items())] + ['meson'] + command_line(inv))


def env_jobs(env):
    """documented effect of MESON_TESTTHREADS / MESON_NUM_PROCESSES (the latter prevails): a positive integer is the
    number of jobs, 0 means the number of CPUs, anything else one job"""
    n = 0
    for k in ('MESON_TESTTHREADS', 'MESON_NUM_PROCESSES'):
        if k in env:
            try:
                n = int(env[k])
                if n < 0:
                    n = 1
            except ValueError:
                n = 1
    return n if n > 0 else (os.cpu_count() or 1)


def run_invocation(d, k, inv, with_list):
    log = os.path.join(d, 'ev%d.log' % k)
    open(log, 'w').close()
    args = command_line(inv, k)
    try:
        r = meson_cli(args, cwd=d, env=dict(inv.get('env') or {}, C12_LOG=log), timeout=30 if inv.get('probe') else 120)
        rc, out = r.returncode, r.stdout + (r.stderr if inv.get('probe') else '')
    except subprocess.TimeoutExpired:
        rc, out = 'hang', ''
    lst = None
    if with_list and not inv.get('probe'):
        rl = meson_cli(['test', '-C', 'b', '--no-rebuild', '--list'] + sel_flags(inv), cwd=d, timeout=120)
        lst = (rl.returncode, rl.stdout)
    tl = os.path.join(d, 'b', 'meson-logs', 'L%d.json' % k)
    entries = []
    if os.path.exists(tl):
        for line in open(tl):
            if line.strip():
                e = json.loads(line)
                entries.append({'name': e['name'], 'result': e['result'], 'returncode': e.get('returncode'),
                                'start': e['starttime'], 'dur': e['duration'],
                                'it': int(e.get('env', {}).get('MESON_TEST_ITERATION', '0'))})
    events = [l.split() for l in open(log).read().split('\n') if l.strip()]
    return {'rc': rc, 'stdout': out, 'events': events, 'testlog': entries, 'list': lst}


def parse_summary(out):
    printed = {}
    for ln in out.split('\n'):
        for i, lab in enumerate(O.SUMMARY_LABELS):
            if ln.startswith(lab):
                try:
                    printed[i] = int(ln[len(lab):].strip())
                except ValueError:
                    pass
    return printed


def parse_list(out):
    names = []
    for ln in out.split('\n'):
        ln = ln.strip()
        if not ln or ln.startswith(('No ', 'WARNING', 'ERROR')):
            continue
        names.append(ln.split(' - ')[-1])
    return names


def tdef_str(t):
    return SEP2.join([mname(t), 'p', SEP3.join(['p:' + s for s in t['suites']] or ['p'])])


def run_cli(ctx, built, thorough, only=None):
    rng = ctx.rng
    scratch = ctx.mkscratch()
    nproj = 60 if thorough else 7
    ninv = 25 if thorough else 8
    if only is not None:
        projs = [only['project']]
    else:
        projs = [corpus_project(), corpus_project2(), corpus_project3()] + [gen_project(rng, adversarial=(thorough and i % 2 == 1) or (not thorough and i == 5)) for i in range(3, nproj)]
    dirs = [os.path.join(scratch, 'proj%d' % i) for i in range(len(projs))]
    setups = pmap(lambda a: write_project(*a), list(zip(dirs, projs)))
    for r, d in zip(setups, dirs):
        if r.returncode != 0:
            raise HarnessError('meson setup of a generated C12 project failed: ' + (r.stdout + r.stderr)[-1500:])
    # serialisation order (priority) from the model, and the TAP abstractions from the real parser
    jobs = []
    for pi, proj in enumerate(projs):
        invs = [only['invocation']] if only is not None else [gen_invocation(rng, proj) for _ in range(ninv)]
        if only is None and pi == 0:
            invs[0] = {'jobs': 3, 'repeat': 1, 'maxfail': 0, 'include': [], 'exclude_suites': [], 'exclude': [], 'args': [], 'slice': ''}
        if only is None and pi == 2:
            # time limits: no multiplier (control: the 2.2 s sleepers time out), multipliers <= 0 (no limit), large and small ones
            b3 = {'jobs': 8, 'repeat': 1, 'maxfail': 0, 'include': [], 'exclude_suites': [], 'exclude': [], 'args': [], 'slice': ''}
            invs = [dict(b3, tmult=m) for m in (None, 0, -1, 50, 0.5, -0.0)]
        if only is None and pi == 0:
            # the option layer: a non-positive --num-processes must be refused at option parsing;
            # MESON_TESTTHREADS / MESON_NUM_PROCESSES of any content must still let the tests run
            base = {'repeat': 1, 'maxfail': 0, 'include': [], 'exclude_suites': [], 'exclude': [], 'args': [], 'slice': ''}
            for nj in (0, -1, -17):
                invs.append(dict(base, jobs=nj, probe='reject'))
            for env in ({'MESON_TESTTHREADS': '0'}, {'MESON_NUM_PROCESSES': '-3'}, {'MESON_TESTTHREADS': 'junk'},
                        {'MESON_TESTTHREADS': '2', 'MESON_NUM_PROCESSES': '0'}, {'MESON_TESTTHREADS': '-1', 'MESON_NUM_PROCESSES': '2'}):
                invs.append(dict(base, jobs=env_jobs(env), env=env))
        for k, inv in enumerate(invs):
            jobs.append((pi, k, inv, True))
    obs = pmap(lambda j: run_invocation(dirs[j[0]], j[1], j[2], j[3]), jobs)
    probe_reported = set()
    result_cov = {}

    # slice partition through the CLI (--list --slice i/n for all i)
    slice_jobs = []
    for pi, proj in enumerate(projs[:(8 if thorough else 2)]):
        for n in range(1, min(len(proj['tests']), 4 if thorough else 3) + 1):
            for i in range(1, n + 1):
                slice_jobs.append((pi, n, i))
    if only is not None:
        slice_jobs = []
    slice_obs = pmap(lambda j: meson_cli(['test', '-C', 'b', '--no-rebuild', '--list', '--slice', '%d/%d' % (j[2], j[1])],
                                         cwd=dirs[j[0]], timeout=120), slice_jobs)

    # ---- model calls (batched)
    mcalls = []
    def mcall(fn, args):
        mcalls.append((fn, args)); return len(mcalls) - 1
    texts = sorted({(t['proto'], t['text']) for p in projs for t in p['tests'] if t['proto'] in ('tap', 'rust')})
    tres = run_impl('c12.py', {'cases': [['classify', ['t' if p == 'tap' else 'r', 'F', '', tx, 'x', '0']] for p, tx in texts]})
    evs_of = {k: a for k, a in zip(texts, tres['aux'])}
    prio_idx = [mcall('prio', [str(t['prio']) for t in proj['tests']]) for proj in projs]
    mout = ctx.run_model(mcalls) if built else None
    order = []
    for pi, proj in enumerate(projs):
        if built:
            order.append([proj['tests'][int(x)] for x in mout[prio_idx[pi]].split(',')])
        else:
            order.append(sorted(proj['tests'], key=lambda t: -t['prio']))
    mcalls2, plan = [], []
    def mcall2(fn, args):
        mcalls2.append((fn, args)); return len(mcalls2) - 1
    for (pi, k, inv, wl), ob in zip(jobs, obs):
        ser = order[pi]
        plan.append({'select': mcall2('select', ['p', SEP2.join(inv['include']), SEP2.join(inv['exclude_suites']), SEP2.join(inv['exclude']),
                                                 SEP2.join(inv['args']), inv['slice']] + [tdef_str(t) for t in ser])})
    mout2 = ctx.run_model(mcalls2) if built else None

    # second round needs the selection: do it per job
    mcalls3, plan3 = [], []
    def mcall3(fn, args):
        mcalls3.append((fn, args)); return len(mcalls3) - 1
    nruns = 0
    prepared = []
    for ji, ((pi, k, inv, wl), ob) in enumerate(zip(jobs, obs)):
        proj, ser = projs[pi], order[pi]
        byname = {t['name']: t for t in proj['tests']}
        rep_base = {'cli': {'project': proj, 'invocation': inv}, 'meson.build': meson_build(proj),
                    'command_line': shown_command(inv)}
        ident = 'C12:cli:' + json.dumps({'p': meson_build(proj), 'i': inv}, sort_keys=True)
        viol = lambda what, extra=None: ctx.violation(ident, what, dict(rep_base, failure=what, observed=extra))
        ctx.count(('cli', ident))
        if inv.get('probe') == 'reject':
            # judge: refused at option parsing = argparse usage error (exit status 2), nothing started, prompt return
            out = ob['stdout'] if isinstance(ob['stdout'], str) else ''
            ok = ob['rc'] == 2 and not ob['events'] and 'usage:' in out and 'Unhandled python exception' not in out
            pid = 'C12:num-processes-0' if inv['jobs'] == 0 else 'C12:num-processes-negative'
            if not ok and pid not in probe_reported:
                probe_reported.add(pid)
                how = ('does not return within 30 s and starts no test' if ob['rc'] == 'hang'
                       else 'dies with "Unhandled python exception" (exit status 2)' if 'Unhandled python exception' in out
                       else 'exit status %r, %d test events' % (ob['rc'], len(ob['events'])))
                ctx.violation(pid, '`meson test --num-processes %d` %s; a non-positive number of jobs must be rejected at option parsing '
                              '(usage error, exit status 2, nothing started)' % (inv['jobs'], how),
                              dict(rep_base, failure=how, output_tail=out[-400:]))
            continue
        if ob['rc'] == 'hang':
            viol('meson test did not finish within 120 s')
            continue
        # ---------- selection: what `meson test --list` with the same selection options prints
        # (the implementation's own answer) is what the oracle uses; the model's selection is
        # compared with it
        idof = {mname(t): t['name'] for t in proj['tests']}
        listed = [idof.get(x.split(':', 1)[1], x.split(':', 1)[1]) for x in parse_list(ob['list'][1]) if ':' in x]
        impl_sel_err = ob['list'][0] != 0 and not listed and ob['rc'] != 0 and not ob['events']
        if built:
            ms = mout2[plan[ji]['select']]
            msel_err = ms == 'ERR'
            msel = [idof.get(x.split(':', 1)[1], x.split(':', 1)[1]) for x in ms[1:].split(SEP2)] if (not msel_err and ms[1:]) else []
            if msel_err != impl_sel_err and (msel_err or listed):
                ctx.disagreements.append({'cli': rep_base['cli'], 'what': 'model: selection %s; meson test exit %r, --list exit %r prints %r'
                                          % ('is an error' if msel_err else msel, ob['rc'], ob['list'][0], listed)})
            elif not msel_err and msel != listed:
                ctx.disagreements.append({'cli': rep_base['cli'], 'what': '--list prints %r, model selects %r' % (listed, msel)})
        # ---------- the selection computed from the command line alone (no meson code, no model):
        # the SET of tests surviving the suite / exclude filters and matched by ANY test-name argument
        ser_py = sorted(proj['tests'], key=lambda t: -t['prio'])
        base = O.independent_selection([(mname(t), 'p', ['p:' + x for x in t['suites']] or ['p']) for t in ser_py], 'p',
                                       inv['include'], inv['exclude_suites'], inv['exclude'], inv['args'], None)
        if base is None:
            if ob['events']:
                viol('a test-name argument matches no test, yet tests were started: %r' % ob['events'][:6])
            continue
        base = [idof[n] for _, n in base]
        if inv['slice']:
            i_, k_ = (int(x) for x in inv['slice'].split('/'))
            if k_ > len(base):
                if ob['events']:
                    viol('more slices than selected tests, yet tests were started: %r' % ob['events'][:6])
                continue
            # which tests a slice holds depends on the serialisation order: take meson's own listing,
            # which must be duplicate-free and inside the selection (the partition is checked separately)
            if len(set(listed)) != len(listed) or not set(listed) <= set(base):
                viol('--list --slice %s prints %r; the command line selects the set %r' % (inv['slice'], listed, base))
                continue
            selected = listed
        else:
            selected = base
            if impl_sel_err:
                viol('the command line selects %r but meson test refuses (exit %r)' % (base, ob['rc']))
                continue
        nsel = len(selected)
        if nsel == 0:
            if ob['events'] or ob['rc'] != 0:
                ctx.disagreements.append({'cli': rep_base['cli'], 'what': 'empty selection but exit %r / events %r' % (ob['rc'], ob['events'][:6])})
            continue
        nruns += 1
        pos = {n: i for i, n in enumerate(selected)}
        R = inv['repeat']
        results = [e['result'] for e in ob['testlog']]
        for e_ in ob['testlog']:
            n_ = e_['name'].split(' - ')[-1].split(':', 1)[-1]
            t_ = byname.get(idof.get(n_, n_))
            if t_:
                result_cov[(t_['proto'], e_['result'])] = result_cov.get((t_['proto'], e_['result']), 0) + 1
        failc = sum(1 for r in results if r in ('FAIL', 'ERROR', 'INTERRUPT'))
        cut = (inv['maxfail'] > 0 and failc >= inv['maxfail']) or (R > 1 and failc > 0)
        # ---------- oracle: higher priority first (in the listing; in the start records when there is one job)
        prio = {t['name']: t['prio'] for t in proj['tests']}
        pb = O.priority_clauses([n for n in listed if n in prio], prio)
        if pb:
            viol('--list order: ' + '; '.join(pb[:3]), {'listed': listed})
        if inv['jobs'] == 1:
            for it in range(1, R + 1):
                st = [e[1] for e in ob['events'] if e[0] == 's' and int(e[2]) == it and e[1] in prio]
                pb = O.priority_clauses(st, prio)
                if pb:
                    viol('start order with one job, repetition %d: %s' % (it, '; '.join(pb[:3])), {'starts': st})
        # ---------- oracle: every selected test has exactly `repeat` start records
        for b in O.start_count_clauses(selected, R, [(e[1], int(e[2])) for e in ob['events'] if e[0] == 's'], cut):
            viol('start records: ' + b, {'start_records': [' '.join(e) for e in ob['events'] if e[0] == 's'], 'selected': selected})
        # ---------- event log -> runner ids
        evl, bad_ids = [], []
        for e in ob['events']:
            nm, it = e[1], int(e[2])
            if nm not in pos or not (1 <= it <= R):
                bad_ids.append(e); continue
            evl.append(('e' if e[0] == 'k' else e[0], (it - 1) * nsel + pos[nm]))
        if bad_ids:
            viol('tests outside the selection were run: %r' % bad_ids[:5])
        started = [i for k_, i in evl if k_ == 's']
        ended = {i for k_, i in evl if k_ == 'e'}
        fixed, missing_end = [], 0
        for k_, i in evl:
            fixed.append((k_, i))
            if k_ == 's' and i not in ended:
                fixed.append(('e', i)); missing_end += 1       # killed before it could log: shortest possible life
        ctx.extra['log_missing_end'] = ctx.extra.get('log_missing_end', 0) + missing_end
        # ---------- testlog.json
        tl = {}
        for e in ob['testlog']:
            nm = e['name'].split(' - ')[-1].split(':', 1)[1]
            nm = idof.get(nm, nm)
            key = (nm, e['it'])
            if key in tl:
                viol('testlog.json reports %s iteration %d twice' % key)
            tl[key] = e
            if nm not in pos:
                viol('testlog.json reports unselected test %s' % nm)
        par_decl = [byname[n]['par'] for n in selected] * R
        # ---------- oracle: scheduling clauses on the log written by the tests themselves
        for b in O.trace_clauses(par_decl, inv['jobs'], fixed, cut):
            viol('event log: ' + b, ob['events'])
        # ---------- oracle: classification per documented rule, totals, exit status
        must_fail = []
        for (nm, it), e in tl.items():
            if nm not in byname:
                continue
            t = byname[nm]
            rc = code_rc(t['codes'][min(it, len(t['codes'])) - 1])
            w = O.expected_wait(t['timeout'], tmult(inv), float(t['sleep']))
            lim = O.documented_limit(t['timeout'], tmult(inv))
            how = 'timeout %s x multiplier %s = %s' % ('30 (default)' if t['timeout'] is None else t['timeout'],
                                                      'absent' if tmult(inv) is None else tmult(inv), 'no limit' if lim is None else '%g s' % lim)
            if w == 'x' and e['result'] == 'TIMEOUT':
                viol('test %s sleeps %s s and is reported TIMEOUT although %s' % (nm, t['sleep'], how))
            if w == 't' and e['result'] not in ('TIMEOUT', 'INTERRUPT'):
                viol('test %s sleeps %s s and is reported %s although the limit in force is %s' % (nm, t['sleep'], e['result'], how))
            if w is None:
                continue            # too close to call: not judged
            if e['result'] == 'INTERRUPT' and cut:
                w = 'c'
            if t['proto'] in ('exitcode', 'gtest') and t['expected_exitcode'] is None:
                want = O.documented_result(t['should_fail'], w, rc)
                if e['result'] != want:
                    viol('test %s (exit status %d, should_fail=%s, %s) reported %s, documented rule says %s'
                         % (nm, rc, t['should_fail'], 'times out' if w == 't' else 'ends by itself', e['result'], want))
            want = None
            if t['proto'] == 'tap' and t['text'] in O.TAP_KIND_OF:
                want = O.documented_tap_result(O.TAP_KIND_OF[t['text']], t['should_fail'], w, rc)
                if e['result'] != want:
                    viol('tap test %s prints %r and its program exits with status %d (should_fail=%s, %s): reported %s, documented rule says %s'
                         % (nm, t['text'], rc, t['should_fail'], 'times out' if w == 't' else 'ends by itself', e['result'], want))
            elif t['proto'] in ('exitcode', 'gtest') and t['expected_exitcode'] is None:
                want = O.documented_result(t['should_fail'], w, rc)
            if want in O.BAD and w != 'c':
                must_fail.append('%s (exit status %d -> %s)' % (nm, rc, want))
            if e['result'] == 'TIMEOUT' and ['e', nm, str(it)] in ob['events']:
                viol('test %s passed its time limit (reported TIMEOUT) but was not terminated: it ran to its normal end' % nm, ob['events'])
            # (a test killed by meson -- TIMEOUT / INTERRUPT -- may die before it could log its start)
            if e['result'] not in ('TIMEOUT', 'INTERRUPT') and (nm, it) not in {(selected[i % nsel], i // nsel + 1) for i in started}:
                viol('testlog.json reports %s iteration %d which never started' % (nm, it))
            e['_model'] = mcall3('classify', [{'exitcode': 'e', 'gtest': 'g', 'tap': 't', 'rust': 'r'}[t['proto']], 'T' if t['should_fail'] else 'F',
                                              str(t['expected_exitcode'] or 0), evs_of.get((t['proto'], t['text']), ''), w, str(rc)])
        printed = parse_summary(ob['stdout'])
        if must_fail and ob['rc'] == 0:
            viol('`meson test` exits 0 although the documented rule makes these runs bad: %s' % ', '.join(must_fail[:6]),
                 {'stdout_tail': ob['stdout'][-600:], 'results': results})
        bad_total = (printed.get(2) or 0) + (printed.get(3) or 0) + (printed.get(6) or 0)
        if len(must_fail) > bad_total:
            viol('the console totals count %d failed / unexpectedly passed / timed out runs, the documented rule makes %d runs bad: %s'
                 % (bad_total, len(must_fail), ', '.join(must_fail[:6])), {'stdout_tail': ob['stdout'][-600:]})
        for b in O.tally_clauses(results, [printed.get(i) for i in range(7)], ob['rc']):
            viol('totals / exit status: ' + b, {'stdout_tail': ob['stdout'][-600:], 'results': results})
        vanished = [i for i in started if (selected[i % nsel], i // nsel + 1) not in tl]
        if vanished and not cut:
            viol('tests %r started but have no testlog.json entry' % vanished)
        # ---------- model: configuration, lax replay of the log, strict replay of the testlog timeline
        prep = {'ji': ji, 'cut': cut, 'rep': rep_base, 'tl': tl, 'results': results, 'printed': printed, 'rc': ob['rc'], 'vanished': vanished}
        prep['cfg'] = mcall3('mkcfg', [''.join('T' if byname[n]['par'] else 'F' for n in selected), str(R), str(inv['jobs']), str(inv['maxfail'])])
        prep['fixed'] = fixed
        timeline = []
        for (nm, it), e in tl.items():
            if nm in pos:
                i = (it - 1) * nsel + pos[nm]
                timeline.append((e['start'], 1, 's%d' % i))
                timeline.append((e['start'] + e['dur'], 0, 'e%d%s' % (i, O.LETTER[e['result']])))
        timeline.sort()
        prep['timeline'] = [x[2] for x in timeline]
        prep['tally'] = mcall3('tally', [''.join(O.LETTER[r] for r in results)])
        prepared.append(prep)
        if len(ctx.cov['samples']) < 9 and ji % 17 == 0:
            ctx.sample({'cli': {'meson.build': meson_build(proj), 'options': inv}, 'event_log': [' '.join(e) for e in ob['events']],
                        'results': results, 'exit': ob['rc']})
    mout3 = ctx.run_model(mcalls3) if built else None
    if built:
        mcalls4 = []
        for prep in prepared:
            jobs_eff, flags, rp = mout3[prep['cfg']].split(SEP1)
            mf = str(jobs[prep['ji']][2]['maxfail'])
            prep['adm_lax'] = len(mcalls4)
            mcalls4.append(('adm', [flags, jobs_eff, mf, rp, 'L'] + ['%s%d%s' % (k_, i, 'O' if k_ == 'e' else '') for k_, i in prep['fixed']]))
            prep['adm_strict'] = len(mcalls4)
            mcalls4.append(('adm', [flags, jobs_eff, mf, rp, 'S'] + prep['timeline']))
        mout4 = ctx.run_model(mcalls4)
        for prep in prepared:
            dis = lambda what: ctx.disagreements.append({'cli': prep['rep']['cli'], 'what': what})
            for (nm, it), e in prep['tl'].items():
                if '_model' in e and mout3[e['_model']] != e['result']:
                    dis('test %s iteration %d: meson reports %s, model classifies %s' % (nm, it, e['result'], mout3[e['_model']]))
            a, c, p = mout4[prep['adm_lax']].split(SEP1)
            if a != 'T' or (c != 'T' and not prep['cut']):
                dis('event log not admissible for the lax configuration (admissible=%s complete=%s stuck at event %s): %r'
                    % (a, c, p, prep['fixed']))
            if not prep['vanished']:
                a, c, p = mout4[prep['adm_strict']].split(SEP1)
                if a != 'T' or c != 'T':
                    dis('testlog.json timeline not admissible (admissible=%s complete=%s stuck at event %s): %r'
                        % (a, c, p, prep['timeline']))
            else:
                ctx.extra['runs_with_vanished_tasks'] = ctx.extra.get('runs_with_vanished_tasks', 0) + 1
            f = mout3[prep['tally']].split(SEP1)
            mprinted = {int(l.split(':')[0]): int(l.split(':')[1]) for l in f[1].split(',') if l}
            if mprinted != prep['printed'] or int(f[3]) != prep['rc']:
                dis('summary %r exit %r; model: %r exit %s' % (prep['printed'], prep['rc'], mprinted, f[3]))
    # ---------- slices through --list
    byproj = {}
    for (pi, n, i), r in zip(slice_jobs, slice_obs):
        idof_p = {mname(t): t['name'] for t in projs[pi]['tests']}
        byproj.setdefault((pi, n), {})[i] = [idof_p.get(x.split(':', 1)[1], x.split(':', 1)[1]) for x in parse_list(r.stdout)] if r.returncode == 0 else None
    for (pi, n), sl in byproj.items():
        ctx.count(('cli-slice', pi, n))
        names = [t['name'] for t in order[pi]]
        if any(v is None for v in sl.values()):
            ctx.disagreements.append({'what': '--list --slice failed for %d slices of %d tests' % (n, len(names))}); continue
        for b in O.slice_clauses(names, [sl[i] for i in range(1, n + 1)]):
            ctx.violation('C12:cli-slice:%d:%s' % (n, meson_build(projs[pi])), '--slice i/%d over %r: %s' % (n, names, b),
                          {'cli': {'project': projs[pi], 'invocation': {'slice_n': n}}, 'failure': b})
    # coverage table: which shapes were generated how often (gaps show as zeros)
    from collections import Counter
    cov = Counter()
    for proj in projs:
        for t in proj['tests']:
            cov['test:protocol=' + t['proto']] += 1
            cov['test:is_parallel=false'] += (not t['par'])
            cov['test:should_fail'] += bool(t['should_fail'])
            cov['test:timeout(will time out)'] += bool(t['will_timeout'])
            cov['test:timeout kw <= 0'] += (t['timeout'] is not None and t['timeout'] <= 0)
            cov['test:priority!=0'] += (t['prio'] != 0)
            cov['test:suite kw'] += bool(t['suites'])
            cov['test:expected_exitcode'] += (t['expected_exitcode'] is not None)
            cov['test:verbose kw'] += bool(t.get('verbose'))
            cov['test:hostile name (blank/quote/non-ASCII/...)'] += ('mname' in t)
            cov['test:exit by signal'] += any(isinstance(c, str) for c in t['codes'])
            cov['test:exit code differs per repetition'] += (len(set(map(str, t['codes']))) > 1)
            if t['proto'] == 'tap':
                cov['tap:stream=' + O.TAP_KIND_OF.get(t['text'], 'other')] += 1
                cov['tap:skip-only/empty stream with non-zero exit'] += (O.TAP_KIND_OF.get(t['text']) in ('allskip', 'planskip', 'empty')
                                                                        and any(code_rc(c) != 0 for c in t['codes']))
    for (pi, k, inv, wl) in jobs:
        cov['run:total'] += 1
        cov['run:jobs=1'] += (inv['jobs'] == 1)
        cov['run:jobs>tests'] += (inv['jobs'] > len(projs[pi]['tests']))
        cov['run:repeat>1'] += (inv['repeat'] > 1)
        cov['run:maxfail>0'] += (inv['maxfail'] > 0)
        cov['run:repeat>1 and maxfail>0'] += (inv['repeat'] > 1 and inv['maxfail'] > 0)
        cov['run:--suite'] += bool(inv['include'])
        cov['run:--no-suite'] += bool(inv['exclude_suites'])
        cov['run:--exclude'] += bool(inv['exclude'])
        cov['run:name arguments'] += bool(inv['args'])
        cov['run:name arguments with glob'] += any(c in a for a in inv['args'] for c in '*?')
        cov['run:name arguments with bracket expression'] += any('[' in a for a in inv['args'])
        cov['run:>=2 name arguments'] += (len(inv['args']) >= 2)
        cov['run:--slice'] += bool(inv['slice'])
        cov['run:--slice with other selection'] += bool(inv['slice'] and (inv['args'] or inv['include'] or inv['exclude_suites'] or inv['exclude']))
        for f in inv.get('flags') or []:
            cov['run:' + f] += 1
        cov['run:jobs from environment variables'] += bool(inv.get('env'))
        cov['run:--timeout-multiplier <= 0'] += (tmult(inv) is not None and tmult(inv) <= 0)
        cov['run:no --timeout-multiplier'] += (tmult(inv) is None)
        cov['run:non-positive -j (must be rejected)'] += bool(inv.get('probe'))
    for (nm_, res_), c_ in sorted(result_cov.items()):
        cov['result:%s:%s' % (nm_, res_)] = c_
    ctx.extra['cli_coverage'] = {k_: int(v_) for k_, v_ in sorted(cov.items())}
    ctx.extra['cli_not_generated'] = ['benchmark() / --benchmark', 'add_test_setup / --setup', '--wrapper / --gdb / --interactive',
                                      'subprojects (only in-process selections use a second project)', 'ranges (a-z) inside bracket expressions of name arguments',
                                      '--test-args', 'workdir / env / depends kwargs']
    ctx.extra['cli_runs'] = nruns
    ctx.extra['cli_projects'] = len(projs)
    ctx.extra['cli_slice_partitions'] = len(byproj)
    return nruns


def replay(ctx, cli):
    built = ctx.build('Props/C12.v', 'Mtest/Extract.v', 'C12')
    if 'slice_n' in cli['invocation']:
        print('slice replay: run `meson test --list --slice i/%d` on this project:' % cli['invocation']['slice_n'])
        print(meson_build(cli['project']))
        return
    n = run_cli(ctx, built, False, only=cli)
    print('meson.build:\n' + meson_build(cli['project']))
    print('options:', json.dumps(cli['invocation']))
    print('command line: ' + shown_command(cli['invocation']))
    print('property clauses failing on the implementation:')
    for v in ctx.violations:
        print('  -', v['what'][:600])
    if not ctx.violations:
        print('  (none)')
    print('model disagreements:')
    for d in ctx.disagreements:
        print('  -', str(d.get('what'))[:600])
    if not ctx.disagreements:
        print('  (none)')
    ctx.cleanup()
