"""C08 — option state persists faithfully across the build-directory lifecycle.
Theorems: coq/Props/C08.v.  Model: coq/Options/Lifecycle.v (+ LcEntry.v).
Implementation: the real meson CLI in subprocesses (setup / configure -D -U /
setup --reconfigure / setup --wipe) on a generated project family, one build directory
per history; after every step the persisted state is read back by harness/impl/c08.py
(coredata.dat through mesonbuild.coredata.load, cmd_line.txt, intro-buildoptions.json) and
compared with the extracted model; `meson introspect --buildoptions` is compared with the
intro file; get_option() messages of successful runs are compared with the persisted
effective values; the property's clauses are evaluated on the observations alone (oracle in
harness/impl/c08.py)."""
import itertools, json, os, re, shutil, subprocess, threading
from common import *

S1, S2, S3, S4, S5, S6 = '\x01', '\x02', '\x03', '\x04', '\x05', '\x06'

TOP_NAMES = ['s', 'b', 'i', 'c', 'a', 'f', 'y']
SUB_NAMES = ['q', 'b', 'i', 'c', 'a', 'f', 'y']
CLASS_OF = {'s': 's', 'q': 's', 'y': 's', 'b': 'b', 'i': 'i', 'c': 'c', 'a': 'a', 'f': 'f'}
BUILTINS = {'werror': ('b', None), 'warning_level': ('c', ['0', '1', '2', '3', 'everything'])}
WATCH = sorted(set(TOP_NAMES + SUB_NAMES + ['boom', 'late', 'zz'] + list(BUILTINS)))
STRS = ['v1', 'v2', 'x', 'sd', 'true', '7', 'a', 'b', '']
# legal but unusual string values: blanks at the ends (lost by cmd_line.txt: known finding), INI /
# interpolation / comment characters, '=' and ':' inside a value, non-ASCII
HOSTILE = [' lead', 'trail ', 'a b', 'a%b', '%(s)s', 'x=y', '#c', 'a;b', 'k:v', '\u00e9\u20ac']
COMBO = ['a', 'b', 'c', 'd']
ARR = ['x', 'y', 'z']
FEAT = ['enabled', 'disabled', 'auto']


# ------------------------------------------------------------------ generators
def gen_decl(rng, name, sub, cls=None):
    cls = cls or CLASS_OF[name]
    d = {'name': name, 'cls': cls, 'min': None, 'max': None, 'choices': None,
         'yield': bool(sub and rng.random() < (0.6 if name in 'yc' else 0.25))}
    if cls == 's':
        d['default'] = rng.choice(['sd', 'x', 'dflt', ''])
    elif cls == 'b':
        d['default'] = rng.random() < 0.5
    elif cls == 'i':
        d['min'] = rng.choice([None, 0, 0, -5])
        d['max'] = rng.choice([None, 10, 10, 20, 5])
        lo = d['min'] if d['min'] is not None else -3
        hi = d['max'] if d['max'] is not None else 30
        d['default'] = rng.randint(lo, hi)
    elif cls == 'c':
        k = rng.randint(1, 4)
        ch = sorted(rng.sample(COMBO, k))
        if rng.random() < 0.15:
            rng.shuffle(ch)
        d['choices'] = ch
        d['default'] = rng.choice(ch)
    elif cls == 'a':
        ch = [] if rng.random() < 0.4 else sorted(rng.sample(ARR, rng.randint(1, 3)))
        d['choices'] = ch
        src = ch or ARR
        d['default'] = rng.sample(src, rng.randint(0, len(src)))
    else:
        d['default'] = rng.choice(FEAT)
    return d


def fixed_decls():
    return [{'name': 'boom', 'cls': 'b', 'min': None, 'max': None, 'choices': None, 'yield': False, 'default': False},
            {'name': 'late', 'cls': 'b', 'min': None, 'max': None, 'choices': None, 'yield': False, 'default': False}]


def gen_files(rng, prev=None, typechange=0.04):
    """A pair of option files.  With prev: an edit of prev (add / remove / change choices /
    change default / rarely change type); boom and late stay declared."""
    out = {}
    for part, names in (('top', TOP_NAMES), ('sub', SUB_NAMES)):
        decls = []
        old = {d['name']: d for d in (prev[part] if prev else [])}
        for n in names:
            if prev is None:
                if rng.random() < 0.7:
                    decls.append(gen_decl(rng, n, part == 'sub'))
                continue
            o = old.get(n)
            r = rng.random()
            if o is None:
                if r < 0.25:
                    decls.append(gen_decl(rng, n, part == 'sub'))
            elif r < 0.2:
                pass                                        # removed
            elif r < 0.55:
                decls.append(dict(o))                       # unchanged
            elif r < 0.55 + typechange:
                cls = rng.choice([c for c in 'sbicaf' if c != o['cls']])
                decls.append(gen_decl(rng, n, part == 'sub', cls))
            else:
                nd = gen_decl(rng, n, part == 'sub', o['cls'])   # new choices / range / default
                if o['cls'] == 'i' and rng.random() < 0.6:
                    # move ONE bound only, keep the other; the default stays inside the new range
                    keep = rng.choice(['min', 'max'])
                    nd[keep] = o[keep]
                    lo = nd['min'] if nd['min'] is not None else -3
                    hi = nd['max'] if nd['max'] is not None else 30
                    if lo > hi:
                        nd['min'], nd['max'] = o['min'], o['max']
                        lo = nd['min'] if nd['min'] is not None else -3
                        hi = nd['max'] if nd['max'] is not None else 30
                    nd['default'] = rng.randint(lo, hi)
                if rng.random() < 0.7:
                    nd['yield'] = o['yield']
                decls.append(nd)
        if part == 'top':
            decls += fixed_decls()
        if rng.random() < 0.3:
            rng.shuffle(decls)
        out[part] = decls
    return out


def valid_value(rng, d):
    c = d['cls']
    if c == 's':
        if rng.random() < 0.06:
            return rng.choice(HOSTILE)
        return rng.choice(STRS)
    if c == 'b':
        return rng.choice(['true', 'false', 'True', 'FALSE'])
    if c == 'i':
        lo = d['min'] if d['min'] is not None else -9
        hi = d['max'] if d['max'] is not None else 40
        return str(rng.randint(lo, hi))
    if c == 'c':
        return rng.choice(d['choices'])
    if c == 'a':
        src = d['choices'] or ARR
        return ','.join(rng.sample(src, rng.randint(0, len(src))))
    return rng.choice(FEAT)


ANY_VALUES = STRS + COMBO + ARR + FEAT + ['x,y', '3', '11', '-6', 'false', 'everything', '2']


def gen_value(rng, key, files, pvalid=0.85):
    sub, _, name = key.rpartition(':')
    if name in BUILTINS:
        if rng.random() < pvalid:
            return rng.choice(['true', 'false']) if name == 'werror' else rng.choice(BUILTINS[name][1])
        return rng.choice(ANY_VALUES)
    decls = {d['name']: d for d in files['sub' if sub else 'top']}
    if name in decls and rng.random() < pvalid:
        return valid_value(rng, decls[name])
    return rng.choice(ANY_VALUES)


def gen_key(rng, files, for_u=False):
    r = rng.random()
    topn = [d['name'] for d in files['top'] if d['name'] not in ('boom', 'late')]
    subn = [d['name'] for d in files['sub']]
    if for_u:
        if r < 0.5 and subn:
            return 'sub:' + rng.choice(subn)
        if r < 0.8:
            return 'sub:' + rng.choice(list(BUILTINS))
        if r < 0.86:
            return rng.choice(list(BUILTINS))
        if r < 0.93 and topn:
            return rng.choice(topn)
        return 'sub:' + rng.choice(SUB_NAMES)
    if r < 0.32 and topn:
        return rng.choice(topn)
    if r < 0.64 and subn:
        return 'sub:' + rng.choice(subn)
    if r < 0.74:
        return rng.choice(list(BUILTINS))
    if r < 0.86:
        return 'sub:' + rng.choice(list(BUILTINS))
    if r < 0.93:
        return rng.choice(TOP_NAMES)                 # possibly not declared
    if r < 0.98:
        return 'sub:' + rng.choice(SUB_NAMES)
    return rng.choice(['zz', 'sub:zz'])


def gen_dargs(rng, files, maxn=3, fail=0.0, pvalid=0.85):
    out = []
    for _ in range(rng.choice([0, 1, 1, 2, 2, 3][:maxn + 2])):
        k = gen_key(rng, files)
        if pvalid > 0.9 and resolve_name(k, files) is None:
            continue
        out.append([k, gen_value(rng, k, files, pvalid)])
    r = rng.random()
    if r < fail:
        out.insert(rng.randint(0, len(out)), ['boom', 'true'])
    elif r < 1.6 * fail:
        out.insert(rng.randint(0, len(out)), ['late', 'true'])
    return out


def resolve_name(k, files):
    sub, _, name = k.rpartition(':')
    if name in BUILTINS:
        return name
    return name if name in {d['name'] for d in files['sub' if sub else 'top']} else None


def gen_defaults(rng, files, where):
    out = []
    for _ in range(rng.choice([0, 0, 1, 2, 3])):
        r = rng.random()
        if where == 'top':
            if r < 0.4:
                k = rng.choice(TOP_NAMES)
            elif r < 0.7:
                k = 'sub:' + rng.choice(SUB_NAMES)
            elif r < 0.85:
                k = rng.choice(list(BUILTINS))
            else:
                k = 'sub:' + rng.choice(list(BUILTINS))
            v = gen_value(rng, k, files, 1.0)
        else:
            k = rng.choice(SUB_NAMES) if r < 0.7 else rng.choice(list(BUILTINS))
            v = gen_value(rng, 'sub:' + k, files, 1.0)
        if k not in [x[0] for x in out]:
            out.append([k, v])
    return out


def gen_case(rng, nsteps):
    files = gen_files(rng)
    # default_options only name options that the initial files declare (a project whose own
    # defaults are invalid cannot be configured at all); edits may later invalidate them
    def keep(l, part):
        names = {d['name'] for d in files[part]} | set(BUILTINS)
        res = []
        for k, v in l:
            sub, _, n = k.rpartition(':')
            names_k = {d['name'] for d in files['sub']} | set(BUILTINS) if (sub or part == 'sub') else names
            if n in names_k:
                res.append([k, v])
        return res
    cfg = {'topdef': keep(gen_defaults(rng, files, 'top'), 'top'),
           'subdef': keep(gen_defaults(rng, files, 'sub'), 'sub'),
           'calldef': keep(gen_defaults(rng, files, 'sub'), 'sub')}
    steps = [['S', gen_dargs(rng, files, fail=0.03, pvalid=0.95 if rng.random() < 0.9 else 0.5)]]
    cur = files
    given = [k for k, _ in steps[0][1] if k not in ('boom', 'late')]
    for _ in range(nsteps - 1):
        r = rng.random()
        if r < 0.26:
            args = []
            for _ in range(rng.choice([1, 1, 2, 2, 3])):
                if rng.random() < 0.3:
                    # sometimes a key that was given earlier (its option may have been removed since)
                    args.append([rng.choice(given) if given and rng.random() < 0.3 else gen_key(rng, cur, True), 'U'])
                else:
                    k = gen_key(rng, cur)
                    args.append([k, 'D', gen_value(rng, k, cur)])
            if rng.random() < 0.04:
                args.append([rng.choice(['boom', 'late']), 'D', rng.choice(['true', 'false'])])
            if rng.random() < 0.05:
                args = []
            steps.append(['C', args])
        elif r < 0.48:
            steps.append(['R', gen_dargs(rng, cur, fail=0.12)])
        elif r < 0.62:
            steps.append(['W', gen_dargs(rng, cur, maxn=2, fail=0.12)])
        elif r < 0.70:
            steps.append(['S', gen_dargs(rng, cur, maxn=2, fail=0.05)])
        else:
            cur = gen_files(rng, cur)
            steps.append(['E', cur])
        if steps[-1][0] in 'SRW':
            given += [k for k, _ in steps[-1][1] if k not in ('boom', 'late')]
        elif steps[-1][0] == 'C':
            given += [a[0] for a in steps[-1][1] if a[1] == 'D' and a[0] not in ('boom', 'late')]
    return {'cfg': cfg, 'files': files, 'steps': steps}


# ------------------------------------------------------------------ source tree
def q(s):
    return "'" + s + "'"


def render_options(decls):
    lines = []
    for d in decls:
        c = d['cls']
        typ = {'s': 'string', 'b': 'boolean', 'i': 'integer', 'c': 'combo', 'a': 'array', 'f': 'feature'}[c]
        kw = ["type: " + q(typ)]
        if c in 'scf':
            kw.append('value: ' + q(d['default']))
        elif c == 'b':
            kw.append('value: ' + ('true' if d['default'] else 'false'))
        elif c == 'i':
            kw.append('value: %d' % d['default'])
            if d['min'] is not None:
                kw.append('min: %d' % d['min'])
            if d['max'] is not None:
                kw.append('max: %d' % d['max'])
        else:
            kw.append('value: [' + ', '.join(q(x) for x in d['default']) + ']')
        if c == 'c' or (c == 'a' and d['choices']):
            kw.append('choices: [' + ', '.join(q(x) for x in d['choices']) + ']')
        if d['yield']:
            kw.append('yield: true')
        lines.append("option(%s, %s)" % (q(d['name']), ', '.join(kw)))
    return '\n'.join(lines) + '\n'


def render_messages(decls, proj, unstable=()):
    out = []
    for d in decls:
        if d['name'] in ('boom', 'late') or (proj, d['name']) in unstable:
            continue
        n = q(d['name'])
        if d['cls'] == 'f':
            out.append("message('OPT~%s~%s~@0@/@1@'.format(get_option(%s).enabled(), get_option(%s).disabled()))"
                       % (proj, d['name'], n, n))
        else:
            out.append("message('OPT~%s~%s~@0@'.format(get_option(%s)))" % (proj, d['name'], n))
    return '\n'.join(out) + '\n'


def deflist(l):
    return '[' + ', '.join(q('%s=%s' % (k, v)) for k, v in l) + ']'


def write_tree(src, cfg, files, unstable=()):
    """unstable: (project, name) of options whose type was changed by an edit - meson keeps the
    old option object, so a get_option() message written for the new type could fail."""
    os.makedirs(os.path.join(src, 'subprojects', 'sub'), exist_ok=True)
    top = ("project('p', default_options: %s)\n" % deflist(cfg['topdef'])
           + render_messages(files['top'], 'top', unstable)
           + "subproject('sub', default_options: %s)\n" % deflist(cfg['calldef'])
           + "if get_option('late')\n  meson.add_postconf_script(find_program('false'))\nendif\n"
           + "if get_option('boom')\n  error('boom')\nendif\n")
    sub = "project('sub', default_options: %s)\n" % deflist(cfg['subdef']) + render_messages(files['sub'], 'sub', unstable)
    for path, text in ((os.path.join(src, 'meson.build'), top),
                       (os.path.join(src, 'meson.options'), render_options(files['top'])),
                       (os.path.join(src, 'subprojects', 'sub', 'meson.build'), sub),
                       (os.path.join(src, 'subprojects', 'sub', 'meson.options'), render_options(files['sub']))):
        with open(path, 'w', encoding='utf-8') as f:
            f.write(text)


# ------------------------------------------------------------------ implementation side
class Adapter:
    def __init__(self):
        self.p = subprocess.Popen([PY, os.path.join(VERIF, 'harness', 'impl', 'c08.py')], stdin=subprocess.PIPE,
                                  stdout=subprocess.PIPE, text=True, env=impl_env(), cwd='/')

    def ask(self, req):
        self.p.stdin.write(json.dumps(req) + '\n')
        self.p.stdin.flush()
        line = self.p.stdout.readline()
        if not line:
            raise HarnessError('implementation adapter c08.py died')
        return json.loads(line)

    def close(self):
        try:
            self.p.stdin.close()
            self.p.wait(timeout=10)
        except Exception:
            self.p.kill()


_POOL = []                 # idle adapter processes, shared by all worker threads and all case sets
_POOL_LOCK = threading.Lock()
_ALL_ADAPTERS = []


class adapter:
    """with adapter() as ad: borrow an adapter process from the pool (start one if none is idle)"""
    def __enter__(self):
        with _POOL_LOCK:
            self.a = _POOL.pop() if _POOL else None
        if self.a is None:
            self.a = Adapter()
            with _POOL_LOCK:
                _ALL_ADAPTERS.append(self.a)
        return self.a

    def __exit__(self, et, ev, tb):
        if et is None:
            with _POOL_LOCK:
                _POOL.append(self.a)
        return False


def step_argv(step, bd, src):
    tag, payload = step
    if tag == 'C':
        return ['configure', bd] + [('-D%s=%s' % (a[0], a[2])) if a[1] == 'D' else ('-U' + a[0]) for a in payload]
    flag = {'S': [], 'R': ['--reconfigure'], 'W': ['--wipe']}[tag]
    return ['setup'] + flag + [bd, src] + ['-D%s=%s' % (k, v) for k, v in payload]


MSG = re.compile(r'Message: OPT~(\w+)~(\w+)~(.*)$', re.M)


def meson_forked(ad, argv):
    """one meson command in a child forked from the warmed-up adapter process (see impl/c08.py)"""
    r = ad.ask({'op': 'run', 'argv': argv, 'env': {'NINJA': os.path.join(VERIF, 'tools', 'fakeninja')}})
    if 'error' in r:
        raise HarnessError('forked meson runner failed: %s' % r['error'])
    return r['rc'], r['out']


def run_history(arg):
    """-> list of raw observations, one per step (Edit steps included).
    mode 'cli': every command is `python meson.py ...` in a subprocess;
    mode 'fork': every command runs in a fresh child forked from the adapter process."""
    root, case, cli_every = arg[:3]
    mode = arg[3] if len(arg) > 3 else 'cli'
    src, bd = os.path.join(root, 'src'), os.path.join(root, 'bd')
    os.makedirs(bd, exist_ok=True)
    files = case['files']
    classes = {}
    unstable = set()

    def note(fs):
        for part in ('top', 'sub'):
            for d in fs[part]:
                c = classes.setdefault((part, d['name']), d['cls'])
                if c != d['cls']:
                    unstable.add((part, d['name']))
    note(files)
    write_tree(src, case['cfg'], files)
    obs = []
    with adapter() as ad:
        obs = _run_steps(ad, case, files, src, bd, mode, cli_every, note, unstable)
    shutil.rmtree(root, ignore_errors=True)
    return obs


def _run_steps(ad, case, files, src, bd, mode, cli_every, note, unstable):
    obs = []
    for si, step in enumerate(case['steps']):
        o = {}
        if step[0] == 'E':
            files = step[1]
            note(files)
            write_tree(src, case['cfg'], files, unstable)
            o['rc'] = 0
            o['out'] = ''
        else:
            if mode == 'fork':
                o['rc'], o['out'] = meson_forked(ad, step_argv(step, bd, src))
                o['out'] = o['out'][-8000:]
            else:
                r = meson_cli(step_argv(step, bd, src), timeout=300)
                o['rc'] = r.returncode
                o['out'] = r.stdout[-6000:] + r.stderr[-1500:]
        o['state'] = ad.ask({'op': 'dump', 'bd': bd, 'watch': WATCH})
        if cli_every or si == len(case['steps']) - 1:
            if mode == 'fork':
                rc2, out2 = meson_forked(ad, ['introspect', '--buildoptions', bd])
            else:
                r2 = meson_cli(['introspect', '--buildoptions', bd], timeout=120)
                rc2, out2 = r2.returncode, r2.stdout
            o['cli_rc'] = rc2
            try:
                o['cli'] = {e['name']: {'value': e['value'], 'type': e['type'], 'choices': e.get('choices')}
                            for e in json.loads(out2) if e['name'].split(':')[-1] in WATCH} if rc2 == 0 else None
            except ValueError:
                o['cli'] = 'unparsable'
        obs.append(o)
    return obs


# ------------------------------------------------------------------ canonical observations
def kind_str(kind, choices):
    if kind == 'string':
        return 's'
    if kind == 'boolean':
        return 'b'
    if kind == 'feature':
        return 'f'
    if kind == 'integer':
        mn, mx = choices
        return 'i' + S5 + ('' if mn is None else str(mn)) + S5 + ('' if mx is None else str(mx))
    if kind == 'combo':
        return 'c' + ''.join(S5 + c for c in choices)
    if kind == 'array':
        return 'a' + ''.join(S5 + c for c in (choices or []))
    return '?' + kind


def intro_kind(kstr):
    """kind string -> what intro-buildoptions.json can show: (type, choices)."""
    t = kstr[0]
    ch = kstr.split(S5)[1:]
    if t == 'c':
        return ('combo', ch)
    if t == 'f':
        return ('combo', FEAT)
    if t == 'a':
        return ('array', ch or None)
    return ({'s': 'string', 'b': 'boolean', 'i': 'integer'}[t], None)


def canon_impl(o):
    st = o['state']
    c = {'rc': 'D' if o['rc'] == 0 else 'X'}
    cdv = st.get('coredata')
    if cdv is None:
        c['cd'] = None
    elif 'error' in cdv:
        c['cd'] = {'error': cdv['error']}
    else:
        c['cd'] = {'opts': {k: [kind_str(v['kind'], v['choices']), v['raw'], 'T' if v['yielding'] else 'F',
                                'E' if v['eff'].startswith('EXC:') else v['eff']]
                            for k, v in cdv['options'].items()},
                   'aug': dict(cdv['augments']),
                   'persub': {k: ('E' if v.startswith('EXC:') else v) for k, v in cdv['persub'].items()}}
    c['cl'] = st.get('cmd_line')
    iv = st.get('intro')
    if iv is None or 'error' in iv:
        c['intro'] = iv
    else:
        c['intro'] = {k: [v['type'], v['choices'], v['value']] for k, v in iv.items()}
    return c


def parse_store(s):
    if s == 'N':
        return None
    opts_s, aug_s, per_s = s[1:].split(S6)
    opts = {}
    for e in (opts_s.split(S3) if opts_s else []):
        k, kind, raw, y, eff = e.split(S4)
        opts[k] = [kind, raw, y, eff]
    aug = dict(e.split(S4) for e in aug_s.split(S3)) if aug_s else {}
    per = dict(e.split(S4) for e in per_s.split(S3)) if per_s else {}
    return {'opts': opts, 'aug': aug, 'persub': per}


def canon_model(step_str):
    rc, cd_s, cl_s, in_s = step_str.split(S2)
    c = {'rc': rc, 'cd': parse_store(cd_s)}
    c['cl'] = None if cl_s == 'N' else [e.split(S4) for e in (cl_s[1:].split(S3) if cl_s[1:] else [])]
    st = parse_store(in_s)
    if st is None:
        c['intro'] = None
    else:
        c['intro'] = {}
        # every option is listed with its EFFECTIVE value (get_value_for: the stored value, or the
        # parent's value for a yielding option), mintro._list_buildoptions.add_keys
        for k, (kind, raw, _, eff) in st['opts'].items():
            t, ch = intro_kind(kind)
            c['intro'][k[1:] if k.startswith(':') else k] = [t, ch, eff]
        # mintro._list_buildoptions also lists every per-subproject override of a built-in option
        # under its subproject-qualified name, with the overriding value and the type / choices of
        # the global option (the model's intro component is a snapshot of the whole store)
        for k, v in st['aug'].items():
            g = st['opts'].get(k.split(':', 1)[1])
            if g is not None:
                t, ch = intro_kind(g[0])
                c['intro'][k] = [t, ch, v]
    return c


def diff_obs(a, b):
    """first difference between two canonical observations (implementation, model)"""
    for f in ('rc', 'cd', 'cl', 'intro'):
        if a[f] != b[f]:
            if isinstance(a[f], dict) and isinstance(b[f], dict):
                for sub in a[f]:
                    if a[f].get(sub) != b[f].get(sub):
                        x, y = a[f].get(sub), b[f].get(sub)
                        if isinstance(x, dict) and isinstance(y, dict):
                            for k in sorted(set(x) | set(y)):
                                if x.get(k) != y.get(k):
                                    return '%s.%s[%s]: implementation %r, model %r' % (f, sub, k, x.get(k), y.get(k))
                        return '%s.%s: implementation %r, model %r' % (f, sub, x, y)
            return '%s: implementation %r, model %r' % (f, a[f], b[f])
    return None


# ------------------------------------------------------------------ wire encoding
def enc_sdict(l):
    return S3.join(k + S4 + v for k, v in l)


def enc_args(l):
    return S3.join(a[0] + S4 + ('D' + a[2] if a[1] == 'D' else 'U') for a in l)


def enc_pv(d):
    v = d['default']
    if isinstance(v, bool):
        return 'T' if v else 'F'
    if isinstance(v, int):
        return 'I' + str(v)
    if isinstance(v, list):
        return 'L' + S5.join(v)
    return 'S' + v


def enc_decl(d):
    c = d['cls']
    if c == 'i':
        k = 'i' + S5 + ('' if d['min'] is None else str(d['min'])) + S5 + ('' if d['max'] is None else str(d['max']))
    elif c in 'ca':
        k = c + ''.join(S5 + x for x in d['choices'])
    else:
        k = c
    return S4.join([d['name'], k, enc_pv(d), 'T' if d['yield'] else 'F'])


def enc_files(f):
    return S3.join(enc_decl(d) for d in f['top']) + S2 + S3.join(enc_decl(d) for d in f['sub'])


def enc_case(case):
    cfg = case['cfg']
    args = [S2.join([enc_sdict(cfg['topdef']), enc_sdict(cfg['subdef']), enc_sdict(cfg['calldef'])]),
            enc_files(case['files'])]
    for tag, payload in case['steps']:
        if tag == 'C':
            args.append('C' + S2 + enc_args(payload))
        elif tag == 'E':
            args.append('E' + S2 + enc_files(payload))
        else:
            args.append(tag + S2 + enc_sdict(payload))
    return ('hist', args)


# ------------------------------------------------------------------ case sets
def D(k, v):
    return [k, 'D', v]


def U(k):
    return [k, 'U']


def mk(name, cls, default, sub=False, **kw):
    d = {'name': name, 'cls': cls, 'min': None, 'max': None, 'choices': None, 'yield': False, 'default': default}
    d.update(kw)
    return d


def F(top, sub):
    return {'top': top + fixed_decls(), 'sub': sub}


def corpus():
    """hand-picked histories: every clause of the property, every repaired / known defect."""
    c3 = ['a', 'b', 'c']
    c4 = ['a', 'b', 'c', 'd']
    base = F([mk('s', 's', 'sd'), mk('c', 'c', 'a', choices=c3), mk('y', 's', 'topy'), mk('i', 'i', 3, min=0, max=10)],
             [mk('q', 's', 'qd'), mk('c', 'c', 'b', choices=c3, **{'yield': True}), mk('y', 's', 'suby', **{'yield': True}),
              mk('i', 'i', 5, min=0, max=10), mk('a', 'a', ['x'], choices=['x', 'y', 'z'])])
    cfg0 = {'topdef': [], 'subdef': [], 'calldef': []}
    cfg1 = {'topdef': [['sub:werror', 'true'], ['sub:q', 'fromtop'], ['s', 'topdef']],
            'subdef': [['q', 'subdef'], ['werror', 'false'], ['i', '3']], 'calldef': [['i', '7']]}
    top_c4 = F([mk('s', 's', 'sd'), mk('c', 'c', 'a', choices=c4), mk('y', 's', 'topy'), mk('i', 'i', 3, min=0, max=10)], base['sub'])
    sub_c4 = F(base['top'][:-2], [mk('q', 's', 'qd'), mk('c', 'c', 'b', choices=c4, **{'yield': True})] + base['sub'][2:])
    no_y = F([d for d in base['top'][:-2] if d['name'] != 'y'], base['sub'])
    no_s_q = F([d for d in base['top'][:-2] if d['name'] != 's'], [d for d in base['sub'] if d['name'] != 'q'])
    narrow = F([mk('s', 's', 'sd'), mk('c', 'c', 'a', choices=['a', 'b']), mk('y', 's', 'topy'), mk('i', 'i', 3, min=0, max=5)],
               [mk('q', 's', 'qd'), mk('c', 'c', 'b', choices=['a', 'b']), mk('i', 'i', 5, min=0, max=8),
                mk('a', 'a', ['y'], choices=['y', 'z'])])
    plus = F(base['top'][:-2] + [mk('b', 'b', True), mk('f', 'f', 'auto')],
             base['sub'] + [mk('b', 'b', False, **{'yield': True}), mk('f', 'f', 'enabled')])
    H = []
    # the hand-driven history of DESIGN.md
    H.append({'cfg': cfg1, 'files': base, 'steps': [
        ['S', [['s', '1'], ['sub:c', 'c']]], ['C', [D('sub:werror', 'false'), D('sub:y', 'own')]],
        ['C', [U('sub:werror'), U('sub:y')]], ['R', [['boom', 'true'], ['s', '2']]], ['R', [['s', '3']]], ['W', []]]})
    # late failure (known finding), then recovery
    H.append({'cfg': cfg0, 'files': base, 'steps': [
        ['S', [['s', '1']]], ['R', [['late', 'true'], ['s', '3']]], ['W', []], ['W', [['late', 'false']]]]})
    # choices of the parent change, then the parent is set (yield links, repaired)
    H.append({'cfg': cfg0, 'files': base, 'steps': [
        ['S', [['c', 'c']]], ['E', top_c4], ['R', []], ['C', [D('c', 'd')]], ['C', [D('sub:c', 'a')]], ['C', [U('sub:c')]], ['R', []]]})
    # choices of the yielding child change (AttributeError before the repair)
    H.append({'cfg': cfg0, 'files': base, 'steps': [
        ['S', [['c', 'c']]], ['E', sub_c4], ['R', []], ['C', [D('c', 'a')]], ['R', []]]})
    # the parent is removed, the child is overridden and released
    H.append({'cfg': cfg0, 'files': base, 'steps': [
        ['S', [['y', 'user']]], ['E', no_y], ['C', [D('werror', 'true')]], ['C', [D('sub:y', 'own')]], ['C', [U('sub:y')]], ['R', []]]})
    # removed options that are recorded in cmd_line.txt (known finding)
    H.append({'cfg': cfg0, 'files': base, 'steps': [
        ['S', [['s', '1'], ['sub:q', '2'], ['sub:i', '9']]], ['E', no_s_q], ['C', [D('c', 'b')]], ['R', []], ['C', [U('sub:q')]], ['W', []],
        ['R', [['c', 'c']]], ['C', [U('s'), D('c', 'a')]], ['W', []]]})
    # a reconfigure that changes something and then fails in the unknown-option check
    # (after coredata.dat was dumped) must restore coredata.dat
    H.append({'cfg': cfg0, 'files': base, 'steps': [
        ['S', [['s', '1']]], ['E', no_s_q], ['R', [['c', 'b'], ['sub:i', '2']]], ['C', [D('c', 'c')]], ['R', [['sub:i', '4']]]]})
    # choices / range shrink: valid values stay, invalid fall back; then wipe rejects the recorded value
    H.append({'cfg': cfg0, 'files': base, 'steps': [
        ['S', [['c', 'c'], ['sub:i', '9'], ['i', '4'], ['sub:a', 'x,y']]], ['E', narrow], ['R', []], ['W', []], ['W', [['c', 'a'], ['sub:i', '1'], ['sub:a', 'y']]]]})
    # failed wipe, then plain setup keeps the record (repaired)
    H.append({'cfg': cfg1, 'files': base, 'steps': [
        ['S', [['sub:i', '9']]], ['S', [['s', 'viaSetup']]], ['S', []], ['C', [U('sub:i'), U('sub:werror')]],
        ['W', [['boom', 'true']]], ['S', [['sub:q', 'afterfail']]], ['W', []]]})
    # new options appear; configure can set them at once, reconfigure cannot
    H.append({'cfg': cfg0, 'files': base, 'steps': [
        ['S', []], ['E', plus], ['R', [['b', 'false']]], ['C', [D('b', 'false'), D('sub:f', 'disabled')]], ['R', []], ['W', []]]})
    # atomicity of a failing configure; overrides of builtins
    H.append({'cfg': cfg0, 'files': base, 'steps': [
        ['S', [['werror', 'true']]], ['C', [D('s', 'ok'), D('c', 'nope')]], ['C', [D('sub:warning_level', '3'), D('sub:werror', 'false')]],
        ['C', [U('sub:warning_level')]], ['C', [D('warning_level', '0'), U('sub:werror')]], ['R', [['zz', '1']]], ['C', [U('s')]], ['W', []]]})
    # configure persists boom, every reconfigure then fails early and changes nothing
    H.append({'cfg': cfg0, 'files': base, 'steps': [
        ['S', []], ['C', [D('boom', 'true'), D('s', 'kept')]], ['R', [['s', 'lost']]], ['W', []], ['S', [['boom', 'false']]], ['C', [D('s', 'after')]]]})
    # an override equal to the stored / inherited value must still be saved (repaired)
    H.append({'cfg': cfg0, 'files': base, 'steps': [
        ['S', []], ['C', [D('sub:y', 'suby')]], ['C', [D('y', 'other')]], ['C', [D('sub:werror', 'false')]], ['C', [D('werror', 'true')]],
        ['R', []]]})
    # -U of a yielding boolean option whose parent is false (bool(parent) is the parent's value)
    H.append({'cfg': cfg0, 'files': plus, 'steps': [
        ['S', []], ['C', [D('b', 'false'), D('sub:b', 'true')]], ['C', [U('sub:b')]], ['C', [D('b', 'true')]], ['R', []]]})
    # ONE bound of an integer range moves: a stored value outside the new range falls back, one
    # inside stays, a value in the widened part is accepted by the next configure / reconfigure
    def ifiles(tmax, smin, smax):
        return F([mk('s', 's', 'sd'), mk('i', 'i', 3, min=0, max=tmax)], [mk('i', 'i', 5, min=smin, max=smax), mk('q', 's', 'qd')])
    H.append({'cfg': cfg0, 'files': ifiles(10, 0, 10), 'steps': [
        ['S', [['i', '8'], ['sub:i', '4']]], ['E', ifiles(5, 0, 6)], ['R', []], ['E', ifiles(50, -5, 6)],
        ['C', [D('i', '40'), D('sub:i', '-2')]], ['E', ifiles(50, -5, 20)], ['R', []], ['R', [['sub:i', '15']]]]})
    # unusual string values through setup / configure / reconfigure / wipe
    H.append({'cfg': cfg0, 'files': base, 'steps': [
        ['S', [['s', 'a%b'], ['sub:q', 'x=y']]], ['C', [D('s', '%(y)s'), D('y', 'k:v')]], ['R', [['sub:q', '#c;d']]], ['W', []],
        ['C', [D('s', ' lead'), D('sub:q', 'a b')]], ['R', []], ['W', []]]})
    # a yielding option that the user overrode keeps the override when its OWN choices change and the
    # value stays valid; it must not start following the parent again
    sub_c4_only = F(base['top'][:-2], [mk('q', 's', 'qd'), mk('c', 'c', 'b', choices=c4, **{'yield': True})] + base['sub'][2:])
    H.append({'cfg': cfg0, 'files': base, 'steps': [
        ['S', [['c', 'c']]], ['C', [D('sub:c', 'b')]], ['E', sub_c4_only], ['R', []], ['C', [D('c', 'a')]], ['R', []],
        ['E', base], ['C', [D('werror', 'true')]], ['C', [D('c', 'b')]], ['R', []]]})
    # duplicates on one command line, -D then -U of the same key
    H.append({'cfg': cfg0, 'files': base, 'steps': [
        ['S', [['s', '1'], ['s', '2']]], ['C', [D('sub:werror', 'true'), U('sub:werror')]], ['C', [U('sub:werror'), D('sub:werror', 'true')]],
        ['C', []], ['R', []]]})
    return H


def small_alphabet():
    c3 = ['a', 'b', 'c']
    A = F([mk('s', 's', 'sd'), mk('c', 'c', 'a', choices=c3)], [mk('c', 'c', 'b', choices=c3, **{'yield': True}), mk('q', 's', 'qd')])
    B = F([mk('c', 'c', 'b', choices=['b', 'c', 'd'])], [mk('c', 'c', 'b', choices=['b', 'c'], **{'yield': True}), mk('i', 'i', 2, min=0, max=4)])
    alpha = [['S', [['s', '1']]], ['C', [D('sub:c', 'c')]], ['C', [U('sub:c')]], ['C', [D('c', 'c'), D('sub:werror', 'true')]],
             ['R', []], ['R', [['boom', 'true'], ['c', 'b']]], ['W', []], ['E', B], ['E', A], ['C', [U('s')]]]
    return A, alpha


def enumerate_small(thorough):
    """all histories "setup -Dc=c; x1..xk" with k <= 2 (quick) / k <= 3 (thorough) over the alphabet"""
    A, alpha = small_alphabet()
    cfg = {'topdef': [], 'subdef': [['c', 'c']], 'calldef': []}
    out = []
    for k in range(1, (3 if thorough else 2) + 1):
        for seq in itertools.product(alpha, repeat=k):
            out.append({'cfg': cfg, 'files': A, 'steps': [['S', [['c', 'c'], ['s', 'x']]]] + [list(s) for s in seq]})
    return out


# ------------------------------------------------------------------ running
def classify(case):
    tags = ''.join(s[0] for s in case['steps'])
    return tags


def evaluate(ctx, cases, built, cli_every, label, mode='cli'):
    """run implementation + model on the cases, record disagreements, return per-case
    (canonical implementation observations, raw observations)."""
    base = ctx.mkscratch()
    jobs = [(os.path.join(base, '%s%05d' % (label, i)), c, cli_every, mode) for i, c in enumerate(cases)]
    raw = pmap(run_history, jobs)
    wire = [enc_case(c) for c in cases]
    model = ctx.run_model(wire) if built else [None] * len(cases)
    results = []
    for i, (case, obs, mo) in enumerate(zip(cases, raw, model)):
        impl_c = [canon_impl(o) for o in obs]
        results.append((impl_c, obs))
        ctx.count((label, json.dumps(case, sort_keys=True)), nontrivial=True)
        ctx.cov['traces_validated_against_impl'] += 1
        if mo is None:
            continue
        msteps = mo.split(S1)
        if len(msteps) != len(impl_c):
            ctx.disagreements.append({'case': case, 'what': 'model returned %d steps for %d' % (len(msteps), len(impl_c))})
            continue
        for si, (a, ms) in enumerate(zip(impl_c, msteps)):
            b = canon_model(ms)
            d = diff_obs(a, b)
            if d:
                if len(ctx.disagreements) < 200:
                    ctx.disagreements.append({'set': label, 'index': i, 'step': si, 'command': case['steps'][si] if case['steps'][si][0] != 'E' else ['E'],
                                              'difference': d, 'case': case})
                break
    return wire, model, results


def oracle(ctx, cases, results, label):
    with adapter() as ad:
        return _oracle(ctx, cases, results, label, ad)


def _oracle(ctx, cases, results, label, ad):
    nfail = 0
    for i, (case, (impl_c, obs)) in enumerate(zip(cases, results)):
        msgs = [[list(m) for m in MSG.findall(o['out'])] for o in obs]
        flags = [{'internal': ('Unhandled python exception' in o['out']) or o['rc'] not in (0, 1),
                  'cli': o.get('cli', 'skip'), 'cli_rc': o.get('cli_rc')} for o in obs]
        res = ad.ask({'op': 'oracle', 'case': case, 'obs': impl_c, 'messages': msgs, 'flags': flags})
        if 'error' in res:
            raise HarnessError('oracle failed: %s' % res['error'])
        for f in res['failures']:
            nfail += 1
            prefix = {'cfg': case['cfg'], 'files': case['files'], 'steps': case['steps'][:f['step'] + 1]}
            ctx.violation(f['id'], 'history %s#%d step %d (%s): %s' % (label, i, f['step'], f['clause'], f['what']),
                          {'case': prefix, 'failure': f})
    return nfail


def replay(ctx):
    rec = json.load(open(ctx.replay))
    r = rec['replay']
    case = r['case']
    print('replaying a history of %d steps' % len(case['steps']))
    built = ctx.build('Props/C08.v', 'Options/LcExtract.v', 'C08')
    wire, model, results = evaluate(ctx, [case], built, True, 'replay')
    impl_c, obs = results[0]
    msteps = model[0].split(S1) if model[0] else []
    for si, step in enumerate(case['steps']):
        print('--- step %d: %s' % (si, json.dumps(step if step[0] != 'E' else ['E', '(option files rewritten)'])))
        print('implementation:', json.dumps(impl_c[si], sort_keys=True))
        if msteps:
            mc = canon_model(msteps[si])
            print('model         :', json.dumps(mc, sort_keys=True))
            d = diff_obs(impl_c[si], mc)
            if d:
                print('DIFFERENCE    :', d)
    oracle(ctx, [case], results, 'replay')
    for v in ctx.violations:
        print('property clause failing on the implementation:', v['what'])
    for h in ctx.known_hits:
        print('known finding reproduced:', h['id'])
    for a in _ALL_ADAPTERS:
        a.close()
    ctx.cleanup()
    return 0


def run(ctx):
    if ctx.replay:
        return replay(ctx)
    rng = ctx.rng
    thorough = ctx.tier == 'thorough'
    built = ctx.build('Props/C08.v', 'Options/LcExtract.v', 'C08')
    # Three streams.  'cli': every command is a `python meson.py ...` subprocess (the corpus and a
    # random sample).  'fork': every command runs in a fresh child forked from a warmed-up process
    # that calls mesonbuild.mesonmain.run - same code path and process isolation, without the
    # 0.6 s interpreter start, which buys ~7x more histories per second.
    scale = float(os.environ.get('VERIF_C08_SCALE', '1'))     # shrinks the thorough streams for smoke runs
    ncli = int(120 * scale) if thorough else 8
    nfork = int(3000 * scale) if thorough else 170
    sets = [('corpus', corpus(), 'cli'),
            ('random-cli', [gen_case(rng, rng.randint(3, 7)) for _ in range(ncli)], 'cli'),
            ('random', [gen_case(rng, rng.randint(2, 7)) for _ in range(nfork)], 'fork'),
            ('exhaustive', enumerate_small(thorough), 'fork')]
    allwire, allmodel = [], []
    dist = {}
    nsteps = 0
    for label, cases, mode in sets:
        wire, model, results = evaluate(ctx, cases, built, thorough and mode == 'cli', label, mode)
        allwire += wire
        allmodel += model
        oracle(ctx, cases, results, label)
        for case, (impl_c, obs) in zip(cases, results):
            for st, o in zip(case['steps'], impl_c):
                nsteps += 1
                key = st[0] + ('+' if o['rc'] == 'D' else '-')
                dist[key] = dist.get(key, 0) + 1
        ctx.extra['histories_' + label] = len(cases)
    for a in _ALL_ADAPTERS:
        a.close()
    ctx.extra['exhaustive'] = True
    ctx.extra['exhaustive_note'] = ('all histories "setup; x1..xk" with k <= %d over an alphabet of 10 commands'
                                    % (3 if thorough else 2))
    ctx.extra['steps'] = nsteps
    ctx.extra['step_distribution'] = dist      # command kind + success(+)/failure(-)
    for label, cases, _ in sets[:3]:
        for c in cases[:2]:
            ctx.sample({'set': label, 'steps': [s if s[0] != 'E' else ['E', '...'] for s in c['steps']], 'cfg': c['cfg']})
    if built and all(m is not None for m in allmodel):
        ctx.kernel_crosscheck('Options.LcEntry', allwire, allmodel, limit=300 if thorough else 40)
    return ctx.finish(
        level='proof',
        trusted=['Coq 8.16.1 kernel (coqc, vm_compute; no native_compute)',
                 'extraction with ExtrOcamlBasic directives only + OCaml + extract/driver.ml (cross-checked in-kernel on a sample each run)',
                 'harness/check_C08.py (generators, tree writer, CLI driver, canonicaliser) and harness/impl/c08.py (state reader, oracle)',
                 'the state reader loads coredata.dat with the tree under test (mesonbuild.coredata.load) and reports OptionStore.get_value_for',
                 'model covers the project family of check_C08.py: two project option files, two global builtin options; not modelled: '
                 'machine files, prefix/buildtype side effects, compiler/base/backend options, several subprojects, deleted option files'],
        assumptions=['Print Assumptions: all property theorems closed under the global context (no axioms)',
                     'option names without "_", ".", ":"; values without blanks at the ends, "[" or newlines'],
        rule='histories (first step meson setup, then setup / configure -D -U / setup --reconfigure / setup --wipe / option-file edits, '
             'with early (error()) and late (postconf script) injected failures) on a generated two-project family; after every step the '
             'persisted state (coredata.dat effective+raw values, yielding flags, augments; cmd_line.txt; intro-buildoptions.json) is compared '
             'with the extracted Coq model and judged by the oracle; distinct = distinct histories; every history exercises persistence so all are non-trivial')
