"""C14 — template substitution replaces exactly the placeholders and nothing else.
Theorems: coq/Props/C14.v.  Model: coq/Subst/{Data,Meson,CMake,Conf,Header}.v.
Implementation: mesonbuild/utils/universal.py (do_conf_str/do_conf_file/do_replacement*,
do_define_*, dump_conf_header), observed in-process and through configure_file() (CLI sample)."""
import itertools, json, os, re
from common import *

SEP1, SEP2 = '\x01', '\x02'
NAMECH = set('abcdefghijklmnopqrstuvwxyzABCDEFGHIJKLMNOPQRSTUVWXYZ0123456789-_')
CMCH = set('abcdefghijklmnopqrstuvwxyzABCDEFGHIJKLMNOPQRSTUVWXYZ0123456789_/.+-')

# ------------------------------------------------------------------ configuration data
KEYS = ['A', 'B', 'X', 'Y', 'var1', 'var2', 'N', 'T', 'F', 'Z', 'n-1', '_u', 'a', 'b', 'ab']
CM_KEYS = ['a/b.c', 'p+q', 'cmakedefine', 'VAR']
UNDEF = ['nope', 'U2', 'undefined_1', 'q']
STRS = ['', 'foo', 'bar baz', '"quoted"', 'True', '0', 'x', 'é€', 'a\\b', '\\', '\\\\', '@', 'a@', '@b', '$', '${', '}',
        ' lead', 'trail ', '#mesondefine A', 'X', 'tab\there', 'smile\U0001F600', 'del\x7f', 'bs\x08"q"', 'nl\nx']
INTS = [0, 1, -5, 42, 12345678901234567890, 7]
DESCS = ['', '', '', 'a description', 'two\nlines', 'star */ slash', 'cr\r\nlf', 'é', ' ', 'x\x0by\x85z']


def ref_value(rng, targets):
    """a value that looks like a placeholder (or several) naming one of targets"""
    t = rng.choice(targets)
    return rng.choice(['@%s@', 'q@%s@', '@%s@z', '${%s}', 'x${%s}y', '\\@%s\\@', '\\\\@%s@', '@%s@@%s@' % (t, '%s'),
                       '${${%s}}', '@%s', '%s@']) .replace('%s', t)


def gen_data(rng, cmake=False, cyclic=False, header=False):
    pool = KEYS + (CM_KEYS if cmake else [])
    n = rng.choice([0, 1, 2, 3, 4, 5, 6, 8])
    ks = rng.sample(pool, min(n, len(pool)))
    if rng.random() < 0.03:
        ks.append('')
    if header and rng.random() < 0.08:
        ks.append(rng.choice(['has space', 'at@key', 'é', 'q"uote', 'back\\slash', 'smile\U0001F600', 'nl\nkey']))
    d = []
    for i, k in enumerate(ks):
        r = rng.random()
        if r < 0.45:
            v = rng.choice(STRS)
        elif r < 0.65:
            # placeholder-looking value; acyclic unless asked: refer only to later keys / undefined names
            targets = (ks if cyclic else ks[i + 1:]) + [rng.choice(UNDEF)]
            v = ref_value(rng, [t for t in targets if t] or UNDEF)
        elif r < 0.83:
            v = rng.choice(INTS)
        else:
            v = rng.random() < 0.5
        desc = rng.choice(DESCS) if header else ''
        d.append((k, v, desc))
    return d


def enc_data(d):
    out = []
    for k, v, desc in d:
        if isinstance(v, bool):
            kind, s = 'b', 'T' if v else 'F'
        elif isinstance(v, int):
            kind, s = 'i', str(v)
        else:
            kind, s = 's', v
        out.append(SEP1.join([k, kind, s, desc]))
    return SEP2.join(out)


# ------------------------------------------------------------------ raw templates (correspondence)
EOLS = ['\n', '\n', '\n', '\r\n', '\r\n', '\r', '']
FILLER = ['word', ' ', '  ', '\t', '#', 'é', '€', ':', '-', '_', '1', 'x y', '"', "'", '%', '\x0b', '\xa0', '/*', '*/',
          '#define ', 'define', '=', '.', '/', '+']


def names(rng, d, cmake=False):
    ks = [k for k, _, _ in d] or ['A']
    r = rng.random()
    if r < 0.7:
        return rng.choice(ks)
    if r < 0.9:
        return rng.choice(UNDEF)
    return rng.choice(['', 'a b', 'a/b', 'é', 'A@', '-'] + (CM_KEYS if cmake else []))


def gen_line_meson(rng, d):
    parts = []
    for _ in range(rng.choice([0, 1, 1, 2, 2, 3, 3, 4, 5, 6, 8])):
        k = names(rng, d)
        r = rng.random()
        if r < 0.3:
            parts.append('@' + k + '@')
        elif r < 0.38:
            parts.append('\\@' + k + '\\@')
        elif r < 0.43:
            parts.append(rng.choice(['\\@' + k + '@', '@' + k + '\\@', '@' + k, k + '@', '\\\\@' + k + '\\@', '\\\\\\@' + k + '\\@',
                                     '\\' * 5 + '@' + k + '\\@', '\\' * 4 + '@' + k + '@', '\\' * 7 + '@' + k + '\\@', 'dev@example.org @' + k + '@']))
        elif r < 0.58:
            parts.append('\\' * rng.choice([1, 1, 2, 2, 3, 4, 5, 6]))
        elif r < 0.66:
            parts.append(rng.choice(['@', '@@', '@ @', '@\\', '\\@']))
        elif r < 0.74:
            parts.append(rng.choice(['$', '{', '}', '${', '${' + k + '}', '$' + k]))
        elif r < 0.8:
            parts.append(k)
        else:
            parts.append(rng.choice(FILLER))
    return ''.join(parts)


def gen_line_cmake(rng, d):
    parts = []
    for _ in range(rng.choice([0, 1, 1, 2, 2, 3, 3, 4, 5, 6, 8])):
        k = names(rng, d, True)
        r = rng.random()
        if r < 0.25:
            parts.append('@' + k + '@')
        elif r < 0.5:
            parts.append('${' + k + '}')
        elif r < 0.58:
            k2 = names(rng, d, True)
            parts.append(rng.choice(['${${' + k + '}}', '${' + k + '${' + k2 + '}}', '${@' + k + '@}', '${' + k2 + '@' + k + '@}',
                                     '${' + k + '\n}', '${${' + k + '}' + k2 + '}']))
        elif r < 0.64:
            parts.append(rng.choice(['${' + k, '${' + k + ' }', '${', '$', '{', '}', '$' + k, '${' + k + '}}', '$${' + k + '}', '${a b}', '${a\\b}']))
        elif r < 0.72:
            parts.append(rng.choice(['@', '@@', '@ @', '@' + k, k + '@', '\\@', '@' + k + ' @', '\\@' + k + '@', 'dev@example.org @' + k + '@',
                                     'a@b.c ${' + k + '} x@y', 'joe@${' + k + '}, ann@${' + k + '}', '@(' + k + ')@' + k + '@']))
        elif r < 0.78:
            parts.append('\\' * rng.choice([1, 2, 3]))
        elif r < 0.84:
            parts.append(k)
        else:
            parts.append(rng.choice(FILLER))
    return ''.join(parts)


LEAD = ['', '', '', ' ', '\t', '  ', '\x0c', '\xa0 ']
MID = [' ', ' ', ' ', '  ', '\t', ' \t ', '\x0b', '']
TRAIL = ['', '', '', ' ', '\t  ', '\xa0']


def gen_define_meson(rng, d):
    k = names(rng, d)
    r = rng.random()
    if r < 0.75:
        return rng.choice(LEAD) + '#mesondefine' + rng.choice(MID) + k + rng.choice(TRAIL)
    if r < 0.85:
        return rng.choice(LEAD) + '#mesondefine' + rng.choice(MID) + k + ' ' + rng.choice(['B', 'extra', '@A@', '1'])
    return rng.choice(['#mesondefine', '#mesondefine ', '# mesondefine ' + k, 'x #mesondefine ' + k, '#mesondefine\t',
                       '#cmakedefine ' + k, ' # cmakedefine', 'x #\tcmakedefine01 ' + k, '#mesondefine' + k + ' ' + k])


def gen_define_cmake(rng, d):
    k = names(rng, d, True)
    r = rng.random()
    kw = rng.choice(['cmakedefine', 'cmakedefine', 'cmakedefine01', 'cmakedefine01', 'cmakedefineX'])
    head = rng.choice(LEAD) + '#' + rng.choice(['', '', '', ' ', '\t', '  ']) + kw
    if r < 0.45:
        return head + rng.choice(MID[:-1]) + k + rng.choice(TRAIL)
    if r < 0.85:
        toks = []
        for _ in range(rng.randint(1, 4)):
            k2 = names(rng, d, True)
            toks.append(rng.choice([k2, '@' + k2 + '@', '${' + k2 + '}', '"@' + k2 + '@"', 'word', '1', 'cmakedefine01', '"${' + k2 + '}"', '${' + k2]))
        return head + rng.choice(MID[:-1]) + k + ' ' + rng.choice([' ', '\t', '']).join([toks[0]] + [' ' + t for t in toks[1:]]) + rng.choice(TRAIL)
    return rng.choice(['#cmakedefine', '#cmakedefine01', '# cmakedefine ', head, '#mesondefine ' + k, 'x #mesondefine ' + k,
                       'x #cmakedefine ' + k, '#', '# ', '#c', ' #cmakedefin ' + k])


def gen_text(rng, d, fmt):
    lines = []
    for _ in range(rng.choice([1, 1, 1, 2, 2, 3, 4, 6])):
        if rng.random() < 0.22:
            l = gen_define_meson(rng, d) if fmt == 'meson' else gen_define_cmake(rng, d)
            if rng.random() < 0.06:       # the other format's define line (a format error)
                l = gen_define_cmake(rng, d) if fmt == 'meson' else gen_define_meson(rng, d)
        else:
            l = gen_line_meson(rng, d) if fmt == 'meson' else gen_line_cmake(rng, d)
        lines.append(l + rng.choice(EOLS))
    return ''.join(lines)


# ------------------------------------------------------------------ segment templates (oracle)
def m_render(seg):
    k = seg[0]
    return {'L': lambda: seg[1], 'V': lambda: '@' + seg[1] + '@',
            'E': lambda: '\\' * (2 * seg[1] + 1) + '@' + seg[2] + '\\@',
            'BA': lambda: '\\' * seg[1] + '@', 'B': lambda: '\\' * seg[1], 'A': lambda: '@'}[k]()


def c_render(seg):
    k = seg[0]
    if k == 'L': return seg[1]
    if k == 'V': return '@' + seg[1] + '@'
    if k == 'B': return '${' + ''.join(p if isinstance(p, str) else c_render(p) for p in seg[1]) + '}'
    if k == 'A': return '@'
    if k == 'D': return '$'


PLAIN = ['word', ' ', '\t', 'é€', ':', '-', '_', 'x1', '"', '${', '}', '$', '{', '#x', '/', '.', 'name', '\x0b']


def span_name(t):
    i = 0
    while i < len(t) and t[i] in NAMECH:
        i += 1
    return t[:i], t[i:]


def m_parse(text):
    """the (complete) segment grammar of the meson format: text -> well-formed segment list"""
    segs, i, n = [], 0, len(text)
    lit = ''

    def flush():
        nonlocal lit
        if lit:
            segs.append(['L', lit])
            lit = ''
    while i < n:
        c = text[i]
        if c == '\\':
            j = i
            while j < n and text[j] == '\\':
                j += 1
            run = j - i
            flush()
            if j < n and text[j] == '@':
                v, r = span_name(text[j + 1:])
                if run % 2 == 1 and v and r.startswith('\\@'):
                    segs.append(['E', run // 2, v])
                    i = j + 1 + len(v) + 2
                else:
                    segs.append(['BA', run])
                    i = j + 1
            else:
                segs.append(['B', run])
                i = j
        elif c == '@':
            v, r = span_name(text[i + 1:])
            flush()
            if v and r.startswith('@'):
                segs.append(['V', v])
                i += len(v) + 2
            else:
                segs.append(['A'])
                i += 1
        else:
            lit += c
            i += 1
    flush()
    return segs


def c_parse(text, at_only):
    """segment reading of a cmake-format line (None when the line is outside the grammar the oracle covers)"""
    segs, i, n, lit = [], 0, len(text), ''

    def flush():
        nonlocal lit
        if lit:
            segs.append(['L', lit])
            lit = ''

    def parts(s):
        out, k, cur = [], 0, ''
        while k < len(s):
            if s.startswith('${', k):
                depth, e = 1, k + 2
                while e < len(s) and depth:
                    if s.startswith('${', e):
                        depth += 1; e += 2
                    elif s[e] == '}':
                        depth -= 1; e += 1
                    else:
                        e += 1
                if depth: return None
                if cur: out.append(cur); cur = ''
                p = parts(s[k + 2:e - 1])
                if p is None: return None
                out.append(['B', p]); k = e
            elif s[k] == '@':
                j = s.find('@', k + 1)
                if j > k + 1 and all(ch in CMCH for ch in s[k + 1:j]):
                    if cur: out.append(cur); cur = ''
                    out.append(['V', s[k + 1:j]]); k = j + 1
                else:
                    return None
            elif s[k] in CMCH:
                cur += s[k]; k += 1
            else:
                return None
        if cur: out.append(cur)
        return out
    while i < n:
        c = text[i]
        if c == '@':
            j = text.find('@', i + 1)
            flush()
            if j > i + 1 and all(ch in CMCH for ch in text[i + 1:j]):
                segs.append(['V', text[i + 1:j]]); i = j + 1
            else:
                segs.append(['A']); i += 1
        elif c == '$' and not at_only:
            flush()
            if text.startswith('${', i):
                depth, e = 1, i + 2
                while e < n and depth:
                    if text.startswith('${', e):
                        depth += 1; e += 2
                    elif text[e] == '}':
                        depth -= 1; e += 1
                    else:
                        e += 1
                if depth: return None
                p = parts(text[i + 2:e - 1])
                if p is None: return None
                segs.append(['B', p]); i = e
            else:
                segs.append(['D']); i += 1
        else:
            lit += c; i += 1
    flush()
    return segs


def gen_segs_meson(rng, d):
    segs = []
    for _ in range(rng.choice([1, 2, 3, 3, 4, 5, 6, 8])):
        k = names(rng, d)
        if not k or any(c not in NAMECH for c in k):
            k = 'A'
        r = rng.random()
        if r < 0.3: segs.append(['V', k])
        elif r < 0.4: segs.append(['E', rng.choice([0, 0, 0, 1, 2]), k])
        elif r < 0.5: segs.append(['BA', rng.choice([1, 2, 3, 4, 5])])
        elif r < 0.58: segs += [['B', rng.choice([1, 2, 3, 4])], ['L', rng.choice(PLAIN)]]
        elif r < 0.66: segs += [['A'], ['L', rng.choice([' ', ':', 'é', '$', '{', '.', k + ' '])]]
        elif r < 0.72: segs.append(['L', k])
        else: segs.append(['L', rng.choice(PLAIN)])
    if rng.random() < 0.1:
        segs.append(rng.choice([['A'], ['B', 2], ['B', 1]]))
    return segs


def gen_segs_cmake(rng, d, at_only):
    def cname():
        k = names(rng, d, True)
        return k if k and all(c in CMCH for c in k) else 'A'
    segs = []
    for _ in range(rng.choice([1, 2, 3, 3, 4, 5, 6, 8])):
        r = rng.random()
        if r < 0.3: segs.append(['V', cname()])
        elif r < 0.55 and not at_only:
            r2 = rng.random()
            if r2 < 0.6: segs.append(['B', [cname()]])
            elif r2 < 0.7: segs.append(['B', []])
            elif r2 < 0.8: segs.append(['B', [['B', [cname()]]]])
            elif r2 < 0.9: segs.append(['B', [rng.choice(['a', 'var', 'n-']), ['B', [cname()]]]])
            else: segs.append(['B', [['V', cname()]]])
        elif r < 0.62: segs += [['A'], ['L', rng.choice([' ', ':', 'é', '{', 'a b', ''])]]
        elif r < 0.68 and not at_only: segs += [['D'], ['L', rng.choice([' ', 'x', '}', ''])]]
        elif r < 0.74: segs.append(['L', '\\' * rng.choice([1, 2, 3])])
        elif r < 0.8: segs.append(['L', cname()])
        else: segs.append(['L', rng.choice([p for p in PLAIN if '$' not in p or at_only])])
    return segs


def gen_oracle_template(rng, fmt, cyclic=False):
    d = gen_data(rng, cmake=fmt != 'meson', cyclic=cyclic)
    lines = []
    nl = rng.choice([1, 1, 2, 3, 4])
    for li in range(nl):
        eol = rng.choice(EOLS if li == nl - 1 else EOLS[:-1])     # only the last line may lack a terminator
        r = rng.random()
        if r < 0.75:
            segs = gen_segs_meson(rng, d) if fmt == 'meson' else gen_segs_cmake(rng, d, fmt == 'cmake@')
            lines.append(['S', segs, eol])
        else:
            k = names(rng, d, fmt != 'meson')
            if not k or any(c.isspace() for c in k):
                k = 'A'
            lead, mid, trail = rng.choice(LEAD), rng.choice(MID[:-1]), rng.choice(TRAIL)
            if fmt == 'meson':
                lines.append(['M', lead, mid, k, trail, eol])
            elif rng.random() < 0.4:
                toks = [[rng.choice([' ', '  ', '\t']), rng.choice([names(rng, d, True), 'word', '42', '"q"', 'x=y', 'B'])] for _ in range(rng.randint(1, 4))]
                lines.append(['CT', lead, rng.choice(['', '', ' ', '\t']), mid, k, toks, trail, eol])
            else:
                lines.append(['C', lead, rng.choice(['', '', ' ', '\t']), rng.choice(['cmakedefine', 'cmakedefine01']), mid, k, trail, eol])
    o = {'o': 'template', 'fmt': fmt, 'data': enc_data(d), 'lines': lines}
    if rng.random() < 0.2:
        o['via'] = 'file'
    return o


def gen_oracle_header(rng):
    d = [(k, v, desc) for k, v, desc in gen_data(rng, cmake=False, header=True)
         if k and not (isinstance(v, str) and ('\n' in v or '\r' in v))]
    d = [(k, v, desc if not any(ch in desc for ch in '\n\r\x0b\x0c\x1c\x1d\x1e\x85') else 'plain desc') for k, v, desc in d]
    if rng.random() < 0.3:
        return {'o': 'header', 'fmt': 'json', 'macro': rng.choice(['', 'CONFIG_H']), 'data': enc_data(gen_data(rng, cmake=True, header=True))}
    return {'o': 'header', 'fmt': rng.choice(['c', 'c', 'nasm']), 'macro': rng.choice(['', '', 'CONFIG_H', 'A']), 'data': enc_data(d)}


def exhaustive(symbols, maxlen):
    out = ['']
    for n in range(1, maxlen + 1):
        for t in itertools.product(symbols, repeat=n):
            out.append(''.join(t))
    return out


# ------------------------------------------------------------------ implementation runs
def run_impl_sharded(cases, shards):
    if not cases:
        return [], 0
    shards = max(1, min(shards, (len(cases) + 1999) // 2000))
    size = (len(cases) + shards - 1) // shards
    chunks = [cases[i:i + size] for i in range(0, len(cases), size)]
    res = pmap(lambda ch: run_impl('c14.py', {'cases': ch}), chunks, workers=shards)
    out, to = [], 0
    for r in res:
        out += r['results']
        to += r.get('timeouts', 0)
    return out, to


def run_oracle_sharded(items, shards):
    if not items:
        return [], 0, 0
    shards = max(1, min(shards, (len(items) + 499) // 500))
    size = (len(items) + shards - 1) // shards
    chunks = [items[i:i + size] for i in range(0, len(items), size)]
    res = pmap(lambda ch: run_impl('c14.py', {'oracle': ch}), chunks, workers=shards)
    fails, skipped, n = [], 0, 0
    for r in res:
        fails += r['oracle']
        skipped += r['oracle_skipped']
        n += r['oracle_run']
    return fails, skipped, n


# ------------------------------------------------------------------ CLI sample: configure_file()
def meson_str(s):
    return "'" + s.replace('\\', '\\\\').replace("'", "\\'").replace('\n', '\\n').replace('\r', '\\r').replace('\t', '\\t') + "'"


def cli_sample(ctx, jobs, built):
    """jobs: list of (kind, fmt, data(list), text|macro).  One meson project per group of jobs;
    every configure_file() output is compared with the model's answer for the same inputs."""
    scratch = ctx.mkscratch()
    groups = [jobs[i:i + 12] for i in range(0, len(jobs), 12)]
    cases, where = [], []
    encs = {}
    import collections
    cli_cov = collections.Counter()
    ctx.extra['cli_kwargs_coverage'] = cli_cov

    def setup(gi):
        g = groups[gi]
        src = os.path.join(scratch, 'cli%d' % gi)
        bld = os.path.join(scratch, 'cli%d-build' % gi)
        os.makedirs(src)
        mb = ["project('c14', meson_version : '>=1.3.0')"]
        if any(k == 'pkg' for k, _, _, _ in g):
            mb.append("cm = import('cmake')")
        for j, (kind, fmt, d, payload) in enumerate(g):
            mval = lambda v: meson_str(v) if isinstance(v, str) else ('true' if v is True else 'false' if v is False else str(v))
            as_dict = kind != 'pkg' and (gi + j) % 3 == 1 and not any(desc for _, _, desc in d)
            if as_dict:
                # configure_file(configuration : {dict}) - the other spelling of the data
                mb.append('d%d = {%s}' % (j, ', '.join('%s : %s' % (meson_str(k), mval(v)) for k, v, _ in d)))
            else:
                mb.append('d%d = configuration_data()' % j)
                for k, v, desc in d:
                    extra = (', description : ' + meson_str(desc)) if desc else ''
                    mb.append('d%d.set(%s, %s%s)' % (j, meson_str(k), mval(v), extra))
            if kind == 'conf':
                # every third template is stored in latin-1 and configured with encoding : 'latin-1' (when it can be)
                enc = 'utf-8'
                if (gi + j) % 3 == 2:
                    try:
                        (payload + ''.join(v for _, v, _ in d if isinstance(v, str))).encode('latin-1')
                        enc = 'latin-1'
                    except UnicodeError:
                        pass
                with open(os.path.join(src, 'in%d.txt' % j), 'w', encoding=enc, newline='') as f:
                    f.write(payload)
                encs[(gi, j)] = enc
                mb.append("configure_file(input : 'in%d.txt', output : 'out%d.txt', configuration : d%d, format : %s%s)"
                          % (j, j, j, meson_str(fmt), ", encoding : 'latin-1'" if enc == 'latin-1' else ''))
                cli_cov['dict_configuration' if as_dict else 'configuration_data'] += 1
                cli_cov['encoding_' + enc] += 1
            elif kind == 'pkg':
                # another caller of the modelled code: the cmake module's configure_package_config_file()
                # (modules/cmake.py: do_replacement(..., 'cmake@', ...) line by line)
                with open(os.path.join(src, 'in%d.cmake.in' % j), 'w', encoding='utf-8', newline='') as f:
                    f.write(payload)
                mb.append("cm.configure_package_config_file(name : 'out%d', input : 'in%d.cmake.in', configuration : d%d, install_dir : 'lib')"
                          % (j, j, j))
            else:
                cli_cov['output_format_' + fmt] += 1
                cli_cov['macro_name' if payload else 'no_macro_name'] += 1
                mac = (', macro_name : ' + meson_str(payload)) if payload else ''
                mb.append("configure_file(output : 'out%d.txt', configuration : d%d, output_format : %s%s)" % (j, j, meson_str(fmt), mac))
        with open(os.path.join(src, 'meson.build'), 'w', encoding='utf-8') as f:
            f.write('\n'.join(mb) + '\n')
        r = meson_cli(['setup', '--backend=none', bld, src], timeout=120)
        outs = []
        for j in range(len(g)):
            p = os.path.join(bld, ('out%dConfig.cmake' if g[j][0] == 'pkg' else 'out%d.txt') % j)
            try:
                with open(p, encoding=encs.get((gi, j), 'utf-8'), newline='') as f:
                    outs.append(f.read())
            except OSError:
                outs.append(None)
        return r.returncode, (r.stdout + r.stderr)[-1500:], outs
    results = pmap(setup, range(len(groups)))
    # a project that fails to configure: run its jobs one by one, so that only the culprit is reported
    bad = [gi for gi, r in enumerate(results) if r[0] != 0 and len(groups[gi]) > 1]
    if bad:
        base = len(groups)
        for gi in bad:
            groups.extend([job] for job in groups[gi])      # single-job projects; setup() indexes into groups
        res2 = pmap(setup, range(base, len(groups)))
        k = 0
        for gi in bad:
            n = len(groups[gi])
            results[gi] = ('per-job', res2[k:k + n])
            k += n
        del groups[base:]
    return groups, results


def replay(ctx):
    rec = json.load(open(ctx.replay))
    r = rec['replay']
    print('replaying', json.dumps(r)[:2000])
    if 'case' in r:
        fn, args = r['case']
        res = run_impl('c14.py', {'cases': [[fn, args]]})
        print('implementation:', repr(res['results'][0]))
        if ctx.build('Props/C14.v', 'Subst/Extract.v', 'C14'):
            print('model         :', repr(ctx.run_model([('conf' if fn == 'file' else fn, args)])[0]))
    if 'cli' in r:
        fmt, data, payload = r['cli'][1]
        d = []
        for e in (data.split(SEP2) if data else []):
            k, kind, v, desc = e.split(SEP1)
            d.append((k, v if kind == 's' else int(v) if kind == 'i' else v == 'T', desc))
        groups, results = cli_sample(ctx, [(r.get('kind', 'conf'), fmt, d, payload)], False)
        print('configure_file():', results[0][0], repr(results[0][2][0]), results[0][1][-400:] if results[0][0] else '')
        if r.get('kind') == 'pkg':
            cs = [['repl', [fmt, data, l + '\n']] for l in payload.split('\n')[:-1]]
            print('in process      :', repr(''.join(x.split(SEP1)[1] if x.startswith('OK') else x for x in run_impl('c14.py', {'cases': cs})['results'])))
        else:
            fn = 'conf' if r.get('kind', 'conf') == 'conf' else 'header'
            args = [fmt, data, payload] if fn == 'conf' else [fmt, payload, data]
            print('in process      :', repr(run_impl('c14.py', {'cases': [[fn, args]]})['results'][0]))
        ctx.cleanup()
    if 'oracle' in r:
        res = run_impl('c14.py', {'oracle': [r['oracle']]})
        print('property clauses failing on the implementation:', json.dumps(res['oracle'], indent=1)[:4000])
    return 0


KNOWN_CLASSES = ()


def report_oracle_failure(ctx, f):
    o = f.pop('o', None)
    kind = f['kind']
    if kind in KNOWN_CLASSES:
        ident = 'C14:' + kind
    else:
        ident = 'C14:%s:%s' % (kind, json.dumps(o, sort_keys=True))
    ctx.violation(ident, 'property clause fails on the implementation (%s): template %r expected %r got %r'
                  % (kind, f.get('template'), f.get('expected'), f.get('got')), {'oracle': o, 'failure': f})


def run(ctx):
    if ctx.replay:
        return replay(ctx)
    rng = ctx.rng
    thorough = ctx.tier == 'thorough'
    built = ctx.build('Props/C14.v', 'Subst/Extract.v', 'C14')
    dist = {'meson_texts': 0, 'cmake_texts': 0, 'cmake_at_texts': 0, 'single_lines': 0, 'headers': 0, 'file_roundtrips': 0,
            'exhaustive_lines': 0, 'segment_templates': 0}

    cases = []
    # ---- corpus of hand-picked corner cases (runs first)
    D1 = [('var1', 'foo', ''), ('var2', 'bar', ''), ('X', 'q@X@', ''), ('Y', '@X@', ''), ('T', True, ''), ('F', False, ''),
          ('N', 5, ''), ('Z', 0, ''), ('A', '', ''), ('B', 'bee', ''), ('V', 'v@B@w', ''), ('W', '${B}', ''), ('E', '\\@B\\@', ''),
          ('S', ' sp ', ''), ('cmakedefine', 'oops', ''), ('a/b.c', 'slash', ''), ('Q', 'B', '')]
    e1 = enc_data(D1)
    meson_corpus = ['@var1@', '\\@var1@', '\\\\@var1@', '\\\\\\@var1@', '\\\\\\\\@var1@', '\\@var1\\@', '\\\\@var1\\@', '\\\\\\@var1\\@',
                    '@X@ @Y@ @T@ @F@ @N@ @Z@ @A@', '\\\\ @ \\@ \\\\\\\\@ \\\\\\\\\\@', '\\@var1@var2@', '@var1@var2@', '@var1@@var2@',
                    '@var1@var2\\\\@var3@var4\\\\@', '@nope@ @var1', '@@', '@ @', '@-@', '@a b@', '@é@', '@var1@\r\n', 'plain $ { } ${var1}\r',
                    '@var1', 'var1@', '\\', '\\\\', '@', '', '\n', '\r\n\r\r\n', 'a\rb\nc\r\nd', '@E@', '@V@@W@', '@nope@@nope@@U2@',
                    '#mesondefine var1\n', '  #mesondefine X\r\n', '#mesondefine T', '#mesondefine F\n', '#mesondefine N\r', '#mesondefine Z\n',
                    '#mesondefine nope\n', '#mesondefine A\n', '#mesondefine S\n', '#mesondefine V\n', '#mesondefine E\n', '#mesondefineX\n',
                    '#mesondefine\n', '#mesondefine a b\n', '\t#mesondefine\x0bB\x1c\n', '#cmakedefine B\n', ' # cmakedefine\n', 'x #\t cmakedefine\n',
                    'x #mesondefine B\n', '# mesondefine B\n', '#mesondefineX Y\n', '@var1@\n#mesondefine B\r\n@var2@']
    cmake_corpus = ['@A@@B@', '@nope@@B@', '@B@@B@', '@V@', '@W@', '${B}', '${A}${B}', '${}', '${nope}x${B}', '${B', '${B C}', '${${W}}', '${${Q}}',
                    '${Q${Q}}', '${@Q@}', '${a@Q@}', '@a/b.c@', '${a/b.c}', '@a b@B@', '@@B@', '\\@B@', '\\${B}', '@X@', '${X}', '@Y@', '@E@', '$', '${',
                    '$}', '{B}', '$B', '${B}}', '$${B}', '${B\n}', '${B@}', '${@}', '@', '@@', '@B', 'B@', '@T@ @F@ @N@ ${T}${F}${Z}', '@S@|${S}|',
                    '#cmakedefine B\n', '  #cmakedefine B\n', '# cmakedefine B\n', '  # cmakedefine B\n', '\t#\tcmakedefine01 B\r\n', '#cmakedefine\n',
                    '#cmakedefine01\n', '#cmakedefine01 nope', '#cmakedefine01 Z', '#cmakedefine01 A\n', '#cmakedefine A x', '#cmakedefine Z x',
                    '#cmakedefine T x B @B@ ${B} N T', '#cmakedefine B "@B@"\r\n', '#cmakedefine B V\n', '#cmakedefine B ${X}\n', '#cmakedefine B @X@\n',
                    '#cmakedefine B cmakedefine01\n', '#cmakedefine cmakedefine01\n', '#cmakedefineX B\n', '#mesondefine B', 'x #mesondefine B',
                    'x #cmakedefine B', '#cmakedefine B ${B\n', '#cmakedefine B ${B C}\n', '#cmakedefine @B@ x\n', '#cmakedefine nope ${B}\n',
                    '@B@\r\n#cmakedefine B\r\n${B}\r']
    for t in meson_corpus:
        cases.append(('conf', ['meson', e1, t]))
    for t in cmake_corpus:
        cases.append(('conf', ['cmake', e1, t]))
        cases.append(('conf', ['cmake@', e1, t]))
    for t in meson_corpus[:36]:
        cases.append(('conf', ['cmake', e1, t]))
    DH = [('zeta', 'z', ''), ('Alpha', True, 'first'), ('beta', False, 'two\nlines'), ('N', 7, 'star */'), ('a', '', ''), ('B', '"s"', 'cr\r\nx'),
          ('_', -3, ''), ('aa', 'x y', ''), ('Z', 0, '\x0bv')]
    for fmt in ('c', 'nasm', 'json'):
        for mac in ('', 'GUARD_H'):
            cases.append(('header', [fmt, mac, enc_data(DH)]))
            cases.append(('header', [fmt, mac, '']))
    ncorpus = len(cases)

    # ---- seeded structured random stream
    ntext = 300000 if thorough else 9000
    for i in range(ntext):
        fmt = rng.choice(['meson', 'meson', 'meson', 'cmake', 'cmake', 'cmake@'])
        d = gen_data(rng, cmake=fmt != 'meson', cyclic=(fmt != 'meson' and rng.random() < 0.004))
        cases.append(('conf', [fmt, enc_data(d), gen_text(rng, d, fmt)]))
        dist[{'meson': 'meson_texts', 'cmake': 'cmake_texts', 'cmake@': 'cmake_at_texts'}[fmt]] += 1
    nline = 400000 if thorough else 9000
    for i in range(nline):
        fmt = rng.choice(['meson', 'meson', 'cmake', 'cmake@'])
        d = gen_data(rng, cmake=fmt != 'meson')
        if rng.random() < 0.5:
            # a line rendered from a segment list (the shapes the theorems speak about)
            if fmt == 'meson':
                line = ''.join(m_render(s) for s in gen_segs_meson(rng, d))
            else:
                line = ''.join(c_render(s) for s in gen_segs_cmake(rng, d, fmt == 'cmake@'))
        else:
            line = gen_line_meson(rng, d) if fmt == 'meson' else gen_line_cmake(rng, d)
        if rng.random() < 0.1:
            line += rng.choice(['\n', '\r\n', '\nmore @A@', '\r'])
        cases.append(('repl', [fmt, enc_data(d), line]))
        dist['single_lines'] += 1
    for i in range(6000 if thorough else 700):
        d = gen_data(rng, header=True)
        cases.append(('header', [rng.choice(['c', 'c', 'nasm', 'json']), rng.choice(['', '', 'CONFIG_H', 'x y']), enc_data(d)]))
        dist['headers'] += 1
    # ---- small exhaustive enumerations
    dm = enc_data([('a', 'v@a@', ''), ('b', '', ''), ('ab', 7, ''), ('aa', True, '')])
    ex_m = exhaustive(['@', '\\', 'a', 'b', ' ', '$', '\n'], 7 if thorough else 5)
    for s in ex_m:
        cases.append(('repl', ['meson', dm, s]))
    dc = enc_data([('a', 'v@b@', ''), ('b', '', ''), ('aa', '${a}', ''), ('', 'e', '')])
    ex_c = exhaustive(['@', '$', '{', '}', 'a', 'b', ' '], 6 if thorough else 5)
    for s in ex_c:
        cases.append(('repl', ['cmake', dc, s]))
    for s in exhaustive(['@', '$', '{', 'a', ' ', '\\'], 5 if thorough else 4):
        cases.append(('repl', ['cmake@', dc, s]))
    dist['exhaustive_lines'] = len(ex_m) + len(ex_c)
    ctx.extra['exhaustive'] = True
    ctx.extra['exhaustive_note'] = ('all lines of length <= %d over 7-symbol alphabets for the meson and cmake formats (do_replacement), '
                                    'fixed placeholder-looking data (meson: <= %d)' % (6 if thorough else 5, 7 if thorough else 5))

    # ---- implementation: in process; a sample additionally through the real do_conf_file (file system)
    impl_cases = []
    for i, (fn, args) in enumerate(cases):
        if fn == 'conf' and (i < ncorpus or i % 7 == 0) and '\x00' not in args[2]:
            impl_cases.append(['file', args]); dist['file_roundtrips'] += 1
        else:
            impl_cases.append([fn, args])
    impl, ntimeouts = run_impl_sharded(impl_cases, NPROC)
    ctx.extra['implementation_timeouts'] = ntimeouts
    model = ctx.run_model(cases, shards=NPROC) if built else impl
    err = {}
    for (fn, args), (ifn, _), ri, rm in zip(cases, impl_cases, impl, model):
        ctx.count((fn, tuple(args)), nontrivial=True)
        if ri.startswith('EXC:') or ri == 'TIMEOUT':
            err[ri] = err.get(ri, 0) + 1
        if ri != rm and len(ctx.disagreements) < 300:
            ctx.disagreements.append({'case': [ifn, args], 'implementation': ri, 'model': rm})
    ctx.cov['traces_validated_against_impl'] = len(cases)
    dist['error_classes'] = err
    for s in cases[:2] + cases[ncorpus + 3:ncorpus + 6] + cases[ncorpus + ntext + 2:ncorpus + ntext + 4] + cases[-1:]:
        ctx.sample({'fn': s[0], 'args': s[1]})
    if built:
        ctx.kernel_crosscheck('Subst.Entry', [c for c in cases if len(c[1][2]) < 400 and len(c[1][1]) < 600],
                              [m for c, m in zip(cases, model) if len(c[1][2]) < 400 and len(c[1][1]) < 600], limit=300)

    # ---- CLI sample: configure_file() in a real project (glue: readlines, encoding, kwargs)
    ok_conf = [(c, r) for c, r in zip(cases, impl) if c[0] == 'conf' and r.startswith('OK') and '\x00' not in c[1][2]
               and all(ch not in c[1][1] + c[1][2] for ch in '\x0b\x0c\x1c\x85\x08')]
    jobs = []

    def dec_data(w):
        out = []
        for e in (w.split(SEP2) if w else []):
            k, kind, v, desc = e.split(SEP1)
            out.append((k, v if kind == 's' else int(v) if kind == 'i' else v == 'T', desc))
        return out
    pick = ok_conf[:8] + rng.sample(ok_conf, min(len(ok_conf), 160 if thorough else 28))
    for c, r in pick:
        d = dec_data(c[1][1])
        if any(k == '' for k, _, _ in d):
            continue
        jobs.append(('conf', c[1][0], d, c[1][2], r))
    hdr = [(c, r) for c, r in zip(cases, impl) if c[0] == 'header' and not r.startswith('EXC') and ' ' not in c[1][1]]
    for c, r in hdr[:4] + rng.sample(hdr, min(len(hdr), 40 if thorough else 8)):
        d = dec_data(c[1][2])
        if any(k == '' for k, _, _ in d):
            continue
        jobs.append(('header', c[1][0], d, c[1][1], r))
    # cmake.configure_package_config_file(): templates of LF-terminated lines, cmake@ format, every line through do_replacement
    pkg_cases, pkg_specs = [], []
    for _ in range(40 if thorough else 8):
        d = [e for e in gen_data(rng, cmake=True) if e[0] and not (isinstance(e[1], str) and any(ch in e[1] for ch in '\x0b\x0c\x1c\x85'))]
        lines = []
        for _ in range(rng.randint(1, 5)):
            l = gen_line_cmake(rng, d) if rng.random() < 0.7 else gen_define_cmake(rng, d)
            if not any(ch in l for ch in '\r\n\x0b\x0c\x1c\x85\x00') and '@PACKAGE_INIT@' not in l:
                lines.append(l)
        if lines:
            pkg_specs.append((d, lines, len(pkg_cases)))
            pkg_cases += [('repl', ['cmake@', enc_data(d), l + '\n']) for l in lines]
    pkg_impl = run_impl('c14.py', {'cases': [list(c) for c in pkg_cases]})['results'] if pkg_cases else []
    pkg_model = ctx.run_model(pkg_cases) if (built and pkg_cases) else pkg_impl
    for c, ri, rm in zip(pkg_cases, pkg_impl, pkg_model):
        ctx.count((c[0], tuple(c[1])), nontrivial=True)
        if ri != rm:
            ctx.disagreements.append({'case': [c[0], c[1]], 'implementation': ri, 'model': rm})
    for d, lines, k0 in pkg_specs:
        rs = pkg_impl[k0:k0 + len(lines)]
        if all(r.startswith('OK') for r in rs):
            jobs.append(('pkg', 'cmake@', d, ''.join(l + '\n' for l in lines), ''.join(r.split(SEP1)[1] for r in rs)))
    groups, results = cli_sample(ctx, [j[:4] for j in jobs], built)
    ncli, k, cli_bad = 0, 0, []
    for g, res in zip(groups, results):
        for j, job in enumerate(g):
            if res[0] == 'per-job':
                rc, log, o1 = res[1][j]
                outs = {j: o1[0]}
            else:
                rc, log, outs = res
            exp = jobs[k][4]; k += 1
            want = exp.split(SEP1)[1] if job[0] == 'conf' else exp
            ncli += 1
            ctx.count(('cli',) + tuple(map(str, job)), nontrivial=True)
            if rc != 0 or outs[j] != want:
                case = ['configure_file:' + job[0], [job[1], enc_data(job[2]), job[3]]]
                ctx.disagreements.append({'case': case, 'cli_rc': rc, 'implementation': outs[j], 'in_process': want,
                                          'log': log[-600:] if rc else ''})
                cli_bad.append((case, job[0], outs[j], want, rc))
    ctx.extra['cli_configure_file_outputs'] = ncli
    ctx.cov['traces_validated_against_impl'] += ncli

    # ---- the property's clauses evaluated directly on the implementation (failing-input search)
    items = []
    nor = 120000 if thorough else 5000
    for _ in range(nor):
        fmt = rng.choice(['meson', 'meson', 'cmake', 'cmake@'])
        items.append(gen_oracle_template(rng, fmt, cyclic=(rng.random() < 0.004)))
    for _ in range(nor // 8):
        items.append(gen_oracle_header(rng))
    for _ in range(nor // 10):
        d = gen_data(rng)
        sk = [k for k, v, _ in d if isinstance(v, str) and v and v == v.strip() and k and not any(c.isspace() for c in k)]
        if sk:
            items.append({'o': 'define_value', 'data': enc_data(d), 'name': rng.choice(sk)})
    # corpus for the oracle: the shapes of the recorded findings / pending fixes
    items += [
        {'o': 'template', 'fmt': 'cmake', 'data': enc_data([('A', '', ''), ('B', 'bee', '')]), 'lines': [['S', [['V', 'A'], ['V', 'B']], '']]},
        {'o': 'template', 'fmt': 'cmake', 'data': enc_data([('B', 'bee', '')]), 'lines': [['S', [['B', ['nope']], ['B', ['B']]], '\n']]},
        {'o': 'template', 'fmt': 'cmake@', 'data': enc_data([('X', 'q@X@', '')]), 'lines': [['S', [['V', 'X']], '\n']]},
        {'o': 'template', 'fmt': 'cmake', 'data': enc_data([('V', 'v@B@w', ''), ('B', 'bee', '')]), 'lines': [['S', [['L', 'x'], ['B', ['V']]], '\n']]},
        {'o': 'template', 'fmt': 'cmake', 'data': enc_data([('B', 'bee', '')]), 'lines': [['C', '  ', ' ', 'cmakedefine', ' ', 'B', '', '\n']]},
        {'o': 'template', 'fmt': 'meson', 'data': enc_data([('B', 'bee', '')]), 'lines': [['M', '', ' ', 'B', '', '\r\n']]},
        {'o': 'template', 'fmt': 'meson', 'data': enc_data([('X', '@X@', '')]), 'lines': [['S', [['V', 'X'], ['E', 0, 'X'], ['BA', 2], ['L', 'X'], ['A']], '\r\n']]},
        {'o': 'define_value', 'data': enc_data([('X', 'q@X@', '')]), 'name': 'X'},
    ]
    # neighbourhood of every implementation/model disagreement: read the disagreeing template as a
    # segment list (the grammar is complete for the meson format) and ask the oracle about it
    for dg in ctx.disagreements[:60]:
        fn, args = dg['case']
        if fn in ('conf', 'file', 'repl', 'configure_file:conf'):
            fmt, data, text = args
            lines = []
            for ln in (re.findall(r'[^\r\n]*(?:\r\n|\r|\n)|[^\r\n]+$', text) if fn != 'repl' else [text]):
                body = ln.rstrip('\r\n') if fn != 'repl' else ln
                eol = ln[len(body):]
                m = re.match(r'^(\s*)#mesondefine(\s+)(\S+)(\s*)$', body)
                mc = re.match(r'^(\s*)#(\s*)(cmakedefine01|cmakedefine)(\s+)(\S+)(\s*)$', body)
                if fmt == 'meson' and m:
                    lines.append(['M', m.group(1), m.group(2), m.group(3), m.group(4), eol])
                    d = dict((e.split(SEP1)[0], e.split(SEP1)) for e in data.split(SEP2) if e)
                    if m.group(3) in d and d[m.group(3)][1] == 's':
                        items.append({'o': 'define_value', 'data': data, 'name': m.group(3)})
                elif fmt != 'meson' and mc:
                    lines.append(['C', mc.group(1), mc.group(2), mc.group(3), mc.group(4), mc.group(5), mc.group(6), eol])
                else:
                    segs = m_parse(body) if fmt == 'meson' else c_parse(body, fmt == 'cmake@')
                    if segs is None:
                        lines = None
                        break
                    lines.append(['S', segs, eol])
            if lines:
                via = 'file' if fn in ('file', 'configure_file:conf') else 'str'
                items.append({'o': 'template', 'fmt': fmt, 'data': data, 'lines': lines, 'via': via})
                for l in lines:      # and every line on its own
                    items.append({'o': 'template', 'fmt': fmt, 'data': data, 'lines': [l], 'via': via})
        elif fn == 'header':
            items.append({'o': 'header', 'fmt': args[0], 'macro': args[1], 'data': args[2]})
    fails, skipped, nrun = run_oracle_sharded(items, NPROC)
    dist['segment_templates'] = nrun - skipped
    ctx.extra['oracle_items'] = nrun
    ctx.extra['oracle_items_outside_spec_domain'] = skipped
    ctx.cov['evaluations'] += nrun - skipped
    # most telling failures first: a hang, a wrong set of reported names, then wrong text with data whose
    # values contain no placeholder characters (so a rescan of a value cannot be the explanation), smallest first
    rank = {'hang': 0, 'exception': 1, 'missing-variables': 2, 'cmake-invalid-name-accepted': 2, 'substitution': 3}

    def fkey(f):
        data = (f.get('o') or {}).get('data', '')
        vals = [e.split(SEP1)[2] for e in data.split(SEP2) if e.count(SEP1) == 3 and e.split(SEP1)[1] == 's']
        return (any(('@' in v or '$' in v or '\\' in v) for v in vals), rank.get(f['kind'], 4), len(f.get('template') or ''),
                len(json.dumps(f.get('o'))), json.dumps(f.get('o'), sort_keys=True))
    fails.sort(key=fkey)
    # one kind of failure / kind of line after the other, so that the first replays show every distinct defect
    byfmt = {}
    for f in fails:
        o_ = f.get('o') or {}
        shape = ''.join(sorted(set(l[0] for l in o_.get('lines', []))))
        byfmt.setdefault((f['kind'], shape, o_.get('o', '')), []).append(f)
    fails = [g[i] for i in range(max([len(g) for g in byfmt.values()] or [0])) for g in byfmt.values() if i < len(g)]
    seen_ids = set()
    for f in fails:
        key = json.dumps(f.get('o'), sort_keys=True) + f['kind']
        if key in seen_ids:
            continue
        seen_ids.add(key)
        report_oracle_failure(ctx, f)
    # a hang or an escaping non-meson exception on a case is a concrete failing input by itself
    if ctx.disagreements and not ctx.violations:
        for dg in ctx.disagreements:
            ri = dg.get('implementation')
            if ri == 'TIMEOUT':
                ctx.violation('C14:hang:' + json.dumps(dg['case']), 'implementation does not terminate (2 s alarm) on %s'
                              % json.dumps(dg['case']), {'case': dg['case']})
                break
    # configure_file() of a real project writes something else than do_conf_file / dump_conf_header give
    # in process for the same template and data (and the in-process answer is the model's): the project is
    # the concrete failing input
    for case, kind, got, want, rc in cli_bad[:3]:
        ctx.violation('C14:cli:' + json.dumps(case), 'configure_file() in a real project (%s, format %s) %s; in process the same template and data give %r'
                      % (kind, case[1][0], ('fails (meson setup rc=%d)' % rc) if rc else ('writes %r' % (got,)), want), {'cli': case, 'kind': kind})
    ctx.extra['input_distribution'] = dist
    shapes = {
        'meson: odd backslash run >= 3 before \\@NAME\\@': (lambda f, t: f == 'meson' and re.search(r'(?<!\\)(\\\\)+\\@[-\w]+\\@', t)),
        'meson: backslash pairs before @NAME@': (lambda f, t: f == 'meson' and re.search(r'(?<!\\)(\\\\)+@[-\w]+@', t)),
        'meson: @A@@B@ adjacent': (lambda f, t: f == 'meson' and re.search(r'@[-\w]+@@[-\w]+@', t)),
        'meson: #mesondefine with CRLF / CR': (lambda f, t: f == 'meson' and re.search(r'#mesondefine[^\n]*\r', t)),
        'meson: #mesondefine indented': (lambda f, t: f == 'meson' and re.search(r'(^|\n)[ \t\x0c\xa0]+#mesondefine', t)),
        'cmake: stray @ then real @VAR@ on the line': (lambda f, t: f != 'meson' and re.search(r'@[^@\n]*[ ()][^@\n]*@[\w/.+-]+@', t)),
        'cmake: ${VAR} between two stray @': (lambda f, t: f == 'cmake' and re.search(r'@[^@\n]*\$\{[\w/.+-]*\}[^@\n]*@', t)),
        'cmake: nested ${..${..}}': (lambda f, t: f == 'cmake' and '${' in t and re.search(r'\$\{[^}]*\$\{', t)),
        'cmake: unterminated ${': (lambda f, t: f == 'cmake' and re.search(r'\$\{[^}]*$', t)),
        'cmake: @A@@B@ adjacent': (lambda f, t: f != 'meson' and re.search(r'@[\w/.+-]+@@[\w/.+-]+@', t)),
        'cmake: #cmakedefine with value tokens': (lambda f, t: f != 'meson' and re.search(r'#[ \t]*cmakedefine[ \t]+\S+[ \t]+\S', t)),
        'cmake: indented "# cmakedefine"': (lambda f, t: f != 'meson' and re.search(r'(^|\n)[ \t]+#[ \t]+cmakedefine', t)),
        'cmake: #cmakedefine with CRLF / CR': (lambda f, t: f != 'meson' and re.search(r'cmakedefine[^\n]*\r', t)),
        'any: CR-only line ending': (lambda f, t: re.search(r'\r(?!\n)', t)),
        'any: no newline at end of file': (lambda f, t: t and t[-1] not in '\r\n'),
        'any: non-ASCII text': (lambda f, t: not t.isascii()),
    }
    table = dict.fromkeys(shapes, 0)
    dshapes = {'value refers to its own key': 0, 'empty string value': 0, 'value with placeholder text': 0, 'bool value': 0, 'int value': 0,
               'key with hostile characters': 0, 'astral / control characters in a value': 0}
    hshapes = {'header c': 0, 'header nasm': 0, 'header json': 0, 'header with macro_name': 0, 'header description with line break': 0}
    for fn, args in cases:
        if fn in ('conf', 'repl'):
            for name, pred in shapes.items():
                if pred(args[0], args[2]):
                    table[name] += 1
            data = args[1]
        else:
            hshapes['header ' + args[0]] += 1
            hshapes['header with macro_name'] += bool(args[1])
            data = args[2]
        for e in (data.split(SEP2) if data else []):
            k, kind, v, desc = e.split(SEP1)
            if kind == 's':
                dshapes['empty string value'] += v == ''
                dshapes['value with placeholder text'] += ('@' in v or '${' in v)
                dshapes['value refers to its own key'] += ('@%s@' % k in v or '${%s}' % k in v)
                dshapes['astral / control characters in a value'] += any(ord(ch) > 0xffff or ord(ch) < 32 or ord(ch) == 127 for ch in v)
            dshapes['bool value'] += kind == 'b'
            dshapes['int value'] += kind == 'i'
            dshapes['key with hostile characters'] += any(ch not in NAMECH for ch in k)
            if fn == 'header':
                hshapes['header description with line break'] += any(ch in desc for ch in '\n\r\x0b\x85')
    table.update(dshapes); table.update(hshapes)
    ctx.extra['coverage_table'] = table
    ctx.extra['coverage_gaps'] = sorted(k for k, v in table.items() if not v)
    if thorough and built:
        # independent re-check of the compiled proofs (and of their axiom list) by coqchk
        r = subprocess.run(['timeout', '1500', 'coqchk', '-silent', '-o', '-Q', COQ, 'MV', 'MV.Props.C14'],
                           capture_output=True, text=True)
        out = r.stdout + r.stderr
        m = re.search(r'\* Axioms:\s*(.*?)\n\s*\n', out, re.S)
        ctx.extra['coqchk'] = {'rc': r.returncode, 'axioms': (m.group(1).strip() if m else '?')}
        if r.returncode != 0 or not m or m.group(1).strip() != '<none>':
            ctx.broken.append({'obligation': 'coqchk -o MV.Props.C14', 'detail': out[-1500:]})
    return ctx.finish(
        level='proof',
        trusted=['Coq 8.16.1 kernel (coqc, vm_compute; no native_compute)',
                 'extraction with ExtrOcamlBasic directives only + OCaml + extract/driver.ml (cross-checked in-kernel on a 300-case sample each run)',
                 'harness/check_C14.py generators and harness/impl/c14.py adapter, canonicaliser and oracle',
                 'model covers universal.py:1460-1832 (do_replacement_meson via a hand-written scanner for the regex of get_variable_regex, '
                 'do_replacement_cmake, do_define_*, do_conf_str_*, readlines/writelines of do_conf_file, _dump_c_header c/nasm), as '
                 'fixed by the four C14 fix commits in /repo, and output_format json (json.encoder); callers covered end to end: configure_file() and cmake.configure_package_config_file()',
                 'not modelled: file encodings other than UTF-8, replace_if_different (C06), FeatureNew notices, '
                 'non str/int/bool values'],
        assumptions=['Print Assumptions: all property theorems closed under the global context (no axioms)',
                     'Python str.isspace / regex \\s restricted to ASCII blanks plus the code points listed in Base/Strs.v is_space',
                     'configuration keys are unique (Python dict)'],
        rule='templates assembled from placeholder-like fragments (@K@, \\@K\\@, ${K}, nested ${}, backslash runs, lone @ $ { }), filler, '
             'CR/LF/CRLF/no-EOL endings and odd #mesondefine/#cmakedefine spacing, with configuration dictionaries of str/int/bool values '
             'including placeholder-looking values; every case runs through the implementation (in process; every 7th text through the real '
             'do_conf_file, a sample through configure_file() of a real project) and the extracted Coq model, results compared as canonical '
             'strings (output text, sorted missing names, confdata_useless flag, exception class); the oracle rebuilds templates from segment '
             'lists and checks the implementation output against the segment semantics; distinct = distinct (function, arguments) tuples')
