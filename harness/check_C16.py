"""C16 — `meson format` preserves meaning and comments and is idempotent.
Theorems: coq/Props/C16.v.  Acceptance relation: coq/Syntax/Same.v; model of the program-level
rewrites of the formatter: coq/Format/Model.v.
Implementation: mesonbuild/mformat.py (Formatter.format in-process; `meson format` CLI for a sample)."""
import json, os, glob, re, itertools
from common import *

BOOL_OPTS = ['space_array', 'kwargs_force_multiline', 'wide_colon', 'no_single_comma_function',
             'simplify_string_literals', 'insert_final_newline', 'sort_files', 'group_arg_value']
MLL = [80, 80, 80, 40, 20, 120, 10, 1, 0, 200]
INDENT = ['    ', '    ', '  ', '\t', ' ', '        ', '']
IBC = ['  ', '  ', ' ', '', '\t', '    ']
TABW = [4, 4, 8, 2, 1]


def rand_cfg(rng):
    c = {}
    for o in BOOL_OPTS:
        if rng.random() < 0.35:
            c[o] = rng.random() < 0.5
    if rng.random() < 0.5:
        c['max_line_length'] = rng.choice(MLL)
    if rng.random() < 0.35:
        c['indent_by'] = rng.choice(INDENT)
    if rng.random() < 0.25:
        c['indent_before_comments'] = rng.choice(IBC)
    if rng.random() < 0.15:
        c['tab_width'] = rng.choice(TABW)
    return c


def cfg_flags(c):
    """(simplify, sort) as the model's flag string"""
    return ('T' if c.get('simplify_string_literals', True) else 'F') + ('T' if c.get('sort_files', False) else 'F')


# ------------------------------------------------------------------ grammar-based generator with trivia
WORD = re.compile(r'[A-Za-z0-9_]')

STR_PLAIN = ["'s'", "'x y'", "''", "'a.c'", "'b.c'", "'a10.c'", "'a9.c'", "'A.c'", "'sub/x.c'", "'sub/dir/y.c'", "'sub/a.c'",
             "'--opt'", "'value'", "'--'", "'-Dfoo=bar'", "'@a@'", "'a#b'", "'tab\there'", "'é€'", "'[('",
             "'a very long string literal that pushes the line over the limit'"]
STR_ESC = ["'a\\nb'", "'it\\'s'", "'\\x41'", "'\\\\'", "'\\101'", "'\\u00e9'", "'\\q'", "'a\\\\nb'", "'\\x40a\\x40'", "'\\t'",
           "'c:\\\\dir'", "'\\U0001F600'"]
STR_F = ["f'@a@'", "f'x @a@ y'", "f'plain'", "f''", "f'a@'", "f'@@'", "f'\\x40a\\x40'", "f'@a@\\n'", "f'it\\'s @a@'"]
STR_ML = ["'''ml'''", "''''''", "'''a\nb'''", "'''it's'''", "'''back\\slash'''", "'''end\\'''", "'''a\\nb'''", "'''a\\\\b'''",
          "'''\n  multi\n  line\n'''", "'''x@a@'''", "'''tab\t'''", "'''#nocomment'''", "'''\\x41'''", "''' '''", "'''é'''",
          "'''a\\'b'''", "'''q\\q'''"]
STR_MLF = ["f'''@a@'''", "f'''plain'''", "f'''a\n@b@'''", "f'''\\x40a\\x40'''", "f''''''", "f'''it's @a@'''", "f'''a\\nb@c@'''"]
FILES = ["'a.c'", "'b.c'", "'a10.c'", "'a9.c'", "'A.c'", "'sub/x.c'", "'sub/dir/y.c'", "'sub/a.c'", "'a.c'", "'B.c'", "'Sub/z.c'",
         "'''m.c'''", "f'g.c'", "'x\\x41.c'", "'1.c'", "'01.c'", "'a/'", "'/a'", "''", "'a1b2.c'", "'a1b10.c'", "'a.C'"]
IDS = ['a', 'b', 'foo', 'x1', '_p', 'files_', 'src']
NUMS = ['1', '42', '0', '0x10', '0b101', '0o17', '0XfF', '100000']
CMT_BODY = [' c%d', 'c%d', ' c%d  ', '# c%d', " 'q' c%d", ' [( c%d', ' c%d \\', '!c%d', ' \u00e9 c%d', ' c%d\t', '  c%d', ' c%d )]',
            " ''' c%d", ' c%d # more', '']
CMT_ODD = [' c%d\x0cff', ' c%d\u2028ls', ' c%d\x85nel', ' c%d\x1cfs', ' c%d\x0bvt', ' c%d\u00a0']


class G:
    def __init__(self, rng, noise, odd_comments=False):
        self.rng, self.noise, self.odd = rng, noise, odd_comments
        self.depth = 0
        self.out = []
        self.nc = 0
        self.last = '\n'
        self.fresh = True
        self.tern = False

    # ---- emission
    def comment(self):
        self.nc += 1
        pool = CMT_ODD if (self.odd and self.rng.random() < 0.3) else CMT_BODY
        b = self.rng.choice(pool)
        return '#' + (b % self.nc if '%d' in b else b)

    def sep(self):
        r, rng = self.rng.random(), self.rng
        if r >= self.noise:
            return rng.choice(['', ' ', ' ', ' '])
        k = rng.random()
        if self.depth > 0:
            if k < 0.30:
                return rng.choice(['\n', '\n  ', '\n\t', '\n        ', '\n\n', ' \n '])
            if k < 0.60:
                return rng.choice([' ', '', '  ']) + self.comment() + '\n' + rng.choice(['', '  ', '    '])
            if k < 0.70:
                return '\n' + rng.choice(['', '  ']) + self.comment() + '\n' + rng.choice(['', ' ']) + self.comment() + '\n'
            if k < 0.80:
                return rng.choice([' \\\n', '\\\n  ', ' \\ ' + self.comment() + '\n '])
            return rng.choice(['  ', '\t', '   ', ' \t '])
        if k < 0.35:
            return rng.choice([' \\\n', ' \\\n    ', '\\\n', ' \\\n\t'])
        if k < 0.5:
            return ' \\ ' + self.comment() + '\n' + rng.choice(['', '  '])
        return rng.choice(['  ', '\t', '   ', ' \t '])

    def t(self, tok, s=None):
        if self.fresh:
            self.fresh = False
        else:
            s = self.sep() if s is None else s
            if not s and WORD.match(self.last[-1:]) and WORD.match(tok[:1]):
                s = ' '
            self.out.append(s)
        self.out.append(tok)
        self.last = tok
        if tok in ('(', '[', '{'):
            self.depth += 1
        elif tok in (')', ']', '}'):
            self.depth -= 1

    def indent(self, ind):
        self.out.append(ind if self.rng.random() >= self.noise else self.rng.choice(['', ' ', '  ', '    ', '\t', '      ']))
        self.fresh = True

    def raw(self, s):
        self.out.append(s)
        self.last = s or self.last

    # ---- grammar
    def string(self):
        r = self.rng.random()
        pool = STR_PLAIN if r < 0.45 else STR_ESC if r < 0.6 else STR_F if r < 0.72 else STR_ML if r < 0.92 else STR_MLF
        return self.rng.choice(pool)

    def atom(self):
        r = self.rng.random()
        if r < 0.3:
            self.t(self.rng.choice(IDS))
        elif r < 0.45:
            self.t(self.rng.choice(NUMS))
        elif r < 0.9:
            self.t(self.string())
        else:
            self.t(self.rng.choice(['true', 'false']))

    def args(self, d, kw=True, files=False, close=')'):
        rng = self.rng
        n = rng.choice([0, 1, 1, 2, 2, 3, 3, 4, 6, 9]) if d < 3 else rng.randint(0, 2)
        nk = rng.choice([0, 0, 0, 1, 2, 3]) if kw and not files else (1 if kw and rng.random() < 0.05 else 0)
        items = [('p', None)] * n + [('k', rng.choice(['k', 'kw', 'name', 'sources', 'install'])) for _ in range(nk)]
        for i, (kind, name) in enumerate(items):
            if kind == 'k':
                self.t(name)
                self.t(':')
            if files and kind == 'p' and rng.random() < 0.8:
                self.t(rng.choice(FILES))
            elif kind == 'p' and rng.random() < 0.15:
                self.t(rng.choice(["'--opt'", "'--flag'", "'value'", "'--'", "'--long-option-name'"]))
            else:
                self.expr(d + 1)
            if i + 1 < len(items):
                self.t(',')
            elif rng.random() < 0.25:
                self.t(',')

    def dict_items(self, d):
        rng = self.rng
        n = rng.choice([0, 1, 2, 3])
        for i in range(n):
            if rng.random() < 0.7:
                self.t(rng.choice(["'k1'", "'k2'", "'key'", "'''mk'''", "f'fk'"]))
            else:
                self.expr(d + 2)
            self.t(':')
            self.expr(d + 1)
            if i + 1 < n or rng.random() < 0.25:
                self.t(',')

    def files_call(self, d):
        rng = self.rng
        self.t('files')
        self.t('(')
        r = rng.random()
        if r < 0.45:
            self.args(d, kw=True, files=True)
        else:
            lv = 1 if r < 0.85 else 2
            for _ in range(lv):
                self.t('[')
            self.args(d, kw=False, files=True)
            for i in range(lv):
                self.t(']')
                if rng.random() < 0.15:
                    self.t(',')
            if rng.random() < 0.08:
                self.t(',') if self.last != ',' else None
                self.t(rng.choice(FILES))
        self.t(')')

    def expr(self, d):
        rng = self.rng
        k = rng.random()
        if d > 3 or k < 0.3:
            return self.atom()
        if k < 0.38:
            self.t('('); self.expr(d + 1); self.t(')')
        elif k < 0.48:
            self.t('['); self.args(d + 1, kw=False); self.t(']')
        elif k < 0.53:
            self.t('{'); self.dict_items(d + 1); self.t('}')
        elif k < 0.62:
            self.files_call(d + 1)
        elif k < 0.70:
            self.t(rng.choice(['f', 'g', 'executable', 'dependency'])); self.t('('); self.args(d + 1); self.t(')')
        elif k < 0.77:
            self.postfix_base(d)
            for _ in range(rng.choice([1, 1, 2, 3])):
                self.t('.'); self.t(rng.choice(['m', 'get', 'files', 'to_string'])); self.t('('); self.args(d + 2); self.t(')')
        elif k < 0.81:
            self.postfix_base(d); self.t('['); self.expr(d + 1); self.t(']')
        elif k < 0.86:
            self.t(rng.choice(['not', '-'])); self.unary_operand(d)
        elif k < 0.96:
            op = rng.choice(['+', '-', '*', '/', '%', '==', '!=', '<', '<=', '>', '>=', 'in', 'not in', 'and', 'or', 'and', 'or'])
            self.operand(d + 1)
            for w in op.split():
                self.t(w)
            self.operand(d + 1)
            if op in ('and', 'or', '+') and rng.random() < 0.4:
                self.t(op); self.operand(d + 1)
        elif not self.tern:
            self.tern = True
            self.operand(d + 1); self.t('?'); self.operand(d + 2); self.t(':'); self.operand(d + 2)
            self.tern = False
        else:
            self.atom()

    def postfix_base(self, d):
        r = self.rng.random()
        if r < 0.5:
            self.t(self.rng.choice(IDS))
        elif r < 0.7:
            self.t(self.string())
        elif r < 0.8:
            self.t('('); self.expr(d + 2); self.t(')')
        elif r < 0.9:
            self.t('['); self.args(d + 2, kw=False); self.t(']')
        else:
            self.t(self.rng.choice(['f', 'meson'])); self.t('('); self.args(d + 2); self.t(')')

    def unary_operand(self, d):
        if self.rng.random() < 0.6:
            self.postfix_base(d + 1)
        else:
            self.t('('); self.expr(d + 1); self.t(')')

    def operand(self, d):
        # an operand that needs no parentheses to stay grouped: atom, call, parenthesised
        r = self.rng.random()
        if r < 0.45 or d > 3:
            self.atom()
        elif r < 0.6:
            self.t('('); self.expr(d + 1); self.t(')')
        elif r < 0.75:
            self.t(self.rng.choice(['f', 'g'])); self.t('('); self.args(d + 1); self.t(')')
        elif r < 0.85:
            self.files_call(d + 1)
        elif r < 0.92:
            self.t('['); self.args(d + 1, kw=False); self.t(']')
        else:
            self.postfix_base(d); self.t('.'); self.t('m'); self.t('('); self.args(d + 2); self.t(')')

    def eol(self):
        rng = self.rng
        s = rng.choice(['', '', '', ' ', '  ', '\t']) if rng.random() < max(self.noise, 0.2) else ''
        if rng.random() < max(self.noise * 0.8, 0.12):
            s += rng.choice(['', ' ', '  ']) + self.comment()
        self.raw(s + '\n')

    def between(self, ind):
        rng = self.rng
        while rng.random() < max(self.noise * 0.6, 0.12):
            if rng.random() < 0.5:
                self.raw(rng.choice(['', '', ' ', '  ', '\t']) + '\n')
            else:
                self.raw(rng.choice(['', ind, '  ', '\t', '        ']) + self.comment() + '\n')

    def stmt(self, d, inloop=False):
        rng = self.rng
        ind = rng.choice(['  ', '    ', '\t', '']) * d if self.noise > 0.3 and rng.random() < 0.3 else '    ' * d
        self.between(ind)
        self.indent(ind)
        k = rng.random()
        if k < 0.45 or d > 2:
            self.t(rng.choice(['x', 'y', 'var', 'srcs']))
            self.t(rng.choice(['=', '=', '+=']))
            self.expr(0)
            self.eol()
        elif k < 0.62:
            self.expr(0)
            self.eol()
        elif k < 0.8:
            self.t('if'); self.expr(1); self.eol()
            self.block(d + 1, inloop)
            for _ in range(rng.choice([0, 0, 1, 2])):
                self.between('    ' * d); self.indent(ind); self.t('elif'); self.expr(1); self.eol()
                self.block(d + 1, inloop)
            if rng.random() < 0.5:
                self.between('    ' * d); self.indent(ind); self.t('else'); self.eol()
                self.block(d + 1, inloop)
            self.between('    ' * d); self.indent(ind); self.t('endif'); self.eol()
        elif k < 0.92:
            self.t('foreach'); self.t(rng.choice(['i', 'k']))
            if rng.random() < 0.4:
                self.t(','); self.t('v')
            self.t(':'); self.expr(1); self.eol()
            self.block(d + 1, True)
            self.between('    ' * d); self.indent(ind); self.t('endforeach'); self.eol()
        else:
            self.t(rng.choice(['continue', 'break']) if inloop else rng.choice(IDS)); self.eol()

    def block(self, d, inloop):
        for _ in range(self.rng.choice([0, 1, 1, 2, 3])):
            self.stmt(d, inloop)

    def program(self):
        rng = self.rng
        for _ in range(rng.choice([1, 1, 2, 3, 4, 6])):
            self.stmt(0)
        self.between('')
        s = ''.join(x for x in self.out if x)
        r = rng.random()
        if r < 0.12:
            s = s.rstrip('\n')
        elif r < 0.2:
            s += '\n\n'
        elif r < 0.25:
            s = '\n' + s
        return s


def g_program(rng, noise=None, odd=False):
    if noise is None:
        noise = rng.choice([0.0, 0.05, 0.15, 0.3, 0.5])
    return G(rng, noise, odd).program()


# ------------------------------------------------------------------ hand corpus (runs first)
CORPUS = [
    "x = '''a\\nb'''\n", "x = '''x\\'''\n", "x = f'''a\\x40b\\x40'''\n", "x = '''a\\qb'''\n", "x = '''a\\\\b'''\n",
    "x = '''abc'''\n", "x = f'abc'\n", "x = f'''abc'''\n", "x = f'''a@b@'''\n", "x = '''a'b'''\n", "x = '''a\nb'''\n",
    "x = f'\\x40a\\x40'\n", "x = ''''''\n", "x = f''\n", "x = '''\\'''\n", "x = ['''\\\\''', '''\\n''']\n",
    "x = files([['a']])\n", "x = files(['b', 'a'])\n", "x = files('b', 'a')\n", "x = files([ # c\n 'a'])\n",
    "x = files([ \\\n 'a'])\n", "x = files([])\n", "x = files([ # c\n])\n", "x = files([k : 1])\n", "x = files(['a'], k : 1)\n",
    "x = files(['a'], 'b')\n", "x = files([['b', 'a'], 'c'])\n", "x = files('b', # cb\n 'a', # ca\n)\n",
    "x = files('b' # cb\n, 'a' # ca\n)\n", "x = files('a10', 'a9', 'A', 'sub/x', 'sub/dir/y', 'b', f, 'a')\n",
    "x = a.files(['a'])\n", "x = files(files(['b', 'a']), 'a')\n",
    "x = 1 # a\x0cb\n", "x = 1 # a \u2028 b\n", "# a\x0c# b\nx=1\n", "x = 1 # a   \n", "#\n#!x\n", "x = [ # c1\n 1, # c2\n 2 # c3\n, # c4\n] # c5\n",
    "f(a: 1, b)\n", "x = (a # c\n)\n", "x = ( # c\n a)\n", "x = (a\n)\n", "x = ((a\n))\n", "x = ((a # c\n)\n)\n",
    "x = a \\\n + b\n", "x = a \\ # c\n + b\n", "x = a.b() \\\n .c()\n", "x = a \\\n .b() \\\n .c(1,\n 2)\n",
    "if a # c\n x = 1 # d\nendif # e\n", "if a\n# c\nendif\n", "if a\nelse\n# c\nendif\n", "foreach i : [1]\n# c\nendforeach\n",
    "if a\n  # c1\n  x = 1\n  # c2\nelif b\n  # c3\nelse\n  # c4\n  y = 2\nendif\n# c5\n", "", "\n", "# only\n", "#", "x = 1", "x=1\n\n\n",
    "x = f(a, b, c, d, e, f, g, h, i, j, k, l, m, n, o, p, q, r, s, t, u, v, w, xx, y, z, aa, bb, cc, dd, ee, ff)\n",
    "x = [a, [b, [c, [d, [e, f, g, h, i, j, k, l, m, n, o, p, q, r, s, t, u, v, w, xx, y, z, aa, bb, cc, dd, ee, ff]]]]]\n",
    "x = {'a' : 1, 'b' : [1, 2, ], }\n", "x = {}\n", "x = []\n", "x = [\n]\n", "x = f(\n)\n", "x = f( # c\n)\n", "x = [ # c\n]\n", "x = { # c\n}\n",
    "x = f('--opt', 'value', '--flag', '--x', 'y',\n 'z')\n", "x = not a\nx = not(a)\nx = - a\nx = -(a)\n", "x = a?b:c\n", "x = a ? b \\\n : c\n",
    "x = (a and b) or (c and d) or (e and f) or (g and hhhhhhhhhhhhhhhhhhhhhhhhhhhhhhhhhhhhhhhhhhhh)\n",
    "x = (\n a and b\n)\n", "x = (a\n and b # c\n or c)\n", "x = [(a\n)]\n", "f((a # c\n))\n", "x = 'a' 'b'\n",
    "x = a[ # c\n 1]\n", "x = a. \\\n b()\n", "x = a.b( # c\n)\n", "x += [1,\n]\n", "foreach a,b:c\nendforeach\n", "foreach a , b : c # c\nendforeach\n",
    "if a\n\tx = 1\nendif\n", "\tx = 1\n", "x = 1 \n", "x = 1\t# c\n", "x = [1, 2, # c\n]\n", "x = [1 # c\n]\n", "x = [ # c\n 1]\n", "x = [1, # c\n 2]\n",
    "x = '''\n# not a comment\n'''\n", "x = 'a#b' # c\n", "x = f(k : 1)\n", "x = f(k : 1,)\n", "x = f(1, k : 1)\n", "x = f(a, # c\n)\n",
    "x = f(a # c\n)\n", "x = f(a # c\n, b)\n", "continue\n", "break # c\n", "x = [\n  1,\n\n\n  2,\n]\n", "x = [\n  # c\n\n  # d\n  1,\n]\n",
]


def mutate(rng, s):
    """trivia-level and small structural mutations that often keep a file parseable"""
    lines = s.split('\n')
    for _ in range(rng.randint(1, 4)):
        k = rng.random()
        if not lines:
            break
        i = rng.randrange(len(lines))
        if k < 0.25:
            if '#' not in lines[i] and "'" not in lines[i]:
                lines[i] += rng.choice(['  # m%d' % i, ' #m', '\t# m \\', ' # m\x0cx' if rng.random() < 0.1 else ' # mm'])
        elif k < 0.4:
            lines.insert(i, rng.choice(['', '  ', '# ins', '    # ins %d' % i, '\t']))
        elif k < 0.55:
            lines[i] = rng.choice(['', ' ', '\t', '      ']) + lines[i].lstrip()
        elif k < 0.7:
            m = list(re.finditer(r'[,(\[]', lines[i]))
            if m and "'" not in lines[i][:m[0].start()]:
                p = rng.choice(m).end()
                lines[i] = lines[i][:p] + rng.choice(['\n', ' # mc\n', '\n\n', ' \\\n']) + lines[i][p:]
        elif k < 0.8:
            lines[i] = re.sub(r' (==|\+|and|or) ', lambda mm: rng.choice([' \\\n  ', '  ']) + mm.group(1) + ' ', lines[i], count=1)
        elif k < 0.9:
            lines[i] = lines[i].replace("'", "'''", 2) if lines[i].count("'") == 2 else lines[i]
        else:
            j = rng.randrange(len(lines[i]) + 1)
            lines[i] = lines[i][:j] + lines[i][j + 1:]
    return '\n'.join(lines)


def corpus_files():
    fs = []
    for pat in ('*/*/meson.build', '*/*/*/meson.build', '*/*/*/*/meson.build', '*/*/meson_options.txt', '*/*/meson.options'):
        fs += glob.glob(os.path.join(REPO, 'test cases', pat))
    return sorted(fs)


def in_model(code):
    for ch in code:
        if ord(ch) > 127 and ch.isdigit():
            return False
    return '\\N{' not in code


def max_nesting(code):
    d = m = 0
    for ch in code:
        if ch in '([{':
            d += 1; m = max(m, d)
        elif ch in ')]}':
            d -= 1
    return max(m, code.count('.') // 2)


def ascii_only(s):
    return all(ord(c) < 128 for c in s)


# ------------------------------------------------------------------ the property's clauses
def judge(code, cfg, r, same, cin, cout):
    """clauses of C16 for one (file, configuration); r = implementation answers,
    same / cin / cout = extracted reference parser's verdicts.  Returns list of failures."""
    fails = []
    if 'exc' in r:
        return [{'kind': 'formatter-exception', 'exc': r['exc']}]
    out = r['out']
    if same == 'ERR':
        fails.append({'kind': 'output-unparseable', 'out': out})
    elif same == 'F':
        fails.append({'kind': 'not-same-program', 'out': out})
    if same != 'ERR' and cin is not None and cout is not None and cin != cout:
        fails.append({'kind': 'comments-changed', 'in_comments': cin, 'out_comments': cout, 'out': out})
    if 'exc2' in r:
        fails.append({'kind': 'second-pass-exception', 'exc': r['exc2'], 'out': out})
    elif r.get('out2') != out:
        fails.append({'kind': 'not-idempotent', 'out': out, 'out2': r.get('out2')})
    return fails


LAYOUT_CAUSES = ['no_single_comma_function', 'backslash-continuation', 'long-line', 'comment', 'multiline-input', 'several-causes']


def classify_batch(ctx, run_, items):
    """items: list of (code, cfg, r, failure).  Returns one identifier of a recorded finding
    (known_findings.json) or None per item.  Recorded classes:
      * C16:empty-operand - the file has an operator / assignment / argument whose operand is missing
        (the parser accepts it as EmptyNode; evaluation rejects it);
      * C16:not-same-program:keyword-argument-before-positional  (finding of C02: RawPrinter re-emits
        positional arguments first) - decided by ArgumentNode.order_error of the input;
      * C16:comments-reordered:sort_files - the same comments in another order, and in the same
        order when sort_files is switched off;
      * C16:not-idempotent:layout-only:<cause> - the second pass only moves whitespace (same program,
        same comments) and the file IS stable once <cause> is taken away: the option
        no_single_comma_function / the backslash continuations / the line-length limit / the
        comments / the line breaks inside brackets (tried in this order), or all of them together
        ('several-causes')."""
    idents = [None] * len(items)
    # ---- files with a missing operand
    if items:
        he = ctx.run_model([('has_empty', [it[0]]) for it in items], shards=NPROC if len(items) > 2000 else 1)
        for k, h in enumerate(he):
            if h == 'T':
                idents[k] = 'C16:empty-operand'
    # ---- keyword argument before positional
    oe_idx = [k for k, (c, g, r, f) in enumerate(items) if idents[k] is None and f['kind'] in ('not-same-program', 'comments-changed')]
    if oe_idx:
        oe = run_impl('c16.py', {'order_error': [items[k][0] for k in oe_idx]})['order_error']
        for k, bad in zip(oe_idx, oe):
            f = items[k][3]
            if bad and (f['kind'] == 'not-same-program' or sorted(f['in_comments']) == sorted(f['out_comments'])):
                idents[k] = 'C16:not-same-program:keyword-argument-before-positional'
    # ---- comments reordered by sort_files
    so_idx = [k for k, (c, g, r, f) in enumerate(items)
              if idents[k] is None and f['kind'] == 'comments-changed' and g.get('sort_files')
              and sorted(f['in_comments']) == sorted(f['out_comments'])]
    if so_idx:
        pairs = [(items[k][0], dict(items[k][1], sort_files=False)) for k in so_idx]
        res = run_.impl(pairs)
        ref = run_.reference(pairs, res)
        for j, k in enumerate(so_idx):
            same, cin, cout = ref.get(j, (None, None, None))
            if cin is not None and cin == cout:
                idents[k] = 'C16:comments-reordered:sort_files'
    # ---- layout-only second pass, with a cause
    ni_idx = [k for k, (c, g, r, f) in enumerate(items)
              if idents[k] is None and f['kind'] == 'not-idempotent' and isinstance(f.get('out2'), str)]
    if ni_idx:
        cases = []
        for k in ni_idx:
            c, g, r, f = items[k]
            cases += [('same', [cfg_flags(g)[1], f['out'], f['out2']]), ('comments', [f['out']]), ('comments', [f['out2']])]
        mo = ctx.run_model(cases, shards=NPROC if len(cases) > 600 else 1)
        layout = [k for j, k in enumerate(ni_idx)
                  if mo[3 * j] == 'T' and mo[3 * j + 1] == mo[3 * j + 2] and mo[3 * j + 1].startswith('OK:')]
        abl = run_impl('c16.py', {'ablate': [items[k][0] for k in layout]})['ablate'] if layout else []
        trials, owner = [], []
        for k, a in zip(layout, abl):
            c, g, r, f = items[k]
            opts = []
            if g.get('no_single_comma_function'):
                opts.append(('no_single_comma_function', c, dict(g, no_single_comma_function=False)))
            if a.get('nocont', c) != c:
                opts.append(('backslash-continuation', a['nocont'], g))
            opts.append(('long-line', c, dict(g, max_line_length=100000)))
            if a.get('nocomment', c) != c:
                opts.append(('comment', a['nocomment'], g))
            if a.get('flat', c) != c:
                opts.append(('multiline-input', a['flat'], g))
            opts.append(('several-causes', a.get('flat', c), dict(g, no_single_comma_function=False, max_line_length=100000)))
            for name, c2, g2 in opts:
                trials.append((c2, g2))
                owner.append((k, name))
        tres = run_.impl(trials) if trials else []
        stable = {}
        for (k, name), tr in zip(owner, tres):
            if 'out' in tr and tr.get('out2') == tr['out']:
                stable.setdefault(k, []).append(name)
        for k in layout:
            for name in LAYOUT_CAUSES:
                if name in stable.get(k, []):
                    idents[k] = 'C16:not-idempotent:layout-only:' + name
                    break
    return idents


def shrink(ctx, run_, code, cfg, f, budget=10):
    """delta-debugging on lines and character ranges: a smaller file that breaks the same clause
    (and is not one of the recorded findings)"""
    kind = f['kind']

    def failing(cands):
        pairs = [(c, cfg) for c in cands]
        res = run_.impl(pairs)
        ref = run_.reference(pairs, res)
        hits = []
        for k, ((c, g), r) in enumerate(zip(pairs, res)):
            if r.get('unparseable') or not in_model(c):
                continue
            same, cin, cout = ref.get(k, (None, None, None))
            for ff in judge(c, g, r, same, cin, cout):
                if ff['kind'] == kind:
                    hits.append((c, g, r, ff))
        if not hits:
            return []
        ids = classify_batch(ctx, run_, hits)
        return [(c, ff) for (c, g, r, ff), i in zip(hits, ids) if i is None]
    cur, curf = code, f
    import time as _time
    if not hasattr(ctx, '_shrink_deadline'):
        ctx._shrink_deadline = _time.time() + (90 if ctx.tier == 'quick' else 600)   # shrinking is best effort and bounded
    for _ in range(budget):
        if _time.time() > ctx._shrink_deadline:
            break
        cands = []
        lines = cur.split('\n')
        n = len(lines)
        for size in sorted(set([max(1, n // 2), max(1, n // 4), 1]), reverse=True):
            for i in range(0, n, size):
                cands.append('\n'.join(lines[:i] + lines[i + size:]))
        L = len(cur)
        for size in sorted(set([max(1, L // 6), max(1, L // 12), 5, 2, 1]), reverse=True):
            for i in range(0, L, max(1, size // 2)):
                cands.append(cur[:i] + cur[i + size:])
        cands = [x for x in dict.fromkeys(cands) if len(x) < len(cur)]
        if len(cands) > 120:
            cands = ctx.rng.sample(cands, 120)
        good = failing(cands)
        if not good:
            break
        cur, curf = min(good, key=lambda x: len(x[0]))
    return cur, cfg, curf


class Runner:
    """implementation + reference verdicts for batches of (code, cfg)"""

    def __init__(self, ctx, built):
        self.ctx, self.built = ctx, built

    def impl(self, pairs):
        CH = 400
        chunks = [pairs[i:i + CH] for i in range(0, len(pairs), CH)]
        outs = pmap(lambda ch: run_impl('c16.py', {'format': ch})['format'], chunks)
        return [x for o in outs for x in o]

    def reference(self, pairs, res):
        """same_program(in,out), comments(in), comments(out) from the extracted model"""
        cases, idx = [], []
        for k, ((code, cfg), r) in enumerate(zip(pairs, res)):
            if 'out' in r:
                idx.append(k)
                cases.append(('same', [cfg_flags(cfg)[1], code, r['out']]))
                cases.append(('comments', [code]))
                cases.append(('comments', [r['out']]))
        mo = self.ctx.run_model(cases, shards=NPROC if len(cases) > 2000 else 1)
        ref = {}
        for j, k in enumerate(idx):
            ref[k] = (mo[3 * j], parse_comments(mo[3 * j + 1]), parse_comments(mo[3 * j + 2]))
        return ref


def parse_comments(s):
    if not s.startswith('OK:'):
        return None
    return s[3:].split('\x01')[:-1]


def replay(ctx):
    rec = json.load(open(ctx.replay))
    r = rec['replay']
    if r.get('option_files'):
        global PENDING
        PENDING = True
        print('scenario:', r['scenario'], ' files:', json.dumps(r['files']), ' arguments:', r['args'], ' expected:', r['expected'])
        options_precedence(ctx)
        hit = [v for v in ctx.violations if v['replay'].get('scenario') == r['scenario']]
        print('now:', json.dumps(hit[0]['replay']) if hit else 'as expected')
        ctx.cleanup()
        return 0
    code, cfg = r['code'], r.get('config', {})
    print('input :', json.dumps(code))
    print('config:', json.dumps(cfg))
    if r.get('config_sources'):
        d = ctx.mkscratch()
        o = run_modes(code, None, os.path.join(d, 'replay'), files=r['files'], args=r['args'])
        print('files:', json.dumps(r['files']), ' arguments:', r['args'], ' effective:', json.dumps(r['effective']))
        print('command line:', json.dumps(printable(o))[:3000])
        print('property clauses:', json.dumps(judge_modes(o) + (obeys(o, r['effective'], code) if o['inplace_rc'] == 0 else [])))
        ctx.cleanup()
        return 0
    if r.get('cli_modes'):
        d = ctx.mkscratch()
        o = run_modes(code, cfg, os.path.join(d, 'replay'))
        print('command line:', json.dumps(printable(o))[:3000])
        print('property clauses:', json.dumps(judge_modes(o)))
        ctx.cleanup()
        return 0
    built = ctx.build('Props/C16.v', 'Format/Extract.v', 'C16')
    res = run_impl('c16.py', {'format': [[code, cfg]]})['format'][0]
    print('implementation:', json.dumps(res)[:1500])
    if built and 'out' in res:
        run = Runner(ctx, built)
        same, cin, cout = run.reference([(code, cfg)], [res])[0]
        print('reference: same_program =', same, ' comments(in) =', cin, ' comments(out) =', cout)
        print('property clauses:', json.dumps(judge(code, cfg, res, same, cin, cout))[:1500])
    return 0


def run(ctx):
    if ctx.replay:
        return replay(ctx)
    rng = ctx.rng
    thorough = ctx.tier == 'thorough'
    built = ctx.build('Props/C16.v', 'Format/Extract.v', 'C16')
    pairs, kinds = [], {}

    def add(code, cfg, kind):
        pairs.append((code, cfg))
        kinds[kind] = kinds.get(kind, 0) + 1

    # 1. hand corpus under the default and a few fixed configurations
    fixed = [{}, {'sort_files': True}, {'max_line_length': 20, 'indent_by': '\t'}, {'indent_by': '', 'max_line_length': 30}, {'simplify_string_literals': False, 'space_array': True,
             'wide_colon': True, 'kwargs_force_multiline': True, 'no_single_comma_function': True, 'group_arg_value': True,
             'insert_final_newline': False, 'sort_files': True}]
    for c in CORPUS:
        for cfg in fixed:
            add(c, cfg, 'corpus')
    # 2. grammar-based programs with trivia
    nprog = 24000 if thorough else 2200
    for i in range(nprog):
        p = g_program(rng, odd=(i % 10 == 0))
        add(p, {} if i % 3 == 0 else rand_cfg(rng), 'program')
    # 3. all 256 combinations of the boolean options on a few programs
    nall = 30 if thorough else 3
    for i in range(nall):
        p = g_program(rng, noise=0.3)
        for bits in itertools.product([False, True], repeat=len(BOOL_OPTS)):
            cfg = dict(zip(BOOL_OPTS, bits))
            if i % 2:
                cfg['max_line_length'] = 30
            add(p, cfg, 'all-bool-combos')
    ctx.extra['exhaustive_part'] = {'boolean_option_combinations': 256, 'on_programs': nall}
    # 3b. every token sequence up to a bound over a small alphabet with comments, continuations, line breaks
    #     (the unparseable ones are dropped by the implementation's parser)
    SMALL = ['a', "'s'", "'''m'''", "f'@a@'", 'files', '(', ')', '[', ']', ',', ':', '=', '+', 'not', '# c\n', '\\\n', '\n', '?']
    L = 4 if thorough else 3
    for n in range(1, L + 1):
        for t in itertools.product(SMALL, repeat=n):
            add(' '.join(t), {}, 'exhaustive-small')
    ctx.extra['exhaustive_part']['token_sequences'] = {'alphabet': len(SMALL), 'max_len': L, 'spacing': 'single blank'}
    # 4. repository build files, and trivia mutants of them
    files = corpus_files()
    files = rng.sample(files, min(len(files), 3000 if thorough else 150))
    for f in files:
        try:
            txt = open(f, encoding='utf-8').read()
        except Exception:
            continue
        if len(txt) > 5000 or max_nesting(txt) > 40:
            continue
        add(txt, rand_cfg(rng) if rng.random() < 0.5 else {}, 'repo-file')
        for _ in range(2):
            add(mutate(rng, txt), rand_cfg(rng), 'repo-file-mutant')
    ctx.extra['input_kinds'] = kinds

    pairs = [(c, g) for c, g in pairs if max_nesting(c) <= 40]
    run_ = Runner(ctx, built)
    res = run_.impl(pairs)
    stats = {'formatted': 0, 'unparseable_input': 0, 'changed': 0, 'rounds': {}}
    keep = []
    for (code, cfg), r in zip(pairs, res):
        if r.get('unparseable'):
            stats['unparseable_input'] += 1
            continue
        keep.append(((code, cfg), r))
        stats['formatted'] += 1
        if r.get('out') != code:
            stats['changed'] += 1
        if 'rounds' in r:
            stats['rounds'][str(r['rounds'])] = stats['rounds'].get(str(r['rounds']), 0) + 1
    ctx.extra['implementation_outcomes'] = stats
    pairs = [p for p, _ in keep]
    res = [r for _, r in keep]
    modelable = [in_model(c) and ('out' not in r or in_model(r['out'])) for (c, _), r in zip(pairs, res)]
    ctx.extra['out_of_model'] = modelable.count(False)

    if built:
        # ---- correspondence: the model's prediction of the formatter's program-level output,
        #      and the reference parser against the implementation's parser on every output
        cases, meta = [], []
        he = ctx.run_model([('has_empty', [code]) for code, _ in pairs], shards=NPROC)
        ctx.extra['inputs_with_empty_operand'] = he.count('T')
        for k, ((code, cfg), r) in enumerate(zip(pairs, res)):
            if not modelable[k] or 'out' not in r:
                continue
            cases.append(('strictu', [r['out']])); meta.append((k, 'parse-of-output'))
            if r.get('order_error') or he[k] == 'T':
                continue        # recorded findings: positional arguments printed first / missing operands
            if cfg_flags(cfg)[1] == 'T' and not ascii_only(code):
                continue
            cases.append(('fmt', [cfg_flags(cfg), str(r['rounds']), code])); meta.append((k, 'predicted-program'))
        mo = ctx.run_model(cases, shards=NPROC)
        for (k, what), m in zip(meta, mo):
            (code, cfg), r = pairs[k], res[k]
            ctx.count((what, code, json.dumps(cfg, sort_keys=True)))
            if m == 'FUEL':
                raise HarnessError('parser model ran out of fuel')
            if m != r['strict_out'] and len(ctx.disagreements) < 100:
                ctx.disagreements.append({'fn': what, 'code': code, 'config': cfg, 'rounds': r['rounds'],
                                          'implementation': r['strict_out'][:600], 'model': m[:600], 'out': r['out'][:600]})
        ctx.cov['traces_validated_against_impl'] = len(cases)
        unit = unit_cases(rng, thorough, [c for c, _ in pairs])
        uo = ctx.run_model(unit, shards=NPROC if len(unit) > 20000 else 1)
        ui = run_impl('c16.py', {'cases': [[f, a] for f, a in unit]})['results']
        for (fn, a), m, i in zip(unit, uo, ui):
            ctx.count((fn, tuple(a)))
            if m != i and len(ctx.disagreements) < 100:
                ctx.disagreements.append({'fn': fn, 'args': a, 'implementation': i[:300], 'model': m[:300]})
        ctx.cov['traces_validated_against_impl'] += len(unit)
        # ArgumentFormatter's comma rule, observed per argument list of real formatter runs
        cp = [pairs[k] for k in range(0, len(pairs), max(1, len(pairs) // (4000 if thorough else 500)))]
        obs = [x for o in pmap(lambda ch: run_impl('c16.py', {'commas': ch})['commas'],
                               [cp[i:i + 100] for i in range(0, len(cp), 100)]) for x in o]
        ccases, cexp = [], []
        for (code, cfg), rows in zip(cp, obs):
            for row in rows:
                if len(row) != 6:
                    ctx.disagreements.append({'fn': 'commas', 'code': code, 'config': cfg, 'implementation': row})
                    continue
                na, nc, ml, fn, loud, after = row
                fl = ''.join('T' if b else 'F' for b in (cfg.get('no_single_comma_function', False), ml, fn, loud))
                ccases.append(('commas', [fl, str(na), str(nc)])); cexp.append((code, cfg, after))
        cm = ctx.run_model(ccases)
        for (fn_, a), m, (code, cfg, after) in zip(ccases, cm, cexp):
            ctx.count((fn_, tuple(a)))
            if m != str(after) and len(ctx.disagreements) < 100:
                ctx.disagreements.append({'fn': 'commas', 'args': a, 'code': code, 'config': cfg, 'implementation': after, 'model': m})
        ctx.cov['traces_validated_against_impl'] += len(ccases)
        ctx.extra['comma_rule_observations'] = len(ccases)
        ctx.extra['unit_cases'] = len(unit)
        small = [k for k in range(len(cases)) if sum(len(a) for a in cases[k][1]) < 250]
        rng.shuffle(small)
        kc = [(cases[k], mo[k]) for k in small[:200]]
        us = [k for k in range(len(unit)) if sum(len(a) for a in unit[k][1]) < 250]
        rng.shuffle(us)
        kc += [(unit[k], uo[k]) for k in us[:100]]
        ctx.kernel_crosscheck('Format.Entry', [c for c, _ in kc], [o for _, o in kc], limit=300)

        # ---- oracle: the property's clauses, judged with the extracted reference parser
        ref = run_.reference(pairs, res)
        nviol, found = {}, []
        for k, ((code, cfg), r) in enumerate(zip(pairs, res)):
            if not modelable[k]:
                continue
            same, cin, cout = ref.get(k, (None, None, None))
            if same == 'FUEL':
                raise HarnessError('parser model ran out of fuel')
            for f in judge(code, cfg, r, same, cin, cout):
                nviol[f['kind']] = nviol.get(f['kind'], 0) + 1
                found.append((code, cfg, r, f))
        idents = classify_batch(ctx, run_, found)
        recorded, fresh = {}, {}
        for item, ident in zip(found, idents):
            if ident:
                recorded[ident] = recorded.get(ident, 0) + 1
                code, cfg, r, f = item
                ctx.violation(ident, f['kind'], {'code': code, 'config': cfg, 'failure': f})
            else:
                # one group per clause and configuration facet; an output that does not parse also
                # makes the second pass raise: one group
                kind = item[3]['kind'].replace('second-pass-exception', 'output-unparseable')
                fresh.setdefault((item[1].get('indent_by') == '', kind), []).append(item)
        # report the shortest failing input of every group first (round robin over the groups)
        for v in fresh.values():
            v.sort(key=lambda it: (len(it[0]), len(it[1])))
        for kind in fresh:           # distinct files first
            seen, first, rest = set(), [], []
            for it in fresh[kind]:
                (rest if it[0] in seen else first).append(it)
                seen.add(it[0])
            fresh[kind] = first + rest
        for (facet, kind) in fresh:  # in a facet group, files that do not fail without the facet first
            if facet:
                plain = {it[0] for it in fresh.get((False, kind), [])}
                fresh[(facet, kind)].sort(key=lambda it: it[0] in plain)
        nkinds = {}
        for (facet, kind), v in fresh.items():
            nkinds[kind] = nkinds.get(kind, 0) + len(v)
        ctx.extra['unrecorded_clause_failures'] = nkinds
        order = []
        for rank in range(max([len(v) for v in fresh.values()] or [0])):
            for kind in sorted(fresh):
                if rank < len(fresh[kind]):
                    order.append(fresh[kind][rank])
        for n, (code, cfg, r, f) in enumerate(order[:40]):
            if n < 5 and len(code) > 60:
                code, cfg, f = shrink(ctx, run_, code, cfg, f)
            ctx.violation('C16:%s:%s:%s' % (f['kind'], json.dumps(cfg, sort_keys=True), json.dumps(code)),
                          '%s on %s with %s' % (f['kind'], json.dumps(code[:160]), json.dumps(cfg)),
                          {'code': code, 'config': cfg, 'failure': f})
        ctx.extra['recorded_finding_hits'] = recorded
        ctx.extra['clause_failures'] = nviol
    for k in (0, len(pairs) // 3, len(pairs) // 2, len(pairs) - 1):
        if 0 <= k < len(pairs):
            ctx.sample({'code': pairs[k][0][:200], 'config': pairs[k][1], 'out': res[k].get('out', res[k].get('exc', ''))[:200]})

    t_cli = time.time()
    cli_sample(ctx, rng, pairs, res, 60 if thorough else 10)
    cli_modes(ctx, rng, run_, pairs, res, 6 if thorough else 1)
    options_precedence(ctx)
    config_sources(ctx)
    ctx.extra['cli_s'] = round(time.time() - t_cli, 1)
    return ctx.finish(
        level='proof',
        trusted=['Coq 8.16.1 kernel (coqc, vm_compute; no native_compute)',
                 'extraction (ExtrOcamlBasic only) + OCaml + extract/driver.ml, cross-checked in-kernel on a sample each run',
                 'harness/check_C16.py generators and clause evaluation, harness/impl/c16.py adapter',
                 'the extracted lexer/parser model of C02 (coq/Syntax) as the independent reference parser'],
        assumptions=['Print Assumptions: property theorems closed under the global context'],
        rule='inputs: hand corpus x 4 configurations, grammar-based programs decorated with legal trivia under random configurations, '
             'a few programs under all 256 combinations of the boolean options, repository build files and trivia mutants; '
             'distinct = distinct (check, input, configuration) triples')


def unit_cases(rng, thorough, codes):
    """direct cases for the modelled pieces: escape decoding, the literal simplification,
    lexing of a simplified literal, the sort key, f-string substitution, flagged trees"""
    alpha = ['a', 'b', '\\', "'", '\n', 'n', 'x', '4', '1', '@', 'u', '0', 'U', '7', ' ', 'é']
    bodies = ['', 'abc', 'a\\nb', 'x\\', "it's", 'a\nb', '@a@', 'a@', '\\x40a\\x40', '\\\\', '\\q', '\\101', '\\1234', '\\u00e9', '\\u00e',
              '\\U0001F600', '\\U0001F60', '\\x4', '\\x4g', '\\8', '\\7', '\\07x', "\\'", 'a\\', '\\\\\\', '@_x1@', '@1@', '@@', '@a b@', 'é@a@']
    for n in range(1, 4 if not thorough else 5):
        for t in itertools.product(alpha, repeat=n):
            bodies.append(''.join(t))
    for _ in range(3000 if not thorough else 30000):
        bodies.append(''.join(rng.choice(alpha) for _ in range(rng.randint(4, 9))))
    bodies = list(dict.fromkeys(bodies))
    cases = []
    for b in bodies:
        if '\\N{' in b:
            continue
        if '\\U' not in b or True:
            cases.append(('decode', [b]))
        for fl in ('TFFT', 'TFTT', 'TFTF', 'TFFF', 'FFTT'):
            cases.append(('simplify', [fl, b]))
        cases.append(('lexes', ['F', b]))
        cases.append(('lexes', ['T', b]))
    names = ['', 'a', 'b', 'A', 'a1', 'a10', 'a9', 'a01', '1', '10', '9', 'a/b', 'a/', '/a', 'a/b/c', 'b/a', 'a.c', 'B.c', 'a1b2', 'a1b10', 'ab',
             'sub/x.c', 'sub/dir/y.c', 'Sub/z', '//', 'a//b', '0', '00', 'a0', 'a00']
    for _ in range(300):
        names.append(''.join(rng.choice('abAB019/._') for _ in range(rng.randint(1, 6))))
    for a in names:
        for b in names[:30] if not thorough else names:
            cases.append(('keycmp', [a, b]))
    for v in ['x@a@y', '@a@@b@', '@zz@', '@a', 'a@', '@a@b@', '@_@', '@1a@', '@a1@', '@a-b@', 'plain', '', '@@', '@a@@', '@ a@', 'é@a@é']:
        cases.append(('fsubst', [v, 'a', 'VAL', 'b', '', '_', 'U', 'a1', '@a@']))
    for _ in range(300 if not thorough else 3000):
        v = ''.join(rng.choice(['@', 'a', 'b', '_', '1', ' ', '-', 'zz']) for _ in range(rng.randint(1, 8)))
        cases.append(('fsubst', [v, 'a', 'VAL', 'b', '', '_', 'U', 'a1', '@a@', 'ab', 'AB']))
    for c in codes[:: max(1, len(codes) // (2000 if thorough else 500))]:
        if in_model(c):
            cases.append(('strict', [c]))
    oe = run_impl('c16.py', {'order_error': [c[1][0] for c in cases if c[0] == 'strict']})['order_error']
    it = iter(oe)
    cases = [c for c in cases if c[0] != 'strict' or not next(it)]
    return [c for c in cases if all(in_model(a) for a in c[1])]


def cli_sample(ctx, rng, pairs, res, n):
    """the real command line: `meson format`, --check-only, --check-diff, --inplace with a configuration file"""
    cand = [k for k in range(len(pairs)) if 'out' in res[k] and '\r' not in pairs[k][0] and pairs[k][0]]
    rng.shuffle(cand)
    changed = [k for k in cand if res[k]['out'] != pairs[k][0]][: n // 2]
    same = [k for k in cand if res[k]['out'] == pairs[k][0]][: n - len(changed)]
    d = ctx.mkscratch()
    stats = {'runs': 0, 'changed': len(changed), 'unchanged': len(same)}

    def one(k):
        code, cfg = pairs[k]
        r = res[k]
        wd = os.path.join(d, 'cli%d' % k)
        os.makedirs(wd)
        src = os.path.join(wd, 'meson.build')
        with open(src, 'w', encoding='utf-8', newline='') as f:
            f.write(code)
        conf = os.path.join(wd, 'fmt.ini')
        with open(conf, 'w', encoding='utf-8') as f:
            for key, v in cfg.items():
                if isinstance(v, bool):
                    v = 'true' if v else 'false'
                elif isinstance(v, str):
                    v = "'" + v + "'"
                f.write('%s = %s\n' % (key, v))
        base = ['format', '-c', conf]
        outp = os.path.join(wd, 'formatted.build')
        p0 = meson_cli(base + ['--output', outp, src], cwd=wd)
        try:
            cli_out = open(outp, encoding='utf-8', newline='').read()
        except OSError:
            cli_out = None
        p1 = meson_cli(base + ['--check-only', src], cwd=wd)
        p2 = meson_cli(base + ['--check-diff', src], cwd=wd)
        fails = []
        would_change = r['out'] != code
        if p0.returncode != 0 or cli_out != r['out']:
            fails.append({'kind': 'cli-output-differs', 'rc': p0.returncode, 'output_file': (cli_out or '')[:400], 'stderr': p0.stderr[-300:], 'in_process': r['out'][:400]})
        if p1.returncode != (1 if would_change else 0):
            fails.append({'kind': 'check-only-wrong', 'rc': p1.returncode, 'would_change': would_change, 'stderr': p1.stderr[-300:]})
        has_diff = any(l.startswith('@@ ') for l in p2.stdout.split('\n'))     # parser warnings also go to stdout
        if p2.returncode != (1 if would_change else 0) or has_diff != would_change:
            fails.append({'kind': 'check-diff-wrong', 'rc': p2.returncode, 'would_change': would_change, 'diff': p2.stdout[:300], 'stderr': p2.stderr[-300:]})
        p3 = meson_cli(base + ['--inplace', src], cwd=wd)
        after = open(src, encoding='utf-8', newline='').read()
        p4 = meson_cli(base + ['--check-only', src], cwd=wd)
        if p3.returncode != 0 or after != r['out']:
            fails.append({'kind': 'inplace-differs', 'rc': p3.returncode, 'file': after[:400], 'stderr': p3.stderr[-300:]})
        elif p4.returncode != (0 if r.get('out2') == r['out'] else 1):
            fails.append({'kind': 'check-only-after-inplace', 'rc': p4.returncode})
        return k, fails
    for k, fails in pmap(one, changed + same):
        stats['runs'] += 5
        code, cfg = pairs[k]
        ctx.count(('cli', code, json.dumps(cfg, sort_keys=True)))
        for f in fails:
            ctx.violation('C16:%s:%s:%s' % (f['kind'], json.dumps(cfg, sort_keys=True), json.dumps(code)),
                          '%s on %s with %s' % (f['kind'], json.dumps(code[:160]), json.dumps(cfg)),
                          {'code': code, 'config': cfg, 'failure': f, 'cli': True})
    ctx.extra['cli'] = stats


# ------------------------------------------------------------------ the command line, judged on the implementation alone
HAND_BASES = ["project('p', 'c')\nx = [1, 2]\n", "if true\n    x = 1\nendif\n", "project('p', 'c')\n# the end\n",
              "foreach i : [1, 2]\n    if i == 1\n        y = f(i, k: 'v')  # c\n    endif\nendforeach\n"]
EOLS = [None, 'lf', 'crlf', 'cr', 'native']


def byte_variants(canon):
    """single byte-level perturbations of a canonical file (text with \n line ends)"""
    v = [('canonical', canon)]
    if canon.endswith('\n'):
        v.append(('no-final-newline', canon[:-1]))
    v.append(('extra-final-newline', canon + '\n'))
    v.append(('extra-final-newlines', canon + '\n\n\n'))
    v.append(('crlf', canon.replace('\n', '\r\n')))
    v.append(('cr', canon.replace('\n', '\r')))
    lines = canon.split('\n')
    code_lines = [i for i, l in enumerate(lines) if l.strip()]
    if code_lines:
        i = code_lines[len(code_lines) // 2]
        v.append(('trailing-blank', '\n'.join(lines[:i] + [lines[i] + ' '] + lines[i + 1:])))
        v.append(('trailing-tab', '\n'.join(lines[:i] + [lines[i] + '\t'] + lines[i + 1:])))
        j = code_lines[-1]
        v.append(('trailing-blank-last-line', '\n'.join(lines[:j] + [lines[j] + '  '] + lines[j + 1:])))
    v.append(('bom', '\ufeff' + canon))
    ind = [i for i, l in enumerate(lines) if l.startswith('    ')]
    if ind:
        v.append(('tab-indent', '\n'.join('\t' + l[4:] if k == ind[0] else l for k, l in enumerate(lines))))
        v.append(('tabs-indent-all', '\n'.join(re.sub(r'^((?:    )+)', lambda m: '\t' * (len(m.group(1)) // 4), l) for l in lines)))
    m = re.search(r'(?m)^(\w+) = ', canon)
    if m:
        v.append(('tab-between-tokens', canon[:m.start()] + m.group(1) + '\t= ' + canon[m.end():]))
        v.append(('two-blanks-between-tokens', canon[:m.start()] + m.group(1) + '  = ' + canon[m.end():]))
    v.append(('leading-blank-line', '\n' + canon))
    return v


def write_conf(path, cfg):
    with open(path, 'w', encoding='utf-8') as f:
        for key, v in cfg.items():
            if isinstance(v, bool):
                v = 'true' if v else 'false'
            elif isinstance(v, str) and key != 'end_of_line':
                v = "'" + v + "'"
            f.write('%s = %s\n' % (key, v))


def run_modes(text, cfg, wd, again=True, files=None, args=None):
    """every mode of `meson format` on one file (its exact bytes); nothing but the implementation.
    The configuration comes either from cfg (written to a file passed with -c) or from a layout:
    files {relative path: text} next to / above the build file and command line arguments."""
    top = wd
    wd = os.path.join(wd, 'top', 'sub')
    os.makedirs(wd)
    with open(os.path.join(top, '.editorconfig'), 'w') as f:
        f.write('root = true\n')              # fence: nothing above the scratch directory is read
    data = text.encode('utf-8')
    src = os.path.join(wd, 'meson.build')
    if files is None:
        conf = os.path.join(wd, 'fmt.ini')
        write_conf(conf, cfg)
        base = ['format', '-c', conf]
    else:
        for rel, txt in files.items():
            with open(os.path.join(wd, rel), 'w', encoding='utf-8', newline='') as f:
                f.write(txt)
        base = ['format'] + list(args or [])

    def put():
        with open(src, 'wb') as f:
            f.write(data)

    def get(p):
        try:
            return open(p, 'rb').read()
        except OSError:
            return None
    o = {}
    put()
    p = meson_cli(base + ['--check-only', 'meson.build'], cwd=wd)
    o['check_only_rc'], o['check_only_touched'] = p.returncode, get(src) != data
    put()
    p = meson_cli(base + ['--check-diff', 'meson.build'], cwd=wd)
    o['check_diff_rc'], o['check_diff_touched'], o['check_diff_stdout'] = p.returncode, get(src) != data, p.stdout[:600]
    put()
    outp = os.path.join(wd, 'out.build')
    p = meson_cli(base + ['--output', outp, 'meson.build'], cwd=wd)
    o['output_rc'], o['output_bytes'], o['output_touched'] = p.returncode, get(outp), get(src) != data
    p = meson_cli(base + ['meson.build'], cwd=wd)
    o['stdout_rc'], o['stdout'] = p.returncode, p.stdout
    p = meson_cli(base + ['--inplace', 'meson.build'], cwd=wd)
    o['inplace_rc'], o['inplace_bytes'], o['inplace_stderr'] = p.returncode, get(src), (p.stdout + p.stderr)[-300:]
    o['again'] = again
    if p.returncode == 0 and again:
        p = meson_cli(base + ['--check-only', 'meson.build'], cwd=wd)
        o['recheck_rc'] = p.returncode
        p = meson_cli(base + ['--inplace', 'meson.build'], cwd=wd)
        o['inplace2_bytes'] = get(src)
    o['input_bytes'] = data
    return o


def unl(b):
    return b.replace(b'\r\n', b'\n').replace(b'\r', b'\n')


def judge_modes(o):
    """--check-only/--check-diff report a difference iff formatting (--inplace / --output) would
    change the bytes of the file; the modes agree with each other; a second run changes nothing."""
    fails = []
    data = o['input_bytes']
    if o['inplace_rc'] != 0:
        # the file cannot be formatted: every mode must fail and leave it alone
        for m in ('check_only', 'check_diff', 'output', 'stdout'):
            if o[m + '_rc'] == 0:
                fails.append({'kind': 'mode-succeeds-on-unformattable-file', 'mode': m})
        if o['inplace_bytes'] != data:
            fails.append({'kind': 'failed-inplace-modified-file'})
        return fails
    would_change = o['inplace_bytes'] != data
    for m in ('check_only', 'check_diff'):
        if o[m + '_touched']:
            fails.append({'kind': 'check-mode-modified-file', 'mode': m})
        rc = o[m + '_rc']
        if rc not in (0, 1) or (rc != 0) != would_change:
            fails.append({'kind': 'check-status-wrong', 'mode': m, 'rc': rc, 'inplace_would_change_bytes': would_change,
                          'only_line_endings_differ': unl(o['inplace_bytes']) == unl(data)})
    if o['output_rc'] != 0 or o['output_bytes'] != o['inplace_bytes'] or o['output_touched']:
        fails.append({'kind': 'output-differs-from-inplace', 'rc': o['output_rc']})
    if o['stdout_rc'] != 0 or not unl(o['stdout'].encode('utf-8')).endswith(unl(o['inplace_bytes'])):
        fails.append({'kind': 'stdout-differs-from-inplace', 'rc': o['stdout_rc'], 'stdout': o['stdout'][-300:]})
    if not o.get('again', True):
        pass
    elif o.get('inplace2_bytes') != o['inplace_bytes']:
        fails.append({'kind': 'second-inplace-changes-file'})
    elif o.get('recheck_rc') != 0:
        fails.append({'kind': 'check-after-inplace-not-clean', 'rc': o.get('recheck_rc')})
    return fails


def modes_ident(f):
    """no recorded finding is left for the command-line clauses (check-ignores-line-endings was repaired
    by fix b64ddf1): every failure is reported"""
    return None


def printable(o):
    return {k: (v.decode('utf-8', 'replace') if isinstance(v, bytes) else v) for k, v in o.items()}


def cli_modes(ctx, rng, run_, pairs, res, nbases):
    cand = [k for k in range(len(pairs)) if 'out' in res[k] and res[k].get('out2') == res[k]['out']
            and 20 < len(res[k]['out']) < 500 and ascii_only(res[k]['out']) and '\r' not in res[k]['out']
            and '\n    ' in res[k]['out'] and not pairs[k][1].get('indent_by')]
    rng.shuffle(cand)
    bases = [(res[k]['out'], pairs[k][1]) for k in cand[:nbases]]
    hand = [(h, {}) for h in HAND_BASES]
    hres = run_.impl(hand)
    thorough = ctx.tier == 'thorough'
    hb = []
    for (h, g), r in zip(hand, hres):
        if r.get('out') == h and r.get('out2') == h:       # really canonical for this implementation
            hb.append((h, g))
    bases = (hb if thorough else hb[1:2]) + bases
    jobs = []
    for bi, (canon, cfg) in enumerate(bases):
        for name, text in byte_variants(canon):
            jobs.append((name, text, cfg))
        if thorough or bi == 0:
            for eol in (EOLS[1:] if thorough else ['crlf', 'cr']):
                for name, text in (('canonical', canon), ('crlf', canon.replace('\n', '\r\n')), ('no-final-newline', canon.rstrip('\n'))):
                    jobs.append((name + '+end_of_line=' + eol, text, dict(cfg, end_of_line=eol)))
        if thorough or bi == 0:
            for extra in (({'insert_final_newline': False}, {'indent_by': '\t'}) if thorough else ({'insert_final_newline': False},)):
                for name, text in byte_variants(canon)[:4]:
                    jobs.append((name + '+' + json.dumps(extra), text, dict(cfg, **extra)))
    d = ctx.mkscratch()

    def one(j):
        name, text, cfg = jobs[j]
        again = thorough or name.startswith(('canonical', 'no-final-newline', 'crlf'))
        return judge_modes(run_modes(text, cfg, os.path.join(d, 'modes%d' % j), again))
    stats = {'bases': len(bases), 'files': len(jobs), 'cli_runs': 0, 'failures': {}}
    for j, fails in enumerate(pmap(one, range(len(jobs)))):
        name, text, cfg = jobs[j]
        stats['cli_runs'] += 7 if (thorough or name.startswith(('canonical', 'no-final-newline', 'crlf'))) else 5
        ctx.count(('cli-modes', name, text, json.dumps(cfg, sort_keys=True)))
        for f in fails:
            stats['failures'][f['kind']] = stats['failures'].get(f['kind'], 0) + 1
            ident = modes_ident(f) or 'C16:cli:%s:%s:%s:%s' % (f['kind'], name, json.dumps(cfg, sort_keys=True), json.dumps(text))
            ctx.violation(ident, 'meson format command line: %s (%s) on %s [%s] with %s'
                          % (f['kind'], f.get('mode', ''), json.dumps(text[:120]), name, json.dumps(cfg)),
                          {'code': text, 'config': cfg, 'variant': name, 'failure': f, 'cli_modes': True})
    ctx.extra['cli_modes'] = stats
    ctx.sample({'cli_modes_file': jobs[1][1][:120], 'variant': jobs[1][0], 'config': jobs[1][2]} if len(jobs) > 1 else {})


# ------------------------------------------------------------------ option files: documented precedence
PENDING = os.environ.get('C16_PENDING_FIXES', '1') == '1'     # judge clauses that need a pending fix (pending/C16-*.diff)
PROBE = 'if true\nx = [1, 2]\nendif\n'


def options_precedence(ctx):
    """Commands.md: a meson.format beside the build file is used when no configuration is given on the
    command line; --editor-config (or use_editor_config in the configuration) adds .editorconfig;
    a key of the configuration file beats .editorconfig beats the default; in .editorconfig the closer
    file and the later matching section win (editorconfig.org), root = true stops the search."""
    EC = lambda size, extra='': '%s[*]\nindent_style = space\nindent_size = %d\n' % (extra, size)
    # name, files {relative path: text}, cwd-relative args, expected (indent, space_array), needs pending fix
    sc = [
        ('defaults', {}, [], ('    ', False), False),
        ('meson.format beside the file', {'meson.format': "indent_by = '  '\nspace_array = true\n"}, [], ('  ', True), False),
        ('-c replaces meson.format', {'meson.format': "indent_by = '  '\nspace_array = true\n", 'other.ini': "indent_by = '\t'\n"},
         ['-c', 'other.ini'], ('\t', False), False),
        ('.editorconfig with -e', {'.editorconfig': EC(3)}, ['-e'], ('   ', False), False),
        ('.editorconfig without -e is ignored', {'.editorconfig': EC(3)}, [], ('    ', False), False),
        ('use_editor_config in meson.format', {'.editorconfig': EC(3), 'meson.format': 'use_editor_config = true\n'}, [], ('   ', False), False),
        ('configuration beats .editorconfig', {'.editorconfig': EC(3), 'c.ini': "indent_by = '\t'\n"}, ['-e', '-c', 'c.ini'], ('\t', False), False),
        ('layers combine per key', {'.editorconfig': EC(3), 'c.ini': 'space_array = true\n'}, ['-e', '-c', 'c.ini'], ('   ', True), False),
        ('only matching sections', {'.editorconfig': '[*.py]\nindent_style = space\nindent_size = 7\n[meson.build]\nindent_style = space\nindent_size = 5\n'},
         ['-e'], ('     ', False), False),
        ('later matching section wins', {'.editorconfig': EC(3) + '[meson.build]\nindent_size = 5\n'}, ['-e'], ('     ', False), False),
        ('indent_style = tab', {'.editorconfig': '[*]\nindent_style = tab\n'}, ['-e'], ('\t', False), False),
        ('root = true stops the search', {'../.editorconfig': EC(8), '.editorconfig': EC(2, 'root = true\n')}, ['-e'], ('  ', False), False),
        ('closer .editorconfig wins', {'../.editorconfig': EC(8, 'root = true\n'), '.editorconfig': EC(2)}, ['-e'], ('  ', False), True),
        ('parent .editorconfig fills the gaps', {'../.editorconfig': EC(6, 'root = true\n'), '.editorconfig': '[*]\nmax_line_length = 40\n'}, ['-e'], ('      ', False), False),
    ]
    d = os.path.join(ctx.mkscratch(), 'optfiles')

    def one(i):
        name, files, args, exp, pend = sc[i]
        wd = os.path.join(d, 's%d' % i, 'top', 'sub')
        os.makedirs(wd)
        with open(os.path.join(wd, '..', '..', '.editorconfig'), 'w') as f:
            f.write('root = true\n')          # fence: nothing above the scenario is read
        for rel, txt in dict(files, **{'meson.build': PROBE}).items():
            with open(os.path.join(wd, rel), 'w', encoding='utf-8') as f:
                f.write(txt)
        p = meson_cli(['format'] + args + ['meson.build'], cwd=wd)
        lines = p.stdout.split('\n')
        got = None
        if p.returncode == 0 and len(lines) >= 3 and lines[0] == 'if true' and lines[1].lstrip(' \t').startswith('x = ['):
            got = (lines[1][:len(lines[1]) - len(lines[1].lstrip(' \t'))], lines[1].lstrip(' \t') == 'x = [ 1, 2 ]')
        return got, p.returncode, p.stdout[:200], p.stderr[-200:]
    stats = {'scenarios': len(sc), 'judged': 0, 'pending_fix_not_judged': 0}
    for i, (got, rc, out, err) in enumerate(pmap(one, range(len(sc)))):
        name, files, args, exp, pend = sc[i]
        ctx.count(('option-files', name))
        if pend and not PENDING:
            stats['pending_fix_not_judged'] += 1
            continue
        stats['judged'] += 1
        if got != exp:
            ctx.violation('C16:option-files:' + name,
                          'option files: %s: expected indentation %r space_array %r, got %r (rc %s)' % (name, exp[0], exp[1], got, rc),
                          {'scenario': name, 'files': files, 'args': args, 'probe': PROBE, 'expected': list(exp),
                           'got': list(got) if got else None, 'stdout': out, 'stderr': err, 'option_files': True})
    ctx.extra['option_files'] = stats


# ------------------------------------------------------------------ configuration sources x byte-level check
def ini(d):
    return ''.join('%s = %s\n' % (k, ("'" + v + "'" if isinstance(v, str) and k in ('indent_by', 'indent_before_comments') else
                                     ('true' if v is True else 'false' if v is False else v))) for k, v in d.items())


def ecfile(section, d, root=False):
    return ('root = true\n' if root else '') + '[%s]\n' % section + ''.join('%s = %s\n' % (k, ('true' if v is True else 'false' if v is False else v)) for k, v in d.items())


EC_TO_FMT = {'end_of_line': lambda v: ('end_of_line', v), 'max_line_length': lambda v: ('max_line_length', 0 if v == 'off' else int(v)),
             'insert_final_newline': lambda v: ('insert_final_newline', v)}


def ec_effect(d):
    """FormatterConfig keys that a set of .editorconfig properties stands for (Commands.md / editorconfig.org)"""
    e = {}
    if d.get('indent_style') == 'space':
        e['indent_by'] = ' ' * int(d.get('indent_size', 4))
    elif d.get('indent_style') == 'tab':
        e['indent_by'] = '\t'
    elif 'indent_size' in d:
        e['indent_by'] = ' ' * int(d['indent_size'])
    for k in ('end_of_line', 'max_line_length', 'insert_final_newline'):
        if k in d:
            kk, vv = EC_TO_FMT[k](d[k])
            e[kk] = vv
    return e


SRC_PROBE = "if true\n    x = [1, 2, 3]\nendif\n"
NL = {'lf': '\n', 'crlf': '\r\n', 'cr': '\r', 'native': os.linesep, None: os.linesep}


def obeys(o, eff, text):
    """--inplace wrote a file that follows the effective configuration (only what the probe shows)"""
    bad = []
    out = (o.get('inplace_bytes') or b'').decode('utf-8', 'replace')
    nl = NL[eff.get('end_of_line')]
    rest = out.replace(nl, '')
    if '\n' in rest or '\r' in rest or nl not in out:
        bad.append({'kind': 'inplace-ignores-effective-option', 'option': 'end_of_line', 'effective': eff.get('end_of_line', 'native')})
    lines = out.replace(nl, '\n').split('\n')
    if eff.get('insert_final_newline', True) and not out.endswith(nl):
        bad.append({'kind': 'inplace-ignores-effective-option', 'option': 'insert_final_newline', 'effective': True})
    if not eff.get('insert_final_newline', True) and not text.endswith(('\n', '\r')) and out.endswith(nl):
        bad.append({'kind': 'inplace-ignores-effective-option', 'option': 'insert_final_newline', 'effective': False})
    ind = eff.get('indent_by', '    ')
    if len(lines) < 2 or lines[1][:len(lines[1]) - len(lines[1].lstrip(' \t'))] != ind:
        bad.append({'kind': 'inplace-ignores-effective-option', 'option': 'indent_by', 'effective': ind})
    width = len(ind.replace('\t', ' ' * 4)) + len('x = [1, 2, 3]')
    split = any(l.strip() == 'x = [' for l in lines)
    mll = eff.get('max_line_length', 80)
    if split != (width > mll):
        bad.append({'kind': 'inplace-ignores-effective-option', 'option': 'max_line_length', 'effective': mll, 'split': split})
    return bad


def config_sources(ctx):
    """the same option given by each configuration source alone and in combination; documented precedence:
    --configuration FILE, else meson.format beside the file; over .editorconfig (with -e or
    use_editor_config = true; sections [*], [meson.build], [*.build]); over the defaults."""
    thorough = ctx.tier == 'thorough'
    OPTS = [  # (FormatterConfig form, .editorconfig form)
        ({'end_of_line': 'crlf'}, {'end_of_line': 'crlf'}),
        ({'end_of_line': 'cr'}, {'end_of_line': 'cr'}),
        ({'end_of_line': 'lf'}, {'end_of_line': 'lf'}),
        ({'indent_by': '  '}, {'indent_style': 'space', 'indent_size': 2}),
        ({'indent_by': '\t'}, {'indent_style': 'tab'}),
        ({'max_line_length': 10}, {'max_line_length': 10}),
        ({'insert_final_newline': False}, None),
    ]
    OTHER = ({'end_of_line': 'lf', 'indent_by': '      ', 'max_line_length': 200}, {'end_of_line': 'lf', 'indent_style': 'space', 'indent_size': 6, 'max_line_length': 200})
    sc = []      # name, files, args, effective
    for fmt, ec in OPTS:
        tag = json.dumps(fmt)
        sc.append(('meson.format ' + tag, {'meson.format': ini(fmt)}, [], fmt))
        sc.append(('--configuration ' + tag, {'c.ini': ini(fmt)}, ['-c', 'c.ini'], fmt))
        sc.append(('--configuration beats meson.format ' + tag, {'c.ini': ini(fmt), 'meson.format': ini(OTHER[0])}, ['-c', 'c.ini'], fmt))
        if ec is None:
            continue
        for sect in (['*', 'meson.build', '*.build'] if thorough or 'end_of_line' in ec else ['meson.build']):
            sc.append(('.editorconfig [%s] -e %s' % (sect, tag), {'.editorconfig': ecfile(sect, ec)}, ['-e'], ec_effect(ec)))
        sc.append(('.editorconfig + use_editor_config ' + tag, {'.editorconfig': ecfile('*', ec), 'meson.format': 'use_editor_config = true\n'}, [], ec_effect(ec)))
        sc.append(('.editorconfig without -e ' + tag, {'.editorconfig': ecfile('*', ec)}, [], {}))
        sc.append(('meson.format beats .editorconfig ' + tag, {'.editorconfig': ecfile('*', OTHER[1]), 'meson.format': ini(fmt)}, ['-e'],
                   dict(ec_effect(OTHER[1]), **fmt)))
        sc.append(('.editorconfig fills what --configuration leaves ' + tag, {'.editorconfig': ecfile('*', ec), 'c.ini': 'space_array = false\n'}, ['-e', '-c', 'c.ini'], ec_effect(ec)))
        sc.append(('parent .editorconfig ' + tag, {'../.editorconfig': ecfile('*', ec, root=True)}, ['-e'], ec_effect(ec)))
    if not thorough:     # quick: end_of_line = crlf from every source and combination, a sample of the rest
        keep = {'"end_of_line": "crlf"': None,
                '"end_of_line": "cr"': ('.editorconfig [meson.build] -e',),
                '"end_of_line": "lf"': ('.editorconfig [*] -e',),
                '"indent_by": "  "': ('meson.format {', '.editorconfig [meson.build] -e', 'meson.format beats .editorconfig'),
                '"indent_by": "\\t"': ('parent .editorconfig',),
                '"max_line_length": 10': ('--configuration {', '.editorconfig + use_editor_config'),
                '"insert_final_newline": false': ('meson.format {',)}
        sc = [x for x in sc if any(tag in x[0] and (pre is None or x[0].startswith(pre)) for tag, pre in keep.items())]
    jobs = []
    for name, files, args, eff in sc:
        texts = [('lf', SRC_PROBE)]
        if thorough or 'end_of_line' in name:
            texts.append(('crlf', SRC_PROBE.replace('\n', '\r\n')))
        if thorough or 'insert_final_newline' in name:
            texts.append(('no-final-newline', SRC_PROBE[:-1]))
        if thorough:
            texts.append(('cr', SRC_PROBE.replace('\n', '\r')))
        for tn, text in texts:
            jobs.append((name, tn, text, files, args, eff))
    d = os.path.join(ctx.mkscratch(), 'sources')

    def one(j):
        name, tn, text, files, args, eff = jobs[j]
        o = run_modes(text, None, os.path.join(d, 'j%d' % j), again=thorough, files=files, args=args)
        fails = judge_modes(o)
        if o['inplace_rc'] == 0:
            fails += obeys(o, eff, text)
        return fails
    stats = {'scenarios': len(sc), 'files': len(jobs), 'failures': {}}
    for j, fails in enumerate(pmap(one, range(len(jobs)))):
        name, tn, text, files, args, eff = jobs[j]
        ctx.count(('config-sources', name, tn))
        for f in fails:
            stats['failures'][f['kind']] = stats['failures'].get(f['kind'], 0) + 1
            ident = modes_ident(f) or 'C16:config-sources:%s:%s:%s:%s' % (f['kind'], f.get('mode', f.get('option', '')), name, tn)
            ctx.violation(ident, 'configuration sources: %s (%s) with %s, file with %s line ends' % (f['kind'], f.get('mode', f.get('option', '')), name, tn),
                          {'code': text, 'files': files, 'args': args, 'effective': eff, 'failure': f, 'config_sources': True})
    ctx.extra['config_sources'] = stats
