"""C09 helper: run a meson command under strace, enumerate its file-system mutation points,
kill it on entry to a chosen point (strace -e inject=S:signal=KILL:when=m -P <paths>), and
canonicalise the observed mutation sequence into the op alphabet of coq/FS/Crash.v.

Nothing in here touches meson's sources: the command is observed and killed from outside.
"""
import os, re, shutil, subprocess, json

from common import REPO, VERIF, PY

TRACE = ('openat,open,creat,write,writev,pwrite64,pwritev,fsync,fdatasync,rename,renameat,renameat2,'
         'unlink,unlinkat,mkdir,mkdirat,rmdir,ftruncate,truncate,sendfile,copy_file_range,link,linkat,symlink,symlinkat')

LINE = re.compile(r'^(?:\d+\s+)?(\w+)\((.*)\)\s+=\s+(-?\d+|\?)(.*)$')
FDP = re.compile(r'^(\d+|AT_FDCWD)<([^>]*)>$')


def cli_env(pyc):
    e = dict(os.environ)
    e.pop('PYTHONDONTWRITEBYTECODE', None)
    e.update({'PYTHONPATH': REPO, 'PYTHONHASHSEED': '0', 'LC_ALL': 'C.UTF-8', 'MESON_VERIF': '1',
              'NINJA': os.path.join(VERIF, 'tools', 'fakeninja'), 'PYTHONPYCACHEPREFIX': pyc,
              'TMPDIR': os.path.join(os.path.dirname(pyc), 'tmp')})
    return e


def meson(args, pyc, timeout=180, stdin_text=None):
    return subprocess.run([PY, os.path.join(REPO, 'meson.py')] + list(args), env=cli_env(pyc), cwd='/',
                          capture_output=True, text=True, timeout=timeout, input=stdin_text)


def split_args(s):
    """Split the argument text of one strace line at top-level commas."""
    out, cur, depth, q, i = [], [], 0, False, 0
    while i < len(s):
        ch = s[i]
        if q:
            cur.append(ch)
            if ch == '\\':
                cur.append(s[i + 1]); i += 1
            elif ch == '"':
                q = False
        elif ch == '"':
            q = True; cur.append(ch)
        elif ch in '<([{':
            depth += 1; cur.append(ch)
        elif ch in '>)]}':
            depth -= 1; cur.append(ch)
        elif ch == ',' and depth == 0:
            out.append(''.join(cur).strip()); cur = []
        else:
            cur.append(ch)
        i += 1
    if cur:
        out.append(''.join(cur).strip())
    return out


_ESC = {'n': 10, 't': 9, 'r': 13, 'v': 11, 'f': 12, 'a': 7, 'b': 8, 'e': 27, '\\': 92, '"': 34, "'": 39}


def unescape(body):
    """strace's C-style escapes (\\303\\251, \\n, \\x7f, ...) -> str; the bytes are a UTF-8 path."""
    out, i = bytearray(), 0
    while i < len(body):
        ch = body[i]
        if ch != '\\' or i + 1 >= len(body):
            out += ch.encode('utf-8', 'surrogateescape'); i += 1
            continue
        nx = body[i + 1]
        if nx in '01234567':
            j = i + 1
            while j < len(body) and j < i + 4 and body[j] in '01234567':
                j += 1
            out.append(int(body[i + 1:j], 8) & 255); i = j
        elif nx == 'x':
            j = i + 2
            while j < len(body) and j < i + 4 and body[j] in '0123456789abcdefABCDEF':
                j += 1
            out.append(int(body[i + 2:j] or '0', 16)); i = j
        else:
            out.append(_ESC.get(nx, ord(nx) & 255)); i += 2
    return out.decode('utf-8', 'surrogateescape')


def unq(a):
    a = a.strip()
    if a.startswith('"'):
        return unescape(a[1:a.rindex('"')])
    return None


def fdpath(a):
    m = FDP.match(a.strip())
    return unescape(m.group(2)) if m else None


def parse_log(path):
    """-> list of dict(sys, kind, path, path2, ro, killed) for every traced call, in order.
    kind: open (creating/writing open; 'trunc' flag), ropen (read-only), write, fsync, rename,
    unlink, rmdir, mkdir, other."""
    evs = []
    for raw in open(path, encoding='utf-8', errors='replace'):
        raw = raw.rstrip('\n')
        if raw.startswith('---') or raw.startswith('+++'):
            continue
        m = LINE.match(raw)
        if not m:
            # a killed call is printed as "write(6</p>, "..."..., 35) = ?"
            continue
        sysc, argtxt, ret, tail = m.groups()
        args = split_args(argtxt)
        ev = {'sys': sysc, 'ret': ret, 'err': tail.strip().split(' ')[0] if ret == '-1' else '', 'killed': ret == '?',
              'path': None, 'path2': None, 'kind': 'other', 'trunc': False, 'append': False}
        try:
            if sysc in ('openat', 'open', 'creat'):
                if sysc == 'openat':
                    base, p, flags = fdpath(args[0]), unq(args[1]), args[2] if len(args) > 2 else ''
                else:
                    base, p, flags = None, unq(args[0]), args[1] if len(args) > 1 else 'O_WRONLY|O_CREAT|O_TRUNC'
                if p is not None and not p.startswith('/') and base:
                    p = os.path.join(base, p)
                ev['path'] = p
                wr = any(f in flags for f in ('O_WRONLY', 'O_RDWR', 'O_CREAT', 'O_TRUNC', 'O_APPEND'))
                ev['kind'] = 'open' if wr else 'ropen'
                ev['trunc'] = 'O_TRUNC' in flags
                ev['append'] = 'O_APPEND' in flags
            elif sysc in ('write', 'writev', 'pwrite64', 'pwritev', 'sendfile', 'copy_file_range', 'fsync', 'fdatasync', 'ftruncate'):
                ev['path'] = fdpath(args[0]) if sysc != 'copy_file_range' else fdpath(args[2])
                ev['kind'] = 'fsync' if sysc in ('fsync', 'fdatasync') else 'write'
            elif sysc == 'truncate':
                ev['path'] = unq(args[0]); ev['kind'] = 'write'
            elif sysc in ('rename', 'link', 'symlink'):
                ev['path'], ev['path2'] = unq(args[0]), unq(args[1]); ev['kind'] = 'rename' if sysc == 'rename' else 'other'
            elif sysc in ('renameat', 'renameat2', 'linkat'):
                a, b = unq(args[1]), unq(args[3])
                if a and not a.startswith('/') and fdpath(args[0]):
                    a = os.path.join(fdpath(args[0]), a)
                if b and not b.startswith('/') and fdpath(args[2]):
                    b = os.path.join(fdpath(args[2]), b)
                ev['path'], ev['path2'] = a, b; ev['kind'] = 'rename' if sysc.startswith('rename') else 'other'
            elif sysc in ('unlink', 'rmdir', 'mkdir'):
                ev['path'] = unq(args[0]); ev['kind'] = sysc
            elif sysc in ('unlinkat', 'mkdirat'):
                p = unq(args[1])
                if p and not p.startswith('/') and fdpath(args[0]):
                    p = os.path.join(fdpath(args[0]), p)
                ev['path'] = p
                ev['kind'] = 'mkdir' if sysc == 'mkdirat' else ('rmdir' if 'AT_REMOVEDIR' in argtxt else 'unlink')
        except (IndexError, ValueError):
            pass
        evs.append(ev)
    return evs


MUT = ('open', 'write', 'fsync', 'rename', 'unlink', 'rmdir', 'mkdir')


def under(p, root):
    return p is not None and (p == root or p.startswith(root + '/'))


def mutations(evs, bdir):
    """Indices (into evs) of the calls that mutate something under the build directory."""
    out = []
    for i, e in enumerate(evs):
        if e['kind'] in MUT and (under(e['path'], bdir) or under(e['path2'], bdir)):
            out.append(i)
    return out


def strace_cmd(log, args, pfiles=None, inject=None):
    c = ['strace', '-o', log, '-y', '-e', 'trace=' + TRACE]
    for p in pfiles or []:
        c += ['-P', p]
    if inject:
        c += ['-e', 'inject=%s:signal=KILL:when=%d' % inject]
    return c + [PY, os.path.join(REPO, 'meson.py')] + list(args)


def run_traced(log, args, pyc, pfiles=None, inject=None, timeout=300):
    r = subprocess.run(strace_cmd(log, args, pfiles, inject), env=cli_env(pyc), cwd='/', capture_output=True,
                       text=True, timeout=timeout)
    return r


def path_variants(p):
    """the spellings under which meson writes a path into its files: raw bytes (pickles, quoted shell words),
    ninja-escaped (build.ninja), JSON-escaped (intro files, compile_commands.json)."""
    out = []
    for v in (p, p.replace('$', '$$').replace(' ', '$ ').replace(':', '$:'), json.dumps(p)[1:-1], json.dumps(p, ensure_ascii=False)[1:-1]):
        b = os.fsencode(v)
        if b not in out:
            out.append(b)
    return out


def relocate(src, dst):
    """Copy build directory src to dst and rewrite the embedded absolute path (in every spelling), so that
    dst is what meson would have written had it run at dst.  Both names must have the same style and byte
    length: pickles carry byte-length prefixes."""
    va, vb = path_variants(src), path_variants(dst)
    assert len(va) == len(vb) and all(len(x) == len(y) for x, y in zip(va, vb)), (src, dst)
    pairs = sorted(zip(va, vb), key=lambda t: -len(t[0]))
    shutil.copytree(src, dst, symlinks=True)
    for root, dirs, files in os.walk(dst):
        for f in files:
            p = os.path.join(root, f)
            if os.path.islink(p):
                continue
            data = open(p, 'rb').read()
            new = data
            for a, b in pairs:
                new = new.replace(a, b)
            if new != data:
                st = os.stat(p)
                with open(p, 'wb') as fh:
                    fh.write(new)
                os.utime(p, ns=(st.st_atime_ns, st.st_mtime_ns))
