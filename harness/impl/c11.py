"""Adapter for C11 (run by /venv/bin/python with PYTHONPATH=<repo>).

stdin JSON  {"paths": [[fn, [args]], ...]}                      in-process path algebra / should_install
         or {"project": spec, "dir": scratch_project_dir, "repo": ..., "ninja": ...}
                                                                  one generated project, all its histories
stdout JSON.

For a project the adapter
  * writes the source tree, runs `meson setup` (real CLI), pre-creates the outputs of installed
    custom targets, reads meson-private/install.dat and snapshots the sources it names;
  * for every history: builds a fresh arena with DESTDIR >= 8 levels deep, pre-populates it, lists
    the WHOLE project scratch directory before and after every step (lstat only), runs the real
    `meson install --no-rebuild ...` / `meson --internal uninstall`, and renders
      - the records for the Coq model (Install/Entry.v `hist`),
      - the implementation's observable result in the model's canonical line format,
      - the ORACLE: the clauses of the property evaluated directly on what the implementation did
        (no model involved): containment, exactness against the generator's own expectation,
        log = created set, uninstall removes exactly the log, dry-run writes nothing, idempotence.
SAFETY: every path handed to meson lives inside the project scratch directory: prefix and absolute
install dirs are below <dir>/root, DESTDIR is <dir>/hK/l1/.../l8/dest; installs never run without DESTDIR.
"""
import sys, os, json, hashlib, pickle, subprocess, shutil, stat

S1, S2, S3 = '\x01', '\x02', '\x03'


# ---------------------------------------------------------------------------- path algebra (in-process)
def ev_path(fn, args):
    import os.path as op
    if fn == 'join':
        return op.join(args[0], args[1])
    if fn == 'dirname':
        return op.dirname(args[0])
    if fn == 'basename':
        return op.basename(args[0])
    if fn == 'normpath':
        return op.normpath(args[0])
    if fn == 'isabs':
        from mesonbuild.mesonlib import path_has_root
        return 'T' if path_has_root(args[0]) else 'F'
    if fn == 'djoin':
        from mesonbuild.scripts import destdir_join
        return destdir_join(args[0], args[1])
    if fn == 'should':
        from mesonbuild import minstall
        tp, t, sk, sub, tgp, tg = args

        class O:
            dry_run = False
            skip_subprojects = sk
            tags = t if tp == '1' else None

        class D:
            subproject = sub
            tag = tg if tgp == '1' else None
        return 'T' if minstall.Installer(O, None).should_install(D) else 'F'
    return '?'


# ---------------------------------------------------------------------------- listings
def digest_file(p):
    h = hashlib.sha1()
    with open(p, 'rb') as f:
        h.update(f.read())
    return h.hexdigest()[:10]


def listing(root, skip=()):
    """{abs path: (kind, mode, mtime, digest|target)} of everything below root (root included), lstat only."""
    out = {}

    def one(p):
        st = os.lstat(p)
        if stat.S_ISLNK(st.st_mode):
            out[p] = ('L', 0, 0, os.readlink(p))
        elif stat.S_ISDIR(st.st_mode):
            out[p] = ('D', stat.S_IMODE(st.st_mode), 0, '')
            for n in sorted(os.listdir(p)):
                q = os.path.join(p, n)
                if q in skip:
                    continue
                one(q)
        elif stat.S_ISREG(st.st_mode):
            out[p] = ('F', stat.S_IMODE(st.st_mode), int(st.st_mtime), digest_file(p))
        else:
            out[p] = ('O', stat.S_IMODE(st.st_mode), 0, '')
    if os.path.lexists(root):
        one(root)
    return out


def node_line(p, n):
    return S1.join(['N', p, n[0], str(n[1]), str(n[2]), n[3]])


def read_log(build):
    p = os.path.join(build, 'meson-logs', 'install-log.txt')
    if not os.path.exists(p):
        return None
    with open(p, encoding='utf-8', newline='\n') as f:
        data = f.read()
    lines = data.split('\n')
    if lines and lines[-1] == '':
        lines.pop()
    return lines


def log_lines(lines):
    if lines is None:
        return ['NOLOG']
    out = []
    for l in lines:
        if l.startswith('# Preserving old file '):
            out.append('C' + S1 + l[len('# Preserving old file '):])
        elif l.startswith('#'):
            out.append('H')
        else:
            out.append('G' + S1 + l)
    return out


# ---------------------------------------------------------------------------- project materialisation
def subst(s, root):
    return s.replace('@ROOT@', root)


def write_tree(base, files):
    for f in files:
        p = os.path.join(base, f['path'])
        if f.get('dir'):
            os.makedirs(p, exist_ok=True)
        else:
            os.makedirs(os.path.dirname(p), exist_ok=True)
            if f.get('link') is not None:
                os.symlink(f['link'], p)
                continue
            with open(p, 'w', encoding='utf-8') as fh:
                fh.write(f.get('content', ''))
            os.chmod(p, f.get('mode', 0o644))
            t = f.get('mtime', 1500000000)
            os.utime(p, (t, t))
    # directory modes last (deepest first) so that creation is not hindered
    for f in sorted((f for f in files if f.get('dir')), key=lambda f: -len(f['path'])):
        os.chmod(os.path.join(base, f['path']), f.get('mode', 0o755))


class R:
    def __init__(self, rc, out):
        self.returncode, self.stdout, self.stderr = rc, out, ''


def run_cli(payload, args, cwd=None, env_extra=None, umask=None, timeout=180):
    """Run `meson <args>`.  payload['exec'] true: a fresh interpreter running <repo>/meson.py (the real
    CLI).  Otherwise: a forked child of this adapter calls mesonbuild.mesonmain.run(args, meson.py) -
    the function meson.py itself calls - which saves the interpreter start-up per step."""
    env = dict(os.environ)
    env['NINJA'] = payload['ninja']
    env['PYTHONHASHSEED'] = '0'
    env['LC_ALL'] = 'C.UTF-8'
    env.pop('DESTDIR', None)
    if env_extra:
        env.update(env_extra)
    mesonpy = os.path.join(payload['repo'], 'meson.py')
    if payload.get('exec'):
        cmd = [sys.executable, mesonpy] + args
        if umask is not None:
            cmd = ['sh', '-c', 'umask %o; exec "$@"' % umask, 'sh'] + cmd
        return subprocess.run(cmd, cwd=cwd, env=env, capture_output=True, text=True, timeout=timeout)
    from mesonbuild import mesonmain
    rfd, wfd = os.pipe()
    sys.stdout.flush()
    sys.stderr.flush()
    pid = os.fork()
    if pid == 0:
        rc = 97
        try:
            os.close(rfd)
            os.dup2(wfd, 1)
            os.dup2(wfd, 2)
            devnull = os.open(os.devnull, os.O_RDONLY)
            os.dup2(devnull, 0)
            os.environ.clear()
            os.environ.update(env)
            if cwd:
                os.chdir(cwd)
            if umask is not None:
                os.umask(umask)
            sys.argv = [mesonpy] + args
            sys.stdout = os.fdopen(1, 'w', encoding='utf-8', errors='replace', closefd=False)
            sys.stderr = os.fdopen(2, 'w', encoding='utf-8', errors='replace', closefd=False)
            try:
                rc = mesonmain.run(list(args), mesonpy)
            except SystemExit as e:
                rc = 0 if e.code is None else (e.code if isinstance(e.code, int) else 1)
            if not isinstance(rc, int):
                rc = 1
            sys.stdout.flush()
            sys.stderr.flush()
        except BaseException:
            import traceback
            try:
                traceback.print_exc()
                sys.stderr.flush()
            except Exception:
                pass
            rc = 98
        finally:
            os._exit(rc & 0xff)
    os.close(wfd)
    chunks = []
    while True:
        b = os.read(rfd, 65536)
        if not b:
            break
        chunks.append(b)
    os.close(rfd)
    _, status = os.waitpid(pid, 0)
    rc = os.waitstatus_to_exitcode(status)
    return R(rc, b''.join(chunks).decode('utf-8', 'replace'))


def fmode_perms(m):
    if m is None or m.perms_s is None:
        return ''
    return str(m.perms)


def tagf(t):
    return ['1', t] if t is not None else ['0', '']


def src_snapshot(path, cwd, follow=None):
    """F-record fields srckind, mode, mtime, digest|target.  A symbolic link that meson follows (follow_symlinks
    true or unset) is the regular file it points to; one installed as a link is K (mtime = its target's, '' = dangling)."""
    p = path if os.path.isabs(path) else os.path.join(cwd, path)
    if not os.path.lexists(p):
        return ['M', '0', '0', '']
    st = os.lstat(p)
    if stat.S_ISLNK(st.st_mode):
        tgt = os.readlink(p)
        if not os.path.exists(p):
            return ['K', '0', '', tgt]
        if os.path.isdir(p):
            return ['X', '0', '0', '']      # a link to a directory as a file source: outside the model
        ts = os.stat(p)
        if follow is False:
            return ['K', '0', str(int(ts.st_mtime)), tgt]
        return ['R', str(stat.S_IMODE(ts.st_mode)), str(int(ts.st_mtime)), digest_file(p)]
    if stat.S_ISREG(st.st_mode):
        return ['R', str(stat.S_IMODE(st.st_mode)), str(int(st.st_mtime)), digest_file(p)]
    return ['O', '0', '0', '']


def plan_records(build):
    """install.dat -> model records (+ out_of_model reasons)."""
    with open(os.path.join(build, 'meson-private', 'install.dat'), 'rb') as f:
        d = pickle.load(f)
    recs, oom = [], []
    um = d.install_umask
    recs.append(S1.join(['P', d.prefix, '' if um == 'preserve' else str(int(um)), d.build_dir]))
    if d.install_scripts:
        oom.append('install scripts')
    for kind, lst in (('T', d.targets), ('H', d.headers), ('M', d.man), ('D', d.data)):
        for i in lst:
            if kind == 'T':
                src, dst, optional = i.fname, i.outdir, i.optional
                if src.endswith(('.so', '.dll', '.a', '.lib', '.js', '.jar')) or i.strip:
                    oom.append('target kind ' + src)
            else:
                src, dst, optional = i.path, i.install_path, False
            snap = src_snapshot(src, d.build_dir, getattr(i, 'follow_symlinks', None))
            if snap[0] == 'X':
                oom.append('symlink-to-directory source ' + src)
            m = i.install_mode
            if m is not None and (m.owner is not None or m.group is not None):
                oom.append('chown')
            recs.append(S1.join(['F', kind] + snap + [os.path.basename(src), dst, fmode_perms(m), i.subproject] + tagf(i.tag)
                                + ['1' if optional else '0']))
    for e in d.emptydir:
        recs.append(S1.join(['E', e.path, fmode_perms(e.install_mode), e.subproject] + tagf(e.tag)))
    for l in d.symlinks:
        recs.append(S1.join(['L', l.target, l.name, l.install_path, l.subproject] + tagf(l.tag)))
    for s in d.install_subdirs:
        ef, ed = s.exclude if s.exclude is not None else (set(), set())
        recs.append(S1.join(['S', s.install_path, fmode_perms(s.install_mode), s.subproject] + tagf(s.tag)
                            + [S2.join(sorted(ef)), S2.join(sorted(ed))]))
        for root, dirs, files in os.walk(s.path):
            rel = os.path.relpath(root, s.path)
            rel = '' if rel == '.' else rel
            dd, ff = [], []
            for x in dirs:
                st = os.lstat(os.path.join(root, x))
                if stat.S_ISLNK(st.st_mode):
                    oom.append('symlinked dir in subdir')
                dd.append(S3.join([x, str(stat.S_IMODE(st.st_mode))]))
            for x in files:
                p = os.path.join(root, x)
                snap = src_snapshot(p, root, s.follow_symlinks)
                if snap[0] == 'R':
                    ff.append(S3.join([x, snap[1], snap[2], snap[3], '']))
                elif snap[0] == 'K':
                    ff.append(S3.join([x, '0', snap[2] or '0', snap[3], 'L' if snap[2] else 'X']))
                else:
                    oom.append('non-regular file in subdir')
            recs.append(S1.join(['W', rel, str(stat.S_IMODE(os.lstat(root).st_mode)), S2.join(dd), S2.join(ff)]))
    meta = {'prefix': d.prefix, 'umask': um,
            'items': {k: len(getattr(d, k)) for k in ('targets', 'headers', 'man', 'data', 'emptydir', 'symlinks', 'install_subdirs')},
            'tags': sorted({str(getattr(i, 'tag', None)) for k in ('targets', 'headers', 'man', 'data', 'emptydir', 'symlinks', 'install_subdirs')
                            for i in getattr(d, k)})}
    return recs, oom, meta, d


# ---------------------------------------------------------------------------- oracle
def py_strip_changes(s):
    return s != s.strip()


def split_opt(raw):
    return [x.strip() for x in raw.split(',')]


def selected(exp, step):
    """documented meaning of --tags / --skip-subprojects applied to one expected entry"""
    skip = split_opt('*' if step.get('skip') == '*DEFAULT*' else (step.get('skip') or ''))
    if exp.get('sub') and (exp['sub'] in skip or '*' in skip):
        return False
    tags = split_opt(step['tags']) if step.get('tags') else None
    if tags and exp.get('tag') not in tags:
        return False
    return True


def under(p, d):
    return p == d or p.startswith(d.rstrip('/') + '/')


def oracle_step(k, step, before, after, ctxo):
    """Clauses of the property on one step.  before/after: full listings of the project scratch dir."""
    fails = []
    D = ctxo['destdir']
    logfile = ctxo['logfile']
    changed = sorted(p for p in set(before) | set(after) if before.get(p) != after.get(p) and p != logfile
                     and not under(p, ctxo['build_logs']))

    links = {}
    for lp, ln in before.items():
        if ln[0] == 'L' and under(lp, ctxo['arena']):     # links that were already inside the arena, not source links
            links[os.path.normpath(os.path.join(os.path.dirname(lp), ln[3]))] = lp

    def add(kind, **kw):
        if len(fails) < 12:
            d = dict(kind=kind, step=k, **kw)
            pth = kw.get('path')
            if pth:
                for tgt, lp in links.items():
                    if under(pth, tgt):
                        d['via_symlink'] = lp      # written through a symbolic link that was already there
                        break
            fails.append(d)
    # ---- containment: nothing outside DESTDIR changes (missing ancestors of DESTDIR may be created)
    for p in (changed if step['op'] == 'install' else []):
        if under(p, D):
            continue
        if under(D, p) and p not in before and after.get(p, ('?',))[0] == 'D':
            continue
        add('escape', path=p, before=before.get(p), after=after.get(p))
    if step['op'] == 'install' and step.get('dry'):
        # ---- dry-run writes nothing
        for p in changed:
            add('dry_run_wrote', path=p, before=before.get(p), after=after.get(p))
    loglines = ctxo['log_after']
    glines = [l for l in (loglines or []) if not l.startswith('#')]
    if step['op'] == 'install' and not step.get('dry') and ctxo['rc'] == 0:
        # ---- the log names everything that was created
        gset = set(os.path.normpath(g) for g in glines)
        for p in changed:
            if p not in before and p not in gset and under(p, ctxo['proj']):
                add('created_not_logged', path=p, node=after.get(p))
        for g in glines:
            if os.path.normpath(g) not in after and g not in after:
                add('logged_not_present', line=g)
        # directories come after what they contain
        seen_dirs = []
        for g in glines:
            gn = os.path.normpath(g)
            for dprev in seen_dirs:
                if gn != dprev and under(gn, dprev):
                    add('log_order', line=g, after_dir=dprev)
            if after.get(gn, ('?',))[0] == 'D':
                seen_dirs.append(gn)
    if step['op'] == 'uninstall' and ctxo.get('log_before') is not None:
        # ---- uninstall removes exactly what the log names, and nothing else
        gl = [l for l in ctxo['log_before'] if not l.startswith('#')]
        named = set(gl)
        for g in gl:
            if g in after or os.path.lexists(g):
                add('uninstall_left', line=g, node=after.get(g))
        for p in changed:
            if p not in named and os.path.normpath(p) not in set(os.path.normpath(x) for x in named):
                add('uninstall_touched_other', path=p, before=before.get(p), after=after.get(p))
    return fails


def expected_tree(spec, hist, step, root, D, dat_umask, inherited):
    """The generator's own expectation for a first non-dry install into an empty DESTDIR:
    {abs path: set of acceptable (kind, mode, digest|target)}; None = no expectation for mode."""
    um = inherited if dat_umask == 'preserve' else dat_umask
    dmode = 0o777 & ~um
    exp = {}

    def add(p, cand):
        exp.setdefault(p, []).append(cand)

    arena = hist['_arena']

    def add_parents(p):
        q = os.path.dirname(p)
        while under(q, arena) and q != arena:
            add(q, ('D', dmode, '', 'implicit'))
            q = os.path.dirname(q)
    if step.get('tags') and any(not e.get('tag_known') for e in spec['expect']):
        return None
    for e in spec['expect']:
        if not selected(e, step):
            continue
        dest = subst(e['dest'], root)
        full = os.path.normpath(D + '/' + (dest if os.path.isabs(dest) else os.path.join(spec['_prefix'], dest)))
        if e['kind'] == 'file':
            if e.get('mode') is not None:
                m = e['mode']
            elif dat_umask == 'preserve':
                m = e['srcmode']
            else:
                m = (0o777 if e['srcmode'] & 0o111 else 0o666) & ~dat_umask
            add(full, ('F', m, e['digest'], 'rule'))
        elif e['kind'] == 'link':
            add(full, ('L', 0, subst(e['target'], root), 'rule'))
        else:
            if e.get('mode') is not None:
                m = e['mode']
            elif dat_umask == 'preserve' and e.get('srcmode') is not None:
                m = e['srcmode']
            elif dat_umask == 'preserve':
                m = dmode
            else:
                m = 0o777 & ~dat_umask
            add(full, ('D', m, '', 'rule'))
        add_parents(full)
    return exp


def oracle_exact(k, exp, after, D, arena):
    fails = []

    def add(kind, **kw):
        if len(fails) < 12:
            fails.append(dict(kind=kind, step=k, **kw))
    got = {p: n for p, n in after.items() if under(p, arena) and p != arena}
    for p, n in got.items():
        if p not in exp:
            add('unplanned', path=p, node=n)
            continue
        cands = exp[p]
        rule = [c for c in cands if c[3] == 'rule'] or cands
        if len(rule) > 1:
            # several rules name this destination: any of their contents with any of their modes (the
            # property does not say which rule wins; --only-changed may keep an earlier copy)
            ok = any(c[0] == n[0] for c in rule) and (n[0] != 'F' or (n[3] in {c[2] for c in rule if c[0] == 'F'}
                                                                       and n[1] in {c[1] for c in rule if c[0] == 'F'})) \
                and (n[0] != 'D' or n[1] in {c[1] for c in cands if c[0] == 'D'}) and (n[0] != 'L' or n[3] in {c[2] for c in rule if c[0] == 'L'})
        else:
            ok = any(c[0] == n[0] and (c[0] == 'L' and c[2] == n[3] or c[0] == 'D' and c[1] == n[1]
                                       or c[0] == 'F' and c[1] == n[1] and c[2] == n[3]) for c in rule)
        if not ok:
            add('wrong_node', path=p, node=n, expected=[list(c) for c in rule])
    for p in exp:
        if p not in got and under(p, arena) and p != arena:
            add('missing', path=p, expected=[list(c) for c in exp[p]])
    return fails


# ---------------------------------------------------------------------------- one project
def do_project(payload):
    if not payload.get('exec'):
        import mesonbuild.mesonmain, mesonbuild.minstall, mesonbuild.msetup, mesonbuild.scripts.uninstall   # noqa: pay the import once
        import mesonbuild.interpreter, mesonbuild.backend.ninjabackend, mesonbuild.build   # noqa
    spec, proj = payload['project'], payload['dir']
    assert proj.startswith('/var/tmp/') and proj.count('/') >= 4, 'unsafe scratch dir ' + proj
    root = os.path.join(proj, 'root')
    src, build = os.path.join(proj, 'src'), os.path.join(proj, 'build')
    os.makedirs(root)
    os.makedirs(src)
    files = [dict(f, content=subst(f.get('content', ''), root), **({'link': subst(f['link'], root)} if f.get('link') is not None else {}))
             if not f.get('dir') else f for f in spec['files']]
    write_tree(root, spec.get('root_files', []))      # sentinels outside DESTDIR and outside the source tree
    write_tree(src, files)
    res = {'histories': [], 'setup_ok': False}
    args = ['setup', build, src] + [subst(a, root) for a in spec['setup_args']]
    r = run_cli(payload, args, cwd=proj)
    res['setup_rc'] = r.returncode
    if r.returncode != 0:
        res['setup_err'] = (r.stdout + r.stderr)[-1500:]
        return res
    res['setup_ok'] = True
    write_tree(build, spec.get('prebuilt', []))
    recs, oom, meta, dat = plan_records(build)
    res['meta'], res['oom'] = meta, oom
    spec['_prefix'] = dat.prefix
    # the generator's expectation about tags / subprojects must agree with install.dat (glue check)
    res['intro_plan_ok'] = os.path.exists(os.path.join(build, 'meson-info', 'intro-install_plan.json'))
    logfile = os.path.join(build, 'meson-logs', 'install-log.txt')
    for hi, hist in enumerate(spec['histories']):
        arena = os.path.join(proj, 'h%d' % hi)
        levels = ['l%d' % i for i in range(1, 9)]
        D = os.path.join(arena, *levels, 'dest')
        assert D.startswith(proj + '/') and D[len(proj):].count('/') >= 10
        hist['_arena'] = arena
        os.makedirs(arena)
        if os.path.exists(logfile):
            os.remove(logfile)
        # pre-populate
        pre = []
        for f in hist.get('pre', []):
            q = dict(f)
            q['path'] = subst(f['path'], root).replace('@D@', D).replace('@PFX@', D + dat.prefix)
            if 'content' in q:
                q['content'] = subst(q['content'], root)
            if q.get('link') is not None:
                q['link'] = subst(q['link'], root)
            pre.append(q)
        write_tree('/', [dict(f, path=f['path'].lstrip('/')) for f in pre])
        inherited = hist.get('umask', 0o022)
        # model records: ancestors of the arena + everything inside it
        frecs = []
        anc = arena
        chain = []
        while anc != '/':
            anc = os.path.dirname(anc)
            if anc != '/':
                chain.append(anc)
        for a in reversed(chain):
            frecs.append(node_line(a, ('D', stat.S_IMODE(os.lstat(a).st_mode), 0, '')))
        for sib in (build, src, root):     # siblings of the arena: only so that 'build/../hK' resolves
            frecs.append(node_line(sib, ('D', stat.S_IMODE(os.lstat(sib).st_mode), 0, '')))
        first = listing(proj, skip=(build, src))
        for p, n in first.items():
            if under(p, arena):
                frecs.append(node_line(p, n))
        crecs, impl_blocks, ofails = [], [], []
        before = listing(proj)
        dd_style = hist.get('destdir_style', 'opt')
        tree_after_step = []
        for k, step in enumerate(hist['steps']):
            log_before = read_log(build)
            if step['op'] == 'install':
                a = ['install', '-C', build, '--no-rebuild']
                env = {}
                dval = D
                if dd_style == 'env':
                    env['DESTDIR'] = D
                elif dd_style == 'slash':
                    dval = D + '/'
                    a += ['--destdir', dval]
                elif dd_style == 'rel':
                    dval = os.path.relpath(D, build)
                    a += ['--destdir', dval]
                elif dd_style == 'dslash':
                    dval = D.replace('/l4/', '//l4/./')
                    a += ['--destdir', dval]
                else:
                    a += ['--destdir', D]
                if step.get('dry'):
                    a.append('--dry-run')
                if step.get('only_changed'):
                    a.append('--only-changed')
                if step.get('tags') is not None:
                    a += ['--tags', step['tags']]
                if step.get('skip') is not None:
                    a += ['--skip-subprojects'] + ([step['skip']] if step['skip'] != '*DEFAULT*' else [])
                skipv = step.get('skip')
                if skipv == '*DEFAULT*':
                    skipv = '*'
                r = run_cli(payload, a, cwd=proj, env_extra=env, umask=inherited)
                crecs.append(S1.join(['I', '1' if step.get('dry') else '0', '1' if step.get('only_changed') else '0']
                                     + (['1', step['tags']] if step.get('tags') is not None else ['0', ''])
                                     + [skipv or '', dval, str(inherited)]))
            else:
                r = run_cli(payload, ['--internal', 'uninstall'], cwd=build, umask=inherited)
                crecs.append('U')
            after = listing(proj)
            log_after = read_log(build)
            status = 'OK' if r.returncode == 0 else 'FAIL'
            nodes = sorted(node_line(p, n) for p, n in after.items() if under(p, arena))
            impl_blocks.append({'status': status, 'nodes': nodes, 'log': log_lines(log_after),
                                'rc': r.returncode, 'tail': (r.stdout + r.stderr)[-600:] if r.returncode else ''})
            octx = {'arena': arena, 'destdir': D, 'logfile': logfile, 'build_logs': os.path.join(build, 'meson-logs'), 'proj': proj,
                    'log_after': log_after, 'log_before': log_before, 'rc': r.returncode}
            ofails += oracle_step(k, step, before, after, octx)
            # created set within the specified set, whatever existed before (pre-populated trees, reinstalls,
            # other rules of the same project): a path that APPEARS in this step must be a destination of a selected
            # rule (sources minus exclusions) or an ancestor directory of one
            if step['op'] == 'install' and not step.get('dry') and not spec.get('no_expect'):
                exp_any = expected_tree(spec, hist, step, root, D, dat.install_umask, inherited)
                if exp_any is not None:
                    for p_ in sorted(after):
                        if under(p_, arena) and p_ not in before and p_ not in exp_any:
                            ofails.append({'kind': 'unplanned_new', 'step': k, 'path': p_, 'node': after[p_]})
                            if sum(1 for f_ in ofails if f_['kind'] == 'unplanned_new') > 6:
                                break
                    # ... and a path that was there before changes (content, kind OR permission bits) only if it is a destination
                    for p_ in sorted(after):
                        if under(p_, arena) and p_ in before and before[p_] != after[p_] and p_ not in exp_any:
                            ofails.append({'kind': 'unplanned_change', 'step': k, 'path': p_, 'before': before[p_], 'after': after[p_]})
                            if sum(1 for f_ in ofails if f_['kind'] == 'unplanned_change') > 6:
                                break
            # exactness: first step, real install, empty arena, succeeded
            if (k == 0 and step['op'] == 'install' and not step.get('dry') and not hist.get('pre')
                    and r.returncode == 0 and not spec.get('no_expect')):
                exp = expected_tree(spec, hist, step, root, D, dat.install_umask, inherited)
                if exp is not None:
                    ofails += oracle_exact(k, exp, after, D, arena)
            # idempotence: same command as the previous step, both succeeded
            if (k > 0 and step['op'] == 'install' and not step.get('dry') and hist['steps'][k - 1] == step
                    and r.returncode == 0 and impl_blocks[k - 1]['status'] == 'OK'):
                prev = tree_after_step[k - 1]
                cur = {p: n for p, n in after.items() if under(p, arena)}
                for p in sorted(set(prev) | set(cur)):
                    if prev.get(p) != cur.get(p):
                        ofails.append({'kind': 'not_idempotent', 'step': k, 'path': p, 'once': prev.get(p), 'twice': cur.get(p)})
                        break
            # reinstall with the same command names the same files and links in the log (directories exist by then)
            if (k > 0 and step['op'] == 'install' and not step.get('dry') and not step.get('only_changed') and hist['steps'][k - 1] == step
                    and r.returncode == 0 and impl_blocks[k - 1]['status'] == 'OK'):
                prev_tree = tree_after_step[k - 1]

                def nondir_lines(lines, tree_):
                    return sorted(l for l in (lines or []) if not l.startswith('#') and tree_.get(os.path.normpath(l), ('?',))[0] != 'D')
                cur_tree = {p: n for p, n in after.items() if under(p, arena)}
                a1, a2 = nondir_lines(log_before, prev_tree), nondir_lines(log_after, cur_tree)
                if a1 != a2:
                    ofails.append({'kind': 'reinstall_log_differs', 'step': k, 'only_first': sorted(set(a1) - set(a2))[:4],
                                   'only_second': sorted(set(a2) - set(a1))[:4]})
            # install (n times, same command) ; uninstall from a clean arena leaves no file and no link
            if (step['op'] == 'uninstall' and k >= 1 and not hist.get('pre')
                    and all(st == hist['steps'][0] and st['op'] == 'install' and not st.get('dry') and not st.get('only_changed') for st in hist['steps'][:k])
                    and all(b['status'] == 'OK' for b in impl_blocks[:k])):
                left = sorted(p for p, n in after.items() if under(p, arena) and p not in first and n[0] != 'D')
                for p in left[:6]:
                    ofails.append({'kind': 'uninstall_left_files', 'step': k, 'path': p, 'node': after[p]})
            # install ; uninstall from a clean arena gives the clean arena back
            if (step['op'] == 'uninstall' and k == 1 and hist['steps'][0]['op'] == 'install' and not hist['steps'][0].get('dry')
                    and impl_blocks[0]['status'] == 'OK' and not hist.get('pre')):
                left = sorted(p for p in after if under(p, arena) and p != arena and p not in first)
                for p in left[:6]:
                    ofails.append({'kind': 'uninstall_not_inverse', 'step': k, 'path': p, 'node': after[p]})
            tree_after_step.append({p: n for p, n in after.items() if under(p, arena)})
            before = after
        # failures at, or behind, a symbolic link that was pre-placed in the arena belong to the link defect
        pre_links = {}
        for lp, ln in first.items():
            if ln[0] == 'L':
                pre_links[lp] = lp
                pre_links[os.path.normpath(os.path.join(os.path.dirname(lp), ln[3]))] = lp
        for f_ in ofails:
            pth = f_.get('path') or f_.get('line')
            if pth and 'via_symlink' not in f_:
                for tgt, lp in pre_links.items():
                    if under(pth, tgt):
                        f_['via_symlink'] = lp
                        break
        res['histories'].append({'records': recs + frecs + crecs, 'impl': impl_blocks, 'oracle': ofails,
                                 'arena': arena, 'destdir': D})
        shutil.rmtree(arena, ignore_errors=True)
    # whole-project sentinel: the real prefix / absolute dirs below <proj>/root must be untouched
    res['root_listing'] = sorted(listing(root))
    return res


def main():
    payload = json.load(sys.stdin)
    if 'paths' in payload:
        out = []
        for fn, args in payload['paths']:
            try:
                out.append(ev_path(fn, args))
            except Exception as e:
                out.append('EXC:' + type(e).__name__)
        json.dump({'results': out}, sys.stdout)
        return
    try:
        res = do_project(payload)
    except Exception as e:
        import traceback
        res = {'adapter_error': traceback.format_exc()[-3000:]}
    json.dump(res, sys.stdout)


if __name__ == '__main__':
    main()
