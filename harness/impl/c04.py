"""Adapter for C04 (run by /venv/bin/python with PYTHONPATH=<repo>).

Reads JSON on stdin, prints JSON.  Requests:
  mech      : [[op, ...], ...]   op = ["R", name] | ["B", outs, iouts, rule, ins, deps, orderdeps]
              -> per sequence "EXC:<class>" or {"text": <what NinjaBuild.write wrote>}
  rejected  : [[name, in_root], ...] -> "T"/"F"  (Interpreter.validate_forbidden_targets raises InvalidArguments?)
  forbidden : true -> sorted(coredata.FORBIDDEN_TARGET_NAMES)
  manifests : [{"file":…, "builddir":…, "need_all":[…], "need_test":[…]}]
              -> per manifest: the Python reference reading of the file (same canonical
                 rendering as coq/Graph/Entry.v `parse`), the leaf inputs that exist, and the
                 ORACLE: the clauses of C04 evaluated directly on it (no Coq model involved)
  texts     : [text, ...] -> reference reading + oracle (no file system) of each text

The reference reader below is an independent implementation of the Ninja manifest
grammar (manual: "Ninja file reference") in the style of ninja's own lexer: one cursor
over the whole text."""
import sys, json, os, io, re

S1, S2, S3, S4 = '\x01', '\x02', '\x03', '\x04'


# ------------------------------------------------------------------ reference reader
class NinjaError(Exception):
    pass


IDENT = re.compile(r'[a-zA-Z0-9_.-]+')
SIMPLE = re.compile(r'[a-zA-Z0-9_-]+')
RULE_KEYS = {'command', 'depfile', 'dyndep', 'description', 'deps', 'generator', 'pool', 'restat',
             'rspfile', 'rspfile_content', 'msvc_deps_prefix'}


def canon(p):
    if p == '':
        return p
    ab = p.startswith('/')
    st = []
    for c in p.split('/'):
        if c in ('', '.'):
            continue
        if c == '..':
            if st and st[-1] != '..':
                st.pop()
            else:
                st.append('..')
        else:
            st.append(c)
    body = '/'.join(st)
    if ab:
        return '/' + body
    return body or '.'


class Reader:
    def __init__(self, text):
        self.t, self.i, self.n = text, 0, len(text)

    def ch(self, k=0):
        j = self.i + k
        return self.t[j] if j < self.n else ''

    def skip_spaces(self):
        """blanks and "$\\n" continuations (ninja's EatWhitespace)"""
        while True:
            if self.ch() == ' ':
                self.i += 1
            elif self.ch() == '$' and self.ch(1) == '\n':
                self.i += 2
            else:
                return

    def eol(self):
        """consume blanks up to and including the newline (or EOF)"""
        self.skip_spaces()
        if self.ch() == '\n':
            self.i += 1
        elif self.ch() != '':
            raise NinjaError('expected newline')

    def ident(self):
        m = IDENT.match(self.t, self.i)
        if not m:
            raise NinjaError('expected a name')
        self.i = m.end()
        return m.group(0)

    def evalstring(self, path):
        """list of ('L', text) / ('V', name); stops before newline (and blank : | in paths)"""
        out, lit = [], []

        def flush():
            if lit:
                out.append(('L', ''.join(lit)))
                del lit[:]
        while True:
            c = self.ch()
            if c == '' or c == '\n':
                break
            if path and c in ' :|':
                break
            if c != '$':
                lit.append(c)
                self.i += 1
                continue
            d = self.ch(1)
            if d in ('$', ' ', ':') and d != '':
                lit.append(d)
                self.i += 2
            elif d == '\n':
                self.i += 2
                self.skip_spaces()
            elif d == '{':
                m = IDENT.match(self.t, self.i + 2)
                if not m or self.t[m.end():m.end() + 1] != '}':
                    raise NinjaError('bad ${} reference')
                flush()
                out.append(('V', m.group(0)))
                self.i = m.end() + 1
            else:
                m = SIMPLE.match(self.t, self.i + 1)
                if not m:
                    raise NinjaError('bad $-escape')
                flush()
                out.append(('V', m.group(0)))
                self.i = m.end()
        flush()
        return out

    def paths(self):
        ps = []
        while True:
            self.skip_spaces()
            c = self.ch()
            if c in ('', '\n', ':', '|'):
                return ps
            ps.append(self.evalstring(True))

    def binding(self):
        k = self.ident()
        self.skip_spaces()
        if self.ch() != '=':
            raise NinjaError('expected =')
        self.i += 1
        self.skip_spaces()
        v = self.evalstring(False)
        self.eol()
        return k, v

    def indented_bindings(self):
        """bindings of the block that starts after the current header line"""
        res = []
        while True:
            j = self.i
            while j < self.n and self.t[j] == ' ':
                j += 1
            c = self.t[j] if j < self.n else ''
            if c == '\n':                      # blank line
                self.i = j + 1
                continue
            if c == '#':                       # comment line
                k = self.t.find('\n', j)
                self.i = self.n if k < 0 else k + 1
                continue
            if c == '\t':
                raise NinjaError('tabs are not allowed')
            if j == self.i or c == '':
                return res
            self.i = j
            res.append(self.binding())


def ev(e, scopes):
    out = []
    for k, s in e:
        if k == 'L':
            out.append(s)
        else:
            for sc in scopes:
                if s in sc:
                    out.append(sc[s])
                    break
    return ''.join(out)


def ninja_parse(text):
    r = Reader(text)
    filevars, rules, pools, builds, defaults = {}, [], [], [], []
    while True:
        # skip blank and comment lines
        j = r.i
        while j < r.n and r.t[j] == ' ':
            j += 1
        c = r.t[j] if j < r.n else ''
        if c == '':
            break
        if c == '\n':
            r.i = j + 1
            continue
        if c == '#':
            k = r.t.find('\n', j)
            r.i = r.n if k < 0 else k + 1
            continue
        if c == '\t':
            raise NinjaError('tabs are not allowed')
        if j != r.i:
            raise NinjaError('unexpected indent')
        m = IDENT.match(r.t, r.i)
        w = m.group(0) if m else ''
        if w == 'build':
            r.i = m.end()
            outs = r.paths()
            iouts = []
            if r.ch() == '|' and r.ch(1) not in ('|', '@'):
                r.i += 1
                iouts = r.paths()
            if r.ch() != ':':
                raise NinjaError("expected ':' and a rule name")
            r.i += 1
            r.skip_spaces()
            if not IDENT.match(r.t, r.i):
                raise NinjaError('expected a rule name')
            rule = r.ident()
            if r.ch() not in ('', ' ', '\n', '|', ':') and True:
                raise NinjaError('bad rule name')
            ins = r.paths()
            imps, oos, vals = [], [], []
            if r.ch() == '|' and r.ch(1) not in ('|', '@'):
                r.i += 1
                imps = r.paths()
            if r.ch() == '|' and r.ch(1) == '|':
                r.i += 2
                oos = r.paths()
            if r.ch() == '|' and r.ch(1) == '@':
                r.i += 2
                vals = r.paths()
            r.eol()
            bvars = {}
            for k, v in r.indented_bindings():
                bvars[k] = ev(v, [filevars])
            sc = [bvars, filevars]
            b = {'outs': [canon(ev(p, sc)) for p in outs], 'iouts': [canon(ev(p, sc)) for p in iouts], 'rule': rule,
                 'ins': [canon(ev(p, sc)) for p in ins], 'imps': [canon(ev(p, sc)) for p in imps],
                 'oos': [canon(ev(p, sc)) for p in oos], 'vals': [canon(ev(p, sc)) for p in vals], 'vars': bvars}
            if not b['outs']:
                raise NinjaError('expected an output path')
            if any(p == '' for k in ('outs', 'iouts', 'ins', 'imps', 'oos', 'vals') for p in b[k]):
                raise NinjaError('empty path')
            builds.append(b)
        elif w == 'rule' or w == 'pool':
            r.i = m.end()
            r.skip_spaces()
            name = r.ident()
            r.eol()
            bs = r.indented_bindings()
            if w == 'rule':
                for k, _ in bs:
                    if k not in RULE_KEYS:
                        raise NinjaError('unexpected variable in a rule')
                rules.append({'name': name, 'vars': dict(bs)})
            else:
                pools.append(name)
        elif w == 'default':
            r.i = m.end()
            ps = r.paths()
            if not ps:
                raise NinjaError('expected a target name')
            if r.ch() in (':', '|'):
                raise NinjaError('unexpected token in default line')
            r.eol()
            ds = [canon(ev(p, [filevars])) for p in ps]
            if '' in ds:
                raise NinjaError('empty path')
            defaults += ds
        elif w in ('include', 'subninja'):
            raise NinjaError('include/subninja: not a closed manifest')
        else:
            k, v = r.binding()
            filevars[k] = ev(v, [filevars])
    return {'rules': rules, 'builds': builds, 'defaults': defaults, 'vars': filevars}


def render(m):
    def rb(b):
        return S1.join([S2.join(b['outs']), S2.join(b['iouts']), b['rule'], S2.join(b['ins']), S2.join(b['imps']),
                        S2.join(b['oos']), S2.join(b['vals'])])
    return S4.join([S2.join(r['name'] for r in m['rules']), S3.join(rb(b) for b in m['builds']), S2.join(m['defaults'])])


def read_text(text):
    try:
        return ninja_parse(text), None
    except NinjaError as e:
        return None, 'ERR:' + str(e)


# ------------------------------------------------------------------ the oracle
def oracle(m, files, need_all, need_test):
    """The clauses of C04 evaluated on a manifest as read above.  Returns a list of
    [kind, a, b] offenders (empty = the property holds for this manifest)."""
    errs = []
    names = [r['name'] for r in m['rules']]
    seen = set()
    for n in names:
        if n in seen or n == 'phony':
            errs.append(['duplicate-rule', n, ''])
        seen.add(n)
    producer = {}
    for b in m['builds']:
        if b['rule'] != 'phony' and b['rule'] not in seen:
            errs.append(['undefined-rule', b['outs'][0], b['rule']])
        for o in b['outs'] + b['iouts']:
            if o in producer:
                errs.append(['duplicate-output', o, ''])
            else:
                producer[o] = b
    files = set(files)
    for b in m['builds']:
        for q in b['ins'] + b['imps'] + b['oos'] + b['vals']:
            if q not in files and q not in producer:
                errs.append(['missing-input', b['outs'][0], q])
    # cycles: depth-first search over statements (every producer of a path counts)
    prods = {}
    for b in m['builds']:
        for o in b['outs'] + b['iouts']:
            prods.setdefault(o, []).append(b)
    WHITE, GREY, BLACK = 0, 1, 2
    col = {}
    cyc = []
    for b0 in m['builds']:
        if col.get(id(b0), WHITE) != WHITE:
            continue
        stack = [(b0, iter([p for q in b0['ins'] + b0['imps'] + b0['oos'] for p in prods.get(q, [])]))]
        col[id(b0)] = GREY
        while stack:
            b, it = stack[-1]
            nxt = next(it, None)
            if nxt is None:
                col[id(b)] = BLACK
                stack.pop()
            elif col.get(id(nxt), WHITE) == GREY:
                cyc.append(nxt['outs'][0])
            elif col.get(id(nxt), WHITE) == WHITE:
                col[id(nxt)] = GREY
                stack.append((nxt, iter([p for q in nxt['ins'] + nxt['imps'] + nxt['oos'] for p in prods.get(q, [])])))
    for p in cyc:
        errs.append(['cycle', p, ''])
    allp = set(producer)
    for b in m['builds']:
        allp.update(b['ins'] + b['imps'] + b['oos'] + b['vals'])
    for d in m['defaults']:
        if d not in allp:
            errs.append(['bad-default', d, ''])
    for root, need in (('all', need_all), ('meson-test-prereq', need_test)):
        if not need:
            continue
        reach, todo = {root}, [root]
        while todo:
            p = todo.pop()
            for b in prods.get(p, []):
                for q in b['outs'] + b['iouts'] + b['ins'] + b['imps'] + b['oos']:
                    if q not in reach:
                        reach.add(q)
                        todo.append(q)
        for p in need:
            if p not in reach:
                errs.append(['unreachable', root, p])
    return errs


def leaf_inputs(m):
    prod = set(o for b in m['builds'] for o in b['outs'] + b['iouts'])
    res = []
    for b in m['builds']:
        for q in b['ins'] + b['imps'] + b['oos'] + b['vals']:
            if q not in prod and q not in res:
                res.append(q)
    return res


# ------------------------------------------------------------------ the implementation, in process
def run_mech(ops):
    from mesonbuild.backend import ninjabackend as nb
    try:
        ao = set()
        n = nb.NinjaBuild()
        for o in ops:
            if o[0] == 'R':
                n.add_rule(nb.NinjaRule(o[1], ['cmd'], [], 'desc'))
            else:
                _, outs, iouts, rule, ins, deps, oos = o
                e = nb.NinjaBuildElement(ao, list(outs), rule, list(ins), implicit_outs=list(iouts))
                e.add_dep(list(deps))
                e.add_orderdep(list(oos))
                n.add_build(e)
        f = io.StringIO()
        n.write(f)
        return {'text': f.getvalue()}
    except Exception as e:
        return 'EXC:' + type(e).__name__


def run_rejected(name, in_root):
    from mesonbuild.interpreter.interpreter import Interpreter
    from mesonbuild.interpreterbase import InvalidArguments

    class Dummy:
        subproject = ''
        current_node = None
    try:
        Interpreter.validate_forbidden_targets(Dummy(), name, in_root)
    except InvalidArguments:
        return 'T'
    except Exception as e:
        # the FeatureNew notice of the sub-directory case needs a live interpreter: not a rejection
        if name_in_forbidden(name) and not in_root:
            return 'F'
        return 'EXC:' + type(e).__name__
    return 'F'


def run_testlike(tests):
    """tests: [[exe, [args], [depends]], ...] with objects T:id | I:id | L:obj | O.
    Runs the real Backend.get_testlike_targets on bare instances of the real classes."""
    from mesonbuild import build
    from mesonbuild.backend import backends
    from mesonbuild import programs

    def target(i):
        if i.startswith('c'):
            t = object.__new__(build.CustomTarget)
            t.outputs = ['o']
        else:
            t = object.__new__(build.Executable)
        t.name = i
        t.for_machine = None
        t.vid = i
        return t

    def obj(s):
        if s.startswith('T:'):
            return target(s[2:])
        if s.startswith('I:'):
            x = object.__new__(build.CustomTargetIndex)
            x.target = target(s[2:])
            x.output = 'o'
            x.for_machine = None
            return x
        if s.startswith('L:'):
            inner = obj(s[2:])
            if isinstance(inner, str):
                inner = object.__new__(programs.ExternalProgram)
                inner.name = 'ext'
                inner.for_machine = None
                return build.LocalProgram(inner, '1', file=object())
            return build.LocalProgram(inner, '1')
        return 'plain-string'

    class T_:
        pass

    class B_:
        pass
    ts = []
    for exe, args, deps in tests:
        t = T_()
        t.exe, t.cmd_args, t.depends = obj(exe), [obj(a) for a in args], [obj(d) for d in deps]
        ts.append(t)
    fake = B_()
    fake.build = B_()
    fake.build.get_tests = lambda: ts
    fake.build.get_benchmarks = lambda: []
    try:
        return S2.join(x.vid for x in backends.Backend.get_testlike_targets(fake))
    except Exception as e:
        return 'EXC:' + type(e).__name__


def name_in_forbidden(name):
    from mesonbuild import coredata
    return name in coredata.FORBIDDEN_TARGET_NAMES


def main():
    req = json.load(sys.stdin)
    out = {}
    real_stdout = sys.stdout
    sys.stdout = open(os.devnull, 'w')      # mlog warnings must not mix with the JSON answer
    if 'mech' in req:
        out['mech'] = [run_mech(ops) for ops in req['mech']]
    if 'rejected' in req:
        out['rejected'] = [run_rejected(n, r) for n, r in req['rejected']]
    if 'quote' in req:
        from mesonbuild.backend import ninjabackend as nb
        res = []
        for n in req['quote']:
            try:
                res.append(nb.ninja_quote(n, True))
            except Exception as e:
                res.append('EXC:' + type(e).__name__)
        out['quote'] = res
    if 'runname' in req:
        from mesonbuild.backend import ninjabackend as nb

        class RT:
            pass
        res = []
        for sp, n in req['runname']:
            t = RT()
            t.subproject, t.name = sp, n
            res.append(nb.NinjaBackend.build_run_target_name(None, t))
        out['runname'] = res
    if 'relpath' in req:
        out['relpath'] = [os.path.relpath(t or '.', st or '.') for t, st in req['relpath']]
    if 'testlike' in req:
        out['testlike'] = [run_testlike(ts) for ts in req['testlike']]
    if 'forbidden' in req:
        from mesonbuild import coredata
        out['forbidden'] = sorted(coredata.FORBIDDEN_TARGET_NAMES)
    if 'texts' in req:
        res = []
        for t in req['texts']:
            m, err = read_text(t)
            res.append({'parse': err} if m is None else {'parse': render(m), 'oracle': oracle(m, [], [], [])})
        out['texts'] = res
    if 'manifests' in req:
        res = []
        for q in req['manifests']:
            try:
                text = open(q['file'], encoding='utf-8').read()
            except Exception as e:
                res.append({'parse': 'ERR:unreadable ' + type(e).__name__})
                continue
            m, err = read_text(text)
            if m is None:
                res.append({'parse': err})
                continue
            leaves = leaf_inputs(m)
            exist = [p for p in leaves if os.path.lexists(os.path.join(q['builddir'], p))]
            res.append({'parse': render(m), 'leaves': leaves, 'exist': exist,
                        'oracle': oracle(m, exist, q.get('need_all', []), q.get('need_test', []))})
        out['manifests'] = res
    json.dump(out, real_stdout)


main()
