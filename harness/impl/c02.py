"""In-process adapter for C02: mesonbuild.mparser Lexer/Parser + RawPrinter.
Renders tokens/trees exactly like coq/Syntax/Render.v and evaluates the property's own
clauses (total, lossless, position-accurate) directly on the implementation."""
import sys, json, os, io, contextlib
os.environ.pop('MESON_RUNNING_IN_PROJECT_TESTS', None)
from mesonbuild import mparser as mp, mlog
from mesonbuild.mesonlib import MesonException
from mesonbuild.ast.printer import RawPrinter
from mesonbuild.ast.visitor import AstVisitor

sys.setrecursionlimit(1000)   # the interpreter default: deep-nesting behaviour must be the shipped one


def quiet():
    return contextlib.redirect_stdout(io.StringIO())


def P(l, c):
    return '@%d:%d' % (l, c)


def SP(n):
    return '@%d:%d-%d:%d' % (n.lineno, n.colno, n.end_lineno, n.end_colno)


def r_args(a):
    pa = ''.join(r_node(x) + ';' for x in a.arguments)
    ka = ''.join(r_node(k) + ':' + r_node(v) + ';' for k, v in a.kwargs.items())
    return pa + '|' + ka + '|' + str(len(a.commas))


def r_block(b):
    return ''.join(r_node(x) + ';' for x in b.lines)


def strtext(n):
    q = "'''" if n.is_multiline else "'"
    return ('f' if n.is_fstring else '') + q + n.raw_value + q


def r_node(n):
    t = type(n).__name__
    p = P(n.lineno, n.colno)
    if t == 'EmptyNode':
        return 'E' + p
    if t == 'BooleanNode':
        return 'B' + p + '(' + ('true' if n.value else 'false') + ')'
    if t == 'IdNode':
        return 'I' + p + '(' + n.value + ')'
    if t == 'NumberNode':
        return 'N' + p + '(' + n.raw_value + ')'
    if t == 'StringNode':
        return 'S' + p + '(' + strtext(n) + ')'
    if t == 'ContinueNode':
        return 'Cont' + p
    if t == 'BreakNode':
        return 'Brk' + p
    if t == 'ParenthesizedNode':
        return 'P' + SP(n) + '[' + r_node(n.inner) + ']'
    if t == 'ArrayNode':
        return 'A' + SP(n) + '[' + r_args(n.args) + ']'
    if t == 'DictNode':
        return 'D' + SP(n) + '[' + r_args(n.args) + ']'
    if t == 'FunctionNode':
        return 'F' + SP(n) + '(' + n.func_name.value + ')[' + r_args(n.args) + ']'
    if t == 'MethodNode':
        return 'M' + SP(n) + '(' + n.name.value + ')[' + r_node(n.source_object) + ';' + r_args(n.args) + ']'
    if t == 'IndexNode':
        return 'X' + p + '[' + r_node(n.iobject) + ';' + r_node(n.index) + ']'
    if t == 'NotNode':
        return 'Not' + p + '[' + r_node(n.value) + ']'
    if t == 'UMinusNode':
        return 'Neg' + p + '[' + r_node(n.value) + ']'
    if t == 'ArithmeticNode':
        return 'Ar' + p + '(' + n.operation + ')[' + r_node(n.left) + ';' + r_node(n.right) + ']'
    if t == 'ComparisonNode':
        return 'Cmp' + p + '(' + n.ctype + ')[' + r_node(n.left) + ';' + r_node(n.right) + ']'
    if t == 'AndNode':
        return 'And' + p + '[' + r_node(n.left) + ';' + r_node(n.right) + ']'
    if t == 'OrNode':
        return 'Or' + p + '[' + r_node(n.left) + ';' + r_node(n.right) + ']'
    if t == 'TernaryNode':
        return 'T' + p + '[' + r_node(n.condition) + ';' + r_node(n.trueblock) + ';' + r_node(n.falseblock) + ']'
    if t == 'AssignmentNode':
        return 'As' + p + '(' + n.var_name.value + ')[' + r_node(n.value) + ']'
    if t == 'PlusAssignmentNode':
        return 'PAs' + p + '(' + n.var_name.value + ')[' + r_node(n.value) + ']'
    if t == 'IfClauseNode':
        s = ''.join(r_node(i.condition) + '{' + r_block(i.block) + '};' for i in n.ifs)
        if type(n.elseblock).__name__ == 'ElseNode':
            s += 'else{' + r_block(n.elseblock.block) + '}'
        return 'If' + p + '[' + s + ']'
    if t == 'ForeachClauseNode':
        return 'Fe' + p + '(' + ','.join(v.value for v in n.varnames) + ')[' + r_node(n.items) + '{' + r_block(n.block) + '}]'
    return '?' + t


def do_lex(code):
    try:
        with quiet():
            toks = list(mp.Lexer(code).lex('f'))
    except mp.ParseException as e:
        return 'ERR' + P(e.lineno, e.colno)
    except Exception as e:
        return 'EXC:' + type(e).__name__
    return 'OK:' + '\x01'.join('%s@%d:%d:%d(%s)' % (t.tid, t.lineno, t.colno, t.bytespan[0], code[t.bytespan[0]:t.bytespan[1]]) for t in toks)


def do_parse(code):
    try:
        with quiet():
            b = mp.Parser(code, 'f').parse()
    except mp.ParseException as e:
        if 'nested too deeply' in str(e):
            # the interpreter's recursion limit (fix b4174a3): a resource bound the model does not have
            return 'DEPTH' + P(e.lineno, e.colno), None
        return 'ERR' + P(e.lineno, e.colno), None
    except MesonException as e:
        return 'MESONERR:' + type(e).__name__, None
    except RecursionError:
        return 'EXC:RecursionError', None
    except Exception as e:
        return 'EXC:' + type(e).__name__, None
    try:
        return 'OK:' + r_block(b), b
    except RecursionError:
        return 'EXC:RecursionError(render)', None


# ---------------------------------------------------------------- trivia view (coq/Syntax/TriviaRender.v)
# Walks the real node objects by their attributes (never through a visitor, so that a change of
# FullAstVisitor cannot hide in the rendering): per node its kind and `whitespaces`.
def v_q(s):
    return '\x02' + s + '\x03'


def v_ws(w):
    if w is None:
        return '-'
    return P(w.lineno, w.colno) + v_q(w.value)


def v_sym(s):
    if type(s).__name__ != 'SymbolNode':
        return '?' + type(s).__name__
    return 'y' + v_q(s.value) + v_ws(s.whitespaces)


def v_idn(i):
    if type(i).__name__ != 'IdNode':
        return '?' + type(i).__name__
    return 'i' + v_q(i.value) + v_ws(i.whitespaces)


def tv_args(a):
    return ('G[' + ''.join(tv(x) for x in a.arguments) + ';' +
            ''.join(tv(k) + ':' + tv(v) + ',' for k, v in a.kwargs.items()) + ';' +
            ''.join(v_sym(c) for c in a.colons) + ';' + ''.join(v_sym(c) for c in a.commas) + ']' + v_ws(a.whitespaces))


def tv_block(b):
    return 'K[' + v_ws(b.pre_whitespaces) + ';' + ''.join(tv(x) for x in b.lines) + ']' + v_ws(b.whitespaces)


def tv(n):
    t = type(n).__name__
    w = v_ws(n.whitespaces)
    if t == 'EmptyNode':
        return 'E' + w
    if t == 'BooleanNode':
        return 'B' + w
    if t == 'IdNode':
        return 'I' + v_q(n.value) + w
    if t == 'NumberNode':
        return 'N' + w
    if t == 'StringNode':
        return 'S' + w
    if t == 'ContinueNode':
        return 'Cont' + w
    if t == 'BreakNode':
        return 'Brk' + w
    if t == 'ParenthesizedNode':
        return 'P[' + v_sym(n.lpar) + tv(n.inner) + v_sym(n.rpar) + ']' + w
    if t == 'ArrayNode':
        return 'A[' + v_sym(n.lbracket) + tv_args(n.args) + v_sym(n.rbracket) + ']' + w
    if t == 'DictNode':
        return 'D[' + v_sym(n.lcurl) + tv_args(n.args) + v_sym(n.rcurl) + ']' + w
    if t == 'FunctionNode':
        return 'F[' + v_idn(n.func_name) + v_sym(n.lpar) + tv_args(n.args) + v_sym(n.rpar) + ']' + w
    if t == 'MethodNode':
        return 'M[' + tv(n.source_object) + v_sym(n.dot) + v_idn(n.name) + v_sym(n.lpar) + tv_args(n.args) + v_sym(n.rpar) + ']' + w
    if t == 'IndexNode':
        return 'X[' + tv(n.iobject) + v_sym(n.lbracket) + tv(n.index) + v_sym(n.rbracket) + ']' + w
    if t == 'NotNode':
        return 'Not[' + v_sym(n.operator) + tv(n.value) + ']' + w
    if t == 'UMinusNode':
        return 'Neg[' + v_sym(n.operator) + tv(n.value) + ']' + w
    if t in ('ArithmeticNode', 'ComparisonNode', 'AndNode', 'OrNode'):
        k = {'ArithmeticNode': 'Ar', 'ComparisonNode': 'Cmp', 'AndNode': 'And', 'OrNode': 'Or'}[t]
        return k + '[' + tv(n.left) + v_sym(n.operator) + tv(n.right) + ']' + w
    if t == 'TernaryNode':
        return 'T[' + tv(n.condition) + v_sym(n.questionmark) + tv(n.trueblock) + v_sym(n.colon) + tv(n.falseblock) + ']' + w
    if t in ('AssignmentNode', 'PlusAssignmentNode'):
        return ('As' if t == 'AssignmentNode' else 'PAs') + '[' + v_idn(n.var_name) + v_sym(n.operator) + tv(n.value) + ']' + w
    if t == 'IfClauseNode':
        s = ''
        for i in n.ifs:
            s += 'In[' + v_sym(i.if_) + tv(i.condition) + tv_block(i.block) + ']' + v_ws(i.whitespaces)
        e = n.elseblock
        if type(e).__name__ == 'ElseNode':
            s += 'El[' + v_sym(e.else_) + tv_block(e.block) + ']' + v_ws(e.whitespaces)
        else:
            s += tv(e)
        return 'If[' + s + v_sym(n.endif) + ']' + w
    if t == 'ForeachClauseNode':
        return ('Fe[' + v_sym(n.foreach_) + ''.join(v_idn(v) for v in n.varnames) + ';' + ''.join(v_sym(c) for c in n.commas) + ';' +
                v_sym(n.colon) + tv(n.items) + tv_block(n.block) + v_sym(n.endforeach) + ']' + w)
    return '?' + t


def do_trivia(code):
    """The trivia-annotated tree and RawPrinter's output, rendered like r_tres (TriviaRender.v)."""
    res, block = do_parse(code)
    if block is None:
        return res if res.startswith(('ERR', 'DEPTH')) else 'EXC:' + res
    try:
        view = tv_block(block)
        rp = RawPrinter()
        with quiet():
            block.accept(rp)
        return 'OK:' + view + '\x04' + rp.result
    except RecursionError:
        return 'DEPTH(render)'
    except Exception as e:
        return 'EXC:' + type(e).__name__


class Collect(AstVisitor):
    def __init__(self):
        self.nodes = []

    def visit_default_func(self, node):
        self.nodes.append(node)


def offset_of(code, starts, line, col):
    if line < 1 or line > len(starts):
        return None
    return starts[line - 1] + col


def oracle(code):
    """The clauses of C02 on one input; returns None or a dict describing the failure."""
    res, block = do_parse(code)
    nlines = code.count('\n') + 1
    starts = [0]
    for i, ch in enumerate(code):
        if ch == '\n':
            starts.append(i + 1)
    if res.startswith('EXC:'):
        return {'kind': 'internal-error', 'exc': res[4:]}
    if res.startswith('MESONERR'):
        return {'kind': 'unlocated-error', 'exc': res}
    if res.startswith('ERR') or res.startswith('DEPTH'):
        l, c = [int(x) for x in res[res.index('@') + 1:].split(':')]
        # a position inside the text: (line, col) denotes the point line_start(line) + col, which must
        # lie within the text (its end included, for errors at end of input); line 0 is used for
        # whole-file errors (BOM).  Columns are line-relative offsets and may run past the end of
        # `line` when the last token spans several lines.
        if not (0 <= l <= nlines + 1) or c < 0:
            return {'kind': 'error-position-outside-text', 'line': l, 'col': c}
        if 1 <= l <= nlines and starts[l - 1] + c > len(code):
            return {'kind': 'error-position-outside-text', 'line': l, 'col': c, 'text_length': len(code)}
        return None
    # accepted: lossless
    try:
        rp = RawPrinter()
        with quiet():
            block.accept(rp)
    except RecursionError:
        return {'kind': 'internal-error', 'exc': 'RecursionError(print)'}
    if rp.result != code:
        return {'kind': 'not-lossless', 'printed': rp.result[:200]}
    # positions of function calls and array literals
    col = Collect()
    try:
        block.accept(col)
    except RecursionError:
        return None
    for n in col.nodes:
        t = type(n).__name__
        if t == 'FunctionNode':
            first, last = n.func_name, n.rpar
        elif t == 'ArrayNode':
            first, last = n.lbracket, n.rbracket
        else:
            continue
        a = offset_of(code, starts, n.lineno, n.colno)
        b = offset_of(code, starts, n.end_lineno, n.end_colno)
        ea, eb = first.bytespan[0], last.bytespan[1]
        if a != ea or b != eb:
            return {'kind': 'extent-mismatch', 'node': t, 'recorded': [n.lineno, n.colno, n.end_lineno, n.end_colno],
                    'recorded_slice': code[a:b][:80] if a is not None and b is not None else None,
                    'construct': code[ea:eb][:80]}
        pr = RawPrinter()
        with quiet():
            n.accept(pr)
        if not pr.result.startswith(code[ea:eb]):
            return {'kind': 'extent-mismatch', 'node': t, 'printed': pr.result[:80], 'construct': code[ea:eb][:80]}
    return None


def main():
    req = json.load(sys.stdin)
    out = {}
    if 'cases' in req:
        rs = []
        for fn, args in req['cases']:
            if fn == 'lex':
                rs.append(do_lex(args[0]))
            elif fn == 'trivia':
                rs.append(do_trivia(args[0]))
            else:
                rs.append(do_parse(args[0])[0])
        out['results'] = rs
    if 'oracle' in req:
        out['oracle'] = []
        for code in req['oracle']:
            try:
                out['oracle'].append(oracle(code))
            except RecursionError:
                out['oracle'].append({'kind': 'internal-error', 'exc': 'RecursionError(oracle)'})
    json.dump(out, sys.stdout)


main()
