"""In-process adapter for C17: mesonbuild.ast.printer.AstPrinter, mesonbuild.rewriter
(Rewriter.apply_changes and the whole `meson rewrite` command line through mesonmain.run),
mesonbuild.mparser.  Renders results exactly like coq/Rewrite/Entry.v.  Also hosts the
property's own clauses evaluated on the implementation (no model involved)."""
import sys, json, os, io, contextlib, shutil, traceback
os.environ.pop('MESON_RUNNING_IN_PROJECT_TESTS', None)
from mesonbuild import mparser as mp, mlog
from mesonbuild.mesonlib import MesonException
from mesonbuild.ast.printer import AstPrinter, precedence_level
from mesonbuild.ast.postprocess import AstIndentationGenerator
from mesonbuild.ast.visitor import FullAstVisitor

sys.setrecursionlimit(3000)


def quiet():
    return contextlib.redirect_stdout(io.StringIO())


def cps(s):
    return [ord(c) for c in s]


# ------------------------------------------------------------------ tree -> JSON (mirror of j_expr)
def jx(n):
    t = type(n).__name__
    if t == 'BooleanNode':
        return ['b', 1 if n.value else 0]
    if t == 'IdNode':
        return ['id', cps(n.value)]
    if t == 'NumberNode':
        return ['n', n.value]
    if t == 'StringNode':
        return ['s', 1 if n.is_fstring else 0, 1 if n.is_multiline else 0, cps(n.value)]
    if t == 'ParenthesizedNode':
        return ['p', jx(n.inner)]
    if t == 'ArrayNode':
        return ['arr', jpos(n.args), jkw(n.args)]
    if t == 'DictNode':
        return ['dict', [[jx(k), jx(v)] for k, v in n.args.kwargs.items()]]
    if t == 'FunctionNode':
        return ['f', cps(n.func_name.value), jpos(n.args), jkw(n.args)]
    if t == 'MethodNode':
        return ['m', jx(n.source_object), cps(n.name.value), jpos(n.args), jkw(n.args)]
    if t == 'IndexNode':
        return ['x', jx(n.iobject), jx(n.index)]
    if t == 'NotNode':
        return ['not', jx(n.value)]
    if t == 'UMinusNode':
        return ['neg', jx(n.value)]
    if t == 'ArithmeticNode':
        return ['ar', {'add': '+', 'sub': '-', 'mul': '*', 'div': '/', 'mod': '%'}.get(n.operation, n.operation), jx(n.left), jx(n.right)]
    if t == 'ComparisonNode':
        return ['cmp', n.ctype, jx(n.left), jx(n.right)]
    if t == 'AndNode':
        return ['and', jx(n.left), jx(n.right)]
    if t == 'OrNode':
        return ['or', jx(n.left), jx(n.right)]
    if t == 'TernaryNode':
        return ['t', jx(n.condition), jx(n.trueblock), jx(n.falseblock)]
    return ['?']


def jpos(a):
    return [jx(x) for x in a.arguments]


def jkw(a):
    return [[cps(k.value) if type(k).__name__ == 'IdNode' else [], jx(v)] for k, v in a.kwargs.items()]


def strip_parens(j):
    if isinstance(j, list):
        if j and j[0] == 'p':
            return strip_parens(j[1])
        return [strip_parens(x) for x in j]
    return j


class Span(FullAstVisitor):
    def __init__(self):
        self.lo, self.hi = None, None

    def enter_node(self, node):
        bs = getattr(node, 'bytespan', None)
        if isinstance(node, mp.ElementaryNode) and bs is not None:
            if self.lo is None or bs[0] < self.lo:
                self.lo = bs[0]
            if self.hi is None or bs[1] > self.hi:
                self.hi = bs[1]


def extent(n):
    s = Span()
    n.accept(s)
    return [s.lo or 0, s.hi or 0]


def jstmt(n, out):
    t = type(n).__name__
    if t == 'EmptyNode':
        return
    if t == 'AssignmentNode':
        out.append(['assign'] + extent(n) + [cps(n.var_name.value), jx(n.value)])
    elif t == 'PlusAssignmentNode':
        out.append(['plusassign'] + extent(n) + [cps(n.var_name.value), jx(n.value)])
    elif t == 'IfClauseNode':
        for i in n.ifs:
            out.append(['if'] + extent(i.condition) + [jx(i.condition)])
            jblock(i.block, out)
        if type(n.elseblock).__name__ == 'ElseNode':
            jblock(n.elseblock.block, out)
    elif t == 'ForeachClauseNode':
        out.append(['foreach'] + extent(n.items) + [jx(n.items)])
        jblock(n.block, out)
    elif t in ('ContinueNode', 'BreakNode'):
        out.append(['jump', 0, 0])
    else:
        out.append(['expr'] + extent(n) + [jx(n)])


def jblock(b, out):
    for l in b.lines:
        jstmt(l, out)


def dumps(j):
    return json.dumps(j, separators=(',', ':'))


def parse(code, fname='f'):
    with quiet():
        return mp.Parser(code, fname).parse()


def do_stmts(code):
    try:
        b = parse(code)
    except mp.ParseException:
        return 'ERR'
    out = []
    jblock(b, out)
    return dumps(out)


def first_stmt(code):
    b = parse(code)
    b.accept(AstIndentationGenerator())
    return b.lines[0] if b.lines else None


def value_node(n):
    return n.value if isinstance(n, mp.AssignmentNode) else n


def printed(n):
    p = AstPrinter()
    n.accept(p)
    p.post_process()
    return p.result


def do_print(code):
    try:
        n = first_stmt(code)
    except mp.ParseException:
        return 'ERR'
    if n is None:
        return '-'
    return 'O' + printed(n)


def do_ptoks(code):
    try:
        n = first_stmt(code)
    except mp.ParseException:
        return 'ERR'
    if n is None:
        return '-'
    txt = printed(value_node(n))
    with quiet():
        toks = list(mp.Lexer(txt).lex('f'))
    return dumps([[t.tid, cps(txt[t.bytespan[0]:t.bytespan[1]])] for t in toks if t.tid not in ('whitespace', 'comment')])


def no_tern(j):
    if isinstance(j, list):
        if j and j[0] == 't':
            return False
        return all(no_tern(x) for x in j)
    return True


def printable(j):
    if isinstance(j, list):
        if j and j[0] == '?':
            return False
        if j and j[0] == 's':
            return True
        if j and j[0] == 't':
            return all(printable(x) for x in j[1:]) and no_tern(j[2]) and no_tern(j[3])
        return all(printable(x) for x in j)
    return True


def do_check(code):
    """printable / (model-internal flag, always T here) / the printed text parses back to the
    same tree modulo parentheses."""
    try:
        n = first_stmt(code)
    except mp.ParseException:
        return 'ERR'
    if n is None:
        return '-'
    v = value_node(n)
    j = jx(v)
    txt = printed(v)
    try:
        b2 = parse(txt + '\n')
        back = bool(b2.lines) and strip_parens(jx(b2.lines[0])) == strip_parens(j)
    except mp.ParseException:
        back = False
    except Exception as e:
        return 'EXC:' + type(e).__name__
    return ('T' if printable(j) else 'F') + 'T' + ('T' if back else 'F')


def do_prec(code):
    try:
        n = first_stmt(code)
    except mp.ParseException:
        return 'ERR'
    if n is None:
        return '-'
    v = value_node(n)
    if isinstance(v, (mp.AssignmentNode, mp.IfClauseNode, mp.ForeachClauseNode, mp.ContinueNode, mp.BreakNode)):
        return '1'
    return str(precedence_level(v))


def do_decode(raw):
    n = mp.StringNode(mp.Token('string', 'f', 0, 0, 0, (0, 0), raw))
    return n.value


def do_escrt(v):
    txt = "'" + AstPrinter().escape(v) + "'"
    with quiet():
        toks = list(mp.Lexer(txt).lex('f'))
    if len(toks) != 1:
        return '-'
    t = toks[0]
    try:
        n = mp.StringNode(t)
    except Exception:
        return 'F'
    return ('T' if t.tid == 'string' else 'F') + n.value


def do_numval(txt):
    return str(int(txt, base=0))


# ------------------------------------------------------------------ apply_changes in-process
def make_rewriter():
    from mesonbuild.rewriter import Rewriter
    rw = object.__new__(Rewriter)
    rw.modified_nodes, rw.to_remove_nodes, rw.to_add_nodes = [], [], []
    return rw


def do_reformat(code, idx, scratch):
    """Re-print the function call / array literal of the given top-level statements in place,
    through Rewriter.apply_changes."""
    path = os.path.join(scratch, 'reformat.build')
    with open(path, 'w', encoding='utf-8', newline='') as f:
        f.write(code)
    try:
        b = parse(code, path)
    except mp.ParseException:
        return 'ERR'
    b.accept(AstIndentationGenerator())
    rw = make_rewriter()
    for i in ([int(x) for x in idx.split(',')] if idx else []):
        if i >= len(b.lines):
            return '-'
        n = value_node(b.lines[i])
        if not isinstance(n, (mp.FunctionNode, mp.ArrayNode)):
            return '-'
        rw.modified_nodes.append(n)
    with quiet():
        rw.apply_changes()
    with open(path, encoding='utf-8', newline='') as f:
        return 'O' + f.read()


def do_rm_assign(code, idx, scratch):
    """Remove the assignment `name = call(...)` / `name = [...]` that is top-level statement idx,
    through Rewriter.apply_changes (what rm_target does for an assigned target)."""
    path = os.path.join(scratch, 'rmassign.build')
    with open(path, 'w', encoding='utf-8', newline='') as f:
        f.write(code)
    try:
        b = parse(code, path)
    except mp.ParseException:
        return 'ERR'
    i = int(idx)
    if i >= len(b.lines):
        return '-'
    n = b.lines[i]
    if type(n) is not mp.AssignmentNode or not isinstance(n.value, (mp.FunctionNode, mp.ArrayNode)):
        return '-'
    rw = make_rewriter()
    rw.to_remove_nodes.append(n)
    with quiet():
        rw.apply_changes()
    with open(path, encoding='utf-8', newline='') as f:
        return 'O' + f.read()


def do_splice(text, es, scratch):
    """apply_changes with hand-made extents: fake nodes carrying (lineno, colno, end_lineno,
    end_colno); the replacement text is produced by a stub accept()."""
    path = os.path.join(scratch, 'splice.build')
    with open(path, 'w', encoding='utf-8', newline='') as f:
        f.write(text)

    class Fake(mp.FunctionNode):
        def __init__(self, sl, sc, el, ec, new):
            self.lineno, self.colno, self.end_lineno, self.end_colno, self.filename = sl, sc, el, ec, path
            self.new = new
            self.level = 0

        def accept(self, visitor):
            visitor.result += self.new

        def __hash__(self):
            return id(self)

        def __eq__(self, o):
            return self is o
    rw = make_rewriter()
    for k in range(0, len(es) - 4, 5):
        a, b_, c, d, new = es[k:k + 5]
        rw.modified_nodes.append(Fake(int(a), int(b_), int(c), int(d), new))
    with quiet():
        rw.apply_changes()
    with open(path, encoding='utf-8', newline='') as f:
        return f.read()


# ------------------------------------------------------------------ meson rewrite, in-process
def run_rewrite(srcdir, argv):
    """mesonmain.run(['rewrite', ...]) — the command line entry point without a new process.
    Returns (rc, stdout, error class or '')."""
    from mesonbuild import mesonmain
    out, err = io.StringIO(), io.StringIO()
    exc = ''
    try:
        with contextlib.redirect_stdout(out), contextlib.redirect_stderr(err):
            rc = mesonmain.run(['rewrite', '--sourcedir', srcdir] + argv, os.path.join(os.environ.get('VERIF_REPO_DIR', '/repo'), 'meson.py'))
    except SystemExit as e:
        rc = e.code if isinstance(e.code, int) else 1
    except BaseException as e:
        rc, exc = 99, type(e).__name__ + ': ' + str(e)[:200]
    finally:
        mlog.set_verbose()
    return rc, out.getvalue(), exc or err.getvalue()[-1500:]


def read_tree(d):
    r = {}
    for root, _, files in os.walk(d):
        for fn in files:
            if fn == 'meson.build':
                p = os.path.join(root, fn)
                with open(p, encoding='utf-8', newline='') as f:
                    r[os.path.relpath(p, d)] = f.read()
    return r


def do_relto(d):
    """For every target: the data-flow paths from each node its sources come from, and what
    Rewriter.get_relto answers (directories relative to the source root)."""
    from mesonbuild.rewriter import Rewriter
    from mesonbuild.mparser import FunctionNode
    from mesonbuild.interpreterbase import UnknownValue
    out = []
    try:
        with quiet(), contextlib.redirect_stderr(io.StringIO()):
            rw = Rewriter(d)
            rw.analyze_meson()
            root = os.path.abspath(os.path.join(os.getcwd(), rw.interpreter.source_root))
            for tgt in rw.interpreter.targets:
                nodes = rw.interpreter.dataflow_dag.reachable(set(tgt.source_nodes), True) | {tgt.node}
                for nd in nodes:
                    if isinstance(nd, UnknownValue):
                        continue
                    paths = rw.interpreter.dataflow_dag.find_all_paths(nd, tgt.node)
                    if not paths:
                        continue
                    enc = []
                    for p in paths:
                        enc.append('\x02'.join(('F' + os.path.relpath(os.path.dirname(os.path.abspath(x.filename)), root)) if isinstance(x, FunctionNode) else 'N'
                                                for x in p))
                    r = rw.get_relto(tgt.node, nd)
                    out.append([enc, 'TN' if r is None else 'TS' + os.path.relpath(str(r), root)])
    except BaseException as e:
        return [['EXC', type(e).__name__]]
    finally:
        mlog.set_verbose()
    return out


def do_project(case, scratch):
    """case: {'files': {relpath: text}, 'steps': [[argv...], ...]}.  Runs every step and
    returns after each step: rc, the build files, stdout (info JSON)."""
    d = os.path.join(scratch, 'proj')
    shutil.rmtree(d, ignore_errors=True)
    for rel, text in case['files'].items():
        p = os.path.join(d, rel)
        os.makedirs(os.path.dirname(p), exist_ok=True)
        with open(p, 'w', encoding='utf-8', newline='') as f:
            f.write(text)
    relto = do_relto(d) if case.get('relto') else None
    steps = []
    for argv in case['steps']:
        rc, out, err = run_rewrite(d, list(argv))
        info = None
        if out.strip():
            try:
                info = json.loads(out)
            except Exception:
                info = {'unparsable': out[:200]}
        steps.append({'rc': rc, 'files': read_tree(d), 'info': info, 'err': err if rc else ''})
    if relto is not None and steps:
        steps[0]['relto'] = relto
    return steps


def main():
    req = json.load(sys.stdin)
    scratch = req.get('scratch') or '/var/tmp'
    out = {}
    if 'cases' in req:
        rs = []
        for fn, args in req['cases']:
            try:
                if fn == 'stmts':
                    r = do_stmts(args[0])
                elif fn == 'print':
                    r = do_print(args[0])
                elif fn == 'ptoks':
                    r = do_ptoks(args[0])
                elif fn == 'check':
                    r = do_check(args[0])
                elif fn == 'prec':
                    r = do_prec(args[0])
                elif fn == 'decode':
                    r = do_decode(args[0])
                elif fn == 'escape':
                    r = AstPrinter().escape(args[0])
                elif fn == 'escrt':
                    r = do_escrt(args[0])
                elif fn == 'numval':
                    r = do_numval(args[0])
                elif fn == 'reformat':
                    r = do_reformat(args[0], args[1], scratch)
                elif fn == 'splice':
                    r = do_splice(args[0], args[1:], scratch)
                elif fn == 'rm_assign':
                    r = do_rm_assign(args[0], args[1], scratch)
                else:
                    r = '?'
            except RecursionError:
                r = 'EXC:RecursionError'
            except Exception as e:
                r = 'EXC:' + type(e).__name__
            rs.append(r)
        out['results'] = rs
    if 'projects' in req:
        out['projects'] = [do_project(c, scratch) for c in req['projects']]
    json.dump(out, sys.stdout)


main()
