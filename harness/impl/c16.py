"""In-process adapter for C16: mesonbuild.mformat (Formatter, TrimWhitespaces), mparser,
utils.universal.pathname_sort_key, InterpreterBase.evaluate_fstring.
Renders erased trees exactly like coq/Syntax/Same.v `render`, and runs the formatter on
(code, configuration) pairs: output, second pass, number of rounds of Formatter.format's loop."""
import sys, json, os, io, contextlib
os.environ.pop('MESON_RUNNING_IN_PROJECT_TESTS', None)
from pathlib import Path
from mesonbuild import mparser as mp, mformat
from mesonbuild.mesonlib import MesonException, pathname_sort_key

sys.setrecursionlimit(1000)

# count the rounds of Formatter.format (one ComputeLineLengths per round); no source hook
_CLL = mformat.ComputeLineLengths


class _CountingCLL(_CLL):
    made = 0

    def __init__(self, *a, **k):
        _CountingCLL.made += 1
        super().__init__(*a, **k)


mformat.ComputeLineLengths = _CountingCLL


def quiet():
    return contextlib.redirect_stdout(io.StringIO())


def T(s):
    return '%d:%s' % (len(s), s)


def B(b):
    return 'T' if b else 'F'


def r_args(a, flags):
    out = [r_node(x, flags) for x in a.arguments]
    out += ['K[' + r_node(k, flags) + ';' + r_node(v, flags) + ';]' for k, v in a.kwargs.items()]
    return out


def r_lines(b, flags):
    return 'B[' + ''.join(r_node(x, flags) + ';' for x in b.lines if type(x).__name__ != 'EmptyNode') + ']'


def N(tag, kids):
    return tag + '[' + ''.join(k + ';' for k in kids) + ']'


def r_node(n, flags=True):
    t = type(n).__name__
    r = lambda x: r_node(x, flags)
    if t == 'EmptyNode':
        return 'E'
    if t == 'BooleanNode':
        return 't4:true' if n.value else 'f5:false'
    if t == 'IdNode':
        return 'i' + T(n.value)
    if t == 'NumberNode':
        return 'n' + T(n.raw_value)
    if t == 'StringNode':
        return 'S' + B(n.is_fstring) + B(n.is_multiline) + T(n.raw_value)
    if t == 'ContinueNode':
        return 'c0:'
    if t == 'BreakNode':
        return 'b0:'
    if t == 'ParenthesizedNode':
        return N('P', [r(n.inner)])
    if t == 'ArrayNode':
        c = flags and bool(n.lbracket.whitespaces and n.lbracket.whitespaces.value.strip())
        return N('Ac' if c else 'A', r_args(n.args, flags))
    if t == 'DictNode':
        return N('D', r_args(n.args, flags))
    if t == 'FunctionNode':
        return N('F' + T(n.func_name.value), r_args(n.args, flags))
    if t == 'MethodNode':
        return N('M' + T(n.name.value), [r(n.source_object)] + r_args(n.args, flags))
    if t == 'IndexNode':
        return N('X', [r(n.iobject), r(n.index)])
    if t == 'NotNode':
        return N('Not', [r(n.value)])
    if t == 'UMinusNode':
        return N('Neg', [r(n.value)])
    if t == 'ArithmeticNode':
        return N('Ar' + T(n.operator.value), [r(n.left), r(n.right)])
    if t == 'ComparisonNode':
        return N('Cmp' + T(n.ctype), [r(n.left), r(n.right)])
    if t == 'AndNode':
        return N('And', [r(n.left), r(n.right)])
    if t == 'OrNode':
        return N('Or', [r(n.left), r(n.right)])
    if t == 'TernaryNode':
        return N('T', [r(n.condition), r(n.trueblock), r(n.falseblock)])
    if t == 'AssignmentNode':
        return N('As' + T(n.var_name.value), [r(n.value)])
    if t == 'PlusAssignmentNode':
        return N('PAs' + T(n.var_name.value), [r(n.value)])
    if t == 'IfClauseNode':
        kids = [N('Cl', [r(i.condition), r_lines(i.block, flags)]) for i in n.ifs]
        if type(n.elseblock).__name__ == 'ElseNode':
            kids.append(N('El', [r_lines(n.elseblock.block, flags)]))
        return N('If', kids)
    if t == 'ForeachClauseNode':
        vs = [v.value for v in n.varnames]
        return N('Fe' + T(vs[0]) + (T(vs[1]) if len(vs) > 1 else '-'), [r(n.items), r_lines(n.block, flags)])
    if t == 'CodeBlockNode':
        return r_lines(n, flags)
    return '?' + t


def do_strict(code, flags=True):
    try:
        with quiet():
            b = mp.Parser(code, 'f').parse()
        return 'OK:' + r_lines(b, flags)
    except mp.ParseException:
        return 'ERR'
    except MesonException as e:
        return 'MESONERR:' + type(e).__name__
    except RecursionError:
        return 'EXC:RecursionError'
    except Exception as e:
        return 'EXC:' + type(e).__name__


def mk_string(f, m, body):
    tid = ('multiline_' if m else '') + ('fstring' if f else 'string')
    return mp.StringNode(mp.Token(tid, 'f', 0, 1, 0, (0, 0), body))


def mk_config(opts):
    c = mformat.FormatterConfig.default()
    for k, v in opts.items():
        if not hasattr(c, k):
            raise KeyError(k)
        setattr(c, k, v)
    return c


def do_decode(raw):
    try:
        return mk_string(False, False, raw).value
    except Exception as e:
        return 'EXC:' + type(e).__name__


def do_simplify(fl, body):
    try:
        n = mk_string(fl[2] == 'T', fl[3] == 'T', body)
        tw = mformat.TrimWhitespaces(mk_config({'simplify_string_literals': fl[0] == 'T', 'sort_files': fl[1] == 'T'}))
        n.accept(tw)
        return B(n.is_fstring) + B(n.is_multiline)
    except Exception as e:
        return 'EXC:' + type(e).__name__


def do_lexes(fl, body):
    f = fl[0] == 'T'
    txt = ('f' if f else '') + "'" + body + "'"
    try:
        with quiet():
            ts = list(mp.Lexer(txt).lex('f'))
    except mp.ParseException:
        return 'F'
    except Exception as e:
        return 'EXC:' + type(e).__name__
    return B(len(ts) == 1 and ts[0].tid == ('fstring' if f else 'string') and ts[0].value == body)


def do_keycmp(a, b):
    try:
        ka, kb = pathname_sort_key(a), pathname_sort_key(b)
        return '<' if ka < kb else '>' if kb < ka else '='
    except Exception as e:
        return 'EXC:' + type(e).__name__


class _Interp:
    """the attributes InterpreterBase.evaluate_fstring touches"""
    subproject = ''
    current_node = None

    def __init__(self, env):
        from mesonbuild.interpreterbase import ObjectHolder
        self.variables = {}
        for k, v in env.items():
            h = ObjectHolder.__new__(ObjectHolder)
            h.held_object = v
            self.variables[k] = h

    def _holderify(self, res):
        return res


def do_fsubst(value, envl):
    from mesonbuild.interpreterbase import InterpreterBase, InvalidCode
    env = {}
    for i in range(0, len(envl) - 1, 2):
        env.setdefault(envl[i], envl[i + 1])
    n = mk_string(True, True, value)      # multiline: value is taken verbatim
    try:
        with quiet():
            return 'OK:' + InterpreterBase.evaluate_fstring(_Interp(env), n)
    except InvalidCode:
        return 'ERR'
    except Exception as e:
        return 'EXC:' + type(e).__name__


def fmt_once(code, opts):
    f = mformat.Formatter(None, False, False)
    for k, v in opts.items():
        if not hasattr(f.config, k):
            raise KeyError(k)
        setattr(f.config, k, v)
    _CountingCLL.made = 0
    with quiet():
        out = f.format(code, Path('meson.build'))
    return out, _CountingCLL.made


def do_format(code, opts):
    """{'out','rounds','out2'} or {'exc'}: the formatter on a parseable file, and on its own output"""
    res = {}
    try:
        with quiet():
            mp.Parser(code, 'f').parse()
    except MesonException:
        return {'unparseable': True}
    except RecursionError:
        return {'unparseable': True, 'recursion': True}
    try:
        out, rounds = fmt_once(code, opts)
    except RecursionError:
        return {'exc': 'RecursionError'}
    except Exception as e:
        return {'exc': type(e).__name__ + ': ' + str(e)[:200]}
    res['out'], res['rounds'] = out, rounds
    res['order_error'] = order_error(code)
    res['strict_out'] = do_strict(out, flags=False)
    try:
        res['out2'] = fmt_once(out, opts)[0]
    except RecursionError:
        res['exc2'] = 'RecursionError'
    except Exception as e:
        res['exc2'] = type(e).__name__ + ': ' + str(e)[:200]
    return res


def do_ablate(code):
    """variants of a file without one kind of trivia (used only to name the cause of a
    recorded layout finding): no backslash continuations / no comments / no line breaks
    inside brackets"""
    try:
        with quiet():
            ts = list(mp.Lexer(code).lex('f'))
    except Exception:
        return {}
    def build(repl):
        out, depth = [], 0
        for t in ts:
            txt = code[t.bytespan[0]:t.bytespan[1]]
            if t.tid in ('lparen', 'lbracket', 'lcurl'):
                depth += 1
            elif t.tid in ('rparen', 'rbracket', 'rcurl'):
                depth -= 1
            out.append(repl(t, txt, depth))
        return ''.join(out)
    is_cont = lambda t, txt: t.tid == 'whitespace' and txt.startswith('\\')
    nocont = build(lambda t, txt, d: ' ' if is_cont(t, txt) else txt)
    def nc(t, txt, d):
        if t.tid == 'comment':
            return ''
        if is_cont(t, txt) and '#' in txt:
            return '\\\n'
        return txt
    nocomment = build(nc)
    def fl(t, txt, d):
        if t.tid == 'comment':
            return ''
        if is_cont(t, txt):
            return ' '
        if t.tid == 'whitespace' and d > 0 and '\n' in txt:
            return ' '
        return txt
    flat = build(fl)
    return {'nocont': nocont, 'nocomment': nocomment, 'flat': flat}


def order_error(code):
    from mesonbuild.ast.visitor import AstVisitor

    class V(AstVisitor):
        bad = False

        def visit_ArgumentNode(self, n):
            if n.order_error:
                V.bad = True
            super().visit_ArgumentNode(n)
    try:
        with quiet():
            b = mp.Parser(code, 'f').parse()
        V.bad = False
        b.accept(V())
        return V.bad
    except Exception:
        return False


def do_commas(code, opts):
    """ArgumentFormatter's comma handling, observed per ArgumentNode: the state after TrimWhitespaces
    (number of arguments and commas, is_multiline, call or literal, trivia on the last comma) and the
    number of commas after ArgumentFormatter.visit_ArgumentNode"""
    from mesonbuild.ast.visitor import AstVisitor
    from mesonbuild.ast.postprocess import AstConditionLevel

    class V(AstVisitor):
        def __init__(self):
            self.found = []

        def visit_FunctionNode(self, n):
            self.found.append((n.args, True)); super().visit_FunctionNode(n)

        def visit_MethodNode(self, n):
            self.found.append((n.args, True)); super().visit_MethodNode(n)

        def visit_ArrayNode(self, n):
            self.found.append((n.args, False)); super().visit_ArrayNode(n)

        def visit_DictNode(self, n):
            self.found.append((n.args, False)); super().visit_DictNode(n)
    try:
        cfg = mk_config(opts)
        with quiet():
            ast = mp.Parser(code, 'f').parse()
            ast.accept(AstConditionLevel())
            ast.accept(mformat.TrimWhitespaces(cfg))
            v = V()
            ast.accept(v)
            pre = [(len(a.arguments) + len(a.kwargs), len(a.commas), bool(a.is_multiline), fn,
                    bool(a.commas and a.commas[-1].whitespaces and a.commas[-1].whitespaces.value)) for a, fn in v.found]
            ast.accept(mformat.ArgumentFormatter(cfg))
        return [list(p) + [len(a.commas)] for p, (a, fn) in zip(pre, v.found)]
    except RecursionError:
        return []
    except MesonException:
        return []
    except Exception as e:
        return [['EXC:' + type(e).__name__]]


def main():
    req = json.load(sys.stdin)
    out = {}
    if 'cases' in req:
        rs = []
        for fn, args in req['cases']:
            if fn == 'strict':
                rs.append(do_strict(args[0]))
            elif fn == 'decode':
                rs.append(do_decode(args[0]))
            elif fn == 'simplify':
                rs.append(do_simplify(args[0], args[1]))
            elif fn == 'lexes':
                rs.append(do_lexes(args[0], args[1]))
            elif fn == 'keycmp':
                rs.append(do_keycmp(args[0], args[1]))
            elif fn == 'fsubst':
                rs.append(do_fsubst(args[0], args[1:]))
            else:
                rs.append('?')
        out['results'] = rs
    if 'format' in req:
        out['format'] = [do_format(code, opts) for code, opts in req['format']]
    if 'commas' in req:
        out['commas'] = [do_commas(code, opts) for code, opts in req['commas']]
    if 'ablate' in req:
        out['ablate'] = [do_ablate(code) for code in req['ablate']]
    if 'order_error' in req:
        out['order_error'] = [order_error(code) for code in req['order_error']]
    json.dump(out, sys.stdout)


if __name__ == '__main__':
    main()
