"""Adapter for C08 (runs under /venv/bin/python with PYTHONPATH=<repo>).

A line server: every input line is a JSON request, every output line a JSON answer.

  {"op":"dump","bd":DIR,"watch":[names]}   -> the PERSISTED option state of a build directory,
        read the way the next meson process will read it:
          coredata   : meson-private/coredata.dat through mesonbuild.coredata.load
                       (raw value, effective value = OptionStore.get_value_for, yielding,
                        kind / choices of every watched option; the augments)
          cmd_line   : the [options] section of meson-private/cmd_line.txt, in file order,
                       through mesonbuild.cmdline.CmdLineFileParser
          intro      : meson-info/intro-buildoptions.json (what `meson introspect
                       --buildoptions` prints), watched names only
  {"op":"oracle","hist":...,"obs":[...]}   -> the property's clauses evaluated on the
        observations alone (no model): see oracle() below.

Values are rendered canonically:  S<text> | T | F | I<int> | L<a,b,..>  (lists joined by \\x04).
Only values, kinds, choices and presence are reported - never messages or paths."""
import sys, json, os, io

_real_stdout = sys.stdout
sys.stdout = io.StringIO()

from mesonbuild import coredata as CD
from mesonbuild import cmdline as CL
from mesonbuild import options as O
from mesonbuild.options import OptionKey

S4 = '\x05'


def enc_value(v):
    if isinstance(v, bool):
        return 'T' if v else 'F'
    if isinstance(v, str):
        return 'S' + v
    if isinstance(v, int):
        return 'I' + str(int(v))
    if isinstance(v, list):
        return 'L' + S4.join(str(x) for x in v)
    if v is None:
        return 'N'
    return '?' + type(v).__name__


def kind_of(o):
    t = type(o)
    if t is O.UserStringOption:
        return 'string', None
    if t is O.UserBooleanOption:
        return 'boolean', None
    if t is O.UserIntegerOption:
        return 'integer', [o.min_value, o.max_value]
    if t is O.UserComboOption:
        return 'combo', list(o.choices)
    if t is O.UserStringArrayOption:
        return 'array', (list(o.choices) if o.choices else None)
    if t is O.UserFeatureOption:
        return 'feature', None
    return t.__name__, None


def keystr(k):
    # project options of the top-level project are printed without the leading ':'
    if k.subproject == '':
        return k.name
    return str(k)


def dump(bd, watch):
    out = {'coredata': None, 'cmd_line': None, 'intro': None}
    cdf = os.path.join(bd, 'meson-private', 'coredata.dat')
    if os.path.exists(cdf):
        try:
            cd = CD.load(bd)
            st = cd.optstore
            opts = {}
            for k, o in st.options.items():
                if k.name not in watch:
                    continue
                kind, choices = kind_of(o)
                try:
                    eff = enc_value(st.get_value_for(k))
                except Exception as e:   # noqa
                    eff = 'EXC:' + type(e).__name__
                opts[str(k)] = {'raw': enc_value(o.value), 'eff': eff, 'yielding': bool(o.yielding),
                                   'kind': kind, 'choices': choices,
                                   'project': bool(st.is_project_option(k))}
            aug = {str(k): enc_value(v) for k, v in st.augments.items() if k.name in watch}
            # effective value of every watched global option as seen from each known subproject
            subs = sorted(s for s in st.subprojects if s)
            persub = {}
            for k, o in st.options.items():
                if k.name in watch and k.subproject is None:
                    for s in subs:
                        try:
                            persub['%s:%s' % (s, k.name)] = enc_value(st.get_value_for(k.evolve(subproject=s)))
                        except Exception as e:   # noqa
                            persub['%s:%s' % (s, k.name)] = 'EXC:' + type(e).__name__
            out['coredata'] = {'options': opts, 'augments': aug, 'persub': persub, 'subprojects': subs}
        except Exception as e:   # noqa
            out['coredata'] = {'error': type(e).__name__}
    clf = CL.get_cmd_line_file(bd)
    if os.path.isfile(clf):
        try:
            cfg = CL.CmdLineFileParser()
            cfg.read(clf)
            out['cmd_line'] = [[k, v] for k, v in cfg['options'].items()]
        except Exception as e:   # noqa
            out['cmd_line'] = {'error': type(e).__name__}
    inf = os.path.join(bd, 'meson-info', 'intro-buildoptions.json')
    if os.path.isfile(inf):
        try:
            data = json.load(open(inf, encoding='utf-8'))
            out['intro'] = {o['name']: {'value': enc_value(o['value']), 'type': o['type'],
                                        'choices': o.get('choices')}
                            for o in data if o['name'].split(':')[-1] in watch}
        except Exception as e:   # noqa
            out['intro'] = {'error': type(e).__name__}
    return out



# ====================================================================== the oracle
# The property's clauses evaluated on the observations of ONE history (no model).
# obs[i] is the canonical observation after step i (see check_C08.canon_impl):
#   rc 'D'/'X'; cd None | {opts: {key: [kind, raw, yielding, eff]}, aug: {key: value},
#   persub: {sub:name: eff}}; cl None | [[key, value]..]; intro None | {name: [type, choices, value]}
S5 = '\x05'
FEAT = ['enabled', 'disabled', 'auto']
BUILTIN_KINDS = {'werror': 'b', 'warning_level': 'c' + ''.join(S5 + c for c in ['0', '1', '2', '3', 'everything'])}
BUILTIN_DEFAULT = {'werror': 'F', 'warning_level': 'S1'}


def decl_kind(d):
    c = d['cls']
    if c == 'i':
        return 'i' + S5 + ('' if d['min'] is None else str(d['min'])) + S5 + ('' if d['max'] is None else str(d['max']))
    if c in 'ca':
        return c + ''.join(S5 + x for x in d['choices'])
    return c


def decl_default(d):
    return enc_value(d['default'])


def py_int(v):
    try:
        return int(v)
    except ValueError:
        return None


def typed(kind, v):
    """the value a -D string denotes for an option of this kind, or None if it is invalid"""
    t = kind[0]
    params = kind.split(S5)[1:]
    if t == 's':
        return 'S' + v
    if t == 'b':
        return {'true': 'T', 'false': 'F'}.get(v.lower())
    if t == 'i':
        n = py_int(v)
        if n is None:
            return None
        if params[0] != '' and n < int(params[0]):
            return None
        if params[1] != '' and n > int(params[1]):
            return None
        return 'I%d' % n
    if t == 'c':
        return 'S' + v if v in params else None
    if t == 'f':
        return 'S' + v if v in FEAT else None
    if t == 'a':
        if v.startswith('['):
            return 'SKIP'
        l = [x.strip() for x in v.split(',')] if v else []
        if params and any(x not in params for x in l):
            return None
        return 'L' + S5.join(l)
    return None


def satisfies(kind, val):
    """does a stored canonical value satisfy a kind?"""
    t = kind[0]
    params = kind.split(S5)[1:]
    if t == 's':
        return val.startswith('S')
    if t == 'b':
        return val in ('T', 'F')
    if t == 'i':
        if not val.startswith('I'):
            return False
        n = int(val[1:])
        return not ((params[0] != '' and n < int(params[0])) or (params[1] != '' and n > int(params[1])))
    if t == 'c':
        return val.startswith('S') and val[1:] in params
    if t == 'f':
        return val.startswith('S') and val[1:] in FEAT
    if t == 'a':
        if not val.startswith('L'):
            return False
        l = val[1:].split(S5) if val[1:] else []
        return not (params and any(x not in params for x in l))
    return False


def declared(files):
    d = {}
    for x in files['top']:
        d[':' + x['name']] = x
    for x in files['sub']:
        d['sub:' + x['name']] = x
    return d


def resolve_in_cd(k, cd):
    """store key a command-line key writes to: (key, where) with where in opts/aug, or None"""
    opts = cd['opts']
    if ':' not in k:
        if k in opts:
            return (k, 'opts')
        if ':' + k in opts:
            return (':' + k, 'opts')
        return None
    if k in opts:
        return (k, 'opts')
    n = k.split(':', 1)[1]
    if k.startswith('sub:') and n in opts:
        return (k, 'aug')
    return None


def resolve_in_files(k, decls):
    """(key, kind) a command-line key denotes for the declared options + builtins, or None"""
    if ':' not in k:
        if k in BUILTIN_KINDS:
            return (k, BUILTIN_KINDS[k])
        if ':' + k in decls:
            return (':' + k, decl_kind(decls[':' + k]))
        return None
    if k in decls:
        return (k, decl_kind(decls[k]))
    n = k.split(':', 1)[1]
    if k.startswith('sub:') and n in BUILTIN_KINDS:
        return (k, BUILTIN_KINDS[n])
    return None


def eff_of(cd, key):
    if key in cd['opts']:
        return cd['opts'][key][3]
    return cd['persub'].get(key)


def kind_of_key(cd, key):
    if key in cd['opts']:
        return cd['opts'][key][0]
    n = key.split(':', 1)[1] if ':' in key else key
    return cd['opts'][n][0] if n in cd['opts'] else None


def dict_update(base, items):
    d = [list(x) for x in base]
    for k, v in items:
        for e in d:
            if e[0] == k:
                e[1] = v
                break
        else:
            d.append([k, v])
    return d


def cl_update(base, args):
    d = [list(x) for x in base]
    for a in args:
        k = a[0]
        if a[1] == 'D':
            for e in d:
                if e[0] == k:
                    e[1] = a[2]
                    break
            else:
                d.append([k, a[2]])
        else:
            d = [e for e in d if e[0] != k]
    return d


def merge_args(args):
    """argparse: -D / -U of one key share a dict slot; the last one wins, first position stays"""
    d = []
    for a in args:
        for e in d:
            if e[0] == a[0]:
                e[1:] = a[1:]
                break
        else:
            d.append(list(a))
    return d


def fmt_message(val):
    if val.startswith('S'):
        return val[1:]
    if val in ('T', 'F'):
        return 'true' if val == 'T' else 'false'
    if val.startswith('I'):
        return val[1:]
    if val.startswith('L'):
        l = val[1:].split(S5) if val[1:] else []
        return '[' + ', '.join("'%s'" % x for x in l) + ']'
    return val


def class_change(decls, cd):
    return any(k in cd['opts'] and cd['opts'][k][0][0] != decl_kind(d)[0] for k, d in decls.items())


def oracle(case, obs, messages, flags):
    fails = []

    def fail(step, clause, ident, what):
        fails.append({'step': step, 'clause': clause, 'id': 'C08:' + ident, 'what': what})

    files = case['files']
    cfg = case['cfg']
    P = {'rc': 'D', 'cd': None, 'cl': None, 'intro': None}
    given = {}     # store key -> [value the user gave last, kind of the option at that time]
    has_parent = set()   # subproject options that were seen yielding: they have a parent to return to
    for i, (step, Q) in enumerate(zip(case['steps'], obs)):
        tag = step[0]
        if isinstance(Q.get('cd'), dict) and 'error' in Q['cd']:
            fail(i, 'coredata readable', 'coredata-unreadable:' + tag, 'coredata.dat cannot be loaded: %s' % Q['cd']['error'])
            return fails
        if flags[i]['internal']:
            fail(i, 'no internal error', 'internal-error:' + tag, 'the command died with an unhandled Python exception')
        if tag == 'E':
            files = step[1]
            if (Q['cd'], Q['cl'], Q['intro']) != (P['cd'], P['cl'], P['intro']):
                fail(i, 'edit is external', 'edit-touched-builddir', 'editing the option files changed the build directory')
            P = Q
            continue
        decls = declared(files)
        if tag == 'C':
            args = merge_args(step[1])
        else:
            args = merge_args([[k, 'D', v] for k, v in step[1]])
        conf_like = tag == 'C' or (tag == 'S' and P['cd'] is not None)
        first_like = tag == 'W' or (tag in 'SR' and P['cd'] is None)
        reconf = tag == 'R' and P['cd'] is not None
        noop = tag == 'S' and P['cd'] is not None and not args
        Pcd, Qcd = P['cd'], Q['cd']
        typechange = Pcd is not None and class_change(decls, Pcd)

        # which value of the failure sentinels is in force for this command
        def sentinel(name):
            for a in reversed(args):
                if a[0] == name and a[1] == 'D':
                    return typed('b', a[2])
            if first_like:
                for k, v in reversed(P['cl'] or []):
                    if k == name:
                        return typed('b', v)
                for k, v in reversed(cfg['topdef']):
                    if k == name:
                        return typed('b', v)
                return 'F'
            if Pcd is not None and ':' + name in Pcd['opts']:
                return Pcd['opts'][':' + name][3]
            return 'F'
        late_on = (not conf_like) and sentinel('late') == 'T'
        boom_on = (not conf_like) and sentinel('boom') == 'T'

        # ---------------------------------------------------------------- failures
        if Q['rc'] == 'X':
            changed = [f for f in ('cd', 'cl', 'intro') if Q[f] != P[f]]
            if conf_like or reconf:
                # "a configure or reconfigure that fails leaves every persisted value exactly as it was"
                if changed:
                    if late_on and not boom_on and 'cd' not in changed:
                        fail(i, 'a failing reconfigure leaves every persisted value as it was', 'late-failure-persists-state',
                             'the command failed in a postconf script but %s changed' % ', '.join(changed))
                    else:
                        fail(i, 'a failing configure/reconfigure leaves every persisted value as it was',
                             'failed-command-not-identity:%s:%s' % (tag, '+'.join(changed)),
                             'the command failed but %s changed' % ', '.join(changed))
            else:
                if Qcd is not None:
                    fail(i, 'failed first configuration', 'failed-setup-left-coredata:' + tag, 'the command failed but left a coredata.dat')
                if Q['cl'] != P['cl']:
                    if late_on and not boom_on:
                        fail(i, 'a failing --wipe keeps the recorded command lines', 'late-failure-persists-state',
                             'the command failed in a postconf script but cmd_line.txt changed')
                    else:
                        fail(i, 'a failing --wipe keeps the recorded command lines', 'failed-setup-changed-record:' + tag,
                             'the command failed but cmd_line.txt changed from %r to %r' % (P['cl'], Q['cl']))
            # was there a reason to fail?
            cause = boom_on or late_on or typechange
            if conf_like:
                if Pcd is None:
                    cause = True
                for a in args:
                    r = resolve_in_files(a[0], decls)
                    if a[1] == 'D':
                        if r is None or typed(r[1], a[2]) is None or typed(r[1], a[2]) == 'SKIP':
                            cause = True
                    else:
                        if a[0] in [k for k, _ in (P['cl'] or [])] and r is None:
                            continue      # -U of a recorded key whose option was removed: drops the record
                        if r is None or ':' not in a[0] and a[0] not in BUILTIN_KINDS:
                            cause = True
                        if Pcd is not None and a[0] not in Pcd['aug'] and a[0] not in Pcd['opts'] and r is not None and r[0] not in decls:
                            cause = True      # -U of a builtin override that does not exist
                if not cause:
                    fail(i, 'a valid configure succeeds', 'configure-fails-without-cause', 'meson configure failed although every argument is valid')
            elif reconf:
                for a in args:
                    r = resolve_in_cd(a[0], Pcd)
                    if r is None:
                        cause = True
                    else:
                        t = typed(kind_of_key(Pcd, r[0]), a[2])
                        if t is None or t == 'SKIP':
                            cause = True
                    # an option GIVEN NOW that the edited option files no longer declare is rejected
                    # legitimately ("Unknown options" for this command line), whatever is recorded
                    if resolve_in_files(a[0], decls) is None:
                        cause = True
                if not cause:
                    # every argument of this command is valid before and after the reload: only a
                    # RECORDED option that was removed can be what makes the command fail
                    stale = [k for k, v in (P['cl'] or []) if resolve_in_files(k, decls) is None]
                    if stale:
                        fail(i, 'a removed option vanishes', 'reconfigure-fails:recorded-option-removed',
                             'setup --reconfigure fails because cmd_line.txt still records %s, whose option was removed from the option file' % ', '.join(stale))
                    else:
                        fail(i, 'a valid reconfigure succeeds', 'reconfigure-fails-without-cause', 'setup --reconfigure failed although nothing it was asked is invalid')
            else:
                udo = dict_update(P['cl'] or [], [[a[0], a[2]] for a in args])
                for k, v in udo:
                    r = resolve_in_files(k, decls)
                    if r is None or typed(r[1], v) in (None, 'SKIP'):
                        cause = True
                for where, pre in (('topdef', ''), ('subdef', 'sub:'), ('calldef', 'sub:')):
                    for k, v in cfg[where]:
                        r = resolve_in_files(k if ':' in k else (pre + k if pre else k), decls)
                        if r is None or typed(r[1], v) in (None, 'SKIP'):
                            cause = True
                if not cause:
                    fail(i, 'a valid first configuration succeeds', 'setup-fails-without-cause:' + tag, 'the command failed although every recorded and given option is valid')
            P = Q
            continue

        # ---------------------------------------------------------------- successes
        if Qcd is None:
            fail(i, 'success leaves a configuration', 'success-without-coredata:' + tag, 'exit status 0 but no coredata.dat')
            P = Q
            continue
        if noop:
            if (Q['cd'], Q['cl'], Q['intro']) != (P['cd'], P['cl'], P['intro']):
                fail(i, 'setup of a configured directory without options changes nothing', 'noop-setup-changed-state', 'state changed')
            P = Q
            continue
        # recorded command lines
        if first_like:
            want_cl = dict_update(P['cl'] or [], [[a[0], a[2]] for a in args])
            clause = '--wipe / first setup records the recorded command lines plus the given ones'
        else:
            want_cl = cl_update(P['cl'] or [], args)
            clause = 'the command line is recorded (-D sets, -U deletes)'
        if Q['cl'] != want_cl:
            if Q['cl'] == [[k, v.strip()] for k, v in want_cl]:
                fail(i, clause, 'record-strips-blanks',
                     'cmd_line.txt records %r for the given %r: blanks at the ends of a value are lost' % (Q['cl'], want_cl))
            else:
                fail(i, clause, 'record-mismatch:' + ('first' if first_like else tag),
                     'cmd_line.txt is %r, expected %r' % (Q['cl'], want_cl))
        saved = first_like or reconf or Qcd != Pcd
        # a removed option vanishes, a new one exists
        projkeys = {k for k in Qcd['opts'] if ':' in k}
        if first_like or reconf:
            if projkeys != set(decls):
                fail(i, 'a new option appears, a removed one vanishes', 'option-set-mismatch:' + tag,
                     'project options %s, declared %s' % (sorted(projkeys), sorted(decls)))
        elif projkeys != set(decls) and projkeys != {k for k in Pcd['opts'] if ':' in k}:
            fail(i, 'a new option appears, a removed one vanishes', 'option-set-mismatch:' + tag,
                 'project options %s, declared %s' % (sorted(projkeys), sorted(decls)))
        # the edited declaration is in force: after a command that loaded the option files and
        # saved, an option of unchanged type has the declared choices / range, and its stored value
        # satisfies them ("a changed choice list keeps the old value when still valid and otherwise
        # falls back to the new default")
        if saved:
            for key, d in decls.items():
                if key not in Qcd['opts']:
                    continue
                o = Qcd['opts'][key]
                dk = decl_kind(d)
                if o[0][0] != dk[0]:
                    continue             # type change: not judged
                if o[0] != dk:
                    was = Pcd['opts'][key][1] if (Pcd is not None and key in Pcd['opts']) else None
                    want = None if was is None else (was if satisfies(dk, was) else decl_default(d))
                    fail(i, 'a changed choice list / range is in force: the old value is kept when still valid, otherwise the new default',
                         'declaration-not-in-force:' + key,
                         'the option file declares %s with %r, but the saved option still has %r (value %r%s)'
                         % (key, dk, o[0], o[1], '' if want is None or want == o[1] else ', expected %r' % want))
                elif not satisfies(dk, o[1]):
                    fail(i, 'stored values are valid for the declared choices / range', 'stored-value-invalid:' + key,
                         '%s holds %r, which the declaration %r does not accept' % (key, o[1], dk))
        # the assignments of this command (for a first configuration: of the whole record)
        assigns = [[a[0], a[2]] for a in args if a[1] == 'D']
        if first_like:
            assigns = [list(x) for x in want_cl]
        touched = set()
        if first_like:
            given = {}
        # `meson configure` reloads an edited option file in memory but saves only when an option
        # value changed afterwards: if nothing was saved while an edit is pending, the persisted
        # state is still the one from before the reload and the assignments cannot be judged on it
        # (pending/C08-observations.md)
        edit_pending = Pcd is not None and (
            {k for k in Pcd['opts'] if ':' in k} != set(decls)
            or any(Pcd['opts'][k][0] != decl_kind(d) for k, d in decls.items() if k in Pcd['opts']))
        if conf_like and Qcd == Pcd and edit_pending:
            for k, v in assigns:
                r = resolve_in_cd(k, Qcd)
                if r is not None:
                    touched.add(r[0])
                    given.pop(r[0], None)
            assigns = []
        for k, v in assigns:
            r = resolve_in_cd(k, Qcd)
            if r is None:
                if resolve_in_files(k, decls) is None and not first_like and not reconf and projkeys != set(decls):
                    continue
                fail(i, 'the last value the user gave', 'set-unknown-accepted:' + k, '-D%s=%s was accepted but no such option exists' % (k, v))
                continue
            key = r[0]
            touched.add(key)
            kq = kind_of_key(Qcd, key)
            if reconf and Pcd is not None and kind_of_key(Pcd, key) != kq:
                continue                 # the option file changed its choices in the same run
            if key in decls and decl_kind(decls[key])[0] != kq[0]:
                given.pop(key, None)
                continue                 # type change of the option: not judged (pending/C08-observations.md)
            t = typed(kq, v)
            if t == 'SKIP':
                continue
            if t is None:
                fail(i, 'values are valid', 'invalid-value-accepted:' + k, '-D%s=%s accepted by an option of kind %r' % (k, v, kq))
            elif eff_of(Qcd, key) != t:
                fail(i, 'the last value the user gave', 'set-not-effective:' + k,
                     'after -D%s=%s the option reads %r' % (k, v, eff_of(Qcd, key)))
            if t is not None:
                given[key] = [t, kq]
        # -U : dropping an override returns the subproject to the inherited value
        for a in args:
            if a[1] != 'U':
                continue
            k = a[0]
            touched.add(k)
            given.pop(k, None)
            if k in Qcd['aug']:
                fail(i, 'dropping an override', 'override-not-dropped:' + k, '-U%s left the override in place' % k)
            if k in Qcd['opts'] and ':' in k:
                o = Qcd['opts'][k]
                root = ':' + k.split(':', 1)[1]
                if k in has_parent and root in Qcd['opts'] and o[2] != 'T':
                    fail(i, 'dropping an override returns the subproject to the inherited value', 'drop-override-not-inherited:' + k,
                         '-U%s: the option has a parent (it yielded before) but does not yield now; it reads %r, the top-level option reads %r'
                         % (k, o[3], Qcd['opts'][root][3]))
                if o[2] == 'T':
                    if root not in Qcd['opts'] or o[3] != Qcd['opts'][root][3]:
                        fail(i, 'dropping an override returns the subproject to the inherited value', 'yielding-not-inherited:' + k,
                             'after -U%s the option reads %r, the top-level option reads %r' % (k, o[3], Qcd['opts'].get(root, [None] * 4)[3]))
                elif o[3] != o[1]:
                    fail(i, 'dropping an override', 'unyielding-value-mismatch:' + k, 'effective %r, stored %r' % (o[3], o[1]))
            elif k in Qcd['persub']:
                n = k.split(':', 1)[1]
                if Qcd['persub'][k] != Qcd['opts'][n][3]:
                    fail(i, 'dropping an override returns the subproject to the inherited value', 'override-not-inherited:' + k,
                         'after -U%s the subproject reads %r, the global value is %r' % (k, Qcd['persub'][k], Qcd['opts'][n][3]))
        if not first_like and Pcd is not None:
            # every other option keeps the value it has / edits of the option file
            for key in sorted(set(Qcd['opts']) | set(Pcd['opts'])):
                inP, inQ = key in Pcd['opts'], key in Qcd['opts']
                n = key.split(':', 1)[1] if ':' in key else key
                root = ':' + n
                if inQ and not inP:
                    if key in touched or key not in decls:
                        continue
                    o = Qcd['opts'][key]
                    if o[1] != decl_default(decls[key]):
                        fail(i, 'a new option gets its default', 'new-option-not-default:' + key,
                             'new option %s has value %r, its default is %r' % (key, o[1], decl_default(decls[key])))
                    continue
                if not inQ or not inP:
                    continue
                p, qq = Pcd['opts'][key], Qcd['opts'][key]
                if key in touched:
                    continue
                parent_touched = key.startswith('sub:') and (root in touched or (root in Pcd['opts']) != (root in Qcd['opts'])
                                                             or (root in Pcd['opts'] and Pcd['opts'][root] != Qcd['opts'].get(root)))
                if p[0][0] != qq[0][0] or (key in decls and decl_kind(decls[key])[0] != p[0][0]):
                    continue             # type change: not judged
                if p[0] != qq[0]:
                    # a changed choice list keeps the old value when still valid, else the new default
                    want = p[1] if satisfies(qq[0], p[1]) else (decl_default(decls[key]) if key in decls else None)
                    if want is not None and qq[1] != want:
                        fail(i, 'a changed choice list keeps the old value when still valid and otherwise falls back to the new default',
                             'choices-change:' + key, 'old value %r, new kind %r, new value %r, expected %r' % (p[1], qq[0], qq[1], want))
                    elif want == p[1] and not parent_touched and key not in Pcd['aug'] and (qq[3] != p[3] or qq[2] != p[2]):
                        # the value is still valid: what get_option() returns must not change either
                        fail(i, 'a changed choice list keeps the old value when still valid (effective value, as get_option returns it)',
                             'choices-change-effective:' + key,
                             'the choices of %s changed, its value %r is still valid, but it now reads %r (before %r; yielding %s -> %s)'
                             % (key, p[1], qq[3], p[3], p[2], qq[2]))
                    continue
                if qq[1] != p[1]:
                    fail(i, 'every option keeps the value it has', 'value-changed:' + key,
                         'stored value changed from %r to %r although the command does not name it' % (p[1], qq[1]))
                elif not parent_touched and (qq[3] != p[3] or qq[2] != p[2]):
                    fail(i, 'every option keeps the value it has', 'effective-value-changed:' + key,
                         'effective value changed from %r to %r although the command does not name it' % (p[3], qq[3]))
            for key in sorted(set(Qcd['persub']) & set(Pcd['persub'])):
                n = key.split(':', 1)[1]
                if key in touched or n in touched:
                    continue
                if Qcd['persub'][key] != Pcd['persub'][key]:
                    fail(i, 'every option keeps the value it has', 'effective-value-changed:' + key,
                         'value inside the subproject changed from %r to %r' % (Pcd['persub'][key], Qcd['persub'][key]))
        if first_like:
            # --wipe re-derives from the record plus CURRENT defaults: an option that is not
            # recorded holds its declared default or a default_options value
            for key, d in decls.items():
                if key in touched or key not in Qcd['opts']:
                    continue
                n = key.split(':', 1)[1]
                cands = {decl_default(d)}
                srcs = [('topdef', n)] if key.startswith(':') else [('topdef', 'sub:' + n), ('subdef', n), ('calldef', n)]
                for where, kk in srcs:
                    for k, v in cfg[where]:
                        if k == kk:
                            t = typed(decl_kind(d), v)
                            if t:
                                cands.add(t)
                if Qcd['opts'][key][1] not in cands:
                    fail(i, '--wipe re-derives the configuration from the recorded command lines plus current defaults', 'wipe-value-not-derived:' + key,
                         'unrecorded option %s has value %r, candidates %r' % (key, Qcd['opts'][key][1], sorted(cands)))
        # parent links that can be seen from outside
        if first_like:
            has_parent = set()
        for key in list(has_parent):
            root = ':' + key.split(':', 1)[1]
            dk = decls.get(key)
            if key not in Qcd['opts'] or root not in Qcd['opts'] or (dk is not None and decl_kind(dk)[0] != Qcd['opts'][key][0][0]):
                has_parent.discard(key)
        for key, o in Qcd['opts'].items():
            if o[2] == 'T':
                has_parent.add(key)
        # every option keeps the last value the user gave it, until the user changes it, the
        # option disappears or its choices change
        for key in sorted(given):
            val, kd = given[key]
            dk = decls.get(key)
            kq = kind_of_key(Qcd, key)
            if kq is not None and kq != kd and kq[0] == kd[0] and satisfies(kq, val) \
                    and not (dk is not None and decl_kind(dk)[0] != kd[0]):
                given[key][1] = kd = kq      # the choices changed, the user's value is still valid: it stays
            if kq != kd or (key not in Qcd['opts'] and key not in Qcd['persub']) \
                    or (dk is not None and decl_kind(dk)[0] != kd[0]):
                del given[key]
                continue
            if eff_of(Qcd, key) != val:
                fail(i, 'every option keeps the last value the user gave it', 'user-value-lost:' + key,
                     'the user set %s to %r, no later command changed it, now it reads %r' % (key, val, eff_of(Qcd, key)))
                del given[key]
        # yielding options read the CURRENT top-level option; per-subproject views
        for key, o in Qcd['opts'].items():
            if o[3] == 'E':
                fail(i, 'inherited value', 'yielding-not-inherited:' + key, 'reading %s raises' % key)
            elif o[2] == 'T':
                root = ':' + key.split(':', 1)[1]
                if root not in Qcd['opts'] or Qcd['opts'][root][3] != o[3]:
                    fail(i, 'inherited value', 'yielding-not-inherited:' + key,
                         '%s yields but reads %r while the top-level option reads %r' % (key, o[3], Qcd['opts'].get(root, [None] * 4)[3]))
            elif key not in Qcd['aug'] and o[3] != o[1]:
                fail(i, 'effective value', 'effective-not-stored:' + key, 'effective %r, stored %r' % (o[3], o[1]))
        for key, v in Qcd['persub'].items():
            n = key.split(':', 1)[1]
            want = Qcd['aug'].get(key, Qcd['opts'][n][3])
            if v != want:
                fail(i, 'inherited value', 'override-not-inherited:' + key, 'subproject reads %r, expected %r' % (v, want))
        # get_option() of the run that just succeeded = what was persisted
        if not conf_like:
            for proj, n, text in messages[i]:
                key = (':' if proj == 'top' else 'sub:') + n
                if key not in Qcd['opts']:
                    fail(i, 'get_option agrees with the persisted state', 'message-for-unknown-option:' + key, 'get_option(%s) printed %r' % (key, text))
                    continue
                o = Qcd['opts'][key]
                want = fmt_message(o[3])
                if o[0][0] == 'f':
                    want = {'enabled': 'true/false', 'disabled': 'false/true', 'auto': 'false/false'}.get(o[3][1:], '?')
                if text.strip() != want.strip():
                    fail(i, 'get_option agrees with the persisted state', 'get-option-mismatch:' + key,
                         'get_option printed %r, the persisted effective value is %r' % (text, want))
        # the introspection file shows the persisted values
        if saved and Q['intro'] is not None:
            for key, o in Qcd['opts'].items():
                name = key[1:] if key.startswith(':') else key
                e = Q['intro'].get(name)
                # the listed value is the EFFECTIVE one (what get_option() returns in that project):
                # the stored value, or the parent's value for a yielding option
                if e is None or e[2] != o[3]:
                    fail(i, 'introspection shows the value every option has', 'intro-mismatch:' + key,
                         'intro-buildoptions.json has %r for %s, its effective value in coredata.dat is %r (stored %r)' % (e, key, o[3], o[1]))
            # per-subproject overrides are listed under the subproject-qualified name
            for key, v in Qcd['aug'].items():
                e = Q['intro'].get(key)
                if e is None or e[2] != v:
                    fail(i, 'introspection shows the persisted values', 'intro-mismatch:' + key,
                         'intro-buildoptions.json has %r for the override %s, coredata.dat has %r' % (e, key, v))
            for name in Q['intro']:
                if name.startswith('sub:') and name not in Qcd['opts'] and name not in Qcd['aug']:
                    fail(i, 'introspection shows the persisted values', 'intro-phantom:' + name,
                         'intro-buildoptions.json lists %s, which is neither an option nor an override in coredata.dat' % name)
        P = Q
    # meson introspect --buildoptions = the intro file
    for i, (Q, fl) in enumerate(zip(obs, flags)):
        if fl['cli'] == 'skip':
            continue
        if Q['intro'] is None:
            if fl['cli_rc'] == 0 and fl['cli']:
                fail(i, 'introspect', 'introspect-without-file', 'meson introspect printed options although there is no intro file')
            continue
        if fl['cli'] is None or fl['cli'] == 'unparsable':
            fail(i, 'introspect', 'introspect-failed', 'meson introspect --buildoptions failed although the intro file exists')
            continue
        cli = {k: [v['type'], v['choices'], enc_value(v['value'])] for k, v in fl['cli'].items()}
        if cli != Q['intro']:
            fail(i, 'introspect', 'introspect-differs-from-file', 'meson introspect --buildoptions differs from intro-buildoptions.json')
    return fails


# ====================================================================== fork runner
# {"op":"run","argv":[...],"env":{...}} runs ONE meson command in a freshly forked child of this
# (warmed-up) process: the child calls mesonbuild.mesonmain.run(argv, <repo>/meson.py) - the
# function meson.py itself calls - and exits.  Every command is still a separate process that
# shares nothing with the previous one except the build directory; only the interpreter start
# and the module imports (about 0.6 s of a 0.7 s `meson configure`) are saved.
_WARM = False


def warm_up():
    global _WARM
    if _WARM:
        return
    import mesonbuild.mesonmain, mesonbuild.msetup, mesonbuild.mconf, mesonbuild.mintro   # noqa
    import mesonbuild.interpreter, mesonbuild.backend.ninjabackend, mesonbuild.optinterpreter   # noqa
    import mesonbuild.modules, mesonbuild.scripts.meson_exe, mesonbuild.programs   # noqa
    _WARM = True


def run_forked(argv, env):
    import tempfile
    warm_up()
    repo = os.environ.get('PYTHONPATH', '').split(os.pathsep)[0]
    mainfile = os.path.join(repo, 'meson.py')
    with tempfile.TemporaryFile() as out:
        pid = os.fork()
        if pid == 0:
            rc = 99
            try:
                os.environ.update(env)
                os.dup2(out.fileno(), 1)
                os.dup2(out.fileno(), 2)
                devnull = os.open(os.devnull, os.O_RDONLY)
                os.dup2(devnull, 0)
                sys.stdout = open(1, 'w', encoding='utf-8', errors='replace', closefd=False)
                sys.stderr = open(2, 'w', encoding='utf-8', errors='replace', closefd=False)
                sys.argv = [mainfile] + list(argv)
                from mesonbuild import mesonmain
                try:
                    rc = mesonmain.run(list(argv), mainfile)
                except SystemExit as e:
                    rc = e.code if isinstance(e.code, int) else (0 if e.code is None else 1)
                rc = 0 if rc is None else int(rc)
                sys.stdout.flush()
                sys.stderr.flush()
            except BaseException:   # noqa
                import traceback
                try:
                    os.write(2, ('Unhandled python exception in forked runner\n' + traceback.format_exc()).encode())
                except OSError:
                    pass
                rc = 2
            os._exit(rc & 0xff)
        _, status = os.waitpid(pid, 0)
        rc = os.waitstatus_to_exitcode(status)
        out.seek(0)
        text = out.read().decode('utf-8', 'replace')
    return {'rc': rc, 'out': text[-400000:]}


def main():
    for line in sys.stdin:
        line = line.strip()
        if not line:
            continue
        req = json.loads(line)
        try:
            if req['op'] == 'dump':
                res = dump(req['bd'], set(req['watch']))
            elif req['op'] == 'run':
                res = run_forked(req['argv'], req.get('env', {}))
            elif req['op'] == 'oracle':
                res = {'failures': oracle(req['case'], req['obs'], req['messages'], req['flags'])}
            else:
                res = {'error': 'unknown op'}
        except Exception as e:   # noqa
            res = {'error': 'EXC:' + type(e).__name__ + ':' + str(e)[:200]}
        _real_stdout.write(json.dumps(res) + '\n')
        _real_stdout.flush()


if __name__ == '__main__':
    main()
