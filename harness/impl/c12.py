"""C12 adapter: runs the REAL mesonbuild.mtest code in-process (PYTHONPATH=/repo) and hosts
the oracle = the clauses of property C12 evaluated directly on observations (no model).

stdin : {"cases": [[fn, [args...]], ...]}   -> {"results": [canonical string, ...], "aux": [...]}
The canonical strings are the ones coq/Mtest/Entry.v renders.

The oracle functions (pure Python, no meson import) are also imported by check_C12.py."""
import sys, json, io, os

SEP1, SEP2, SEP3 = '\x01', '\x02', '\x03'
LETTER = {'OK': 'O', 'TIMEOUT': 'T', 'INTERRUPT': 'I', 'SKIP': 'S', 'FAIL': 'F', 'EXPECTEDFAIL': 'X',
          'UNEXPECTEDPASS': 'U', 'ERROR': 'E', 'IGNORED': 'G'}
NAME = {v: k for k, v in LETTER.items()}
BAD = {'FAIL', 'TIMEOUT', 'INTERRUPT', 'UNEXPECTEDPASS', 'ERROR'}
SUMMARY_LABELS = ['Ok:', 'Expected Fail:', 'Fail:', 'Unexpected Pass:', 'Skipped:', 'Ignored:', 'Timeout:']


# =============================================================== oracle (property clauses)
def documented_result(should_fail, wkind, rc):
    """The documented rule of the property text for an exit-code test (no expected_exitcode):
    exit 0 OK, 77 SKIP, 99 ERROR, any other status FAIL, inverted to EXPECTEDFAIL/UNEXPECTEDPASS by
    should_fail, TIMEOUT when the limit passes and the test is then terminated."""
    if wkind == 't':
        return 'TIMEOUT'
    if wkind == 'c':
        return 'INTERRUPT'
    if rc == 0:
        base = 'OK'
    elif rc == 77:
        return 'SKIP'
    elif rc == 99:
        return 'ERROR'
    else:
        base = 'FAIL'
    if should_fail:
        return 'UNEXPECTEDPASS' if base == 'OK' else 'EXPECTEDFAIL'
    return base


# TAP streams whose verdict is known by construction (documented in Unit-tests.md / the TAP protocol):
TAP_KINDS = {
    'pass': '1..1\nok 1\n', 'fail': '1..1\nnot ok 1\n',
    'allskip': '1..2\nok 1 # SKIP not here\nok 2 # SKIP nor here\n', 'planskip': '1..0 # SKIP nothing to do\n', 'empty': '',
}
TAP_KIND_OF = {v: k for k, v in TAP_KINDS.items()}


def documented_tap_result(kind, should_fail, wkind, rc):
    """A protocol:'tap' test: the stream gives OK / FAIL / SKIP (only skipped subtests, a `1..0 # SKIP` plan or no TAP
    line at all); a test program that exits with a non-zero status (or dies from a signal) is an ERROR unless the
    stream already made it FAIL; should_fail inverts OK / FAIL only; TIMEOUT when the limit passes."""
    if wkind == 't':
        return 'TIMEOUT'
    if wkind == 'c':
        return 'INTERRUPT'
    base = {'pass': 'OK', 'fail': 'FAIL', 'allskip': 'SKIP', 'planskip': 'SKIP', 'empty': 'SKIP'}[kind]
    if rc != 0 and base != 'FAIL':
        return 'ERROR'
    if should_fail and base in ('OK', 'FAIL'):
        return 'UNEXPECTEDPASS' if base == 'OK' else 'EXPECTEDFAIL'
    return base


def tally_clauses(results, counts, exit_status):
    """results: list of result names; counts: the seven printed totals in SUMMARY_LABELS order
    (None = line absent, allowed only for a zero count other than Ok/Fail); exit_status: int.
    Returns a list of failed clause descriptions."""
    from collections import Counter
    c = Counter(results)
    want = [c['OK'], c['EXPECTEDFAIL'], c['FAIL'] + c['ERROR'] + c['INTERRUPT'], c['UNEXPECTEDPASS'],
            c['SKIP'], c['IGNORED'], c['TIMEOUT']]
    bad = []
    for i, (w, g) in enumerate(zip(want, counts)):
        if g is None:
            if w != 0 or i in (0, 2):
                bad.append('summary line %r missing, tally is %d' % (SUMMARY_LABELS[i], w))
        elif g != w:
            bad.append('summary line %r prints %d, tally of classifications is %d' % (SUMMARY_LABELS[i], g, w))
    nonzero = any(r in BAD for r in results)
    if (exit_status != 0) != nonzero:
        bad.append('exit status %d but %s test failed/errored/timed out/unexpectedly passed'
                   % (exit_status, 'some' if nonzero else 'no'))
    return bad


def trace_clauses(par, jobs, events, cut_short, require_complete=True):
    """par: is_parallel per runner id; events: list of ('s', id) / ('e', id) / ('v', id) in observed order.
    Clauses: every test starts at most once (exactly once, and ends, when the run is not cut short);
    a non-parallel test never runs while any other test runs; never more than `jobs` tests run."""
    bad = []
    started, running, ended = [], [], []
    for pos, ev in enumerate(events):
        k, i = ev[0], ev[1]
        if k == 's':
            if i in started:
                bad.append('test %d started twice (event %d)' % (i, pos))
            started.append(i)
            running.append(i)
            if len(running) > jobs:
                bad.append('%d tests running %r with %d jobs (event %d)' % (len(running), running, jobs, pos))
            ser = [j for j in running if not par[j]]
            if ser and len(running) > 1:
                bad.append('non-parallel test %d running together with %r (event %d)'
                           % (ser[0], [j for j in running if j != ser[0]], pos))
        else:
            if i not in running:
                bad.append('test %d ended without running (event %d)' % (i, pos))
            else:
                running.remove(i)
            ended.append(i)
    if not cut_short and require_complete:
        missing = [i for i in range(len(par)) if i not in started]
        if missing:
            bad.append('tests %r never started although the run was not cut short' % missing)
        if running:
            bad.append('tests %r never ended' % running)
    return bad


def documented_limit(timeout, mult):
    """The time limit in force for a test, in seconds (None = no limit): the test's `timeout` (default 30) times the
    --timeout-multiplier; no limit when the multiplier is <= 0 ("<= 0 to disable timeout") or the timeout is <= 0;
    timeout: int or None (kwarg absent); mult: float or None (option absent)."""
    t = 30 if timeout is None else timeout
    if t <= 0:
        return None
    if mult is None:
        return float(t)
    if mult <= 0:
        return None
    return t * mult


def expected_wait(timeout, mult, sleep):
    """'t' = must be TIMEOUT (a limit is in force and the test sleeps at least twice as long), 'x' = must not be TIMEOUT
    (no limit in force, or the limit is at least 20 times the sleep), None = too close to call on a loaded machine"""
    lim = documented_limit(timeout, mult)
    if lim is None or lim >= 20 * sleep:
        return 'x'
    if sleep >= 2 * lim:
        return 't'
    return None


def stop_clauses(events, maxfail, repeat_gt1):
    """events: exact sequence of ('s', id) / ('e', id, result letter) / ('v', id) as meson processes them.
    `--maxfail N` aborts the run once N tests have failed, and under --repeat a failure cuts the run short:
    from that moment on no further test is started."""
    bad = []
    failc, stopped, why = 0, False, ''
    for pos, ev in enumerate(events):
        if ev[0] == 's' and stopped:
            bad.append('test %d is started (event %d) although %s' % (ev[1], pos, why))
        if ev[0] == 'e':
            r = ev[2]
            if r in 'FEI':
                failc += 1
            isbad = r in 'FTIUE'
            if not stopped and ((maxfail > 0 and failc >= maxfail and isbad) or (maxfail < 0 and isbad)):
                stopped, why = True, '--maxfail %d was reached at event %d (%d failures)' % (maxfail, pos, failc)
            if not stopped and repeat_gt1 and failc > 0:
                stopped, why = True, 'a test failed under --repeat at event %d' % pos
    return bad


def priority_clauses(names, prio):
    """names in the order meson lists / starts them (one job); documented: tests with a higher priority are
    started before tests with a lower priority"""
    bad = []
    for a, b in zip(names, names[1:]):
        if prio[a] < prio[b]:
            bad.append('%s (priority %d) comes before %s (priority %d)' % (a, prio[a], b, prio[b]))
    return bad


def slice_clauses(selected, slices):
    """selected: list of names; slices: list (i = 1..n) of lists of names.  --slice i/n over
    i = 1..n partitions the selected tests."""
    bad = []
    allv = [x for s in slices for x in s]
    if sorted(allv) != sorted(selected):
        bad.append('union of the slices %r is not the selection %r' % (slices, selected))
    if len(set(allv)) != len(allv) and len(set(selected)) == len(selected):
        bad.append('slices overlap: %r' % (slices,))
    return bad



def _split_suite(s):
    return tuple(s.split(':', 1)) if ':' in s else (s, '')


def _suite_arg_matches(arg, full_suites):
    """documented meaning of a --suite / --no-suite argument: `name` = (sub)project or suite of that name,
    `:suite` = that suite in any project, `project:suite` = that suite of that project"""
    pm, sm = _split_suite(arg)
    for fs in full_suites:
        prj, st = _split_suite(fs)
        if not sm:
            if pm in (prj, st):
                return True
        elif not pm:
            if st == sm:
                return True
        elif prj == pm and st == sm:
            return True
    return False


def independent_selection(tests, project_name, include, exclude_suites, exclude, args, slc):
    """The selection computed from the command line alone (no meson code, no Coq model):
    tests = [(name, project, [full suite strings])] in serialisation order.  A test is selected when it
    survives --no-suite / --exclude / --suite and, if test-name arguments are given, when ANY of them
    matches it (fnmatch on project and name) -- a set, every test at most once, in order.
    Returns the list of (project, name), or None when meson must refuse (an argument matching no test,
    more slices than tests)."""
    from fnmatch import fnmatchcase
    if not tests:
        return []
    sel = []
    for name, prj, suites in tests:
        if any(_suite_arg_matches(a, suites) for a in exclude_suites):
            continue
        if (prj == project_name and name in exclude) or ('%s:%s' % (prj, name)) in exclude:
            continue
        if include and not any(_suite_arg_matches(a, suites) for a in include):
            continue
        sel.append((prj, name))
    if args:
        pats = []
        for a in args:
            if ':' in a:
                sp, nm = a.split(':', 1)
                pats.append((sp or '*', nm or '*'))
            else:
                pats.append(('*', a))
        for sp, nm in pats:
            if not any(fnmatchcase(p, sp) and fnmatchcase(n, nm) for p, n in sel):
                return None
        sel = [(p, n) for p, n in sel if any(fnmatchcase(p, sp) and fnmatchcase(n, nm) for sp, nm in pats)]
    if slc:
        i, k = slc
        if k > len(sel):
            return None
        sel = sel[i - 1::k]
    return sel


def start_count_clauses(selected, repeat, start_records, cut_short):
    """selected: test names (a set, in order); start_records: [(name, iteration)] written by the test
    programs themselves.  Every selected test has exactly `repeat` start records -- one per repetition --
    (at most when the run is cut short); nothing else is started."""
    from collections import Counter
    bad = []
    c = Counter(n for n, _ in start_records)
    per_it = Counter(start_records)
    for (n, it), k in sorted(per_it.items()):
        if k > 1:
            bad.append('test %s was started %d times in repetition %d' % (n, k, it))
    for n in sorted(set(c) - set(selected)):
        bad.append('test %s is not selected but was started %d times' % (n, c[n]))
    for n in selected:
        if c[n] > repeat or (c[n] != repeat and not cut_short):
            bad.append('selected test %s has %d start records, expected %s%d (repeat=%d)'
                       % (n, c[n], 'at most ' if cut_short else 'exactly ', repeat, repeat))
    return bad


# =============================================================== implementation runners
def _imports():
    global mtest, asyncio, argparse, types, TestResult, TestProtocol, MesonException
    import asyncio, argparse, types
    from mesonbuild import mtest
    from mesonbuild.mtest import TestResult
    from mesonbuild.backend.backends import TestProtocol
    from mesonbuild.mesonlib import MesonException


class _HarnessStub:
    def log_subtest(self, *a, **k):
        pass


def fake_test(proto='exitcode', expected_fail=False, expected_exitcode=None, name='t', project='p',
              suite=None, timeout=30, is_parallel=True):
    return types.SimpleNamespace(
        protocol=TestProtocol.from_str(proto), expected_fail=expected_fail, expected_exitcode=expected_exitcode,
        project_name=project, name=name, workdir=None, suite=suite or [project], timeout=timeout,
        is_parallel=is_parallel, verbose=False, cmd_is_built=False, cmd_is_exe=False, is_cross_built=False,
        needs_exe_wrapper=False, exe_wrapper=None, fname=['/bin/true'], extra_paths=[], cmd_args=[],
        exe_fname='/bin/true', cmd_has_interpreter=False)


PROTO = {'e': 'exitcode', 'g': 'gtest', 't': 'tap', 'r': 'rust'}


async def _aiter(lines):
    for l in lines:
        yield l


def tap_events(text):
    """abstraction of a TAP text: the event kinds the real TAPParser yields"""
    out = []
    for ev in mtest.TAPParser().parse(io.StringIO(text)):
        if isinstance(ev, mtest.TAPParser.Test):
            out.append({'OK': 'o', 'FAIL': 'f', 'SKIP': 's', 'EXPECTEDFAIL': 'x', 'UNEXPECTEDPASS': 'u',
                        'ERROR': 'r'}[ev.result.value])
        elif isinstance(ev, mtest.TAPParser.Bailout):
            out.append('b')
        elif isinstance(ev, mtest.TAPParser.Error):
            out.append('e')
        else:
            out.append('.')
    return ''.join(out)


def do_classify(args):
    """args: proto, expected_fail T/F, expected_exit ('' = None), text (tap / rust output), wkind, rc
    -> (result name, event abstraction used for the model)"""
    p, xf, xe, text, w, rc = args
    t = fake_test(PROTO[p], xf == 'T', int(xe) if xe != '' else None)
    r = mtest.TestRun(t, {}, 'name', None, True, False, False)
    r.start(['x'])
    # TestSubprocess.wait
    if w == 't':
        r.res = TestResult.TIMEOUT
    elif w == 'c':
        r.res = TestResult.INTERRUPT
    r.returncode = int(rc) or 0
    evs = ''
    if r.needs_parsing:
        asyncio.run(r.parse(_HarnessStub(), _aiter(text.splitlines(keepends=True))))
        if p == 't':
            evs = tap_events(text)
        else:
            evs = ''.join({'OK': 'o', 'FAIL': 'f', 'SKIP': 's', 'ERROR': 'r'}[x.result.value] for x in r.results)
    r.complete()
    return r.res.value, evs


def new_harness(num_processes=1, repeat=1, maxfail=0):
    th = object.__new__(mtest.TestHarness)
    th.options = argparse.Namespace(num_processes=num_processes, repeat=repeat, maxfail=maxfail)
    th.collected_failures = []
    th.fail_count = th.expectedfail_count = th.unexpectedpass_count = 0
    th.success_count = th.skip_count = th.ignored_count = th.timeout_count = 0
    th.maxfail_reached = False
    th.loggers = []
    th.test_count = 0
    return th


def render_harness_totals(th):
    counts = [th.success_count, th.expectedfail_count, th.fail_count, th.unexpectedpass_count,
              th.skip_count, th.ignored_count, th.timeout_count]
    lines = []
    for ln in th.summary().strip('\n').split('\n'):
        for i, lab in enumerate(SUMMARY_LABELS):
            if ln.startswith(lab):
                lines.append('%d:%d' % (i, int(ln[len(lab):].strip())))
                break
        else:
            lines.append('?:' + ln)
    total = th.total_failure_count()
    return counts, lines, total, (1 if total > 0 else 0)


def do_tally(args):
    th = new_harness()
    for ch in args[0]:
        th.process_test_result(types.SimpleNamespace(res=TestResult(NAME[ch])))
    counts, lines, total, ex = render_harness_totals(th)
    return SEP1.join([','.join(map(str, counts)), ','.join(lines), str(total), str(ex)])


class StubRunner:
    """stands for SingleTestRunner: is_parallel, visible_name, async run(harness)"""
    def __init__(self, idx, par, steps, result, on_cancel, killsteps, events):
        self.idx, self.is_parallel, self.steps, self.result = idx, par, steps, result
        self.on_cancel, self.killsteps, self.events = on_cancel, killsteps, events
        self.visible_name = 't%d' % idx

    async def run(self, harness):
        self.events.append('s%d' % self.idx)
        res = self.result
        try:
            for _ in range(self.steps):
                await asyncio.sleep(0)
        except asyncio.CancelledError:
            if self.on_cancel == 'V':
                self.events.append('v%d' % self.idx)
                raise
            # TestSubprocess.wait: except CancelledError -> await _kill() -> INTERRUPT
            for _ in range(self.killsteps):
                await asyncio.sleep(0)
            res = 'I'
        self.events.append('e%d%s' % (self.idx, res))
        return types.SimpleNamespace(res=TestResult(NAME[res]))


def do_sched(args):
    """args: par flags (effective), jobs, maxfail, repeat>1 T/F, then per runner 'steps,result,oncancel,killsteps'
    Runs the real TestHarness._run_tests with stub runners; returns the exact event sequence."""
    par, jobs, maxfail, rep = args[0], int(args[1]), int(args[2]), args[3] == 'T'
    th = new_harness(jobs, 2 if rep else 1, maxfail)
    events = []
    runners = []
    for i, spec in enumerate(args[4:]):
        st, res, oc, ks = spec.split(',')
        runners.append(StubRunner(i, par[i] == 'T', int(st), res, oc, int(ks), events))

    async def guarded():
        await asyncio.wait_for(th._run_tests(runners), timeout=20)
    asyncio.run(guarded())
    counts, lines, total, ex = render_harness_totals(th)
    return SEP1.join([SEP2.join(events), ','.join(map(str, counts)), str(ex)])


def do_select(args):
    prj, inc, exs, ex, ar, sl = args[:6]
    tests = []
    for t in args[6:]:
        f = t.split(SEP2)
        tests.append(fake_test(name=f[0], project=f[1], suite=f[2].split(SEP3) if len(f) > 2 and f[2] else []))
    lst = lambda s: s.split(SEP2) if s else []
    th = object.__new__(mtest.TestHarness)
    th.tests = tests
    th.build_data = types.SimpleNamespace(project_name=prj)
    th.options = argparse.Namespace(include_suites=lst(inc), exclude_suites=lst(exs), exclude=lst(ex), args=lst(ar),
                                    slice=tuple(int(x) for x in sl.split('/')) if sl else None, setup=None)
    try:
        got = th.get_tests(errorfile=io.StringIO())
    except MesonException:
        return 'ERR'
    return 'O' + SEP2.join('%s:%s' % (t.project_name, t.name) for t in got)


def do_suite(args):
    return 'T' if mtest.TestHarness.test_in_suites(fake_test(suite=[args[1]]), [args[0]]) else 'F'


def do_slice(args):
    n, i, k = int(args[0]), int(args[1]), int(args[2])
    r = do_select(['p', '', '', '', '', '%d/%d' % (i, k)] + ['%d%sp%sp' % (j, SEP2, SEP2) for j in range(n)])
    if r == 'ERR':
        return 'ERR'
    return ','.join(x.split(':')[1] for x in r[1:].split(SEP2)) if r[1:] else ''


def do_runner(args):
    """args: test.is_parallel T/F, num_processes, interactive T/F, timeout ('N' or int), multiplier in
    thousandths ('N' = option absent) -> is_parallel T/F SEP1 timeout in ms or N"""
    tp, nproc, ia, to, mult = args
    t = fake_test(timeout=None if to == 'N' else int(to), is_parallel=tp == 'T')
    opts = argparse.Namespace(no_rebuild=True, benchmark=False, interactive=ia == 'T',
                              timeout_multiplier=None if mult == 'N' else int(mult) / 1000.0,
                              num_processes=int(nproc), verbose=False, quiet=False, gdb=False, wrapper=None,
                              test_args=[], split=False)
    r = mtest.SingleTestRunner(t, {}, 'name', opts)
    tm = r.timeout
    return ('T' if r.is_parallel else 'F') + SEP1 + ('N' if tm is None else str(int(round(tm * 1000))))


def do_jobsopt(args):
    """the -j value as `meson test` parses it: R = refused by argparse (usage error), else the integer"""
    parser = argparse.ArgumentParser(prog='meson test')
    mtest.add_arguments(parser)
    err, sys.stderr = sys.stderr, io.StringIO()
    try:
        try:
            ns = parser.parse_args(['--num-processes=' + args[0]])
        except SystemExit as e:
            return 'R' if e.code == 2 else 'EXIT:%r' % (e.code,)
    finally:
        sys.stderr = err
    return str(ns.num_processes)


def do_workers(args):
    """determine_worker_count(['MESON_TESTTHREADS']) with the two environment variables set to the given
    raw strings (U = unset) and cpu_count() = args[2]"""
    import multiprocessing
    from mesonbuild.utils import universal
    saved = {k: os.environ.pop(k, None) for k in ('MESON_TESTTHREADS', 'MESON_NUM_PROCESSES')}
    real = multiprocessing.cpu_count
    try:
        if args[0] != 'U':
            os.environ['MESON_TESTTHREADS'] = args[0]
        if args[1] != 'U':
            os.environ['MESON_NUM_PROCESSES'] = args[1]
        multiprocessing.cpu_count = lambda: int(args[2])
        return str(universal.determine_worker_count(['MESON_TESTTHREADS']))
    finally:
        multiprocessing.cpu_count = real
        for k, v in saved.items():
            os.environ.pop(k, None)
            if v is not None:
                os.environ[k] = v


def do_glob(args):
    """the fnmatch that mesonbuild.mtest itself imports: does string args[1] match pattern args[0]?"""
    return 'T' if mtest.fnmatch(args[1], args[0]) else 'F'


FUNCS = {'glob': do_glob, 'classify': do_classify, 'tally': do_tally, 'sched': do_sched, 'select': do_select,
         'suite': do_suite, 'slice': do_slice, 'runner': do_runner, 'jobsopt': do_jobsopt, 'workers': do_workers}


def main():
    _imports()
    req = json.load(sys.stdin)
    out, aux = [], []
    # keep meson's own prints away from our stdout
    real_stdout = sys.stdout
    sys.stdout = io.StringIO()
    for fn, args in req.get('cases', []):
        try:
            r = FUNCS[fn](args)
            if isinstance(r, tuple):
                out.append(r[0]); aux.append(r[1])
            else:
                out.append(r); aux.append('')
        except Exception as e:           # noqa
            out.append('EXC:' + type(e).__name__); aux.append(str(e)[:200])
    sys.stdout = real_stdout
    json.dump({'results': out, 'aux': aux}, sys.stdout)


if __name__ == '__main__':
    main()
