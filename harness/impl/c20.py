"""In-process adapter for C20: runs mesonbuild.cargo.version / mesonbuild.cargo.cfg on cases
read from stdin (JSON) and prints canonical result strings (same rendering as
coq/Cargo/Entry.v).  Also hosts the oracle: the clauses of property C20 evaluated directly
on the implementation's answers (SemVer section 11, Cargo's semver matcher with the two
pinned deviations, the pre-release gate, the Boolean meaning of cfg() expressions, rejection
of malformed cfg strings) - no Coq model involved."""
import sys, json, itertools
from mesonbuild.cargo import version as V
from mesonbuild.cargo import cfg as C
from mesonbuild.mesonlib import MesonException
from mesonbuild.cargo import manifest as M
from mesonbuild.cargo.interpreter import Interpreter

SEP1, SEP2, SEP3 = '\x01', '\x02', '\x03'
T = lambda b: 'T' if b else 'F'


def r_item(x):
    return ('i%d' % x) if isinstance(x, int) else 's' + x


def r_tok(t):
    ty, val = t
    n = ty.name
    if n == 'LPAREN': return '('
    if n == 'RPAREN': return ')'
    if n == 'COMMA': return ','
    if n == 'EQUAL': return '='
    if n in ('ALL', 'ANY', 'NOT'): return 'K' + n.lower()
    if n == 'STRING': return 'S' + val
    if n == 'IDENTIFIER': return 'I' + val
    return '?' + n


def r_ir(e):
    if isinstance(e, C.Identifier): return 'I' + e.value + SEP1
    if isinstance(e, C.Equal): return 'E' + e.lhs.value + SEP2 + e.rhs.value + SEP1
    if isinstance(e, C.Any): return 'O' + ''.join(r_ir(x) for x in e.args) + SEP3
    if isinstance(e, C.All): return 'A' + ''.join(r_ir(x) for x in e.args) + SEP3
    if isinstance(e, C.Not): return 'N' + r_ir(e.value)
    return '?'


def ev(fn, args):
    if fn == 'semver':
        s = V.SemVer(args[0])
        return SEP1.join(r_item(x) for x in s._v) + SEP2 + str(s.specified_count) + SEP2 + T(s.has_prerelease)
    if fn == 'cmp':
        a, b = V.SemVer(args[0]), V.SemVer(args[1])
        return ''.join(T(x) for x in (a < b, a <= b, a == b, a != b, a >= b, a > b))
    if fn == 'split':
        return SEP2.join(op + SEP1 + ver for op, ver in V.split(args[0]))
    if fn == 'req':
        f = V.cargo_parse(args[0])
        return ''.join(T(f(v)) for v in args[1:])
    if fn == 'sort':
        l = list(args)
        l.sort(reverse=True, key=lambda s: V.SemVer(s))      # manifest.py:739
        return SEP1.join(l)
    if fn == 'prepare':
        base = [a[1:] for a in args if a[:1] == 'd']
        targets = []
        for a in args:
            if a[:1] == 't':
                f = a[1:].split(SEP2)
                targets.append((f[0], [x for x in (f[1].split(SEP1) if len(f) > 1 else []) if x]))
        hl = [a[1:] for a in args if a[:1] == 'h']
        bl = [a[1:] for a in args if a[:1] == 'b']
        calls = [a[1:] == 'h' for a in args if a[:1] == 'c']
        return SEP2.join(r if isinstance(r, str) else SEP1.join(r) for r in run_prepare(base, targets, hl, bl, calls))
    if fn == 'cfgsession':
        rest = list(args)
        k = rest.index(SEP3) if SEP3 in rest else len(rest)
        calls = []
        for a in rest[k + 1:]:
            f = a.split(SEP2)
            calls.append((f[0], f[1], [x for x in (f[2].split(SEP1) if len(f) > 2 else []) if x]))
        return SEP1.join(run_cfg_session(rest[:k], calls))
    if fn == 'depseq':
        return SEP1.join(run_depseq(args[0], args[1:])[0])
    if fn == 'api':
        # through the lazy properties the callers use (manifest.py:317, 709)
        a = M.Dependency(package='pkg', version=args[0]).api
        return '=' + a
    if fn == 'pkgapi':
        return '=' + M.CargoLockPackage(name='pkg', version=args[0]).api
    if fn == 'resolve':
        return r_resolve(args[0], args[1:])
    if fn == 'splitcfg':
        k, v = Interpreter._split_cfg(args[0])
        return k + SEP1 + v
    if fn == 'getcfg':
        rest = list(args[1:])
        k = rest.index(SEP3) if SEP3 in rest else len(rest)
        return T(C.eval_cfg(args[0], real_get_cfgs(rest[:k], rest[k + 1:])))
    if fn == 'lex':
        return SEP1.join(r_tok(t) for t in C.lexer(args[0]))
    if fn == 'parse':
        return r_ir(C.parse(C.lexer(args[0])))
    if fn == 'cfg':
        kv = args[1:]
        d = {kv[i]: kv[i + 1] for i in range(0, len(kv) - 1, 2)}
        return T(C.eval_cfg(args[0], d))
    return '?'


# ---- the callers, run through meson's own classes --------------------------------------
class _Stub:
    """stands in for the Interpreter instance: only the attributes the called methods read"""


def resolve(req, versions):
    """Cargo.lock entries -> CargoLock._versions (sorted by SemVer, manifest.py:735-740) ->
    Interpreter._resolve_package with Dependency.accepts_version (interpreter.py:520-530, 618)"""
    lock = M.CargoLock(package=[M.CargoLockPackage(name='pkg', version=v) for v in versions])
    stub = _Stub()
    stub.cargolock = lock
    dep = M.Dependency(package='pkg', version=req)
    return Interpreter._resolve_package(stub, 'pkg', dep.accepts_version)


def r_resolve(req, versions):
    r = resolve(req, versions)
    return '-' if r is None else 'V' + r.version


class _Rustc:
    def __init__(self, lines): self.lines = lines
    def get_cfgs(self): return list(self.lines)


class _OptStore:
    def __init__(self, flags): self.flags = flags
    def get_value_for(self, key): return list(self.flags)


def real_get_cfgs(lines, flags):
    """Interpreter._get_cfgs (interpreter.py:701-711) on a stub environment: rustc's cfg lines and
    the rust_args option come from the arguments, everything else is meson's code"""
    stub = _Stub()
    cd = _Stub()
    cd.compilers = {'m': {'rust': _Rustc(lines)}}
    cd.optstore = _OptStore(flags)
    stub.environment = _Stub()
    stub.environment.coredata = cd
    stub._split_cfg = Interpreter._split_cfg
    f = Interpreter._get_cfgs
    f = getattr(f, '__wrapped__', f)
    from mesonbuild.mesonlib import MachineChoice
    cd.compilers = {MachineChoice.HOST: {'rust': _Rustc(lines)}}
    return f(stub, MachineChoice.HOST, '')


def run_cfg_session(lines, calls):
    """A sequence of Interpreter._get_cfgs calls on ONE interpreter object with the REAL RustCompiler
    class (and so its real lru_cache on get_cfgs); only the rustc process is replaced.  A call is
    (key, condition, rust_args); key = "h:<subproject>" or "b:<subproject>"; rust_args belong to the
    key (they are an option of that machine/subproject)."""
    from unittest import mock
    from mesonbuild.compilers import rust as rustmod
    from mesonbuild.compilers.rust import RustCompiler
    from mesonbuild.mesonlib import MachineChoice
    flags_of = {}
    for key, _, flags in calls:
        flags_of.setdefault(key, list(flags))

    class OptStore:
        def get_value_for(self, key, subproject=None):
            m = 'h' if key.machine is MachineChoice.HOST else 'b'
            return list(flags_of.get('%s:%s' % (m, key.subproject or ''), []))

    def fake_popen(cmd, *a, **kw):
        st = _Stub(); st.returncode = 0
        return st, ''.join(l + '\n' for l in lines), ''
    out = []
    with mock.patch.object(rustmod, 'Popen_safe_logged', fake_popen):
        rustc = RustCompiler.__new__(RustCompiler)
        rustc.exelist = ['rustc']
        rustc.exelist_no_ccache = ['rustc']
        cd = _Stub()
        cd.compilers = {m: {'rust': rustc} for m in MachineChoice}
        cd.optstore = OptStore()
        interp = Interpreter.__new__(Interpreter)
        interp.environment = _Stub()
        interp.environment.coredata = cd
        for key, cond, _ in calls:
            machine = MachineChoice.HOST if key[:1] == 'h' else MachineChoice.BUILD
            try:
                out.append(T(C.eval_cfg(cond, interp._get_cfgs(machine, key[2:]))))
            except Exception as e:
                out.append('EXC:' + type(e).__name__)
    return out


def run_prepare(base, targets, host_lines, build_lines, calls):
    """Interpreter._prepare_package (interpreter.py:572-601) on ONE PackageState built by
    Manifest.from_raw, for a sequence of machines, with real RustCompiler objects (one per machine,
    rustc process mocked) and _add_dependency replaced by a recorder.  Returns per call the list of
    dependency names handed to _add_dependency (or 'EXC:<class>')."""
    from unittest import mock
    from mesonbuild.cargo.interpreter import PackageState, PackageKey
    from mesonbuild.compilers import rust as rustmod
    from mesonbuild.compilers.rust import RustCompiler
    from mesonbuild.mesonlib import MachineChoice
    raw = {'package': {'name': 'foo', 'version': '1.0.0'}, 'dependencies': {n: '1' for n in base},
           'target': {c: {'dependencies': {n: '1' for n in ds}} for c, ds in targets}}
    lines = {'HOST': host_lines, 'BUILD': build_lines}

    def fake_logged(cmd, *a, **k):
        st = _Stub(); st.returncode = 0
        return st, ''.join(l + '\n' for l in lines[cmd[0].split('-')[1]]), ''

    def fake_popen(cmd, *a, **k):
        st = _Stub(); st.returncode = 0
        return st, 'rustc 1.80.0\nhost: no-such-triple\n', ''

    class OptStore:
        def get_value_for(self, key, subproject=None): return []
    out = []
    with mock.patch.object(rustmod, 'Popen_safe_logged', fake_logged), mock.patch.object(rustmod, 'Popen_safe', fake_popen):
        m = M.Manifest.from_raw(raw, 'Cargo.toml')
        pkg = PackageState(m)
        it = Interpreter.__new__(Interpreter)
        cd = _Stub()
        cd.compilers = {}
        for mm in MachineChoice:
            r = RustCompiler.__new__(RustCompiler)
            r.exelist = ['rustc-' + mm.name]; r.exelist_no_ccache = r.exelist; r.for_machine = mm
            cd.compilers[mm] = {'rust': r}
        cd.optstore = OptStore()
        it.environment = _Stub(); it.environment.coredata = cd
        it.packages = {PackageKey('foo', m.package.api): pkg}
        rec = []
        it._add_dependency = lambda pkg, depname, machine: rec.append(depname)
        for host in calls:
            del rec[:]
            try:
                it._prepare_package(pkg, MachineChoice.HOST if host else MachineChoice.BUILD)
                out.append(list(rec))
            except Exception as e:
                out.append('EXC:' + type(e).__name__)
    return out


def r_api_call(thunk):
    try:
        return '=' + thunk()
    except Exception as e:
        return 'EXC:' + type(e).__name__


def run_depseq(req0, ops):
    """operations on ONE manifest.Dependency object: "a"+version reads accepts_version(version),
    "p" reads .api, "u"+requirement calls update_version().  Returns (observations, what a fresh
    stateless evaluation of the requirement in force answers for each read)."""
    dep = M.Dependency(package='pkg', version=req0)
    cur = req0
    obs, ref = [], []
    for op in ops:
        if op[:1] == 'a':
            try:
                obs.append(T(dep.accepts_version(op[1:])))
            except Exception as e:
                obs.append('EXC:' + type(e).__name__)
            try:
                ref.append(T(V.cargo_parse.__wrapped__(cur)(op[1:])))
            except Exception as e:
                ref.append('EXC:' + type(e).__name__)
        elif op[:1] == 'u':
            dep.update_version(op[1:])
            cur = op[1:]
        else:
            obs.append(r_api_call(lambda: dep.api))
            ref.append(r_api_call(lambda: V.api(cur)))
    return obs, ref


def safe(fn, args):
    try:
        return ev(fn, args)
    except Exception as e:      # an escaping exception is an observable (its class only)
        return 'EXC:' + type(e).__name__


# ------------------------------------------------------------------ the oracle
# structured version  {"maj","min","pat": int, "pre": [["n", int] | ["a", str]], "build": str|None}
def pr_ident(i):
    return str(i[1])


def pr_version(v):
    s = '%d.%d.%d' % (v['maj'], v['min'], v['pat'])
    if v.get('pre'):
        s += '-' + '.'.join(pr_ident(i) for i in v['pre'])
    if v.get('build') is not None:
        s += '+' + v['build']
    return s


def ident_cmp(a, b):
    """SemVer 2.0.0 section 11.4: numeric identifiers compare numerically, alphanumeric ones
    in ASCII order, numeric below alphanumeric."""
    if a[0] == 'n' and b[0] == 'n':
        return (a[1] > b[1]) - (a[1] < b[1])
    if a[0] == 'n':
        return -1
    if b[0] == 'n':
        return 1
    return (a[1] > b[1]) - (a[1] < b[1])


def pre_list_cmp(p, q):
    for a, b in zip(p, q):
        c = ident_cmp(a, b)
        if c:
            return c
    return (len(p) > len(q)) - (len(p) < len(q))


def prec_cmp(v, w):
    """SemVer 2.0.0 section 11 precedence (build metadata ignored)."""
    a, b = (v['maj'], v['min'], v['pat']), (w['maj'], w['min'], w['pat'])
    if a != b:
        return -1 if a < b else 1
    p, q = v.get('pre') or [], w.get('pre') or []
    if not p and not q:
        return 0
    if not p:
        return 1
    if not q:
        return -1
    return pre_list_cmp(p, q)


def pre_cmp_crate(p, q):
    """semver crate Prerelease ordering: the empty pre-release is the greatest."""
    if not p and not q:
        return 0
    if not p:
        return 1
    if not q:
        return -1
    return pre_list_cmp(p, q)


# structured comparator {"op": "^"|""|"~"|"="|"<"|"<="|">"|">="|"*", "maj": int, "min": int|None,
#                        "pat": int|None, "pre": [...]}   ("*" with maj None = the bare star)
def pr_comp(c, sp=''):
    if c['op'] == '*':
        if c.get('maj') is None:
            return '*'
        s = str(c['maj'])
        if c.get('min') is not None:
            s += '.%d' % c['min']
        return s + '.*'
    s = str(c['maj'])
    if c.get('min') is not None:
        s += '.%d' % c['min']
        if c.get('pat') is not None:
            s += '.%d' % c['pat']
    if c.get('pre'):
        s += '-' + '.'.join(pr_ident(i) for i in c['pre'])
    return c['op'] + sp + s


def pr_req(comps, sp=0):
    inner = ' ' if sp in (1, 3) else ''
    sep = [',', ', ', ' , ', ' ,  '][sp % 4]
    s = sep.join(pr_comp(c, inner) for c in comps)
    if sp >= 2:
        s = ' ' + s + ' '
    return s


def m_exact(c, v):
    if v['maj'] != c['maj']: return False
    if c['min'] is not None and v['min'] != c['min']: return False
    if c['pat'] is not None and v['pat'] != c['pat']: return False
    return pre_cmp_crate(v.get('pre') or [], c.get('pre') or []) == 0


def m_greater(c, v):
    if v['maj'] != c['maj']: return v['maj'] > c['maj']
    if c['min'] is None: return False
    if v['min'] != c['min']: return v['min'] > c['min']
    if c['pat'] is None: return False
    if v['pat'] != c['pat']: return v['pat'] > c['pat']
    return pre_cmp_crate(v.get('pre') or [], c.get('pre') or []) > 0


def m_less(c, v):
    if v['maj'] != c['maj']: return v['maj'] < c['maj']
    if c['min'] is None: return False
    if v['min'] != c['min']: return v['min'] < c['min']
    if c['pat'] is None: return False
    if v['pat'] != c['pat']: return v['pat'] < c['pat']
    return pre_cmp_crate(v.get('pre') or [], c.get('pre') or []) < 0


def m_tilde(c, v):
    if v['maj'] != c['maj']: return False
    if c['min'] is not None and v['min'] != c['min']: return False
    if c['pat'] is not None and v['pat'] != c['pat']: return v['pat'] > c['pat']
    return pre_cmp_crate(v.get('pre') or [], c.get('pre') or []) >= 0


def m_caret(c, v):
    if v['maj'] != c['maj']: return False
    if c['min'] is None: return True
    minor = c['min']
    if c['pat'] is None:
        return v['min'] >= minor if c['maj'] > 0 else v['min'] == minor
    patch = c['pat']
    if c['maj'] > 0:
        if v['min'] != minor: return v['min'] > minor
        if v['pat'] != patch: return v['pat'] > patch
    elif minor > 0:
        if v['min'] != minor: return False
        if v['pat'] != patch: return v['pat'] > patch
    elif v['min'] != minor or v['pat'] != patch:
        return False
    return pre_cmp_crate(v.get('pre') or [], c.get('pre') or []) >= 0


def padded(c):
    d = dict(c)
    d['min'] = c['min'] if c['min'] is not None else 0
    d['pat'] = c['pat'] if c['pat'] is not None else 0
    return d


def spec_comp(c, v):
    """Cargo's (semver crate 1.x) matches_impl with the two deviations meson pins in
    unittests/cargotests.py."""
    op = c['op']
    if op == '*':
        return True if c.get('maj') is None else m_exact(dict(c, pat=None, pre=[]), v)
    if op == '=':
        return m_exact(padded(c), v)                      # deviation 1
    if op == '>':
        return m_greater(padded(c), v)                    # deviation 1
    if op == '>=':
        return m_exact(c, v) or m_greater(c, v)
    if op == '<':
        return m_less(c, v)
    if op == '<=':
        return m_exact(c, v) or m_less(c, v)
    if op == '~':
        return m_tilde(c, v)
    if op in ('^', ''):
        if c['maj'] == 0 and (c['min'] or 0) == 0 and (c['pat'] or 0) == 0:
            return v['maj'] == 0                          # deviation 2: < 1.0.0 (release versions)
        return m_caret(c, v)
    raise ValueError(op)


def api_class(c):
    if c['maj'] != 0:
        return str(c['maj'])
    if c.get('min'):
        return '0.%d' % c['min']
    return '0'


def rel(a, b, c):
    return {'maj': a, 'min': b, 'pat': c, 'pre': []}


def bounds(c):
    """Spec.bounds: the section-11 bounds one comparator stands for in meson"""
    op = c['op']
    if op == '*' and c.get('maj') is None:
        return []
    maj, mn, pt = c['maj'], c.get('min'), c.get('pat')
    cv = {'maj': maj, 'min': mn or 0, 'pat': pt or 0, 'pre': c.get('pre') or []}
    if op == '=': return [('eq', cv)]
    if op == '>': return [('gt', cv)]
    if op == '>=': return [('ge', cv)]
    if op == '<': return [('lt', cv)]
    if op == '<=':
        if cv['pre']:
            return [('le', cv)]
        if mn is None: return [('lt', rel(maj + 1, 0, 0))]
        if pt is None: return [('lt', rel(maj, mn + 1, 0))]
        return [('lt', rel(maj, mn, pt + 1))]
    if op in ('~', '*'):
        return [('ge', cv), ('lt', rel(maj + 1, 0, 0) if mn is None else rel(maj, mn + 1, 0))]
    if op in ('^', ''):
        if maj != 0: up = rel(maj + 1, 0, 0)
        elif cv['min'] != 0: up = rel(0, cv['min'] + 1, 0)
        elif cv['pat'] != 0: up = rel(0, 0, cv['pat'] + 1)
        else: up = rel(1, 0, 0)
        return [('ge', cv), ('lt', up)]
    raise ValueError(op)


def meson_comp(c, v):
    for op, w in bounds(c):
        k = prec_cmp(v, w)
        if not {'lt': k < 0, 'le': k <= 0, 'gt': k > 0, 'ge': k >= 0, 'eq': k == 0}[op]:
            return False
    return True


def spec_release_matches(comps, v):
    return all(spec_comp(c, v) for c in comps)


def split_class(v):
    """The recorded finding C20:prerelease-ident-split: a pre-release identifier after a '.'
    that starts with a digit but is not numeric (or contains '-' after digits) is cut in two."""
    for i in (v.get('pre') or [])[1:]:
        if i[0] == 'a' and i[1][:1].isdigit():
            return True
    return False


OPN = ('lt', 'le', 'eq', 'ne', 'ge', 'gt')


def six(a, b):
    return (a < b, a <= b, a == b, a != b, a >= b, a > b)


def six_of(c):
    return (c < 0, c <= 0, c == 0, c != 0, c >= 0, c > 0)


def oracle(grp):
    fails = []

    def add(kind, **kw):
        if len(fails) < 60:
            fails.append(dict(kind=kind, **kw))

    # (1) SemVer section 11 on structured versions
    vs = grp.get('versions', [])
    ps = [pr_version(v) for v in vs]
    ss = [V.SemVer(p) for p in ps]
    for i, j in itertools.product(range(len(vs)), repeat=2):
        got, exp = six(ss[i], ss[j]), six_of(prec_cmp(vs[i], vs[j]))
        if got != exp:
            add('semver_order', a=ps[i], b=ps[j], expected=dict(zip(OPN, exp)), got=dict(zip(OPN, got)),
                split_class=split_class(vs[i]) or split_class(vs[j]))
    # (2) order axioms on arbitrary version strings
    strs = grp.get('strings', [])
    xs = [V.SemVer(s) for s in strs]
    n = len(xs)
    rel = {}
    for i in range(n):
        for j in range(n):
            lt, le, eq, ne, ge, gt = six(xs[i], xs[j])
            rel[i, j] = (lt, eq, gt, le)
            if (lt, eq, gt).count(True) != 1:
                add('trichotomy', a=strs[i], b=strs[j], lt=lt, eq=eq, gt=gt)
            if le != (lt or eq) or ge != (gt or eq) or ne != (not eq):
                add('consistency', a=strs[i], b=strs[j], lt=lt, le=le, eq=eq, ne=ne, ge=ge, gt=gt)
    for i in range(n):
        for j in range(n):
            if rel[i, j][0] != rel[j, i][2]:
                add('lt_gt_swap', a=strs[i], b=strs[j])
            for k in range(n):
                if rel[i, j][0] and rel[j, k][0] and not rel[i, k][0]:
                    add('lt_transitivity', a=strs[i], b=strs[j], c=strs[k])
                if rel[i, j][3] and rel[j, k][3] and not rel[i, k][3]:
                    add('le_transitivity', a=strs[i], b=strs[j], c=strs[k])
    # (3) requirement x version: Cargo's rule on releases, the gate on pre-releases
    for r in grp.get('reqs', []):
        comps, sp = r['comps'], r.get('sp', 0)
        text = pr_req(comps, sp) if 'text' not in r else r['text']
        f = V.cargo_parse(text)
        names_pre = any(c.get('pre') for c in comps)
        if 'text' not in r:
            # version.api via Dependency.api: x.y.z -> x, 0.x.y -> 0.x, 0.0.x -> 0 over the lower bounds
            cls = {api_class(c) for c in comps if c['op'] in ('>=', '=', '^', '', '~') or (c['op'] == '*' and c.get('maj') is not None)}
            exp_api = '' if not cls else (cls.pop() if len(cls) == 1 else 'EXC:MesonException')
            try:
                got_api = M.Dependency(package='pkg', version=text).api
            except Exception as e:
                got_api = 'EXC:' + type(e).__name__
            if got_api != exp_api:
                add('api', req=text, expected=exp_api, got=got_api)
        for v, p in zip(vs, ps):
            got = f(p)
            if not v.get('pre'):
                exp = spec_release_matches(comps, v)
                if got != exp:
                    add('req_release', req=text, version=p, expected=exp, got=got)
            elif not names_pre:
                if got:
                    add('req_gate', req=text, version=p, expected=False, got=got)
            elif 'text' not in r:
                # a pre-release version against a requirement that names a pre-release: every
                # comparator is a set of bounds in the section 11 order (Spec.meson_matches)
                exp = all(meson_comp(c, v) for c in comps)
                if got != exp and not split_class(v) and not any(split_class(c) for c in comps):
                    add('req_prerelease', req=text, version=p, expected=exp, got=got)
    # (4) cfg() expressions: Boolean meaning
    for c in grp.get('cfg', []):
        text = 'cfg(' + pr_cfg(c['ast'], c.get('sp', 0)) + ')'
        for d in c['assignments']:
            exp = sem(c['ast'], d)
            try:
                got = C.eval_cfg(text, dict(d))
            except Exception as e:
                got = 'EXC:' + type(e).__name__
            if got is not exp:
                add('cfg_eval', expr=text, cfgs=d, expected=exp, got=got)
    # (5) malformed cfg strings: MesonException, nothing else
    for text in grp.get('malformed', []):
        ref = ref_parse(text)
        if ref == 'skip':
            continue
        for d in ({}, {'a': '', 'b': 'x', 'unix': ''}):
            try:
                got = C.eval_cfg('cfg(' + text + ')', dict(d))
            except MesonException as e:
                got = 'EXC:MesonException' if type(e) is MesonException else 'EXC:' + type(e).__name__
            except Exception as e:
                got = 'EXC:' + type(e).__name__
            if ref is None:
                if got != 'EXC:MesonException':
                    add('cfg_malformed', expr='cfg(' + text + ')', cfgs=d, expected='EXC:MesonException', got=got)
            else:
                exp = sem(ref, d)
                if got is not exp:
                    add('cfg_eval', expr='cfg(' + text + ')', cfgs=d, expected=exp, got=got)
    # (6) the caller Interpreter._resolve_package over CargoLock._versions: the most recent accepted entry
    for r in grp.get('resolve', []):
        text = r['text'] if 'text' in r else pr_req(r['comps'], r.get('sp', 0))
        rvs = r['versions']
        rps = [pr_version(v) for v in rvs]
        f = V.cargo_parse(text)
        acc = [i for i, p in enumerate(rps) if f(p)]
        got = resolve(text, rps)
        gv = None if got is None else got.version
        if not acc:
            if gv is not None:
                add('resolve', req=text, versions=rps, expected=None, got=gv)
        elif gv is None or gv not in [rps[i] for i in acc]:
            add('resolve', req=text, versions=rps, expected='an accepted entry', got=gv)
        else:
            g = rvs[rps.index(gv)]
            better = [rps[i] for i in acc if prec_cmp(rvs[i], g) > 0]
            if better and not (split_class(g) or any(split_class(rvs[i]) for i in acc)):
                add('resolve', req=text, versions=rps, expected=better[0], got=gv)
    # (7) the caller Interpreter._get_cfgs: conditions against what rustc printed (a SET of
    #     name / name="value" options, as in the Rust reference) plus --cfg flags
    for c in grp.get('cfgglue', []):
        opts = c['options']                         # [[name, None] | [name, value]]
        lines = [n if v is None else '%s="%s"' % (n, v) for n, v in opts[:c.get('nlines', len(opts))]]
        flags = []
        for n, v in opts[c.get('nlines', len(opts)):]:
            flags += c.get('filler', []) + ['--cfg', n if v is None else '%s="%s"' % (n, v)]
        text = 'cfg(' + pr_cfg(c['ast'], c.get('sp', 0)) + ')'
        exp = sem_opts(c['ast'], opts)
        try:
            got = C.eval_cfg(text, real_get_cfgs(lines, flags))
        except Exception as e:
            got = 'EXC:' + type(e).__name__
        if got is not exp:
            add('cfg_glue', expr=text, rustc_cfg=lines, rust_args=flags, expected=exp, got=got,
                multivalued=multi_valued(c['ast'], opts))
    # (8) one Dependency object under reads and update_version(): every read answers by the
    #     requirement in force
    for r in grp.get('depseq', []):
        obs, ref = run_depseq(r['req'], r['ops'])
        if obs != ref:
            k = next(i for i, (a, b) in enumerate(zip(obs, ref)) if a != b)
            add('dep_state', req=r['req'], ops=r['ops'], read_index=k, expected=ref, got=obs)
    # (9) sessions of _get_cfgs calls: an option is set for a call iff rustc printed it or THIS
    #     (machine, subproject) passed it with --cfg
    for r in grp.get('cfgsession', []):
        lines = [n if v is None else '%s="%s"' % (n, v) for n, v in r['rustc']]
        calls = []
        for c in r['calls']:
            own = r['own'][c['key']]
            flags = []
            for n, v in own:
                flags += r.get('filler', []) + ['--cfg', n if v is None else '%s="%s"' % (n, v)]
            calls.append((c['key'], 'cfg(' + pr_cfg(c['ast'], c.get('sp', 0)) + ')', flags))
        got = run_cfg_session(lines, calls)
        for i, (c, g) in enumerate(zip(r['calls'], got)):
            opts = r['rustc'] + r['own'][c['key']]
            exp = T(sem_opts(c['ast'], opts))
            if g != exp:
                add('cfg_session', rustc_cfg=lines, calls=[[k, e, f] for k, e, f in calls], call_index=i, expected=exp, got=g,
                    multivalued=multi_valued(c['ast'], opts))
                break
    # (10) _prepare_package: a target-specific dependency is required for a machine iff its
    #      condition holds for THAT machine (plus the unconditional ones)
    for r in grp.get('prepare', []):
        targets = [('cfg(' + pr_cfg(t['ast'], 0) + ')', t['deps']) for t in r['targets']]
        hl = [n if v is None else '%s="%s"' % (n, v) for n, v in r['host']]
        bl = [n if v is None else '%s="%s"' % (n, v) for n, v in r['build']]
        got = run_prepare(r['base'], targets, hl, bl, r['calls'])
        seen = set()
        for i, (host, g) in enumerate(zip(r['calls'], got)):
            if host in seen:
                exp = set()
            else:
                opts = r['host'] if host else r['build']
                exp = set(r['base'])
                for t in r['targets']:
                    if sem_opts(t['ast'], opts):
                        exp |= set(t['deps'])
            seen.add(host)
            if isinstance(g, str) or set(g) != exp:
                add('prepare', base=r['base'], targets=targets, host_cfg=hl, build_cfg=bl, calls=['h' if c else 'b' for c in r['calls']],
                    call_index=i, expected=sorted(exp), got=g if isinstance(g, str) else sorted(g),
                    leak=(not isinstance(g, str)) and set(g) > exp and i > 0)
                break
    return fails


def sem_opts(e, opts):
    k = e[0]
    if k == 'id': return any(n == e[1] and v is None for n, v in opts)
    if k == 'eq': return any(n == e[1] and v == e[2] for n, v in opts)
    if k == 'all': return all(sem_opts(x, opts) for x in e[1])
    if k == 'any': return any(sem_opts(x, opts) for x in e[1])
    if k == 'not': return not sem_opts(e[1], opts)
    raise ValueError(k)


def multi_valued(e, opts):
    """does the expression test a key for which rustc printed several different values?"""
    k = e[0]
    if k == 'eq':
        return len({v for n, v in opts if n == e[1]}) > 1
    if k == 'id':
        return False
    if k == 'not':
        return multi_valued(e[1], opts)
    return any(multi_valued(x, opts) for x in e[1])


# cfg AST: ["id", n] | ["eq", n, v] | ["all", [..]] | ["any", [..]] | ["not", e]
def pr_cfg(e, sp=0):
    a = ' ' if sp in (1, 3) else ''          # around '=' and after ','
    b = ' ' if sp in (2, 3) else ''          # inside parentheses
    if sp == 4:
        a, b = '\t', '  '
    k = e[0]
    if k == 'id':
        return e[1]
    if k == 'eq':
        return e[1] + a + '=' + a + '"' + e[2] + '"'
    if k in ('all', 'any'):
        return k + '(' + b + (',' + a).join(pr_cfg(x, sp) for x in e[1]) + b + ')'
    if k == 'not':
        return 'not(' + b + pr_cfg(e[1], sp) + b + ')'
    raise ValueError(k)


def sem(e, d):
    k = e[0]
    if k == 'id': return e[1] in d
    if k == 'eq': return e[1] in d and d[e[1]] == e[2]
    if k == 'all': return all(sem(x, d) for x in e[1])
    if k == 'any': return any(sem(x, d) for x in e[1])
    if k == 'not': return not sem(e[1], d)
    raise ValueError(k)


SEPCH = set('()=,"')


def ref_lex(text):
    """Reference tokenizer of the cfg grammar: blanks separate, ( ) , = are tokens, a string is
    everything between two double quotes, a word is a maximal run of other characters.
    None = unterminated string."""
    out, i, n = [], 0, len(text)
    while i < n:
        c = text[i]
        if c.isspace():
            i += 1
        elif c in '(),=':
            out.append((c, None)); i += 1
        elif c == '"':
            j = text.find('"', i + 1)
            if j < 0:
                return None
            out.append(('str', text[i + 1:j])); i = j + 1
        else:
            j = i
            while j < n and not text[j].isspace() and text[j] not in SEPCH:
                j += 1
            out.append(('word', text[i:j])); i = j
    return out


def ref_parse(text):
    """AST if the text is a well-formed expression, None if it is malformed, 'skip' when an
    identifier is spelled any/all/not (the docstring grammar does not say whether these are
    reserved, so neither answer is asserted)."""
    toks = ref_lex(text)
    if toks is None:
        return None
    pos = [0]
    skip = [False]

    def peek():
        return toks[pos[0]] if pos[0] < len(toks) else (None, None)

    def take():
        t = peek(); pos[0] += 1; return t

    class Bad(Exception):
        pass

    def expr():
        k, v = take()
        if k != 'word':
            raise Bad()
        if v in ('all', 'any', 'not') and peek()[0] == '(':
            take()
            if v == 'not':
                e = expr()
                if take()[0] != ')':
                    raise Bad()
                return ['not', e]
            args = []
            if peek()[0] == ')':
                take()
                return [v, args]
            while True:
                args.append(expr())
                k2, _ = take()
                if k2 == ')':
                    return [v, args]
                if k2 != ',':
                    raise Bad()
        if v in ('all', 'any', 'not'):
            skip[0] = True
        if peek()[0] == '=':
            take()
            k2, s = take()
            if k2 != 'str':
                raise Bad()
            return ['eq', v, s]
        return ['id', v]
    try:
        e = expr()
        if pos[0] != len(toks):
            raise Bad()
    except Bad:
        return 'skip' if skip[0] else None
    return 'skip' if skip[0] else e


def main():
    req = json.load(sys.stdin)
    out = {}
    if 'cases' in req:
        out['results'] = [safe(fn, args) for fn, args in req['cases']]
    if 'oracle' in req:
        out['oracle'] = []
        for grp in req['oracle']:
            try:
                out['oracle'].extend(oracle(grp))
            except Exception as e:
                out['oracle'].append({'kind': 'exception', 'exc': type(e).__name__ + ': ' + str(e), 'group': grp})
    if 'print' in req:       # printers, for the check's generators (so both sides use one printer)
        p = req['print']
        out['print'] = {'versions': [pr_version(v) for v in p.get('versions', [])],
                        'reqs': [pr_req(r['comps'], r.get('sp', 0)) for r in p.get('reqs', [])],
                        'cfg': ['cfg(' + pr_cfg(c['ast'], c.get('sp', 0)) + ')' for c in p.get('cfg', [])]}
    json.dump(out, sys.stdout)


main()
