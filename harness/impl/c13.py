"""In-process adapter for C13: runs mesonbuild.arglist.CompilerArgs / CLikeCompilerArgs /
DCompilerArgs of the tree on PYTHONPATH on cases read from stdin (JSON) and prints canonical
result strings (same rendering as coq/Arglist/Entry.v).

It also hosts the ORACLE: the clauses of the property text evaluated directly on the
implementation's answers, with a plain eager Python list as the reference (no Coq model
involved), including shrinking of a failing input.

Encodings (mirrored in coq/Arglist/Entry.v): a list is the concatenation of its elements each
PREFIXED by \\x02; fields of an operation are separated by \\x01.
A sequence case is  (fn='seq', [cls, flags, ddirs, init, op, op, ...])  with cls in C|B|D,
flags 'G' (GNU-like dynamic linker) or '-', ddirs/init lists, and one string per operation."""
import sys, json, os, re
from unittest import mock

from mesonbuild import arglist
from mesonbuild.arglist import CompilerArgs, Dedup
from mesonbuild.compilers.mixins import clike as clike_mod
from mesonbuild.compilers.mixins.clike import CLikeCompilerArgs
from mesonbuild.compilers.d import DCompilerArgs
from mesonbuild.compilers.c import GnuCCompiler
from mesonbuild.linkers.linkers import GnuBFDDynamicLinker
from mesonbuild.mesonlib import MachineChoice

S1, S2 = '\x01', '\x02'
CLASSES = {'C': CLikeCompilerArgs, 'B': CompilerArgs, 'D': DCompilerArgs}


def pl(s):
    return s.split(S2)[1:]


def rl(l):
    return ''.join(S2 + a for a in l)


_env = mock.MagicMock()
_linker = GnuBFDDynamicLinker([], _env, MachineChoice.HOST, '-Wl,', [])
_CC = {'G': GnuCCompiler([], [], 'fake', MachineChoice.HOST, _env, linker=_linker),
       '-': GnuCCompiler([], [], 'fake', MachineChoice.HOST, _env, linker=None)}


def compiler(flags, ddirs):
    cc = _CC['G' if flags == 'G' else '-']
    dd = list(ddirs)
    cc.get_default_include_dirs = lambda: dd
    return cc


# ------------------------------------------------------------------ running a sequence
def split1(p):
    i = p.index(S1)
    return p[:i], p[i + 1:]


def run_ops(cls, cc, init, ops):
    """Returns the list of observations (strings), the last one being list(x)."""
    x = cls(cc, list(init))
    obs, copies = [], []
    for op in ops:
        k, p = op[0], op[1:]
        o = '-'
        try:
            if k == '+':
                x += pl(p)
            elif k == 'e':
                x.extend(pl(p))
            elif k == 'a':
                x.append(p)
            elif k == 'i':
                o = 'L' + rl(list(x))
            elif k == 'g':
                o = 'L' + rl([x[int(p)]])
            elif k == 's':
                i, v = split1(p)
                x[int(i)] = v
            elif k == 'd':
                del x[int(p)]
            elif k == 'n':
                i, v = split1(p)
                x.insert(int(i), v)
            elif k == 'c':
                y = x.copy()
                copies.append((x, list(x._container)))
                x = y
            elif k == 'C':
                y = type(x)(x.compiler, x)
                copies.append((x, list(x._container)))
                x = y
            elif k == 'l':
                o = 'N%d' % len(x)
            elif k == 'D':
                x.append_direct(p)
            elif k == 'X':
                x.extend_direct(pl(p))
            elif k == 'P':
                x.extend_preserving_lflags(pl(p))
            elif k == 'A':
                x = x + pl(p)
            elif k == 'R':
                x = pl(p) + x
            elif k == 'q':
                o = 'B' + ('T' if x == pl(p) else 'F')
            elif k == 'Q':
                a, b = split1(p)
                y = type(x)(x.compiler, pl(a))
                y += pl(b)
                o = 'B' + ('T' if x == y else 'F')
            elif k == 't':
                o = 'L' + rl(x.to_native())
            elif k == 'T':
                o = 'L' + rl(x.to_native(copy=True))
            elif k == 'm':
                o = 'B' + ('T' if p in x else 'F')
            elif k == 'v':
                x.remove(p)
            elif k == 'z':
                o = 'L' + rl(list(reversed(x)))
            else:
                raise RuntimeError('bad op ' + repr(op))
        except (IndexError, ValueError) as e:
            o = 'E' + type(e).__name__
        obs.append(o)
    obs.append('L' + rl(list(x)))
    # a copy must not share storage with its original: the original still reads as it did
    for orig, snap in copies:
        if list(orig) != snap:
            obs.append('ALIAS')
    return obs


def ev(fn, args):
    if fn == 'seq':
        cls, flags, ddirs, init = args[0], args[1], pl(args[2]), pl(args[3])
        return S1.join(run_ops(CLASSES[cls], compiler(flags, ddirs), init, args[4:]))
    if fn == 'eseq':   # the oracle's eager reference (compared with the Coq spec Arglist/Eager.v)
        cls, flags, ddirs, init = args[0], args[1], pl(args[2]), pl(args[3])
        return S1.join(ref_ops(Ref(CLASSES[cls], flags, ddirs), init, args[4:]))
    if fn == 'cls':
        c = CLASSES[args[0]]
        d = c._can_dedup(args[1])
        return ({Dedup.NO_DEDUP: 'N', Dedup.UNIQUE: 'U', Dedup.OVERRIDDEN: 'O'}[d]
                + ('T' if c._should_prepend(args[1]) else 'F')
                + ('T' if clike_mod.GROUP_FLAGS.search(args[1]) else 'F'))
    if fn == 'tables':
        c = CLASSES[args[0]]
        return S1.join(rl(list(t)) for t in (c.prepend_prefixes, c.dedup2_prefixes, c.dedup2_suffixes, c.dedup2_args,
                                             c.dedup1_prefixes, c.dedup1_suffixes, c.dedup1_args, c.always_dedup_args))
    if fn == 'realpath':
        return os.path.realpath(args[0])
    return '?'


def safe(fn, args):
    try:
        return ev(fn, args)
    except Exception as e:  # an escaping exception is an observable
        return 'EXC:' + type(e).__name__


# ------------------------------------------------------------------ the oracle
# (A) lazy = eager: an eager plain-list reference of the property text, using the argument
#     kinds the implementation itself assigns (cls._can_dedup / cls._should_prepend).
GROUP_RE = re.compile(r'^(?!-Wl,).*\.so(?:\.[0-9]+)?(?:\.[0-9]+)?(?:\.[0-9]+)?$|^(?:-Wl,)?-l|\.a$')
START, END = '-Wl,--start-group', '-Wl,--end-group'


class Ref:
    def __init__(self, cls, flags, ddirs):
        self.cls, self.gnu, self.ddirs = cls, flags == 'G', list(ddirs)
        self.clike = cls is CLikeCompilerArgs

    def kind(self, a):
        return self.cls._can_dedup(a)

    def prep(self, a):
        return self.cls._should_prepend(a)

    def iadd(self, l, b):
        present, bp = list(l), []
        for a in b:
            if self.kind(a) is Dedup.UNIQUE and a in present:
                continue                      # a repeat of a once-only argument is dropped
            bp.append(a)
            if not self.prep(a):
                present.append(a)
        ov = {a for a in bp if self.kind(a) is Dedup.OVERRIDDEN}

        def keep_first(xs):
            seen, out = set(), []
            for a in xs:
                if a in seen:
                    continue
                out.append(a)
                if a in ov:
                    seen.add(a)
            return out
        front = keep_first([a for a in bp if self.prep(a)])             # batch of -I/-L, own order, in front
        back = keep_first([a for a in bp if not self.prep(a)][::-1])[::-1]   # the others, in order, last wins
        return front + [a for a in l if a not in ov] + back

    def append_direct(self, l, a):
        return self.iadd(l, [a]) if a.startswith('/') else l + [a]

    def to_native(self, l):
        """returns (list, ok)"""
        if not self.clike:
            return list(l), True
        l = list(l)
        if self.gnu:
            libs = [i for i, a in enumerate(l) if GROUP_RE.search(a)]
            if len(libs) >= 2:
                l.insert(libs[-1] + 1, END)
                l.insert(libs[0], START)
        if self.ddirs:
            # index-free meaning: drop -isystem<dir> / -isystem=<dir> of a default dir, a bare -isystem
            # whose operand is a default dir, and that operand; keep everything else in order
            real = [os.path.realpath(d) for d in self.ddirs]
            out, operand = [], False
            for i, a in enumerate(l):
                me, nxt = False, False
                if a == '-isystem':
                    if i + 1 < len(l) and os.path.realpath(l[i + 1]) in real:
                        me = nxt = True
                elif a.startswith('-isystem='):
                    me = os.path.realpath(a[9:]) in real
                elif a.startswith('-isystem'):
                    me = os.path.realpath(a[8:]) in real
                if not (operand or me):
                    out.append(a)
                operand = nxt
            l = out
        return l, True


def idx(n, i):
    if 0 <= i < n:
        return i
    if -n <= i < 0:
        return i + n
    return None


def ref_ops(R, init, ops):
    l, obs = list(init), []
    for op in ops:
        k, p = op[0], op[1:]
        o = '-'
        if k in '+e':
            l = R.iadd(l, pl(p))
        elif k == 'a':
            l = R.iadd(l, [p])
        elif k == 'i':
            o = 'L' + rl(l)
        elif k in 'gsd':
            if k == 's':
                i, v = split1(p)
            else:
                i, v = p, None
            j = idx(len(l), int(i))
            if j is None:
                o = 'EIndexError'
            elif k == 'g':
                o = 'L' + rl([l[j]])
            elif k == 's':
                l = l[:j] + [v] + l[j + 1:]
            else:
                l = l[:j] + l[j + 1:]
        elif k == 'n':
            i, v = split1(p)
            l = list(l)
            l.insert(int(i), v)
        elif k in 'cC':
            pass
        elif k == 'l':
            o = 'N%d' % len(l)
        elif k == 'D':
            l = R.append_direct(l, p)
        elif k == 'X':
            for a in pl(p):
                l = R.append_direct(l, a)
        elif k == 'P':
            b = pl(p)
            isl = lambda a: a not in R.cls.always_dedup_args and (a.startswith('-l') or a.startswith('-L'))
            l = R.iadd(l, [a for a in b if not isl(a)])
            for a in b:
                if isl(a):
                    l = R.append_direct(l, a)
        elif k == 'A':
            l = R.iadd(l, pl(p))
        elif k == 'R':
            l = R.iadd(pl(p), l)
        elif k == 'q':
            o = 'B' + ('T' if l == pl(p) else 'F')
        elif k == 'Q':
            a, b = split1(p)
            o = 'B' + ('T' if l == R.iadd(pl(a), pl(b)) else 'F')
        elif k in 'tT':
            n, ok = R.to_native(l)
            o = ('L' + rl(n)) if ok else 'EIndexError'
            if k == 't':
                l = n
        elif k == 'm':
            o = 'B' + ('T' if p in l else 'F')
        elif k == 'v':
            if p in l:
                l = list(l)
                l.remove(p)
            else:
                o = 'EValueError'
        elif k == 'z':
            o = 'L' + rl(l[::-1])
        else:
            raise RuntimeError('bad op ' + repr(op))
        obs.append(o)
    obs.append('L' + rl(l))
    return obs


def seq_fails(args):
    """None if the implementation's observations equal the eager reference's."""
    cls = CLASSES[args[0]]
    flags, ddirs, init, ops = args[1], pl(args[2]), pl(args[3]), args[4:]
    try:
        got = run_ops(cls, compiler(flags, ddirs), init, ops)
    except Exception as e:
        got = ['EXC:' + type(e).__name__]
    try:
        exp = ref_ops(Ref(cls, flags, ddirs), init, ops)
    except Exception as e:     # the implementation's own classifier raised
        exp = ['<no eager meaning: classifier raised %s>' % type(e).__name__]
    return None if got == exp else (exp, got)


def op_variants(op):
    """smaller versions of one operation (drop one element of a list payload)"""
    k, p = op[0], op[1:]
    out = []
    if k in '+eXPARq':
        b = pl(p)
        for i in range(len(b)):
            out.append(k + rl(b[:i] + b[i + 1:]))
    elif k == 'Q':
        a, b = split1(p)
        a, b = pl(a), pl(b)
        for i in range(len(a)):
            out.append(k + rl(a[:i] + a[i + 1:]) + S1 + rl(b))
        for i in range(len(b)):
            out.append(k + rl(a) + S1 + rl(b[:i] + b[i + 1:]))
    return out


def shrink_seq(args):
    """greedy delta-debugging of a failing sequence case: drop operations, initial
    elements, default dirs, elements of batches, while it keeps failing"""
    cur = list(args)
    changed = True
    while changed:
        changed = False
        for i in range(len(cur) - 1, 3, -1):            # drop an operation
            cand = cur[:i] + cur[i + 1:]
            if seq_fails(cand):
                cur, changed = cand, True
        for fld in (3, 2):                                # init list, default dirs
            b = pl(cur[fld])
            for i in range(len(b) - 1, -1, -1):
                cand = list(cur)
                cand[fld] = rl(b[:i] + b[i + 1:])
                if seq_fails(cand):
                    cur, b, changed = cand, pl(cand[fld]), True
        for i in range(4, len(cur)):                      # shrink batches
            again = True
            while again:
                again = False
                for v in op_variants(cur[i]):
                    cand = list(cur)
                    cand[i] = v
                    if seq_fails(cand):
                        cur, changed, again = cand, True, True
                        break
        if cur[1] == 'G':
            cand = list(cur)
            cand[1] = '-'
            if seq_fails(cand):
                cur, changed = cand, True
    return cur


# (B) the contract clauses of one  x += batch  step, on the implementation's own answer.
def kinds_by_text(a):
    """argument kinds the property text names explicitly; None = not named there"""
    for p in ('-I', '-L'):
        if a.startswith(p) and a != p:
            return ('O', True)
    for p in ('-D', '-U', '-isystem'):
        if a.startswith(p) and a != p:
            return ('O', False)
    if a in ('-I', '-L', '-D', '-U', '-isystem'):
        return ('N', False)
    if (a.startswith('-l') and a != '-l') or a == '-pthread' or \
            (a.endswith(('.a', '.so', '.lib', '.dll', '.dylib')) and not a.startswith('-')):
        return ('U', False)
    # a versioned shared library file: [dir/]lib<name>.so.N[.N[.N]]
    if not a.startswith('-') and re.fullmatch(r'(?:[^\n]*/)?lib[^\n/]*\.so(?:\.[0-9]+){1,3}', a):
        return ('U', False)
    return None


def step_clauses(clsname, l, b):
    """clauses of the property text for  x = cls(cc, l); x += b; r = list(x)"""
    cls = CLASSES[clsname]
    x = cls(compiler('-', []), list(l))
    x += list(b)
    r = list(x)
    K = {Dedup.NO_DEDUP: 'N', Dedup.UNIQUE: 'U', Dedup.OVERRIDDEN: 'O'}
    kind = lambda a: K[cls._can_dedup(a)]
    fails = []
    # no argument is lost or invented
    if set(r) != set(l) | set(b):
        fails.append('membership')
    # arguments that cannot be de-duplicated keep their relative order and multiplicity
    # (DCompilerArgs deliberately prepends its never-de-duplicated -L<linker argument>; the property is
    # anchored on the CLike tables, so for D the clause is evaluated on the arguments it appends)
    nd = lambda xs: [a for a in xs if kind(a) == 'N' and not (clsname == 'D' and cls._should_prepend(a))]
    if nd(r) != nd(l) + nd(b):
        fails.append('nodedup_order')
    for a in dict.fromkeys(b):
        k = kind(a)
        if k == 'O':
            # only the highest-precedence occurrence survives: front-most of the -I/-L
            # (in front of everything added earlier), the last of the others (behind it)
            if r.count(a) != 1:
                fails.append('override_single')
            else:
                i = r.index(a)
                if cls._should_prepend(a):
                    bi = b.index(a)
                    if any(not (y in b[:bi] and cls._should_prepend(y)) for y in r[:i]):
                        fails.append('override_front')
                else:
                    bi = len(b) - 1 - b[::-1].index(a)
                    if any(not (y in b[bi + 1:] and not cls._should_prepend(y)) for y in r[i + 1:]):
                        fails.append('override_back')
        elif k == 'U' and not cls._should_prepend(a):
            # a repeat of a once-only argument is dropped
            if r.count(a) != (l.count(a) if a in l else 1):
                fails.append('unique_once')
    # nothing to de-duplicate: the batch's -I/-L in front in their own order, the rest behind in order
    if len(set(l) | set(b)) == len(l) + len(b):
        pre = [a for a in b if cls._should_prepend(a)]
        if r != pre + list(l) + [a for a in b if not cls._should_prepend(a)]:
            fails.append('fresh_batch_placement')
    # the kinds the property text names (CLike tables only)
    if clsname == 'C':
        for a in dict.fromkeys(list(l) + list(b)):
            t = kinds_by_text(a)
            if t is not None and (kind(a), cls._should_prepend(a)) != t:
                fails.append('table_contract')
    return sorted(set(fails)), r


def shrink_step(clsname, l, b, clause):
    l, b = list(l), list(b)
    changed = True
    while changed:
        changed = False
        for which in (0, 1):
            cur = (l, b)[which]
            for i in range(len(cur) - 1, -1, -1):
                cand = cur[:i] + cur[i + 1:]
                nl, nb = (cand, b) if which == 0 else (l, cand)
                if clause in step_clauses(clsname, nl, nb)[0]:
                    if which == 0:
                        l = cand
                    else:
                        b = cand
                    cur, changed = cand, True
    return l, b


def main():
    req = json.load(sys.stdin)
    out = {}
    if 'cases' in req:
        out['results'] = [safe(fn, args) for fn, args in req['cases']]
    if 'oracle_seq' in req:
        # lazy = eager on every sequence case; failing ones are shrunk (at most `shrink_max`)
        fails, nshrunk = [], 0
        total = 0
        for n, args in enumerate(req['oracle_seq']):
            f = seq_fails(args)
            if not f:
                continue
            total += 1
            if nshrunk < req.get('shrink_max', 40):
                nshrunk += 1
                small = shrink_seq(args)
                exp, got = seq_fails(small)
                fails.append({'kind': 'lazy_vs_eager', 'index': n, 'case': ['seq', small], 'eager_meaning': exp,
                              'implementation': got, 'original': ['seq', args]})
        out['oracle_seq'] = {'failing': total, 'shrunk': fails}
    if 'oracle_step' in req:
        fails, seen, total = [], set(), 0
        for clsname, l, b in req['oracle_step']:
            try:
                fs, r = step_clauses(clsname, l, b)
            except Exception as e:
                fs, r = ['exception:' + type(e).__name__], None
            for clause in fs:
                total += 1
                if len(seen) >= req.get('shrink_max', 40):
                    continue
                if clause.startswith('exception'):
                    sl, sb = l, b
                else:
                    sl, sb = shrink_step(clsname, l, b, clause)
                    r = step_clauses(clsname, sl, sb)[1]
                key = (clsname, clause, tuple(sl), tuple(sb))
                if key in seen:
                    continue
                seen.add(key)
                fails.append({'kind': clause, 'cls': clsname, 'list': sl, 'batch': sb, 'implementation': r})
        out['oracle_step'] = {'failing': total, 'shrunk': fails}
    json.dump(out, sys.stdout)


main()
