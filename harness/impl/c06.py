"""In-process adapter for C06: runs the real writers of mesonbuild on cases read from stdin
(JSON) and prints canonical result strings (same rendering as coq/Determ/Entry.v).
Also hosts the in-process oracle: the property's clauses (same input, any set iteration
order / hash seed => same bytes; equal content => file and mtime untouched) evaluated on the
implementation's own answers, no model involved."""
import sys, json, io, os, tempfile, shutil, copy, hashlib

from mesonbuild.utils import universal as U
from mesonbuild.utils.core import EnvironmentVariables
from mesonbuild.backend import ninjabackend as NB
from mesonbuild import options as O, mintro, coredata as CD
from mesonbuild.options import OptionKey

SEP1, SEP2, MARK = '\x01', '\x02', '\x03'


def lst(s):
    return s.split(SEP2) if s else []


def mk_element(rule, outs, imp, ins):
    e = NB.NinjaBuildElement(set(), list(outs), rule, list(ins), implicit_outs=list(imp))
    if rule != 'phony':
        e.rule = NB.NinjaRule(rule, ['true'], [], 'desc')
    return e


def build_line(e):
    buf = io.StringIO()
    e.write(buf)
    out = buf.getvalue()
    assert out.endswith('\n\n') and out.count('\n') == 2, out
    return out[:-1]


class FakeHasher:
    def __init__(self):
        self.data = b''

    def update(self, b):
        self.data += bytes(b)


class FakeCompiler:
    """what CoreData.process_compiler_options needs from a compiler"""
    language = 'c'

    def __init__(self, base_options):
        self.base_options = base_options
        self.for_machine = U.MachineChoice.HOST

    def get_options(self):
        return {}

    def init_from_options(self):
        pass


def new_coredata(pre):
    cd = CD.CoreData.__new__(CD.CoreData)
    cd.cross_files = []
    cd.optstore = O.OptionStore(False)
    for name in ('c_args', 'c_link_args'):
        cd.optstore.add_compiler_option('c', OptionKey(name), O.UserStringArrayOption(name, 'd', []))
    for n in pre:
        cd.optstore.add_system_option(OptionKey(n), copy.deepcopy(O.COMPILER_BASE_OPTIONS[OptionKey(n)]))
    return cd


def base_section(cd):
    return [o['name'] for o in mintro._list_buildoptions(cd) if o['section'] == 'base']


def base_table():
    return sorted(k.name for k in O.COMPILER_BASE_OPTIONS)


def run_base(sub, order_keys, pre):
    cd = new_coredata(pre)
    cd.process_compiler_options('c', FakeCompiler(order_keys), sub)
    return base_section(cd)


# ---------------------------------------------------------------- file system programs
class FsRun:
    def __init__(self):
        self.root = tempfile.mkdtemp(prefix='mverif-C06-fs-', dir=os.environ.get('TMPDIR') or '/var/tmp')
        self.clock = 0

    def p(self, rel):
        return os.path.join(self.root, rel)

    def stamp(self, rel):
        os.utime(self.p(rel), ns=(self.clock, self.clock))
        self.clock += 1

    def write(self, rel, content):
        os.makedirs(os.path.dirname(self.p(rel)), exist_ok=True)
        with open(self.p(rel), 'w', encoding='utf-8', newline='') as f:
            f.write(content)
        self.stamp(rel)

    def step(self, op):
        f = op.split(SEP1)
        k = f[0]
        if k == 'w':
            self.write(f[1], f[2] if len(f) > 2 else '')
        elif k == 'r':
            U.replace_if_different(self.p(f[1]), self.p(f[2]))
        elif k == 'c':
            self.write(f[1] + '~', f[2] if len(f) > 2 else '')
            U.replace_if_different(self.p(f[1]), self.p(f[1] + '~'))
        elif k == 'n':
            self.write(f[1] + '~', f[2] if len(f) > 2 else '')
            os.replace(self.p(f[1] + '~'), self.p(f[1]))
        elif k == 'u':
            os.unlink(self.p(f[1]))
        elif k == 'm':
            os.replace(self.p(f[1]), self.p(f[2]))
        elif k == 'i':
            items = lst(f[2]) if len(f) > 2 else []
            prs = [(items[i], items[i + 1]) for i in range(0, len(items) - 1, 2)]
            d = self.p(f[1])
            os.makedirs(d, exist_ok=True)
            # the real writer: out file is <dir>/intro-<kind>.json, content json.dumps(data, indent=2)
            info = []
            for out, c in prs:
                assert out.startswith(f[1] + '/intro-') and out.endswith('.json'), out
                info.append((out[len(f[1]) + 7:-5], int(c)))
            mintro.write_intro_info(info, d)
            for out, c in prs:      # stamp in writing order (the logical clock of the model)
                os.utime(self.p(out), ns=(self.clock, self.clock))
                self.clock += 1
        else:
            raise RuntimeError('bad op')

    def render(self):
        rows = []
        for root, dirs, files in os.walk(self.root):
            for fn in files:
                full = os.path.join(root, fn)
                rel = os.path.relpath(full, self.root)
                with open(full, encoding='utf-8', newline='') as f:
                    data = f.read()
                rows.append((rel, data, os.stat(full).st_mtime_ns))
        rows.sort()
        return SEP2.join('%s=%s@%d' % r for r in rows)

    def close(self):
        shutil.rmtree(self.root, ignore_errors=True)


def run_fs(ops):
    r = FsRun()
    try:
        for op in ops:
            try:
                r.step(op)
            except FileNotFoundError:
                return 'EXC:FileNotFoundError' + SEP1 + r.render()
        return r.render()
    finally:
        r.close()


def run_oset(ops):
    s = U.OrderedSet()
    for op in ops:
        k, v = op[:1], op[1:]
        if k == 'a':
            s.add(v)
        elif k == 'd':
            s.discard(v)
        elif k == 'u':
            s.update(lst(v))
        elif k == 'x':
            s.difference_update(lst(v))
        elif k == 'f':
            s = s.difference(set(lst(v)))
        elif k == 'm':
            s.move_to_end(v)
        elif k == 'p':
            s.pop()
        else:
            return '?'
    return SEP2.join(s)


def ev(fn, args):
    if fn == 'nline':
        rule, outs, imp, ins, deps, odeps = args
        e = mk_element(rule, lst(outs), lst(imp), lst(ins))
        e.deps = lst(deps)            # the iteration order, made explicit
        e.orderdeps = lst(odeps)
        return build_line(e)
    if fn == 'sorted':
        return SEP2.join(sorted(args))
    if fn == 'uniq':
        return SEP2.join(U.unique_list(args))
    if fn == 'oset':
        return run_oset(args)
    if fn == 'envhash':
        env = EnvironmentVariables()
        for i in range(0, len(args) - 1, 2):
            env.set(args[i], [args[i + 1]])
        h = FakeHasher()
        env.hash(h)
        return h.data.decode('utf-8')
    if fn == 'base':
        table, sub, order, pre = args
        assert lst(table) == base_table(), 'table'
        return SEP2.join(run_base(sub, [OptionKey(n) for n in lst(order)], lst(pre)))
    if fn in ('pcreqs', 'pcdedup'):
        from mesonbuild.modules.pkgconfig import DependenciesHelper
        h = DependenciesHelper(None, 'n', {})
        if fn == 'pcreqs':
            for e in args[2:]:
                f = e.split(SEP1)
                h.add_version_reqs(f[0], lst(f[1]) if len(f) > 1 else [])
            out = ''
            r = h.format_reqs(lst(args[0]))
            if r:
                out += 'Requires: %s\n' % r
            r = h.format_reqs(lst(args[1]))
            if r:
                out += 'Requires.private: %s\n' % r
            return out
        h.link_whole_targets = lst(args[0])
        h.pub_reqs, h.pub_libs, h.priv_reqs, h.priv_libs, h.cflags, h.cflags_private = [lst(a) for a in args[1:7]]
        h.remove_dups()
        return SEP1.join(SEP2.join(x) for x in (h.pub_reqs, h.pub_libs, h.priv_reqs, h.priv_libs, h.cflags, h.cflags_private))
    if fn == 'depfile':
        from mesonbuild import depfile as DF
        lines = []
        for r in args[1:]:
            f = r.split(SEP1)
            lines.append('%s: %s\n' % (' '.join(lst(f[0])), ' '.join(lst(f[1]) if len(f) > 1 else [])))
        return SEP2.join(DF.DepFile(lines).get_all_dependencies(args[0]))
    if fn == 'fs':
        return run_fs(args)
    return '?'


def safe(fn, args):
    try:
        return ev(fn, args)
    except Exception as e:      # an escaping exception is an observable (class only)
        return 'EXC:' + type(e).__name__


# ---------------------------------------------------------------- oracle
def exe_wrapper_name(ops, cmd, capture, feed):
    """The real Backend.as_meson_exe_cmdline (digest naming of the pickled wrapper and the glue
    around it) on a stub backend: returns the command line with the scratch directory masked."""
    from mesonbuild.backend.backends import Backend
    from mesonbuild.utils.core import ExecutableSerialisation
    scratch = tempfile.mkdtemp(prefix='mverif-C06-exe-', dir=os.environ.get('TMPDIR') or '/var/tmp')

    class Env:
        def get_scratch_dir(self):
            return scratch

        def get_build_dir(self):
            return '/b'

        def get_build_command(self):
            return ['meson']

    class B(Backend):
        def __init__(self):
            self.environment = Env()

        def get_executable_serialisation(self, cmd, workdir=None, extra_bdeps=None, capture=None, feed=None, env=None,
                                         can_use_rsp_file=False, separator=' ', rsp_file_flag='@', tag=None, verbose=False,
                                         installdir_map=None):
            return ExecutableSerialisation(list(cmd), env, None, workdir or '/b', [], capture, feed, tag, verbose, installdir_map)
    try:
        env = EnvironmentVariables()
        for op in ops:
            if op[0] == 'unset':
                env.unset(op[1])
            else:
                getattr(env, op[0])(op[1], list(op[2]), op[3])
        cmdline, reason = B().as_meson_exe_cmdline(cmd[0], cmd[1:], capture=capture, feed=feed, env=env)
        return SEP2.join(c.replace(scratch, '<scratch>') for c in cmdline) + SEP1 + reason
    finally:
        shutil.rmtree(scratch, ignore_errors=True)


def oracle_sets(groups):
    """Real Python sets, filled in the given insertion orders: every writer must produce the
    same bytes for every insertion order (and, because this adapter is run under several
    PYTHONHASHSEED values and the answers are compared by the caller, for every seed).
    Returns {'answers': [...], 'fails': [...]}."""
    answers, fails = [], []
    for g in groups:
        kind = g['kind']
        outs = []
        for order in g['orders']:
            try:
                if kind == 'ninja':
                    e = mk_element(g['rule'], g['outs'], [], g['ins'])
                    half = len(order) // 2
                    e.add_dep(list(order[:half]))
                    for d in order[half:]:
                        e.add_dep(d)
                    for d in reversed(order):
                        e.add_orderdep(d)
                    outs.append(build_line(e))
                elif kind == 'base':
                    s = set()
                    for n in order:
                        s.add(OptionKey(n))
                    outs.append(SEP2.join(run_base(g['sub'], s, g['pre'])))
                elif kind == 'envhash':
                    env = EnvironmentVariables()
                    for k, v in order:
                        env.set(k, [v])
                    h = FakeHasher()
                    env.hash(h)
                    outs.append(h.data.decode())
                elif kind == 'pcreqs':
                    outs.append(ev('pcreqs', [SEP2.join(g['pub']), SEP2.join(g['priv'])] + list(order)))
                elif kind == 'depfile':
                    outs.append(ev('depfile', [g['name']] + list(order)))
                elif kind == 'exedigest':
                    outs.append(exe_wrapper_name(order, g['cmd'], g.get('capture'), g.get('feed')))
                elif kind == 'uniq':
                    # same sequence in every order slot: only the hash seed varies
                    outs.append(SEP2.join(U.unique_list(g['seq'])) + SEP1 + SEP2.join(U.OrderedSet(g['seq'])))
                elif kind == 'oset_diff':
                    s = U.OrderedSet(g['base'])
                    a = s.difference(set(order))
                    s.difference_update(set(order))
                    outs.append(SEP2.join(a) + SEP1 + SEP2.join(s))
                else:
                    outs.append('?')
            except Exception as e:
                outs.append('EXC:' + type(e).__name__)
        answers.append(outs[0] if outs else '')
        for o, order in zip(outs, g['orders']):
            if o != outs[0]:
                fails.append({'kind': kind + ':insertion-order', 'group': g, 'order_a': g['orders'][0], 'order_b': order,
                              'output_a': outs[0], 'output_b': o})
                break
    return {'answers': answers, 'fails': fails}


def oracle_replace(cases):
    """replace_if_different / do_conf_file / dump_conf_header on a real directory:
    equal content => same inode data, same mtime, temporary gone; different => new content,
    temporary gone."""
    from mesonbuild import build
    fails = []
    root = tempfile.mkdtemp(prefix='mverif-C06-or-', dir=os.environ.get('TMPDIR') or '/var/tmp')
    try:
        for n, c in enumerate(cases):
            d = os.path.join(root, 'c%d' % n)
            os.makedirs(d)
            dst = os.path.join(d, 'out.h')
            kind = c['kind']

            def produce(payload):
                if kind == 'rid':
                    with open(dst + '~', 'w', encoding='utf-8', newline='') as f:
                        f.write(payload)
                    U.replace_if_different(dst, dst + '~')
                elif kind == 'header':
                    cd = build.ConfigurationData({k: (v, None) for k, v in payload})
                    U.dump_conf_header(dst, cd, c.get('format', 'c'), None)
                elif kind == 'conf':
                    src = os.path.join(d, 'in.h.in')
                    with open(src, 'w', encoding='utf-8', newline='') as f:
                        f.write(c['template'])
                    cd = build.ConfigurationData({k: (v, None) for k, v in payload})
                    U.do_conf_file(src, dst, cd, 'meson')
            try:
                produce(c['first'])
                os.utime(dst, ns=(1000, 1000))
                st1 = os.stat(dst)
                data1 = open(dst, 'rb').read()
                produce(c['second'])
                st2 = os.stat(dst)
                data2 = open(dst, 'rb').read()
                left = sorted(x for x in os.listdir(d) if x not in ('out.h', 'in.h.in'))
                same_input = c['first'] == c['second']
                why = None
                if left:
                    why = 'temporary file left behind: %s' % left
                elif same_input and data1 != data2:
                    why = 'same input, different bytes'
                elif data1 == data2 and (st2.st_mtime_ns != st1.st_mtime_ns or st2.st_ino != st1.st_ino):
                    why = 'content unchanged but the file was touched (mtime/inode changed)'
                elif kind == 'rid' and data2 != c['second'].encode('utf-8'):
                    why = 'content not replaced by the new content'
                if why:
                    fails.append({'kind': 'replace:' + kind, 'case': c, 'why': why})
            except Exception as e:
                fails.append({'kind': 'replace:' + kind, 'case': c, 'why': 'EXC:' + type(e).__name__})
    finally:
        shutil.rmtree(root, ignore_errors=True)
    return fails


def coverage(texts):
    """functions / methods and keyword arguments used by the generated build files (parsed with the
    real parser), and the interpreter's function table for the gap list"""
    import re
    from mesonbuild import mparser
    from mesonbuild.ast import AstVisitor
    used = {}

    class V(AstVisitor):
        def note(self, name, args):
            kws = used.setdefault(name, set())
            for k in args.kwargs:
                kws.add(getattr(k, 'value', '?'))

        def visit_FunctionNode(self, node):
            self.note(node.func_name.value, node.args)
            super().visit_FunctionNode(node)

        def visit_MethodNode(self, node):
            self.note('.' + node.name.value, node.args)
            super().visit_MethodNode(node)
    bad = 0
    for t in texts:
        try:
            mparser.Parser(t, '').parse().accept(V())
        except Exception:
            bad += 1
    src = open(os.path.join(os.path.dirname(mintro.__file__), 'interpreter', 'interpreter.py'), encoding='utf-8').read()
    table = sorted(set(re.findall(r"^\s+'(\w+)': self\.func_\w+,", src, re.M)))
    return {'used': {k: sorted(v) for k, v in sorted(used.items())}, 'interpreter_functions': table, 'unparsed': bad}


def main():
    req = json.load(sys.stdin)
    out = {}
    if 'coverage' in req:
        out['coverage'] = coverage(req['coverage'])
    if 'cases' in req:
        out['results'] = [safe(fn, args) for fn, args in req['cases']]
    if 'table' in req:
        out['table'] = base_table()
    if 'oracle_sets' in req:
        out['oracle_sets'] = oracle_sets(req['oracle_sets'])
    if 'oracle_replace' in req:
        out['oracle_replace'] = oracle_replace(req['oracle_replace'])
    json.dump(out, sys.stdout)


if __name__ == '__main__':
    main()
