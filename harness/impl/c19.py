"""In-process adapter for C19: runs mesonbuild.utils.universal on cases read from stdin
(JSON) and prints canonical result strings (same rendering as coq/Version/Entry.v)."""
import sys, json, operator, itertools
from mesonbuild.utils import universal as U

SEP1, SEP2, MARK, SEP4 = '\x01', '\x02', '\x03', '\x04'
T = lambda b: 'T' if b else 'F'


def r_ver(v):
    return '.'.join(str(c) for c in v._v)


def r_over(v):
    return '-' if v is None else 'V' + r_ver(v)


def r_range(r):
    return SEP1.join([r_over(r.min), T(r.min_eq), r_over(r.max), T(r.max_eq), T(r.is_empty)])


def r_obool(o):
    return 'N' if o is None else T(o)


def ev(fn, args):
    if fn == 'tok':
        return r_ver(U.Version(args[0]))
    if fn == 'cmp':
        a, b = U.Version(args[0]), U.Version(args[1])
        res = ''.join(T(x) for x in (a < b, a <= b, a == b, a != b, a >= b, a > b))
        if a == b and hash(a) != hash(b):
            res += 'HASH'
        return res
    if fn == 'vc':
        return T(U.version_compare(args[0], args[1]))
    if fn == 'many':
        conds = list(args[1:])
        if len(conds) == 1 and len(args[0]) % 2 == 0:
            conds = conds[0]          # the `conditions: str` form of the signature
        ok, nf, f = U.version_compare_many(args[0], conds)
        return SEP1.join([T(ok), SEP2.join(nf), SEP2.join(f)])
    if fn == 'range':
        r = U.version_check_to_range(list(args[1:]))
        return SEP1.join([r_range(r), T(U.Version(args[0]) in r)])
    if fn == 'isect':
        rest = list(args[1:])
        k = rest.index(MARK) if MARK in rest else len(rest)
        a = U.version_check_to_range(rest[:k])
        b = U.version_check_to_range(rest[k + 1:])
        i = a.intersect(b)
        return SEP1.join([r_range(i), T(U.Version(args[0]) in i), r_obool(a.always(b))])
    if fn == 'cwm':
        return T(U.version_compare_condition_with_min(args[0], args[1]))
    if fn == 'sweep':
        return ''.join(class_char(c) for c in range(int(args[0]), int(args[0]) + int(args[1])))
    if fn == 'search':
        return U.search_version(args[0])
    if fn == 'fnorm':
        return decorators().FeatureNew('n', args[0]).feature_version
    if fn == 'feat':
        return SEP4.join(feat(args))
    return '?'


def class_char(c):
    """One code point as Version's tokenizer (re \\d / [a-zA-Z], int()) and str.strip() see it."""
    ch = chr(c)
    v = U.Version('1' + ch + '1')._v
    if len(v) == 1 and isinstance(v[0], int) and v[0] in range(101, 200, 10):
        return chr(48 + (v[0] - 101) // 10)
    if len(v) == 3 and v[0] == 1 and v[2] == 1 and v[1] == ch:
        return 'a'
    if v == (1, 1):
        return 's' if ch.strip() == '' else '-'
    return '?'


_D = None


def decorators():
    global _D
    if _D is None:
        import mesonbuild.interpreterbase.decorators as D
        _D = D
    return _D


def fields(s):
    return s.split(SEP2) if s else []


def feat_setup(major, tvk, pv, conds):
    """project(meson_version: pv) followed by nested `if meson.version().version_compare(*cs)` blocks:
    interpreter.py:549 and interpreterbase.py:319-325 (the three glue lines are repeated here, every
    function they call is the real one).  Returns (range, always-answers)."""
    D = decorators()
    D.coredata.version = major + '.99.0'
    prev = U.version_check_to_range([pv])
    top = prev
    alw = ''
    for cs in conds:
        tmp = U.version_check_to_range(list(cs))
        alw += r_obool(prev.always(tmp))
        prev = prev.intersect(tmp)
    U.project_meson_versions.pop('sub', None)
    if tvk == 'R':
        U.project_meson_versions['sub'] = prev
    elif tvk == 'V':
        U.project_meson_versions['sub'] = U.NoProjectVersion()
    return prev, alw


def report_headings(cls, logs):
    """Run the real report() and return {version: 'T' (notice heading) | 'F' (warning heading)}."""
    del logs[:]
    cls.report('sub')
    out = {}
    for kind, text in logs:
        for item in text.split('\n * ')[1:]:
            out[item.split(': {', 1)[0]] = 'T' if kind == 'N' else 'F'
    return out


def feat(args, want_logs=False):
    D = decorators()
    kind, major, tvk, pv = args[:4]
    rest = list(args[4:])
    k = rest.index(MARK)
    conds = [fields(c) for c in rest[:k]]
    uses = [fields(u) for u in rest[k + 1:]]
    cls = {'new': D.FeatureNew, 'dep': D.FeatureDeprecated, 'brk': D.FeatureBroken}[kind]
    logs = []
    saved = (D.mlog.warning, D.mlog.notice, D.coredata.version, D.mlog.deprecation)
    D.mlog.warning = lambda *a, **kw: logs.append(('W', ' '.join(str(x) for x in a)))
    D.mlog.deprecation = D.mlog.warning       # FeatureBroken.log_usage_warning
    D.mlog.notice = lambda *a, **kw: logs.append(('N', ' '.join(str(x) for x in a)))
    try:
        r, alw = feat_setup(major, tvk, pv, conds)
        cls.feature_registry.clear()
        ws = ''
        for name, ver, loc in uses:
            n0 = len(logs)
            cls.single_use(name, ver, 'sub', location=loc)
            ws += T(len(logs) > n0)
        reg = cls.feature_registry.get('sub', {})
        regs = ''.join(T((name, loc) in reg.get(ver, set())) for name, ver, loc in uses)
        heads = report_headings(cls, logs)
        rep = ''.join(heads.get(ver, '?') if (name, loc) in reg.get(ver, set()) else '-' for name, ver, loc in uses)
        return [r_range(r), alw, ws, regs, rep]
    finally:
        D.mlog.warning, D.mlog.notice, D.coredata.version, D.mlog.deprecation = saved
        cls.feature_registry.clear()
        U.project_meson_versions.pop('sub', None)


def safe(fn, args):
    try:
        return ev(fn, args)
    except Exception as e:  # an escaping exception is an observable
        return 'EXC:' + type(e).__name__


OPS = {'<': operator.lt, '<=': operator.le, '==': operator.eq, '!=': operator.ne, '>=': operator.ge, '>': operator.gt}


def oracle(strings, checklists):
    """The property's own clauses evaluated on the implementation (no model involved).
    Returns a list of failures, each with the concrete input."""
    fails = []
    vs = [U.Version(s) for s in strings]
    n = len(vs)

    def add(kind, **kw):
        if len(fails) < 50:
            fails.append(dict(kind=kind, **kw))
    rel = {}
    for i in range(n):
        for j in range(n):
            a, b = vs[i], vs[j]
            lt, le, eq, ne, ge, gt = a < b, a <= b, a == b, a != b, a >= b, a > b
            rel[i, j] = (lt, eq, gt, le)
            if (lt, eq, gt).count(True) != 1:
                add('trichotomy', a=strings[i], b=strings[j], lt=lt, eq=eq, gt=gt)
            if le != (lt or eq) or ge != (gt or eq) or ne != (not eq):
                add('consistency', a=strings[i], b=strings[j], lt=lt, le=le, eq=eq, ne=ne, ge=ge, gt=gt)
            if eq and hash(a) != hash(b):
                add('hash', a=strings[i], b=strings[j])
            for sp, f in (('<', lt), ('<=', le), ('==', eq), ('=', eq), ('!=', ne), ('>=', ge), ('>', gt), ('', eq)):
                w = strings[j]
                if w[:1] in '<>=!' and w[:1] != '':
                    continue
                if U.version_compare(strings[i], sp + w) != (OPS.get(sp, operator.eq)(a, U.Version(w.strip()))):
                    add('version_compare', v=strings[i], c=sp + w)
    # numeric components compare numerically and rank above alphabetic ones; a longer version with an
    # equal prefix is greater (the digit notion is str.isdecimal()/int(), not the tokenizer's regex)
    for i in range(n):
        for j in range(n):
            a, b = strings[i], strings[j]
            if a and b and a.isdecimal() and b.isdecimal() and len(a) <= 4300 and len(b) <= 4300:
                want = (int(a) < int(b), int(a) == int(b), int(a) > int(b))
                if rel[i, j][:3] != want:
                    add('numeric_numerically', a=a, b=b)
                for pre in ('1.', 'x', '0-'):
                    va, vb = U.Version(pre + a), U.Version(pre + b)
                    if (va < vb, va == vb, va > vb) != want:
                        add('numeric_numerically', a=pre + a, b=pre + b)
            if a and b and a.isascii() and a.isalpha() and b.isdecimal():
                if not rel[i, j][0] or not (U.Version('1.' + a) < U.Version('1.' + b)):
                    add('numeric_above_alpha', a=a, b=b)
            if b and U.Version(b)._v:
                for sep in ('.', '-', ' '):
                    if not (vs[i] < U.Version(a + sep + b)):
                        add('longer_is_greater', a=a, b=a + sep + b)
    for i in range(n):
        for j in range(n):
            if rel[i, j][0] != rel[j, i][2]:
                add('lt_gt_swap', a=strings[i], b=strings[j])
            for k in range(n):
                if rel[i, j][0] and rel[j, k][0] and not rel[i, k][0]:
                    add('lt_transitivity', a=strings[i], b=strings[j], c=strings[k])
                if rel[i, j][3] and rel[j, k][3] and not rel[i, k][3]:
                    add('le_transitivity', a=strings[i], b=strings[j], c=strings[k])
                if rel[i, j][1] and rel[j, k][1] and not rel[i, k][1]:
                    add('eq_transitivity', a=strings[i], b=strings[j], c=strings[k])

    def sat(x, c):
        op, w = U._version_extract_cmpop(c)
        return op(x, U.Version(w))
    ranges = []
    for cl in checklists:
        r = U.version_check_to_range(list(cl))
        ranges.append(r)
        ok, nf, f = U.version_compare_many(strings[0], list(cl)) if strings else (True, [], [])
        if strings:
            each = [U.version_compare(strings[0], c) for c in cl]
            if ok != all(each) or f != [c for c, e in zip(cl, each) if e] or nf != [c for c, e in zip(cl, each) if not e]:
                add('compare_many', v=strings[0], conditions=list(cl))
        for s, x in zip(strings, vs):
            allsat = all(sat(x, c) for c in cl)
            non_ne = all(sat(x, c) for c in cl if U._version_extract_cmpop(c)[0] is not operator.ne)
            if allsat and x not in r:
                add('check_to_range_sound', checks=list(cl), x=s)
            if (x in r) and not non_ne:
                add('check_to_range_complete', checks=list(cl), x=s)
    for (ia, a), (ib, b) in itertools.product(enumerate(ranges), repeat=2):
        i = a.intersect(b)
        al = a.always(b)
        for s, x in zip(strings, vs):
            if (x in i) != ((x in a) and (x in b)):
                add('intersect', a=list(checklists[ia]), b=list(checklists[ib]), x=s)
            if al is True and (x in a) and not (x in b):
                add('always_true', a=list(checklists[ia]), b=list(checklists[ib]), x=s)
            if al is False and (x in a) and (x in b):
                add('always_false', a=list(checklists[ia]), b=list(checklists[ib]), x=s)
    return fails


def feature_oracle(g):
    """End-to-end clauses about FeatureNew/FeatureDeprecated evaluated on the real decorators (no model):
    a suppressed FeatureNew warning means every admitted version is >= the feature version; under
    meson_version '>=W' the warning appears iff the feature version is > W; a FeatureDeprecated warning means
    every admitted version is >= the deprecation; report() lists a feature under the warning heading iff its
    usage warning was printed."""
    D = decorators()
    fails = []

    def add(kind, **kw):
        if len(fails) < 20:
            fails.append(dict(kind=kind, **kw))

    def sat(x, c):
        op, w = U._version_extract_cmpop(c)
        return op(U.Version(x), U.Version(w))
    conds = [list(c) for c in g['conds']]
    for pv in g['pvs']:
        for fv in g['fvers']:
            for kind, cls in (('new', D.FeatureNew), ('dep', D.FeatureDeprecated)):
                args = [kind, g['major'], 'R', pv] + [SEP2.join(c) for c in conds] + [MARK, SEP2.join(['f', fv, ''])]
                _, _, ws, regs, rep = feat(args)
                warned = ws == 'T'
                norm = cls('f', fv).feature_version
                admitted = [x for x in g['xs'] if sat(x, pv) and all(sat(x, c) for cs in conds for c in cs)]
                small = dict(major=g['major'], pvs=[pv], conds=conds, fvers=[fv])
                if (kind == 'new' and not warned) or (kind == 'dep' and warned):
                    for x in admitted:
                        if not U.Version(x) >= U.Version(norm):
                            add('feature_%s_sound' % kind, pv=pv, conds=conds, feature_version=fv, x=x, group=dict(small, xs=[x]))
                if kind == 'new' and not conds and pv.startswith('>=') and pv[2:3] not in ('<', '>', '=', '!'):
                    if warned != (U.Version(norm) > U.Version(pv[2:].strip())):
                        add('feature_new_ge_exact', pv=pv, feature_version=fv, warned=warned, group=dict(small, xs=[]))
                if regs == 'T' and rep != ('F' if warned else 'T'):
                    f = dict(pv=pv, conds=conds, feature_version=fv, cls=kind, warned=warned, heading=rep, group=dict(small, xs=[]))
                    tv = feat_setup(g['major'], 'R', pv, conds)[0]
                    if fv != norm and cls.check_version(tv, norm) == (not warned):
                        f['ident'] = 'C19:report-unnormalised-version'
                    add('report_heading', **f)
    return fails


def main():
    req = json.load(sys.stdin)
    out = {}
    if 'cases' in req:
        out['results'] = [safe(fn, args) for fn, args in req['cases']]
    if 'oracle' in req:
        out['oracle'] = []
        for grp in req['oracle']:
            try:
                out['oracle'].extend(oracle(grp['strings'], grp['checklists']))
            except Exception as e:
                out['oracle'].append({'kind': 'exception', 'exc': type(e).__name__ + ': ' + str(e),
                                      'strings': grp['strings'], 'checklists': grp['checklists']})
    if 'feature_oracle' in req:
        out['feature_oracle'] = []
        for grp in req['feature_oracle']:
            try:
                out['feature_oracle'].extend(feature_oracle(grp))
            except Exception as e:
                out['feature_oracle'].append({'kind': 'exception', 'exc': type(e).__name__ + ': ' + str(e), 'group': grp})
    json.dump(out, sys.stdout)


main()
