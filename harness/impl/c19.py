"""In-process adapter for C19: runs mesonbuild.utils.universal on cases read from stdin
(JSON) and prints canonical result strings (same rendering as coq/Version/Entry.v)."""
import sys, json, operator, itertools
from mesonbuild.utils import universal as U

SEP1, SEP2, MARK = '\x01', '\x02', '\x03'
T = lambda b: 'T' if b else 'F'


def r_ver(v):
    return '.'.join(str(c) for c in v._v)


def r_over(v):
    return '-' if v is None else 'V' + r_ver(v)


def r_range(r):
    return SEP1.join([r_over(r.min), T(r.min_eq), r_over(r.max), T(r.max_eq), T(r.is_empty)])


def r_obool(o):
    return 'N' if o is None else T(o)


def ev(fn, args):
    if fn == 'tok':
        return r_ver(U.Version(args[0]))
    if fn == 'cmp':
        a, b = U.Version(args[0]), U.Version(args[1])
        res = ''.join(T(x) for x in (a < b, a <= b, a == b, a != b, a >= b, a > b))
        if a == b and hash(a) != hash(b):
            res += 'HASH'
        return res
    if fn == 'vc':
        return T(U.version_compare(args[0], args[1]))
    if fn == 'many':
        ok, nf, f = U.version_compare_many(args[0], list(args[1:]))
        return SEP1.join([T(ok), SEP2.join(nf), SEP2.join(f)])
    if fn == 'range':
        r = U.version_check_to_range(list(args[1:]))
        return SEP1.join([r_range(r), T(U.Version(args[0]) in r)])
    if fn == 'isect':
        rest = list(args[1:])
        k = rest.index(MARK) if MARK in rest else len(rest)
        a = U.version_check_to_range(rest[:k])
        b = U.version_check_to_range(rest[k + 1:])
        i = a.intersect(b)
        return SEP1.join([r_range(i), T(U.Version(args[0]) in i), r_obool(a.always(b))])
    if fn == 'cwm':
        return T(U.version_compare_condition_with_min(args[0], args[1]))
    return '?'


def safe(fn, args):
    try:
        return ev(fn, args)
    except Exception as e:  # an escaping exception is an observable
        return 'EXC:' + type(e).__name__


OPS = {'<': operator.lt, '<=': operator.le, '==': operator.eq, '!=': operator.ne, '>=': operator.ge, '>': operator.gt}


def oracle(strings, checklists):
    """The property's own clauses evaluated on the implementation (no model involved).
    Returns a list of failures, each with the concrete input."""
    fails = []
    vs = [U.Version(s) for s in strings]
    n = len(vs)

    def add(kind, **kw):
        if len(fails) < 50:
            fails.append(dict(kind=kind, **kw))
    rel = {}
    for i in range(n):
        for j in range(n):
            a, b = vs[i], vs[j]
            lt, le, eq, ne, ge, gt = a < b, a <= b, a == b, a != b, a >= b, a > b
            rel[i, j] = (lt, eq, gt, le)
            if (lt, eq, gt).count(True) != 1:
                add('trichotomy', a=strings[i], b=strings[j], lt=lt, eq=eq, gt=gt)
            if le != (lt or eq) or ge != (gt or eq) or ne != (not eq):
                add('consistency', a=strings[i], b=strings[j], lt=lt, le=le, eq=eq, ne=ne, ge=ge, gt=gt)
            if eq and hash(a) != hash(b):
                add('hash', a=strings[i], b=strings[j])
            for sp, f in (('<', lt), ('<=', le), ('==', eq), ('=', eq), ('!=', ne), ('>=', ge), ('>', gt), ('', eq)):
                w = strings[j]
                if w[:1] in '<>=!' and w[:1] != '':
                    continue
                if U.version_compare(strings[i], sp + w) != (OPS.get(sp, operator.eq)(a, U.Version(w.strip()))):
                    add('version_compare', v=strings[i], c=sp + w)
    for i in range(n):
        for j in range(n):
            if rel[i, j][0] != rel[j, i][2]:
                add('lt_gt_swap', a=strings[i], b=strings[j])
            for k in range(n):
                if rel[i, j][0] and rel[j, k][0] and not rel[i, k][0]:
                    add('lt_transitivity', a=strings[i], b=strings[j], c=strings[k])
                if rel[i, j][3] and rel[j, k][3] and not rel[i, k][3]:
                    add('le_transitivity', a=strings[i], b=strings[j], c=strings[k])
                if rel[i, j][1] and rel[j, k][1] and not rel[i, k][1]:
                    add('eq_transitivity', a=strings[i], b=strings[j], c=strings[k])

    def sat(x, c):
        op, w = U._version_extract_cmpop(c)
        return op(x, U.Version(w))
    ranges = []
    for cl in checklists:
        r = U.version_check_to_range(list(cl))
        ranges.append(r)
        ok, nf, f = U.version_compare_many(strings[0], list(cl)) if strings else (True, [], [])
        if strings:
            each = [U.version_compare(strings[0], c) for c in cl]
            if ok != all(each) or f != [c for c, e in zip(cl, each) if e] or nf != [c for c, e in zip(cl, each) if not e]:
                add('compare_many', v=strings[0], conditions=list(cl))
        for s, x in zip(strings, vs):
            allsat = all(sat(x, c) for c in cl)
            non_ne = all(sat(x, c) for c in cl if U._version_extract_cmpop(c)[0] is not operator.ne)
            if allsat and x not in r:
                add('check_to_range_sound', checks=list(cl), x=s)
            if (x in r) and not non_ne:
                add('check_to_range_complete', checks=list(cl), x=s)
    for (ia, a), (ib, b) in itertools.product(enumerate(ranges), repeat=2):
        i = a.intersect(b)
        al = a.always(b)
        for s, x in zip(strings, vs):
            if (x in i) != ((x in a) and (x in b)):
                add('intersect', a=list(checklists[ia]), b=list(checklists[ib]), x=s)
            if al is True and (x in a) and not (x in b):
                add('always_true', a=list(checklists[ia]), b=list(checklists[ib]), x=s)
            if al is False and (x in a) and (x in b):
                add('always_false', a=list(checklists[ia]), b=list(checklists[ib]), x=s)
    return fails


def main():
    req = json.load(sys.stdin)
    out = {}
    if 'cases' in req:
        out['results'] = [safe(fn, args) for fn, args in req['cases']]
    if 'oracle' in req:
        out['oracle'] = []
        for grp in req['oracle']:
            try:
                out['oracle'].extend(oracle(grp['strings'], grp['checklists']))
            except Exception as e:
                out['oracle'].append({'kind': 'exception', 'exc': type(e).__name__ + ': ' + str(e),
                                      'strings': grp['strings'], 'checklists': grp['checklists']})
    json.dump(out, sys.stdout)


main()
