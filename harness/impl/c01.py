"""Adapter for C01: runs the REAL `meson setup --backend=none` (meson.py of the tree named by
PYTHONPATH) on generated projects and renders what the property observes to canonical form:
    {'cls': OK|ERR|PY|UNK, 'file': build file the error is reported at, 'line': its line,
     'msgs': [[tag, text], ...]}      (the tagged `Message:` lines, in order)
Only the failure CLASS and the failing file:line are kept - never message texts.

It also hosts the oracle: the property's own clauses evaluated on the implementation's answers
(no model involved) - see oracle_eval()."""
import sys, json, os, re, subprocess, shutil, tempfile
from concurrent.futures import ThreadPoolExecutor

REPO = os.environ.get('PYTHONPATH', '/repo').split(os.pathsep)[0]
PY = sys.executable

# Framing of a tagged message:  Message: #<tag> <value> $   ('#', '$', '|' never occur in data).
# Inside a subproject mlog strips every line, so a separator may show up as a newline, and for a
# value that is empty after stripping (e.g. '\n') the two separators collapse into one: that case is
# tried first (lazy optional group).  A value never runs into the next message.
MSG_RE = re.compile(r'(?:^|(?<=\n))Message: #(\w+)(?:(?: |\n)((?:(?!\nMessage: #).)*?))??(?: |\n)\$(?=\n)', re.S)
ERR_RE = re.compile(r'^((?:[A-Za-z0-9_]+/)*meson\.build):(\d+):(\d+): ERROR: (.*)$', re.M)
ERR0_RE = re.compile(r'^ERROR: (.*)$', re.M)
NEST_RE = re.compile(r'^(?:[A-Za-z0-9_]+\| ?)+', re.M)


def extract_msgs(stdout):
    """tagged messages  `message('#<tag>', value..., '$')`  ->  [[tag, text], ...]"""
    return [[m.group(1), m.group(2) or ''] for m in MSG_RE.finditer(stdout)]


def canon(rc, stdout, stderr, src=''):
    out = NEST_RE.sub('', stdout)
    if src:
        out = out.replace(src.rstrip('/') + '/', '')
    res = {'cls': 'UNK', 'file': '', 'line': 0, 'msgs': extract_msgs(out)}
    if rc == 0:
        res['cls'] = 'OK'
        return res
    m = ERR_RE.search(out)
    unhandled = 'Unhandled python exception' in out or 'Traceback (most recent call last)' in stderr \
        or 'Traceback (most recent call last)' in out
    if unhandled:
        res['cls'] = 'PY'
        exc = re.findall(r'^([A-Za-z_][\w.]*)(?::|$)', stderr.strip().split('\n')[-1]) if stderr.strip() else []
        res['exc'] = exc[0].split('.')[-1] if exc else ''
        return res
    if rc == 1 and m:
        res['cls'] = 'ERR'
        res['file'] = m.group(1)
        res['line'] = int(m.group(2))
        return res
    if rc == 1 and ERR0_RE.search(out):
        res['cls'] = 'ERR'
        return res
    res['raw'] = (out[-800:] + '\n--\n' + stderr[-800:])
    return res


def run_project(job):
    idx, files, base = job
    d = os.path.join(base, 'p%d' % idx)
    src = os.path.join(d, 's')
    try:
        for path, content in files.items():
            full = os.path.join(src, path)
            os.makedirs(os.path.dirname(full), exist_ok=True)
            with open(full, 'w', encoding='utf-8', newline='') as f:
                f.write(content)
        env = dict(os.environ)
        env.update({'PYTHONPATH': REPO, 'PYTHONHASHSEED': '0', 'LC_ALL': 'C.UTF-8',
                    'PYTHONDONTWRITEBYTECODE': '1', 'MESON_VERIF': '1', 'PYTHONIOENCODING': 'utf-8:surrogateescape'})
        env.pop('MESON_FORCE_BACKTRACE', None)
        # resource limits instead of a short wall-clock timeout: a build definition that makes meson
        # loop is cut after 40 CPU-seconds / 64 MB of output however loaded the machine is
        so, se = os.path.join(d, 'stdout'), os.path.join(d, 'stderr')
        try:
            with open(so, 'wb') as fo, open(se, 'wb') as fe:
                r = subprocess.run(['/bin/sh', '-c', 'ulimit -t 40; ulimit -f 131072; exec "$@"', 'sh',
                                    PY, os.path.join(REPO, 'meson.py'), 'setup', '--backend=none', os.path.join(d, 'b'), '.'],
                                   cwd=src, env=env, stdout=fo, stderr=fe, timeout=900)
            with open(so, 'rb') as fo, open(se, 'rb') as fe:
                out, err = fo.read(16 << 20).decode('utf-8', 'replace'), fe.read(1 << 20).decode('utf-8', 'replace')
            if r.returncode < 0:
                return {'cls': 'RESOURCE', 'file': '', 'line': 0, 'msgs': extract_msgs(NEST_RE.sub('', out))[:50], 'signal': -r.returncode}
            return canon(r.returncode, out, err, os.path.realpath(src))
        except subprocess.TimeoutExpired:
            return {'cls': 'TIMEOUT', 'file': '', 'line': 0, 'msgs': []}
    finally:
        shutil.rmtree(d, ignore_errors=True)


def run_projects(projects, base, workers):
    jobs = [(i, p, base) for i, p in enumerate(projects)]
    with ThreadPoolExecutor(max_workers=workers) as ex:
        return list(ex.map(run_project, jobs))


# ---------------------------------------------------------------------------------- oracle
# Each law is a dict {'law': name, 'files': {...}, 'expect': ...}; the adapter runs the project and
# evaluates the property's clause in Python on the implementation's observed messages.  The clause
# is computed here, from the inputs alone, with Python integers / strings - no model.

def py_render(v, quote=False):
    """the reference's rendering of a value for message(): Syntax.md / str.format docs"""
    if isinstance(v, bool):
        return 'true' if v else 'false'
    if isinstance(v, int):
        return str(v)
    if isinstance(v, str):
        return "'%s'" % v if quote else v
    if isinstance(v, list):
        return '[' + ', '.join(py_render(x, True) for x in v) + ']'
    if isinstance(v, dict):
        return '{' + ', '.join("%s : %s" % (py_render(k, True), py_render(x, True)) for k, x in v.items()) + '}'
    raise TypeError(v)


def oracle_eval(law, obs):
    """-> None if the clause holds on the observation, else a short description."""
    exp = law['expect']
    msgs = {t: x for t, x in obs['msgs']}
    kind = exp['kind']
    if kind == 'values':
        # the program must succeed and every tagged message must show the stated value
        if obs['cls'] != 'OK':
            return 'expected success, got %s at %s:%s' % (obs['cls'], obs['file'], obs['line'])
        for tag, val in exp['values'].items():
            want = py_render(val)
            if msgs.get(tag) != want:
                return 'message #%s: expected %r, implementation printed %r' % (tag, want, msgs.get(tag))
        if exp.get('exact') and len(obs['msgs']) != len(exp['values']):
            return 'expected exactly %d messages, got %d' % (len(exp['values']), len(obs['msgs']))
        return None
    if kind == 'fails':
        # the program must be rejected as a meson error at the stated line, after the stated messages
        if obs['cls'] != 'ERR':
            return 'expected a meson error, got %s' % obs['cls']
        if exp.get('line') is not None and obs['line'] != exp['line']:
            return 'expected the error at line %s, reported at %s:%s' % (exp['line'], obs['file'], obs['line'])
        if exp.get('file') is not None and obs['file'] != exp['file']:
            return 'expected the error in %s, reported in %s' % (exp['file'], obs['file'])
        for tag, val in exp.get('values', {}).items():
            if msgs.get(tag) != py_render(val):
                return 'message #%s: expected %r, implementation printed %r' % (tag, py_render(val), msgs.get(tag))
        for tag in exp.get('absent', []):
            if tag in msgs:
                return 'message #%s must not be printed (evaluated although it must not be)' % tag
        return None
    return 'unknown expectation'


def main():
    req = json.load(sys.stdin)
    base = req.get('scratch') or tempfile.mkdtemp(prefix='mverif-C01-impl-', dir='/var/tmp')
    os.makedirs(base, exist_ok=True)
    workers = int(req.get('workers') or (os.cpu_count() or 4))
    out = {}
    if 'projects' in req:
        out['results'] = run_projects(req['projects'], base, workers)
    if 'oracle' in req:
        obs = run_projects([l['files'] for l in req['oracle']], base, workers)
        fails = []
        for l, o in zip(req['oracle'], obs):
            why = oracle_eval(l, o)
            if why is not None:
                fails.append({'law': l['law'], 'why': why, 'files': l['files'], 'observed': o, 'expect': l['expect']})
        out['oracle'] = fails
        out['oracle_run'] = len(obs)
    if not req.get('scratch'):
        shutil.rmtree(base, ignore_errors=True)
    json.dump(out, sys.stdout)


if __name__ == '__main__':
    main()
