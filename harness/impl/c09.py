"""Adapter for C09, run by /venv/bin/python with PYTHONPATH=<tree under test>.

Reads JSON on stdin:
  {"classify": [ {"dir": B, "ninja_refs": [sha1,...]} ... ],
   "keys": [name,...], "values": {name: [default, v1, ...]}, "dats": [...], "infos": [...]}
and prints, for every directory, the state of each state file as the REAL loaders see it,
rendered like coq/Crash/Entry.v render_state:
  A absent | T exists but the loader rejects it | W loads | W{k=v,..} coredata | W[k=v,..] cmd_line
The loaders are the implementation's own: mesonbuild.utils.universal.pickle_load (coredata),
pickle.load (other .dat), mesonbuild.cmdline.CmdLineFileParser (cmd_line.txt), json (intro files).

It also hosts the oracle = the clauses of the property evaluated on the implementation's
answers only (no model):  {"oracle": [ {scenario with per-kill-point observations} ... ]}.
"""
import sys, os, json, pickle, hashlib


def vid(table, name, raw):
    """value -> small integer id (0 = default); unknown values get 900+."""
    vals = table[name]
    s = str(raw)
    if isinstance(raw, bool):
        s = 'true' if raw else 'false'
    return vals.index(s) if s in vals else 900 + (int(hashlib.sha1(s.encode()).hexdigest(), 16) % 97)


def render_vals(keys, table, getter):
    out = []
    for i, k in enumerate(keys):
        out.append('%d=%d' % (i, getter(k)))
    return ','.join(out)


def classify_core(path, keys, table):
    if not os.path.lexists(path):
        return 'A'
    from mesonbuild.utils.universal import pickle_load, MesonException
    from mesonbuild import coredata
    from mesonbuild.options import OptionKey
    try:
        cd = pickle_load(path, 'Coredata', coredata.CoreData, False)
    except MesonException:
        return 'T'
    except Exception as e:      # anything else escaping the loader is also "unreadable"
        return 'T'

    def get(k):
        key = OptionKey.from_string(k)
        for cand in (key, key.as_root()):
            try:
                return vid(table, k, cd.optstore.get_value_for(cand))
            except Exception:
                continue
        return 999
    return 'W{' + render_vals(keys, table, get) + '}'


def classify_cmd(path, keys, table):
    if not os.path.lexists(path):
        return 'A'
    from mesonbuild.cmdline import CmdLineFileParser
    try:
        cfg = CmdLineFileParser()
        cfg.read(path)
        if 'options' not in cfg or 'properties' not in cfg:
            return 'T'
        opts = dict(cfg['options'].items())
    except Exception:
        return 'T'

    def get(k):
        # "s" and ":s" / "sub:so" spellings
        for cand in (k, ':' + k):
            if cand in opts:
                return vid(table, k, opts[cand])
        return 0
    nf = ''
    try:
        import ast
        if ast.literal_eval(cfg['properties'].get('native_file', '[]')):
            nf = 'n'          # [properties] records a machine file
    except Exception:
        nf = '?'
    return 'W[' + render_vals(keys, table, get) + ']' + nf


def classify_pickle(path):
    if not os.path.lexists(path):
        return 'A'
    try:
        with open(path, 'rb') as f:
            pickle.load(f)
        return 'W'
    except Exception:
        return 'T'


def classify_json(path):
    if not os.path.lexists(path):
        return 'A'
    try:
        with open(path, 'rb') as f:
            json.loads(f.read().decode('utf-8'))
        return 'W'
    except Exception:
        return 'T'


def norm_ninja(data, bdir):
    """build.ninja with every spelling of the build directory replaced (raw, ninja-escaped, JSON-escaped)"""
    vs = []
    for v in (bdir, bdir.replace('$', '$$').replace(' ', '$ ').replace(':', '$:'), json.dumps(bdir)[1:-1]):
        b = v.encode('utf-8', 'surrogateescape')
        if b not in vs:
            vs.append(b)
    for b in sorted(vs, key=lambda x: -len(x)):
        data = data.replace(b, b'@B@')
    return hashlib.sha1(data).hexdigest()


def classify_ninja(path, bdir, refs):
    if not os.path.lexists(path):
        return 'A'
    return 'W' if norm_ninja(open(path, 'rb').read(), bdir) in refs else 'T'


def ninja_hash(path, bdir):
    if not os.path.exists(path):
        return None
    return norm_ninja(open(path, 'rb').read(), bdir)


def ninja_problems(path):
    """well-formedness of a generated build.ninja, judged with the harness-side Ninja reader
    (harness/ninja_py.py): it parses, it has exactly one header, no rule is declared twice, no path is the output
    of two build statements, it ends with a default statement."""
    import re
    sys.path.insert(0, os.path.join(os.path.dirname(os.path.abspath(__file__)), '..'))
    import ninja_py
    try:
        text = open(path, encoding='utf-8').read()
    except FileNotFoundError:
        return []
    except Exception as e:
        return ['not UTF-8 text: ' + type(e).__name__]
    out = []
    n = len(re.findall(r'^# This is the build file for project ', text, re.M))
    if n != 1:
        out.append('%d header lines' % n)
    rules = re.findall(r'^rule (\S+)', text, re.M)
    dup = sorted({r for r in rules if rules.count(r) > 1})
    if dup:
        out.append('rule declared more than once: ' + ', '.join(dup[:5]))
    if len(re.findall(r'^ninja_required_version\b', text, re.M)) != 1:
        out.append('ninja_required_version is not set exactly once')
    try:
        m = ninja_py.Manifest(text)
        seen, twice = set(), []
        for b in m.builds:
            for o in b.all_outs():
                if o in seen:
                    twice.append(o)
                seen.add(o)
        if twice:
            out.append('output of more than one build statement: ' + ', '.join(sorted(set(twice))[:5]))
        for b in m.builds:
            if b.rule not in m.rules:
                out.append('build statement uses undeclared rule ' + b.rule)
                break
        if not m.defaults:
            out.append('no default statement')
    except Exception as e:
        out.append('does not parse: %s' % type(e).__name__)
    return out


def other_problems(B):
    """compile_commands.json written by the run: empty (no compiler) or JSON"""
    out = []
    p = os.path.join(B, 'compile_commands.json')
    if os.path.exists(p):
        data = open(p, 'rb').read()
        if data.strip():
            try:
                json.loads(data.decode('utf-8'))
            except Exception as e:
                out.append('compile_commands.json is not JSON: ' + type(e).__name__)
    return out


def missing_machine_files(B):
    """files named by cmd_line.txt [properties] (native_file / cross_file) that do not exist"""
    p = os.path.join(B, 'meson-private', 'cmd_line.txt')
    if not os.path.exists(p):
        return []
    try:
        import ast
        from mesonbuild.cmdline import CmdLineFileParser
        cfg = CmdLineFileParser()
        cfg.read(p)
        if 'properties' not in cfg:
            return []
        out = []
        for k in ('native_file', 'cross_file'):
            for f in ast.literal_eval(cfg['properties'].get(k, '[]')):
                if not os.path.exists(f):
                    out.append('%s: %s' % (k, os.path.relpath(f, B) if f.startswith(B) else f))
        return out
    except Exception:
        return []


def classify(d, req):
    keys, table = req['keys'], req['values']
    B = d['dir']
    P = os.path.join(B, 'meson-private')
    I = os.path.join(B, 'meson-info')
    out = []
    out.append('P=' + ('W' if os.path.isdir(P) else 'A'))
    out.append('J=' + ('W' if os.path.isdir(I) else 'A'))
    out.append('c=' + classify_core(os.path.join(P, 'coredata.dat'), keys, table))
    out.append('p=' + classify_core(os.path.join(P, 'coredata.dat.prev'), keys, table))
    out.append('t=' + classify_core(os.path.join(P, 'coredata.dat~'), keys, table))
    out.append('b=' + classify_pickle(os.path.join(P, 'build.dat')))
    out.append('m=' + classify_cmd(os.path.join(P, 'cmd_line.txt'), keys, table))
    out.append('n=' + classify_cmd(os.path.join(P, 'cmd_line.txt~'), keys, table))
    out.append('N=' + classify_ninja(os.path.join(B, 'build.ninja'), B, d.get('ninja_refs', [])))
    out.append('M=' + classify_ninja(os.path.join(B, 'build.ninja~'), B, d.get('ninja_refs', [])))
    out.append('T=' + classify_json(os.path.join(I, 'tmp_dump.json')))
    for i, n in enumerate(req['dats']):
        out.append('D%d=%s' % (i, classify_pickle(os.path.join(P, n))))
    for i, n in enumerate(req['infos']):
        out.append('I%d=%s' % (i, classify_json(os.path.join(I, n))))
    # values the finished follow-up wrote into intro-buildoptions.json
    rep = None
    try:
        bo = json.load(open(os.path.join(I, 'intro-buildoptions.json')))
        byname = {}
        for o in bo:
            n = o['name']
            byname[n] = o['value']
        rep = {}
        for k in keys:
            if k in byname:
                rep[k] = vid(table, k, byname[k])
    except Exception:
        rep = None
    # files in meson-private / meson-info that no loader above knows (reported, not judged)
    return {'state': ' '.join(out), 'intro_values': rep, 'ninja': ninja_hash(os.path.join(B, 'build.ninja'), B),
            'missing_machine_files': missing_machine_files(B),
            'problems': (ninja_problems(os.path.join(B, 'build.ninja')) + other_problems(B)) if req.get('wellformed') else []}


# ---------------------------------------------------------------- oracle
def oracle(sc):
    """sc: {'id', 'old': {key:id}|None, 'new': {...}|None, 'points': [ {'j', 'what', 'rc', 'cls',
            'values': {key: id}|None, 'msg_values': {...}|None, 'post': state string, 'followup'} ]}
    Clauses of the property text, judged on the implementation's answers only:
      (1) the follow-up succeeds;  (2) afterwards no state file is unreadable;
      (3) every option has its old or its new value."""
    fails = []
    for p in sc['points']:
        ident = '%s@%s' % (sc['id'], p['what'])
        # (0) whatever was killed wherever: every machine file that cmd_line.txt names exists
        if p.get('pre_missing'):
            fails.append({'kind': 'recorded-machine-file-missing', 'ident': ident, 'j': p['j'], 'files': p['pre_missing']})
        if p['cls'] != 'ok':
            fails.append({'kind': 'followup-fails', 'ident': ident, 'j': p['j'], 'class': p['cls'], 'detail': p.get('tail', '')})
            continue
        toks = dict(t.split('=', 1) for t in (p.get('post') or '').split(' ') if '=' in t)
        required = [c for c in toks if c in ('P', 'J', 'c', 'b', 'm', 'N') or c[0] in 'DI']
        bad = [c + '=' + toks[c] for c in required if toks[c][0] == 'T']
        missing = [c + '=' + toks[c] for c in required if toks[c][0] == 'A']
        if bad or missing:
            fails.append({'kind': 'state-file-unreadable-after-followup', 'ident': ident, 'j': p['j'], 'files': bad + missing})
        if p.get('post_missing'):
            fails.append({'kind': 'recorded-machine-file-missing-after-followup', 'ident': ident, 'j': p['j'], 'files': p['post_missing']})
        # (2') what the recovery run wrote is well-formed, and build.ninja is what an uninterrupted run writes
        if p.get('problems'):
            fails.append({'kind': 'state-file-malformed-after-followup', 'ident': ident, 'j': p['j'], 'problems': p['problems']})
        elif p.get('ninja') and sc.get('ninja_refs') and p['ninja'] not in sc['ninja_refs']:
            fails.append({'kind': 'build.ninja-differs-from-uninterrupted-run', 'ident': ident, 'j': p['j'],
                          'sha1_after_recovery': p['ninja'], 'sha1_of_uninterrupted_runs': sc['ninja_refs']})
        vals = p.get('values')
        if vals is None:
            fails.append({'kind': 'no-values-reported', 'ident': ident, 'j': p['j']})
            continue
        if p.get('msg_values') is not None:
            for k, v in p['msg_values'].items():
                if k in vals and vals[k] != v:
                    fails.append({'kind': 'reports-disagree', 'ident': ident, 'j': p['j'], 'key': k,
                                  'introspection': vals[k], 'get_option': v})
        for k, v in vals.items():
            o = (sc.get('old') or {}).get(k)
            n = (sc.get('new') or {}).get(k)
            if v != o and v != n:
                fails.append({'kind': 'neither-old-nor-new', 'ident': ident, 'j': p['j'], 'key': k, 'got': v, 'old': o, 'new': n})
    return fails


def main():
    req = json.load(sys.stdin)
    res = {}
    if 'classify' in req:
        res['classify'] = []
        for d in req['classify']:
            try:
                res['classify'].append(classify(d, req))
            except Exception as e:
                res['classify'].append({'state': 'EXC:' + type(e).__name__, 'intro_values': None, 'ninja': None})
    if 'oracle' in req:
        res['oracle'] = [oracle(sc) for sc in req['oracle']]
    json.dump(res, sys.stdout)


if __name__ == '__main__':
    main()
