"""In-process adapter for C15: runs the REAL mintro / backends / minstall / mtest code on cases
read from stdin (JSON) and prints canonical result strings (same rendering as
coq/Intro/Entry.v).  Also hosts the oracle: the clauses of the property evaluated directly
(independently of the Coq judge) on parsed artefacts."""
import sys, json, os, io, pickle, argparse, contextlib, pathlib, shutil, types
from unittest import mock

S1, S2, S3, S4 = '\x01', '\x02', '\x03', '\x04'
T = lambda b: 'T' if b else 'F'


def unlist(t, s):
    return s.split(t)[:-1]


def enlist(t, l):
    return ''.join(x + t for x in l)


def dec_opt(s):
    return s[1:] if s[:1] == 'S' else None


def enc_opt(o):
    return 'N' if o is None else 'S' + o


# ------------------------------------------------------------------ InstallData
def build_install_data(hdr, entries):
    from mesonbuild.backend import backends as B
    from mesonbuild.mesonlib import FileMode
    src, bld, prefix = hdr.split(S1)
    from mesonbuild import coredata
    d = B.InstallData(src, bld, prefix, 'lib', None, 'preserve', ['meson', 'introspect'], coredata.version)
    for e in entries:
        k, f = e[0], e[1:].split(S1)
        if k == 'T':
            d.targets.append(B.TargetInstallData(f[0], f[1], dec_opt(f[2]), False, {}, set(), '', FileMode(),
                                                 f[3], 'linux', optional=(f[5] == 'T'), tag=dec_opt(f[4])))
        elif k in 'HMD':
            i = B.InstallDataBase(f[0], f[1], f[2], FileMode(), f[3], tag=dec_opt(f[4]), data_type=dec_opt(f[5]),
                                  follow_symlinks=True)
            {'H': d.headers, 'M': d.man, 'D': d.data}[k].append(i)
        elif k == 'S':
            i = B.SubdirInstallData(f[0], f[1], f[2], FileMode(), (set(unlist(S3, f[6])), set(unlist(S3, f[7]))), f[3],
                                    tag=dec_opt(f[4]), data_type=dec_opt(f[5]), follow_symlinks=True)
            d.install_subdirs.append(i)
        elif k == 'L':
            d.symlinks.append(B.InstallSymlinkData(f[0], f[1], f[2], f[3], dec_opt(f[4])))
        elif k == 'E':
            d.emptydir.append(B.InstallEmptyDir(f[0], FileMode(), f[1], dec_opt(f[2])))
    return d


class FakeBackend:
    def __init__(self, d):
        self.d = d

    def create_install_data(self):
        return self.d


def r_installed(res):
    return enlist(S2, [k + S1 + v for k, v in res.items()])


def r_plan(plan):
    out = []
    for sec, entries in plan.items():
        for key, e in entries.items():
            sub = 'exclude_dirs' in e
            out.append(S1.join([sec, key, e['destination'], enc_opt(e['tag']), enc_opt(e['subproject']), T(sub),
                                enlist(S3, sorted(e.get('exclude_dirs', []))), enlist(S3, sorted(e.get('exclude_files', [])))]))
    return enlist(S2, out)


def run_install(opts, hdr, entries):
    """Run the real Installer on real files.  Every source the InstallData mentions is created
    first (except the target files listed as missing); the destinations the installer passes
    to its copy primitives are recorded, and each must exist afterwards."""
    from mesonbuild import minstall
    f = opts.split(S1)
    destdir, skip, tags, missing = dec_opt(f[0]), unlist(S3, f[1]), unlist(S3, f[2]), set(unlist(S3, f[3]))
    d = build_install_data(hdr, entries)
    src, bld, prefix = hdr.split(S1)
    for p in (src, bld):
        os.makedirs(p, exist_ok=True)

    def mkfile(p):
        os.makedirs(os.path.dirname(p), exist_ok=True)
        if not os.path.lexists(p):
            with open(p, 'w') as fh:
                fh.write(p)
    for t in d.targets:
        if t.fname not in missing:
            mkfile(os.path.join(bld, t.fname))
    for i in d.headers + d.man + d.data:
        mkfile(i.path)
    for i in d.install_subdirs:
        os.makedirs(i.path, exist_ok=True)
        mkfile(os.path.join(i.path, 'inner.txt'))
    os.makedirs(os.path.join(bld, 'meson-private'), exist_ok=True)
    dat = os.path.join(bld, 'meson-private', 'install.dat')
    with open(dat, 'wb') as fh:
        pickle.dump(d, fh)
    o = argparse.Namespace(no_rebuild=True, only_changed=False, profile=False, quiet=True, wd=bld, destdir=destdir,
                           dry_run=False, skip_subprojects=','.join(skip), tags=(','.join(tags) if tags else None),
                           strip=False)
    rec = []

    class Rec(minstall.Installer):
        kind = None

        def do_copyfile(self, from_file, to_file, *a, **k):
            if self.kind in 'THMD':
                rec.append((self.kind, from_file, to_file))
            return super().do_copyfile(from_file, to_file, *a, **k)

        def do_copydir(self, data, src_dir, dst_dir, *a, **k):
            if self.kind == 'S':
                rec.append(('S', src_dir, dst_dir))
                kind, self.kind = self.kind, 'x'
                try:
                    return super().do_copydir(data, src_dir, dst_dir, *a, **k)
                finally:
                    self.kind = kind
            return super().do_copydir(data, src_dir, dst_dir, *a, **k)

        def do_symlink(self, target, link, *a, **k):
            rec.append(('L', target, link))
            return super().do_symlink(target, link, *a, **k)

        def set_mode(self, path, *a, **k):
            if self.kind == 'E':
                rec.append(('E', '', path))
            return super().set_mode(path, *a, **k)
    for name, kind in (('install_subdirs', 'S'), ('install_targets', 'T'), ('install_headers', 'H'), ('install_man', 'M'),
                       ('install_emptydir', 'E'), ('install_data', 'D'), ('install_symlinks', 'L')):
        def wrap(name=name, kind=kind):
            orig = getattr(minstall.Installer, name)

            def f(self, *a, **k):
                self.kind = kind
                try:
                    return orig(self, *a, **k)
                finally:
                    self.kind = None
            return f
        setattr(Rec, name, wrap())
    cwd = os.getcwd()
    env_destdir = os.environ.pop('DESTDIR', None)
    os.chdir(bld)
    try:
        with open(os.path.join(bld, 'install-log.txt'), 'w') as lf, contextlib.redirect_stdout(io.StringIO()):
            inst = Rec(o, lf)
            inst.do_install(dat)
    finally:
        os.chdir(cwd)
        os.environ.pop('DESTDIR', None)
    for k, s, dst in rec:
        if not os.path.lexists(dst):
            return 'NOTCREATED:' + dst
    return enlist(S2, [S1.join(r) for r in rec])


# ------------------------------------------------------------------ generate_*_install on a bare Backend
def bare_backend(prefix='/usr', incroot='include', manroot='share/man', src='/S', bld='/B', **lists):
    from mesonbuild.backend import backends as B
    be = object.__new__(B.Backend)
    env = types.SimpleNamespace(get_includedir=lambda: incroot, get_mandir=lambda: manroot, get_prefix=lambda: prefix,
                                get_source_dir=lambda: src, get_build_dir=lambda: bld)
    bld_ = types.SimpleNamespace(get_headers=lambda: lists.get('headers', []), get_man=lambda: lists.get('man', []),
                                 get_data=lambda: lists.get('data', []), get_symlinks=lambda: lists.get('symlinks', []),
                                 get_install_subdirs=lambda: lists.get('subdirs', []), get_emptydir=lambda: [])
    be.environment, be.build = env, bld_
    be.guess_install_tag = lambda *a, **k: None
    d = B.InstallData(src, bld, prefix, 'lib', None, 'preserve', [], '0')
    return be, d


def r_bases(l):
    return enlist(S2, [S1.join([i.path, i.install_path, i.install_path_name, i.subproject, enc_opt(i.tag), enc_opt(i.data_type)])
                       for i in l])


def gen(fn, args):
    from mesonbuild import build, mesonlib
    from mesonbuild.mesonlib import File, FileMode
    if fn == 'genhdr':
        hs = []
        for a in args[1:]:
            f = a.split(S1)
            hs.append(build.Headers([AbsFile(p) for p in unlist(S3, f[2])], dec_opt(f[1]), dec_opt(f[0]), FileMode(), f[3],
                                    install_tag=dec_opt(f[4])))
        be, d = bare_backend(incroot=args[0], headers=hs)
        be.generate_header_install(d)
        return r_bases(d.headers)
    if fn == 'genman':
        ms = []
        for a in args[1:]:
            f = a.split(S1)
            srcs = [AbsFile(p.split(S4)[1], p.split(S4)[0]) for p in unlist(S3, f[0])]
            ms.append(build.Man(srcs, dec_opt(f[1]), FileMode(), f[3], dec_opt(f[2]), dec_opt(f[4])))
        be, d = bare_backend(manroot=args[0], man=ms)
        be.generate_man_install(d)
        return r_bases(d.man)
    if fn == 'gendata':
        ds = []
        for a in args:
            f = a.split(S1)
            ds.append(build.Data([AbsFile(p) for p in unlist(S3, f[2])], f[0], f[1], FileMode(), f[4], unlist(S3, f[3]),
                                 dec_opt(f[5]), dec_opt(f[6])))
        be, d = bare_backend(data=ds)
        be.generate_data_install(d)
        return r_bases(d.data)
    if fn == 'gensubdir':
        ss = []
        for a in args[1:]:
            f = a.split(S1)
            ss.append((f[0], build.InstallDir(f[1], f[2], f[3], f[4], FileMode(), (set(), set()), f[5] == 'T', f[6],
                                              install_tag=dec_opt(f[7]))))
        out = []
        for from_dir, s in ss:
            be, d = bare_backend(prefix=args[0], src=from_dir, subdirs=[s])
            be.generate_subdir_install(d)
            out += d.install_subdirs
        return r_bases(out)
    if fn == 'gensym':
        out = []
        for a in args:
            f = a.split(S1)
            l = object.__new__(build.SymlinkData)        # the name check of __post_init__ is a guard of the theorem
            l.target, l.name, l.install_dir, l.subproject, l.install_tag = f[0], f[1], f[2], f[3], dec_opt(f[4])
            be, d = bare_backend(symlinks=[l])
            be.generate_symlink_install(d)
            s = d.symlinks[0]
            out.append(S1.join([s.target, s.name, s.install_path, s.subproject, enc_opt(s.tag)]))
        return enlist(S2, out)
    return '?'


def AbsFile(abspath, fname=None):
    """A mesonlib.File whose absolute_path() is the given string (File computes it from
    source dir + subdir + fname; the model takes the result as input)."""
    from mesonbuild.mesonlib import File

    class _AbsFile(File):
        def __init__(self, abspath, fname):
            self.is_built, self.subdir = False, ''
            self.abspath, self.fname = abspath, (fname if fname is not None else os.path.basename(abspath))
            self.hash = hash(abspath)

        def absolute_path(self, srcdir, builddir):
            return self.abspath
    return _AbsFile(abspath, fname)


# ------------------------------------------------------------------ environment / suites
def mk_env(unset, ops):
    from mesonbuild.utils.core import EnvironmentVariables
    ev = EnvironmentVariables()
    for o in ops:
        f = o.split(S1)
        {'s': ev.set, 'a': ev.append, 'p': ev.prepend}[f[0]](f[1], unlist(S3, f[3]), f[2])
    for n in unlist(S2, unset):
        ev.unset(n)
    return ev


def dec_dict(s):
    return dict((kv.split(S1) + [''])[:2] for kv in unlist(S2, s))


_mtest_opts = None


def ev_case(fn, args):
    from mesonbuild import mintro
    if fn == 'join':
        return os.path.join(args[0], *args[1:])
    if fn == 'basename':
        return os.path.basename(args[0])
    if fn == 'comps':
        p = pathlib.PurePosixPath(args[0])
        parts = list(p.parts)
        if p.root:
            parts = parts[1:]
        return T(os.path.isabs(args[0])) + S1 + enlist(S2, parts)
    if fn == 'destdir_join':
        from mesonbuild.scripts import destdir_join
        return destdir_join(args[0], args[1])
    if fn == 'gdp':
        from mesonbuild.scripts import destdir_join
        from mesonbuild.minstall import get_destdir_path
        return get_destdir_path(args[0], destdir_join(args[0], args[1]), args[2])
    if fn == 'replace':
        return args[2].replace(args[0], args[1])
    if fn == 'rstrip':
        return args[0].rstrip('/')
    if fn == 'installed':
        return r_installed(mintro.list_installed(None, None, FakeBackend(build_install_data(args[0], args[1:]))))
    if fn == 'plan':
        return r_plan(mintro.list_install_plan(None, None, FakeBackend(build_install_data(args[0], args[1:]))))
    if fn == 'install':
        return run_install(args[0], args[1], args[2:])
    if fn.startswith('gen'):
        return gen(fn, args)
    if fn == 'getenv':
        return r_installed(mk_env(args[1], args[2:]).get_env(dec_dict(args[0])))
    if fn == 'mtestenv':
        return r_installed(real_mtest_env(dec_dict(args[0]), mk_env(args[1], args[2:])))
    if fn == 'suite':
        from mesonbuild.mtest import TestHarness
        return T(TestHarness.test_in_suites(types.SimpleNamespace(suite=unlist(S2, args[0])), unlist(S2, args[1])))
    if fn in ('reported', 'getopt'):
        return opt_case(fn, args)
    if fn == 'judge':
        return oracle_bits(args)
    return '?'


def real_mtest_env(base, ev):
    global _mtest_opts
    from mesonbuild import mtest
    from mesonbuild.backend.backends import TestSerialisation, TestProtocol
    if _mtest_opts is None:
        ap = argparse.ArgumentParser()
        mtest.add_arguments(ap)
        _mtest_opts = ap.parse_args([])
    ts = TestSerialisation('t', 'p', ['p'], ['/bin/true'], False, None, False, True, [], ev, False, 0, 30, None, [],
                           TestProtocol.EXITCODE, 0, False, False, [], '0', False, '/bin/true')
    fake = types.SimpleNamespace(options=_mtest_opts, get_pretty_suite=lambda t: 'p / t')
    with mock.patch.dict(os.environ, base, clear=True):
        runner = mtest.TestHarness.get_test_runner(fake, ts, 0)
    env = dict(runner.runobj.env)
    for k in ('MALLOC_PERTURB_', 'ASAN_OPTIONS', 'MSAN_OPTIONS', 'TSAN_OPTIONS', 'UBSAN_OPTIONS'):
        env.pop(k, None)      # defaults added by SingleTestRunner.__init__ (mtest.py:1487-1505), not modelled
    return env


# ------------------------------------------------------------------ option store
def typed(v):
    k, _, x = v.partition(':')
    return {'b': lambda: x == 'true', 'i': lambda: int(x), 's': lambda: x, 'a': lambda: [y for y in x.split(',') if y]}[k]()


def untyped(v):
    if isinstance(v, bool):
        return 'b:' + ('true' if v else 'false')
    if isinstance(v, int):
        return 'i:%d' % v
    if isinstance(v, list):
        return 'a:' + ','.join(v)
    return 's:' + v


def build_store(opts, augs):
    from mesonbuild import options as O
    from mesonbuild.options import OptionKey
    store = O.OptionStore(False)
    for e in unlist(S2, opts):
        f = e.split(S1)
        name, sub, val, parent = f[0], dec_opt(f[1]), typed(f[2]), dec_opt(f[3])
        cls = {bool: O.UserBooleanOption, int: O.UserIntegerOption, str: O.UserStringOption, list: O.UserStringArrayOption}[type(val)]
        opt = cls(name, 'd', val, yielding=parent is not None)
        if sub is None:
            store.add_system_option(OptionKey(name), opt)
        else:
            store.add_project_option(OptionKey(name, sub), opt)
    for e in unlist(S2, augs):
        f = e.split(S1)
        store.augments[OptionKey(f[0], dec_opt(f[1]))] = typed(f[2])
    return store


def opt_case(fn, args):
    from mesonbuild import mintro
    from mesonbuild.options import OptionKey
    store = build_store(args[0], args[1])
    sp, n = args[2], args[3]
    if fn == 'getopt':
        try:
            return enc_opt(untyped(store.get_value_for(OptionKey(n, sp))))
        except KeyError:
            return 'N'
    lst = mintro._list_buildoptions(types.SimpleNamespace(optstore=store))
    # the reader's rule: the entry `sp:n` if there is one, else the entry `n` (first hit)
    for want in ([sp + ':' + n] if sp else []) + [n]:
        for o in lst:
            if o['name'] == want:
                return enc_opt(untyped(o['value']))
    return 'N'


def safe(fn, args):
    try:
        return ev_case(fn, args)
    except Exception as e:  # an escaping exception is an observable
        return 'EXC:' + type(e).__name__


# ------------------------------------------------------------------ the oracle (property clauses, no model)
def comps(p):
    return [c for c in p.split('/') if c not in ('', '.')]


def dec_item(s):
    a, _, b = s.partition(S1)
    return (tuple(unlist(S2, a)), frozenset(unlist(S2, b)))


def multiset_eq(a, b):
    from collections import Counter
    return Counter(a) == Counter(b)


def oracle_clauses(args):
    it, wt, ite, wte, ib, wb, io, wo, ip, wr, ifs, wfs = args
    res = []
    for x, y in ((it, wt), (ite, wte), (ib, wb)):
        res.append(multiset_eq([dec_item(i) for i in unlist(S3, x)], [dec_item(i) for i in unlist(S3, y)]))
    iopts = [tuple((kv.split(S1) + [''])[:2]) for kv in unlist(S2, io)]
    wopts = [tuple((kv.split(S1) + [''])[:2]) for kv in unlist(S2, wo)]
    ok = True
    for n, v in wopts:
        vals = [v2 for n2, v2 in iopts if n2 == n]
        if not vals or any(v2 != v for v2 in vals):
            ok = False
    res.append(ok)
    plan = []
    for e in unlist(S2, ip):
        f = e.split(S1)
        plan.append((f[0], comps(f[1]), dec_opt(f[2])))
    ok = True
    for r in unlist(S3, wr):
        f = r.split(S1)
        sel, files, dirs, links = unlist(S2, f[0]), unlist(S2, f[1]), unlist(S2, f[2]), unlist(S2, f[3])
        chosen = [e for e in plan if not sel or (e[2] is not None and e[2] in sel)]
        obs = {'F': [comps(x) for x in files], 'D': [comps(x) for x in dirs], 'L': [comps(x) for x in links]}
        for k, dest, tag in chosen:
            if dest not in obs[k if k in 'DL' else 'F']:
                ok = False
        for k in 'FL':
            for x in obs[k]:
                if not any((e[0] not in 'DL' if k == 'F' else e[0] == k) and e[1] == x for e in chosen) and \
                        not any(e[0] == 'D' and x[:len(e[1])] == e[1] for e in chosen):
                    ok = False
    res.append(ok)
    a, b = unlist(S2, ifs), unlist(S2, wfs)
    res.append(set(a) == set(b) and len(set(a)) == len(a))
    return res


def oracle_bits(args):
    return ''.join(T(b) for b in oracle_clauses(args))


# ------------------------------------------------------------------ test serialisation of a configured build dir
S5 = '\x05'


def r_tintro(e):
    """an intro-tests.json entry (dict) in the rendering of Entry.render_tintro (depends sorted)"""
    return S1.join([enlist(S3, e['cmd']), enlist(S3, [k + S4 + v for k, v in e['env'].items()]), e['name'],
                    enc_opt(e['workdir']), enc_opt(None if e['timeout'] is None else str(e['timeout'])), enlist(S3, e['suite']),
                    T(e['is_parallel']), str(e['priority']), e['protocol'], enlist(S3, sorted(e['depends'])), enlist(S3, e['extra_paths'])])


def enc_tser(t):
    ops = []
    for method, name, values, sep in t.env.envvars:
        ops.append(S4.join([{'_set': 's', '_append': 'a', '_prepend': 'p'}[method.__name__], name, sep, enlist(S5, values)]))
    return S1.join([t.name, enlist(S3, t.suite), enlist(S3, t.fname), enlist(S3, t.cmd_args), enc_opt(t.workdir),
                    enc_opt(None if t.timeout is None else str(t.timeout)), T(t.is_parallel), str(t.priority), str(t.protocol),
                    enlist(S3, sorted(t.depends)), enlist(S3, t.extra_paths), enlist(S3, sorted(t.env.unset_vars)), enlist(S3, ops)])


def testser(bld):
    """What `meson test` unpickles, next to what intro-tests.json says, from ONE configured build directory."""
    from mesonbuild import mintro
    out = {}
    for kind, dat, intro in (('tests', 'meson_test_setup.dat', 'intro-tests.json'), ('benchmarks', 'meson_benchmark_setup.dat', 'intro-benchmarks.json')):
        with open(os.path.join(bld, 'meson-private', dat), 'rb') as f:
            objs = pickle.load(f)
        with open(os.path.join(bld, 'meson-info', intro), encoding='utf-8') as f:
            listed = json.load(f)
        out[kind] = {'serialised': [enc_tser(t) for t in objs],
                     'file': enlist(S2, [r_tintro(e) for e in listed]),
                     'get_test_list': enlist(S2, [r_tintro(e) for e in mintro.get_test_list(objs)])}
    return out


def main():
    req = json.load(sys.stdin)
    out = {}
    if 'testser' in req:
        out['testser'] = testser(req['testser'])
    if 'cases' in req:
        out['results'] = [safe(fn, args) for fn, args in req['cases']]
    json.dump(out, sys.stdout)


main()
