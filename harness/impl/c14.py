"""In-process adapter for C14: runs mesonbuild.utils.universal (do_conf_str / do_conf_file /
do_replacement / dump_conf_header) on cases read from stdin (JSON) and prints canonical result
strings (same rendering as coq/Subst/Entry.v).  Also hosts the oracle: the clauses of the
property evaluated directly on the implementation's answers (no Coq model involved)."""
import sys, os, io, json, signal, tempfile, shutil

_real_stdout = sys.stdout
sys.stdout = open(os.devnull, 'w')          # mlog.deprecation() etc. print to stdout

from mesonbuild.utils import universal as U
from mesonbuild.build import ConfigurationData
from mesonbuild.mesonlib import MesonException

SEP1, SEP2 = '\x01', '\x02'
T = lambda b: 'T' if b else 'F'
ALARM = 2.0
CONFIRM = 8.0
_timeouts = 0


class Timeout(BaseException):
    pass


def _on_alarm(*a):
    raise Timeout()


signal.signal(signal.SIGALRM, _on_alarm)


def _run(f, alarm):
    signal.setitimer(signal.ITIMER_REAL, alarm)
    try:
        r = f()
        signal.setitimer(signal.ITIMER_REAL, 0)
        return r
    except Timeout:
        return 'TIMEOUT'
    except Exception as e:
        signal.setitimer(signal.ITIMER_REAL, 0)
        return 'EXC:' + type(e).__name__
    finally:
        signal.setitimer(signal.ITIMER_REAL, 0)


_confirmed = 0


def guarded(f):
    """Run f() under an alarm: a hang becomes the observable 'TIMEOUT'.  The first timeout of a
    process is confirmed by a second run with a long alarm (a stall of a loaded machine is not a
    hang); once a hang is confirmed, later cases get a short alarm so that a tree full of hangs
    still finishes in time."""
    global _timeouts, _confirmed
    r = _run(f, ALARM if _confirmed == 0 else 0.4)
    if r == 'TIMEOUT' and _confirmed == 0:
        r = _run(f, CONFIRM)
        if r == 'TIMEOUT':
            _confirmed = 1
    if r == 'TIMEOUT':
        _timeouts += 1
    return r


def parse_data(s):
    """wire data -> dict name -> (value, desc)   (see coq/Subst/Entry.v)"""
    d = {}
    if not s:
        return d
    for e in s.split(SEP2):
        f = e.split(SEP1)
        if len(f) != 4:
            continue
        k, kind, v, desc = f
        if kind == 's':
            val = v
        elif kind == 'i':
            val = int(v)
        elif kind == 'b':
            val = (v == 'T')
        else:
            continue
        if k not in d:
            d[k] = (val, desc if desc else None)
    return d


def mk_conf(data):
    return ConfigurationData(dict(data))


def readlines(text):
    return io.StringIO(text, newline='').readlines()


_tmp = None


def tmpdir():
    global _tmp
    if _tmp is None:
        _tmp = tempfile.mkdtemp(prefix='mverif-C14-impl-', dir=os.environ.get('TMPDIR') or '/var/tmp')
    return _tmp


def r_conf(res):
    lines, missing, useless = res
    return SEP1.join(['OK', ''.join(lines), SEP2.join(sorted(missing)), T(useless)])


def ev(fn, args):
    if fn == 'conf':
        fmt, data, text = args
        cd = mk_conf(parse_data(data))
        return guarded(lambda: r_conf(U.do_conf_str('src', readlines(text), cd, fmt)))
    if fn == 'file':
        # the real do_conf_file: template and output go through the file system
        fmt, data, text = args
        cd = mk_conf(parse_data(data))
        src, dst = os.path.join(tmpdir(), 'in'), os.path.join(tmpdir(), 'out')
        with open(src, 'w', encoding='utf-8', newline='') as f:
            f.write(text)
        if os.path.exists(dst):
            os.unlink(dst)

        def go():
            missing, useless = U.do_conf_file(src, dst, cd, fmt)
            with open(dst, encoding='utf-8', newline='') as f:
                out = f.read()
            return SEP1.join(['OK', out, SEP2.join(sorted(missing)), T(useless)])
        return guarded(go)
    if fn == 'repl':
        fmt, data, line = args
        cd = mk_conf(parse_data(data))

        def go():
            out, missing = U.do_replacement(U.get_variable_regex(fmt), line, fmt, cd)
            return SEP1.join(['OK', out, SEP2.join(sorted(missing))])
        return guarded(go)
    if fn == 'header':
        fmt, macro, data = args
        cd = mk_conf(parse_data(data))
        dst = os.path.join(tmpdir(), 'hdr')

        def go():
            U.dump_conf_header(dst, cd, fmt, macro if macro else None)
            with open(dst, encoding='utf-8', newline='') as f:
                return f.read()
        return guarded(go)
    return '?'


# =============================================================== the oracle
# The property, clause by clause, in terms of a template that is BUILT from segments, so
# that what every piece must turn into is known by construction.
NAMECH = set('abcdefghijklmnopqrstuvwxyzABCDEFGHIJKLMNOPQRSTUVWXYZ0123456789-_')
CMCH = set('abcdefghijklmnopqrstuvwxyzABCDEFGHIJKLMNOPQRSTUVWXYZ0123456789_/.+-')


def is_name(v):
    return len(v) > 0 and all(c in NAMECH for c in v)


def span_name(t):
    i = 0
    while i < len(t) and t[i] in NAMECH:
        i += 1
    return t[:i], t[i:]


def m_render(seg):
    k = seg[0]
    if k == 'L': return seg[1]
    if k == 'V': return '@' + seg[1] + '@'
    if k == 'E': return '\\' * (2 * seg[1] + 1) + '@' + seg[2] + '\\@'
    if k == 'BA': return '\\' * seg[1] + '@'
    if k == 'B': return '\\' * seg[1]
    if k == 'A': return '@'
    raise ValueError(seg)


def m_wf(segs):
    """mirror of Subst/Spec.v wf_segs (meson format)"""
    for i, seg in enumerate(segs):
        rest = ''.join(m_render(s) for s in segs[i + 1:])
        k = seg[0]
        if k == 'L':
            if '@' in seg[1] or '\\' in seg[1]: return False
        elif k == 'V':
            if not is_name(seg[1]): return False
        elif k == 'E':
            if not is_name(seg[2]): return False
        elif k == 'BA':
            if seg[1] < 1: return False
            if seg[1] % 2 == 1:
                v, r = span_name(rest)
                if v and r.startswith('\\@'): return False
        elif k == 'B':
            if seg[1] < 1 or rest[:1] in ('@', '\\'): return False
        elif k == 'A':
            v, r = span_name(rest)
            if v and r.startswith('@'): return False
    return True


def py_str(v):
    return v if isinstance(v, str) else str(v)


def m_expand(seg, data, missing):
    k = seg[0]
    if k == 'L': return seg[1]
    if k == 'V':
        if seg[1] in data:
            return py_str(data[seg[1]][0])          # str as is; int decimal; bool True/False
        missing.add(seg[1])
        return ''
    if k == 'E': return '\\' * seg[1] + '@' + seg[2] + '@'
    if k == 'BA': return '\\' * (seg[1] // 2 + seg[1] % 2) + '@'
    if k == 'B': return '\\' * seg[1]
    if k == 'A': return '@'


# ---- cmake formats.  Segments: ['L', text] | ['V', name] (@name@) | ['B', parts] (${...}, parts a
# list of str | nested ['B', parts] | ['V', name]) | ['A'] lone '@' | ['D'] lone '$'
def c_render(seg):
    k = seg[0]
    if k == 'L': return seg[1]
    if k == 'V': return '@' + seg[1] + '@'
    if k == 'B': return '${' + ''.join(p if isinstance(p, str) else c_render(p) for p in seg[1]) + '}'
    if k == 'A': return '@'
    if k == 'D': return '$'
    raise ValueError(seg)


def c_name_ok(v):
    return all(c in CMCH for c in v)


def c_wf(segs, at_only):
    for i, seg in enumerate(segs):
        rest = ''.join(c_render(s) for s in segs[i + 1:])
        k = seg[0]
        if k == 'L':
            if '@' in seg[1] or (not at_only and '$' in seg[1]): return False
        elif k == 'V':
            if not (seg[1] and c_name_ok(seg[1])): return False
        elif k == 'B':
            if not c_parts_wf(seg[1]): return False
        elif k == 'A':
            j = rest.find('@')
            if j > 0 and c_name_ok(rest[:j]): return False
        elif k == 'D':
            if at_only or rest.startswith('{'): return False
    return True


def c_parts_wf(parts):
    for j, p in enumerate(parts):
        if isinstance(p, str):
            if not c_name_ok(p): return False
        elif p[0] == 'V':
            if not (p[1] and c_name_ok(p[1])): return False
            # the text after the closing '@' must not itself open a new @..@ pair: fine, it is scanned afresh
        elif p[0] == 'B':
            if not c_parts_wf(p[1]): return False
        else:
            return False
    return True


def cm_str(v):
    if isinstance(v, str): return v
    if isinstance(v, bool): return str(int(v))
    return str(v)


class SpecError(Exception):
    pass


def c_lookup(name, data, missing):
    if name in data:
        return cm_str(data[name][0])
    missing.add(name)
    return ''


def c_expand(seg, data, missing, at_only):
    k = seg[0]
    if k == 'L': return seg[1]
    if k == 'V': return c_lookup(seg[1], data, missing)
    if k == 'B':
        if at_only:
            return c_render(seg) if all(isinstance(p, str) for p in seg[1]) else None
        name = ''.join(p if isinstance(p, str) else c_expand(p, data, missing, at_only) for p in seg[1])
        if not c_name_ok(name):
            raise SpecError()           # the computed name is not a variable name: MesonException
        return c_lookup(name, data, missing)
    if k == 'A': return '@'
    if k == 'D': return '$'


def blank(s):
    return s != '' and s.strip() == ''


def define_form(fmt, name, data):
    """the documented replacement of '#mesondefine NAME' (Configuration.md) / of a bare
    '#cmakedefine NAME', '#cmakedefine01 NAME'"""
    if fmt == 'meson':
        if name not in data: return '/* #undef %s */' % name
        v = data[name][0]
        if isinstance(v, bool): return ('#define %s' if v else '#undef %s') % name
        return '#define %s %s' % (name, py_str(v))
    if fmt == 'cmakedefine':
        if name not in data or not data[name][0]: return '/* #undef %s */' % name
        return '#define %s' % name
    if fmt == 'cmakedefine01':
        return '#define %s %d' % (name, 1 if (name in data and data[name][0]) else 0)


def oracle_template(o):
    """o = {'fmt', 'data': wire, 'lines': [line specs]}.  A line spec is
         ['S', segs, eol]                         ordinary line built from segments
         ['M', lead, mid, name, trail, eol]       #mesondefine line
         ['C', lead, gap, kw, mid, name, trail, eol]   #cmakedefine / #cmakedefine01 line (kw)
    Expected output of a line = what the property says; compared with do_conf_str."""
    fails = []
    fmt, data = o['fmt'], parse_data(o['data'])
    at_only = fmt == 'cmake@'
    text, expected, exp_missing = '', '', set()
    strict_expected = ''
    framing = False
    spec_error = False
    for ls in o['lines']:
        if ls[0] == 'S':
            segs, eol = ls[1], ls[2]
            if fmt == 'meson':
                if not m_wf(segs): return [], 1
                t = ''.join(m_render(s) for s in segs)
                e = ''.join(m_expand(s, data, exp_missing) for s in segs)
            else:
                if not c_wf(segs, at_only): return [], 1
                t = ''.join(c_render(s) for s in segs)
                try:
                    parts = [c_expand(s, data, exp_missing, at_only) for s in segs]
                except SpecError:
                    spec_error = True
                    parts = []
                if any(p is None for p in parts): return [], 1
                e = ''.join(parts)
            if t.lstrip().startswith('#') or '#mesondefine' in t or 'cmakedefine' in t: return [], 1
            text += t + eol
            expected += e + eol
            strict_expected += e + eol
        elif ls[0] == 'M':
            _, lead, mid, name, trail, eol = ls
            if fmt != 'meson' or not blank(mid) or (lead and not blank(lead)) or (trail and not blank(trail)): return [], 1
            if not name or any(c.isspace() for c in name): return [], 1
            if name in data and isinstance(data[name][0], str):
                v = data[name][0]
                if v == '' or v != v.strip(): return [], 1     # blank-only differences are not claimed
            form = define_form('meson', name, data)
            text += lead + '#mesondefine' + mid + name + trail + eol
            expected += form + (eol or '\n')                  # the documented form; the line keeps its own terminator
            strict_expected += form + (eol or '\n')
        elif ls[0] == 'C':
            _, lead, gap, kw, mid, name, trail, eol = ls
            if fmt == 'meson' or kw not in ('cmakedefine', 'cmakedefine01'): return [], 1
            if not blank(mid) or (lead and not blank(lead)) or (gap and not blank(gap)) or (trail and not blank(trail)): return [], 1
            if not name or any(c.isspace() for c in name) or 'cmakedefine01' in name: return [], 1
            form = define_form(kw, name, data)
            if '@' in form or '$' in form: return [], 1
            text += lead + '#' + gap + kw + mid + name + trail + eol
            expected += form + (eol or '\n')
            strict_expected += form + (eol or '\n')
        elif ls[0] == 'CT':
            # '#cmakedefine NAME tok ...': tokens that are keys are replaced by str(value), the others kept
            _, lead, gap, mid, name, toks, trail, eol = ls
            if fmt == 'meson' or not blank(mid) or (lead and not blank(lead)) or (gap and not blank(gap)) or (trail and not blank(trail)): return [], 1
            if not name or any(c.isspace() for c in name) or 'cmakedefine01' in name or '@' in name or '$' in name: return [], 1
            vals = []
            for sep, tok in toks:
                if not blank(sep) or not tok or any(c.isspace() for c in tok) or 'cmakedefine01' in tok: return [], 1
                val = py_str(data[tok][0]) if tok in data else tok
                if '@' in val or '$' in val: return [], 1           # the finished line is scanned once: keep to inert text
                vals.append(val)
            if name in data and data[name][0]:
                form = ('#define %s %s' % (name, ' '.join(vals))).strip()
            else:
                form = '/* #undef %s */' % name
            text += lead + '#' + gap + 'cmakedefine' + mid + name + ''.join(sep + tok for sep, tok in toks) + trail + eol
            expected += form + (eol or '\n')
            strict_expected += form + (eol or '\n')
        else:
            return [], 1
    cd = mk_conf(data)
    if o.get('via') == 'file' and '\x00' not in text:
        # through the real do_conf_file: the template is a file, the result is the file it writes
        src, dst = os.path.join(tmpdir(), 'oin'), os.path.join(tmpdir(), 'oout')
        with open(src, 'w', encoding='utf-8', newline='') as f:
            f.write(text)

        def go():
            missing, useless = U.do_conf_file(src, dst, cd, fmt)
            with open(dst, encoding='utf-8', newline='') as f:
                return [f.read()], missing, useless
        got = guarded(go)
    else:
        got = guarded(lambda: U.do_conf_str('src', readlines(text), cd, fmt))
    base = {'fmt': fmt, 'data': o['data'], 'lines': o['lines'], 'template': text}
    if spec_error:
        if got != 'EXC:MesonException':
            fails.append(dict(base, kind='cmake-invalid-name-accepted', expected='EXC:MesonException', got=repr(got)))
        return fails, 0
    if isinstance(got, str):
        fails.append(dict(base, kind='hang' if got == 'TIMEOUT' else 'exception', expected=expected, got=got))
        return fails, 0
    out = ''.join(got[0])
    if set(got[1]) != exp_missing:
        fails.append(dict(base, kind='missing-variables', expected=sorted(exp_missing), got=sorted(got[1])))
    if out != expected:
        fails.append(dict(base, kind='substitution', expected=expected, got=out))
    elif out != strict_expected:
        # the only deviation is the framing of define lines (leading/trailing blanks, line terminator)
        fails.append(dict(base, kind='define-line-framing', expected=strict_expected, got=out))
    return fails, 0


def oracle_define_value(o):
    """'#mesondefine NAME' with a string value: the value must appear verbatim (never rescanned)."""
    data = parse_data(o['data'])
    name = o['name']
    if name not in data or not isinstance(data[name][0], str):
        return None
    v = data[name][0]
    if v == '' or v != v.strip() or not name or any(c.isspace() for c in name):
        return None                        # blank-only differences are not claimed
    cd = mk_conf(data)
    got = guarded(lambda: U.do_conf_str('src', ['#mesondefine ' + name + '\n'], cd, 'meson'))
    expected = '#define %s %s\n' % (name, v)
    base = {'data': o['data'], 'name': name, 'template': '#mesondefine ' + name + '\n'}
    if isinstance(got, str):
        return [dict(base, kind='exception', expected=expected, got=got)]
    out = ''.join(got[0])
    if out == expected:
        return []
    resc = guarded(lambda: U.do_replacement_meson(U.get_variable_regex('meson'), v, cd)[0])
    if out == '#define %s %s\n' % (name, resc):
        return [dict(base, kind='mesondefine-value-rescanned', expected=expected, got=out)]
    return [dict(base, kind='mesondefine-value', expected=expected, got=out)]


def oracle_header(o):
    """A header generated without a template defines exactly the keys of the data, once each, in
    sorted order, each in the documented form."""
    data = parse_data(o['data'])
    fmt, macro = o['fmt'], o['macro']
    if fmt != 'json' and any((not k) or any(c.isspace() for c in k) or any(ch in py_str(v[0]) for ch in '\n\r') for k, v in data.items()):
        return None          # the line-wise reading of a C / nasm header needs keys without blanks and one-line values
    cd = mk_conf(data)
    dst = os.path.join(tmpdir(), 'ohdr')

    def go():
        U.dump_conf_header(dst, cd, fmt, macro if macro else None)
        with open(dst, encoding='utf-8', newline='') as f:
            return [f.read()]
    got = guarded(go)
    base = {'fmt': fmt, 'macro': macro, 'data': o['data']}
    if isinstance(got, str):
        return [dict(base, kind='header-exception', got=got)]
    text = got[0]
    if fmt == 'json':
        # the file is one JSON object holding exactly the data, keys in sorted order, values of the same kind
        try:
            pairs = json.loads(text, object_pairs_hook=list)
        except ValueError:
            return [dict(base, kind='header-json-invalid', got=text)]
        want = [[k, data[k][0]] for k in sorted(data)]
        same = isinstance(pairs, list) and len(pairs) == len(want) and all(
            a[0] == b[0] and type(a[1]) is type(b[1]) and a[1] == b[1] for a, b in zip(pairs, want))
        if not same:
            return [dict(base, kind='header-json-content', expected=want, got=pairs)]
        if not text.isascii():
            return [dict(base, kind='header-json-not-ascii', got=text)]
        return []
    # the include guard of output_format 'c': "#ifndef M / #define M" in front of the entries and "#endif" as the
    # last line when macro_name is given, "#pragma once" and no #endif otherwise; nasm has neither
    if fmt == 'c' and macro:
        i0, i1 = text.find('#ifndef %s\n#define %s\n' % (macro, macro)), text.find('\n#define ', text.find('#ifndef ') + 1)
        if i0 < 0 or not text.endswith('#endif\n') or text.count('#endif') != 1 + sum(py_str(v[0]).count('#endif') + (v[1] or '').count('#endif') + k.count('#endif') for k, v in data.items()):
            return [dict(base, kind='header-guard', expected='#ifndef %s / #define %s ... #endif' % (macro, macro), got=text)]
    elif fmt == 'c':
        if '#pragma once\n' not in text or text.rstrip('\n').endswith('#endif'):
            return [dict(base, kind='header-guard', expected='#pragma once, no #endif', got=text)]
    elif fmt == 'nasm':
        if text.startswith('/*') or '#pragma once' in text.split('\n\n')[0] or text.endswith('#endif\n') and not any(py_str(v[0]).endswith('#endif') for v in data.values()):
            return [dict(base, kind='header-guard', expected='no include guard in a nasm header', got=text)]
    p = '#' if fmt == 'c' else '%'
    found = []
    lines = text.split('\n')
    body = lines
    if fmt == 'c' and macro:
        # the include guard is not a data key
        try:
            i = lines.index('#define ' + macro)
            body = lines[:i] + lines[i + 1:]
        except ValueError:
            return [dict(base, kind='header-guard-missing', got=text)]
    for ln in body:
        if ln.startswith(p + 'define '):
            rest = ln[len(p) + 7:]
            k, _, v = rest.partition(' ')
            found.append((k, 'define', v if ' ' in rest else None))
        elif ln.startswith(p + 'undef '):
            found.append((ln[len(p) + 6:], 'undef', None))
    want = []
    for k in sorted(data):
        v = data[k][0]
        if isinstance(v, bool):
            want.append((k, 'define' if v else 'undef', None))
        else:
            want.append((k, 'define', py_str(v)))
    if found != want:
        return [dict(base, kind='header-keys', expected=[list(x) for x in want], got=[list(x) for x in found])]
    return []


def run_oracle(o):
    kind = o['o']
    if kind == 'template':
        return oracle_template(o)
    if kind == 'define_value':
        r = oracle_define_value(o)
        return ([], 1) if r is None else (r, 0)
    if kind == 'header':
        r = oracle_header(o)
        return ([], 1) if r is None else (r, 0)
    return [], 1


def main():
    req = json.load(sys.stdin)
    out = {}
    try:
        if 'cases' in req:
            res = []
            for fn, args in req['cases']:
                res.append(ev(fn, args))
            out['results'] = res
            out['timeouts'] = _timeouts
        if 'oracle' in req:
            fails, skipped, n = [], 0, 0
            for o in req['oracle']:
                try:
                    f, s = run_oracle(o)
                except Exception as e:
                    f, s = [{'kind': 'oracle-exception', 'exc': type(e).__name__ + ': ' + str(e), 'input': o}], 0
                for x in f:
                    x['o'] = o
                if len(fails) < 200:
                    fails.extend(f)
                skipped += s
                n += 1
            out['oracle'] = fails
            out['oracle_skipped'] = skipped
            out['oracle_run'] = n
    finally:
        if _tmp:
            shutil.rmtree(_tmp, ignore_errors=True)
    json.dump(out, _real_stdout)


main()
