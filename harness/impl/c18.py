"""In-process adapter for C18: runs mesonbuild.mtest.TAPParser / TestRunTAP on cases read
from stdin (JSON) and prints canonical result strings (same rendering as coq/Tap/Entry.v).
Also hosts the oracle: the property's own clauses evaluated on the implementation's
answers (no model involved)."""
import sys, json, re, asyncio, types

from mesonbuild import mtest as M

SEP1, SEP2 = '\x01', '\x02'
T = lambda b: 'T' if b else 'F'
P = M.TAPParser
R = M.TestResult


def dec(n):
    """decimal rendering that does not go through str(int) (CPython limits that to 4300 digits)"""
    if n < 10 ** 18:
        return '%d' % n
    parts = []
    while n >= 10 ** 18:
        n, r = divmod(n, 10 ** 18)
        parts.append('%018d' % r)
    return ('%d' % n) + ''.join(reversed(parts))


def ostr(o):
    return 'N' if o is None else 'S' + o


# TAPParser.Error messages reduced to a kind; an unrecognised wording is the wildcard '?'
# (a reworded message is not a behaviour change).
KINDS = [('big', r'too large'), ('late', r'after late plan'), ('exceeds', r'exceeds'), ('invdir', r'invalid directive "'),
         ('plan2', r'more than one plan'), ('planskip', r'SKIP directive for plan'),
         ('plandir', r'directive for plan'), ('verpos', r'first line'), ('verlow', r'at least'),
         ('yaml', r'YAML'), ('few', r'Too few'), ('many', r'Too many'), ('dup', r'Duplicate'),
         ('missing', r'Missing')]


def ekind(msg):
    for k, pat in KINDS:
        if re.search(pat, msg, re.I):
            return k
    return '?'


def r_event(e):
    if isinstance(e, P.Test):
        return SEP2.join(['T', dec(e.number), e.name, e.result.name, ostr(e.explanation)])
    if isinstance(e, P.Error):
        return SEP2.join(['E', ekind(e.message)])
    if isinstance(e, P.Plan):
        return SEP2.join(['P', dec(e.num_tests), T(e.late), T(e.skipped), ostr(e.explanation)])
    if isinstance(e, P.Bailout):
        return SEP2.join(['B', e.message])
    if isinstance(e, P.Version):
        return SEP2.join(['V', dec(e.version)])
    if isinstance(e, P.UnknownLine):
        return SEP2.join(['U', e.message, dec(e.lineno)])
    return '??' + type(e).__name__


def events_of(lines):
    return list(P().parse(iter(lines)))


def events_of_async(lines):
    """the same through parse_async (what TestRunTAP uses)"""
    async def go():
        return [e async for e in P().parse_async(_aiter(lines))]
    return LOOP.run_until_complete(go())


class _Harness:
    def log_subtest(self, *a, **k):
        pass


LOOP = asyncio.new_event_loop()


async def _aiter(lines):
    for l in lines:
        yield l


def run_verdict(rc, expected_fail, lines):
    """TestRunTAP.parse over the lines, then complete() with the given exit status."""
    test = types.SimpleNamespace(protocol=M.TestProtocol.TAP, expected_fail=expected_fail,
                                 expected_exitcode=0, project_name='p', name='t', workdir=None)
    run = M.TestRun(test, {}, 't', None, False, False, False)
    run.start(['x'])
    LOOP.run_until_complete(run.parse(_Harness(), _aiter(lines)))
    run.returncode = rc
    run.complete()
    return run


def classify(line):
    m = P._RE_TEST.match(line)
    if m:
        return SEP2.join(['T', T(m.group(1) == 'ok'), ostr(m.group(2)), m.group(3), ostr(m.group(4)), ostr(m.group(5))])
    m = P._RE_PLAN.match(line)
    if m:
        return SEP2.join(['P', m.group(1), ostr(m.group(2)), ostr(m.group(3))])
    m = P._RE_BAILOUT.match(line)
    if m:
        return SEP2.join(['B', m.group(1)])
    m = P._RE_VERSION.match(line)
    if m:
        return SEP2.join(['V', m.group(1)])
    return 'U'


HAVE_RE = all(hasattr(P, a) for a in ('_RE_TEST', '_RE_PLAN', '_RE_BAILOUT', '_RE_VERSION', '_RE_YAML_START', '_RE_YAML_END'))


def ev(fn, args):
    if fn == 'parse':
        return SEP1.join(r_event(e) for e in events_of(args))
    if fn == 'verdict':
        return run_verdict(int(args[0]), args[1] == 'T', args[2:]).res.name
    if not HAVE_RE:
        return 'NA'
    if fn == 'classify':
        return classify(args[0])
    if fn == 'ystart':
        m = P._RE_YAML_START.match(args[0])
        return ostr(m.group(1) if m else None)
    if fn == 'yend':
        return T(bool(P._RE_YAML_END.match(args[0])))
    return '?'


def safe(fn, args):
    try:
        return ev(fn, args)
    except Exception as e:   # an escaping exception is an observable
        return 'EXC:' + type(e).__name__


# ---------------------------------------------------------------------------------------------
# character tables the model relies on, read from the running interpreter
def tables():
    spaces = [c for c in range(0x110000) if chr(c).isspace()]
    re_spaces = [c for c in list(range(0x3100)) + [0xfeff] if re.match(r'\s', chr(c))]
    word = lambda c: bool(re.match(r'\w', chr(c)))
    return {'isspace': spaces, 're_space_below_0x3100': re_spaces,
            'word_ascii': [c for c in range(128) if word(c)],
            'word_extra': {str(c): word(c) for c in (233, 1046, 20013, 8364, 171, 8594, 128512)},
            'max_str_digits': sys.get_int_max_str_digits() if hasattr(sys, 'get_int_max_str_digits') else 0,
            'have_regex_attrs': HAVE_RE}


# ---------------------------------------------------------------------------------------------
# The oracle.  Part 1 works on any stream: clauses of the property that can be read off the
# event list alone.  Part 2 works on streams produced from abstract TAP lines (the generator
# knows what every line means): the expected subtests and the faults the property lists are
# computed from the abstract lines by spec_stream (no regex, no parser state) and compared with
# what the implementation reported.
BAD = ('FAIL', 'UNEXPECTEDPASS')


def event_clauses(lines, evs, add):
    tests = [e for e in evs if isinstance(e, P.Test)]
    plans = [e for e in evs if isinstance(e, P.Plan)]
    err = any(isinstance(e, (P.Error, P.Bailout)) for e in evs)
    nums = [t.number for t in tests]
    if len(plans) > 1:
        add('two_plan_events')
    if plans:
        n = plans[0].num_tests
        if len(tests) != n and not err:
            add('plan_count_mismatch_unreported', planned=dec(n), ran=len(tests))
        if any(x > n for x in nums) and not err:
            add('number_beyond_plan_unreported', planned=dec(n))
        i = evs.index(plans[0])
        before = any(isinstance(e, P.Test) for e in evs[:i])
        after = any(isinstance(e, P.Test) for e in evs[i + 1:])
        if plans[0].late != before:
            add('late_flag_wrong', late=plans[0].late)
        if before and after and not any(isinstance(e, P.Error) for e in evs):
            add('test_after_late_plan_unreported')
    if nums and max(nums) != len(nums) and not err:
        add('highest_number_differs_from_count_unreported', highest=dec(max(nums)), ran=len(nums))
    if sorted(nums) != list(range(1, len(nums) + 1)) and max(nums) == len(nums) and not err:
        add('numbering', numbers=[dec(x) for x in nums][:20])
    # numbers follow explicit | previous + 1 can only be judged with the abstract lines (part 2)
    for t in tests:
        if t.name != t.name.strip() or (t.explanation is not None and (t.explanation == '' or t.explanation != t.explanation.strip())):
            add('name_or_explanation_not_stripped', name=t.name, explanation=t.explanation)
        if t.result.name not in ('OK', 'FAIL', 'SKIP', 'EXPECTEDFAIL', 'UNEXPECTEDPASS'):
            add('impossible_subtest_result', result=t.result.name)


def verdict_clause(lines, evs, rc, add):
    run = run_verdict(rc, False, lines)
    want = (any(isinstance(e, P.Test) and e.result.name in BAD for e in evs)
            or any(isinstance(e, (P.Error, P.Bailout)) for e in evs) or rc != 0)
    if run.res.is_bad() != want:
        add('verdict', rc=rc, reported=run.res.name, should_be_bad=want)
    if [t.result.name for t in run.results] != [e.result.name for e in evs if isinstance(e, P.Test)]:
        add('verdict_results_list', rc=rc)


def status_of(ok, d):
    if d == 'skip' and ok:
        return 'SKIP'
    if d == 'todo':
        return 'UNEXPECTEDPASS' if ok else 'EXPECTEDFAIL'
    return 'OK' if ok else 'FAIL'


def spec_stream(abs_lines):
    """TAP 12/13 read off the abstract lines.  Returns (tests, faults, clean)."""
    tests, faults = [], []
    v13 = bool(abs_lines) and abs_lines[0][0] == 'version' and abs_lines[0][1] >= 13
    last = 0
    after_test = False
    in_yaml, indent = False, ''
    nplans = 0
    plan_n = None
    tests_before_plan = tests_after_plan = 0
    clean = True
    for i, a in enumerate(abs_lines):
        k = a[0]
        if in_yaml:
            if k == 'yaml_end':
                in_yaml = False
                continue
            if k in ('yaml_line', 'yaml_start') and a[1].startswith(indent):
                continue
            faults.append('unterminated_yaml')
            in_yaml = False
        was_after_test, after_test = after_test, False
        if k == 'yaml_start' and was_after_test and v13:
            in_yaml, indent = True, a[1]
            continue
        if k in ('yaml_start', 'yaml_line', 'yaml_end', 'junk'):
            clean = False        # not TAP here: reported as unknown line, nothing else
            continue
        if k in ('blank', 'diag'):
            continue
        if k == 'test':
            _, ok, num, name, d, expl = a
            last = num if num is not None else last + 1
            e = expl.strip() if (d and expl) else None
            tests.append((last, name.strip(), status_of(ok, d), e))
            if num is not None and num != len(tests):
                clean = False
            if nplans:
                tests_after_plan += 1
            else:
                tests_before_plan += 1
            after_test = True
        elif k == 'plan':
            nplans += 1
            if nplans == 1:
                plan_n = a[1]
                if a[2] == 'todo' or (a[2] == 'skip' and a[1] > 0):
                    clean = False
            else:
                faults.append('second_plan')
        elif k == 'bail':
            faults.append('bail_out')
        elif k == 'version':
            if i != 0:
                faults.append('misplaced_version')
            elif a[1] < 13:
                clean = False
    if in_yaml:
        faults.append('unterminated_yaml')
    nums = [t[0] for t in tests]
    if plan_n is not None:
        if len(tests) != plan_n:
            faults.append('plan_count_mismatch')
        if any(x > plan_n for x in nums):
            faults.append('number_beyond_plan')
        if tests_before_plan and tests_after_plan:
            faults.append('test_after_late_plan')
    if sorted(nums) != list(range(1, len(nums) + 1)):
        faults.append('duplicate_or_missing_numbers')
    return tests, faults, (clean and not faults)


def oracle(item):
    lines = item['lines']
    fails = []

    def add(kind, **kw):
        if len(fails) < 20:
            fails.append(dict(kind=kind, lines=lines if len(''.join(lines)) < 4000 else [l[:60] + ('...(%d chars)' % len(l) if len(l) > 60 else '') for l in lines], **kw))
    try:
        evs = events_of(lines)
    except Exception as e:
        add('exception', exc=type(e).__name__, longest_digit_run=max([len(x) for l in lines for x in re.findall('[0-9]+', l)] or [0]))
        return fails
    event_clauses(lines, evs, add)
    try:
        aevs = events_of_async(lines)
        if aevs != evs:
            add('parse_async_differs_from_parse', sync=[r_event(e).replace(SEP2, ' ') for e in evs][:30],
                async_=[r_event(e).replace(SEP2, ' ') for e in aevs][:30])
    except Exception as e:
        add('exception_in_parse_async', exc=type(e).__name__)
    for rc in item.get('rcs', []):
        try:
            verdict_clause(lines, evs, rc, add)
        except Exception as e:
            add('exception_in_TestRunTAP', exc=type(e).__name__, rc=rc,
                longest_digit_run=max([len(x) for l in lines for x in re.findall('[0-9]+', l)] or [0]))
            break
    if 'abs' in item:
        tests, faults, clean = spec_stream(item['abs'])
        got = [(t.number, t.name, t.result.name, t.explanation) for t in evs if isinstance(t, P.Test)]
        if got != tests:
            add('subtests', expected=[[dec(t[0])] + list(t[1:]) for t in tests], got=[[dec(t[0])] + list(t[1:]) for t in got])
        err = any(isinstance(e, (P.Error, P.Bailout)) for e in evs)
        for f in faults:
            if f == 'bail_out':
                if not any(isinstance(e, P.Bailout) for e in evs):
                    add('bail_out_not_reported')
            elif f == 'duplicate_or_missing_numbers':
                pass            # judged on the events (kind 'numbering')
            elif not err:
                add('fault_unreported', fault=f)
        if clean and (err or any(isinstance(e, P.UnknownLine) for e in evs)):
            add('well_formed_stream_reported_faulty', events=[r_event(e).replace(SEP2, ' ') for e in evs if isinstance(e, (P.Error, P.Bailout, P.UnknownLine))])
    return fails


def main():
    req = json.load(sys.stdin)
    out = {}
    if 'tables' in req:
        out['tables'] = tables()
    if 'cases' in req:
        out['results'] = [safe(fn, args) for fn, args in req['cases']]
    if 'streams' in req:
        out['streams'] = []
        for item in req['streams']:
            out['streams'].append([safe('parse', item['lines']), oracle(item)])
    json.dump(out, sys.stdout)


main()
