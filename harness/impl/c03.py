"""In-process adapter for C03: runs the REAL quoting code of /repo
(mesonlib.quote_arg, ninjabackend.ninja_quote / gcc_rsp_quote / NinjaRule /
NinjaBuildElement.write, Backend.escape_extra_args, Backend.as_meson_exe_cmdline,
scripts/meson_exe argument parsing) on cases read from stdin (JSON) and prints
canonical result strings (same rendering as coq/Quote/Entry.v).

Also hosts the in-process part of the oracle: the property's clauses evaluated on the
implementation's own answers (no model of the encoders involved)."""
import sys, json, io, os, argparse, pickle, shutil, tempfile, shlex

from mesonbuild import mesonlib, programs
from mesonbuild.backend import ninjabackend as NB
from mesonbuild.backend import backends as BK
from mesonbuild.backend.backends import Backend
from mesonbuild.environment import Environment
from mesonbuild.utils.core import EnvironmentVariables, MesonException
from mesonbuild.scripts import meson_exe

SEP1, SEP2, MARK = '\x01', '\x02', '\x03'
QUOTING = {'B': NB.Quoting.both, 'H': NB.Quoting.notShell, 'N': NB.Quoting.notNinja, 'X': NB.Quoting.none}


def tlist(l):
    return ''.join(a + SEP2 for a in l)


def ropt(o):
    return '' if o is None else 'S' + o


def popt(s):
    return s[1:] if s[:1] == 'S' else None


def split_mark(l):
    if MARK in l:
        k = l.index(MARK)
        return l[:k], l[k + 1:]
    return l, []


# ------------------------------------------------------------------ live tables
def tables():
    safe_extra = sorted(c for c in range(0x300) if shlex._find_unsafe(chr(c)) is None
                        and not (chr(c).isascii() and (chr(c).isalnum() or chr(c) == '_')))
    var = sorted(c for c in range(0x300) if NB.NINJA_QUOTE_VAR_PAT.fullmatch(chr(c)))
    bld = sorted(c for c in range(0x300) if NB.NINJA_QUOTE_BUILD_PAT.fullmatch(chr(c)))
    rc = lambda l: ','.join(str(c) for c in l)
    return SEP1.join([rc(safe_extra), rc(var), rc(bld), tlist(sorted(NB.raw_names))])


# ------------------------------------------------------------------ NinjaBuildElement.write
def write_elems(rsp, name, es):
    rule = NB.NinjaRule('R', ['cc'], ['$ARGS', '$in', '$LINK_ARGS'], 'desc', rspable=True)
    elem = NB.NinjaBuildElement(set(), 'out', 'R', 'in')
    elem.rule = rule
    old = NB.rsp_threshold
    NB.rsp_threshold = 0 if rsp else 10 ** 12
    try:
        elem.elems.append((name, list(es)))      # add_item minus the CompilerArgs conversion
        buf = io.StringIO()
        elem.write(buf)
    finally:
        NB.rsp_threshold = old
    lines = buf.getvalue().split('\n')
    assert lines[0].startswith('build out: R_RSP in' if rsp else 'build out: R in'), lines[0]
    pre = ' %s = ' % name
    assert lines[1].startswith(pre) and lines[2] == '' and lines[3] == '' and len(lines) == 4, lines
    return lines[1][len(pre):]


def mk_item(item):
    kind, s = item[:1], item[1:]
    return s if kind not in QUOTING else NB.NinjaCommandArg(s, QUOTING[kind])


def rule_strings(cmd, args):
    rule = NB.NinjaRule('R', [mk_item(x) for x in cmd], [mk_item(x) for x in args], 'desc', rspable=True)
    rule.refcount = 1
    rule.rsprefcount = 1
    buf = io.StringIO()
    rule.write(buf)
    out = {}
    cur = None
    for l in buf.getvalue().split('\n'):
        if l.startswith('rule '):
            cur = l[5:]
        elif l.startswith(' command = '):
            out[cur, 'command'] = l[len(' command = '):]
        elif l.startswith(' rspfile_content = '):
            out[cur, 'content'] = l[len(' rspfile_content = '):]
    return SEP1.join(['O' + out['R', 'command'], 'O' + out['R_RSP', 'command'], 'O' + out['R_RSP', 'content']])


# ------------------------------------------------------------------ as_meson_exe_cmdline
_BACKEND = {}


def backend(scratch):
    if 'b' not in _BACKEND:
        bdir = tempfile.mkdtemp(prefix='bk-', dir=scratch)
        sdir = tempfile.mkdtemp(prefix='src-', dir=scratch)
        opts = argparse.Namespace(backend='ninja', wrap_mode=None, cmd_line_options={}, cross_file=[],
                                  native_file=[], projectoptions=[], d=[], prefix='/usr')
        env = Environment(sdir, bdir, opts)
        b = Backend.__new__(Backend)
        b.environment = env
        _BACKEND['b'] = b
    return _BACKEND['b']


def exe_call(args, scratch):
    """-> (cmdline list, pickled ExecutableSerialisation or None)"""
    flags, wd, cap, feed, dat = args[:5]
    ec, r1 = split_mark(list(args[5:]))
    ar, r2 = split_mark(r1)
    ev, bc = split_mark(r2)
    b = backend(scratch)
    b.environment.get_build_command = lambda unique=False: list(bc)
    env = None
    if ev:
        env = EnvironmentVariables()
        for i in range(0, len(ev) - 1, 2):
            env.set(ev[i], [ev[i + 1]])
        if flags[0] != 'T':
            env.unset('MVERIF_UNRELATED_NAME')        # can_use_env := False, no other effect
    exe = ec[0] if len(ec) == 1 else programs.ExternalProgram('prog', command=list(ec), silent=True)
    old_which = BK.shutil.which
    if flags[2] != 'T':
        BK.shutil.which = lambda *a, **k: None
    try:
        cmd, _reason = b.as_meson_exe_cmdline(exe, list(ar), workdir=popt(wd), capture=popt(cap), feed=popt(feed),
                                              force_serialize=(flags[1] == 'T'), env=env)
    finally:
        BK.shutil.which = old_which
    es = None
    if len(cmd) == len(bc) + 4 and cmd[:-1] == list(bc) + ['--internal', 'exe', '--unpickle']:
        with open(cmd[-1], 'rb') as f:
            es = pickle.load(f)
        os.unlink(cmd[-1])
        cmd = cmd[:-1] + [dat]
    return cmd, es


def es_fields(es, build_dir):
    envd = es.env.get_env({}) if es.env else {}
    wd = es.workdir
    if wd == build_dir:
        wd = None                                   # `workdir or build_dir` (backends.py:703)
    return [tlist(es.cmd_args), tlist('%s=%s' % kv for kv in envd.items()), ropt(wd), ropt(es.capture), ropt(es.feed)]


def exe_render(args, scratch):
    cmd, es = exe_call(args, scratch)
    b = backend(scratch)
    bc = b.environment.get_build_command()
    if es is not None:
        kind, tail = 'K', es_fields(es, b.environment.get_build_dir())
    elif cmd[:1] == ['env'] and cmd[:len(bc) + 2] != bc + ['--internal', 'exe']:
        kind, tail = 'E', []
    elif cmd[:len(bc) + 2] == bc + ['--internal', 'exe'] and bc:
        kind, tail = 'W', []
    else:
        kind, tail = 'P', []
    # the model keeps workdir as given (Some "" stays Some ""); the implementation's `workdir or build_dir`
    # turns '' into the build dir: canonicalise '' to None on both sides for the pickled record
    return SEP1.join([kind, tlist(cmd)] + tail)


# ------------------------------------------------------------------ build line, templates, tests
def build_line(args):
    rule_name = args[0]
    outs, r1 = split_mark(list(args[1:]))
    imp, r2 = split_mark(r1)
    ins, r3 = split_mark(r2)
    deps, ords = split_mark(r3)
    rule = NB.NinjaRule(rule_name, ['cc'], [], 'desc')
    elem = NB.NinjaBuildElement(set(), list(outs), rule_name, list(ins), implicit_outs=list(imp))
    elem.rule = rule
    elem.add_dep(list(deps))
    elem.add_orderdep(list(ords))
    buf = io.StringIO()
    elem.write(buf)
    v = buf.getvalue()
    assert v.endswith('\n\n')
    return v[:-1]


def enc_entry(k, v):
    return SEP2.join([k, 'S', v]) if isinstance(v, str) else SEP2.join([k, 'L'] + list(v))


def dec_dict(entries):
    d = {}
    for e in entries:
        parts = e.split(SEP2)
        if len(parts) >= 3 and parts[1] == 'S':
            d[parts[0]] = parts[2]
        elif len(parts) >= 2 and parts[1] == 'L':
            d[parts[0]] = parts[2:]
        else:
            d[parts[0]] = ''
    return d


def eval_custom(args, scratch):
    import types
    sr, br, cs = args[:3]
    cmd, r1 = split_mark(list(args[3:]))
    _d, r2 = split_mark(r1)
    inputs, r3 = split_mark(r2)
    outs, r4 = split_mark(r3)
    subdir = r4[0] if r4 else ''
    b = Backend.__new__(Backend)
    b.environment = backend(scratch).environment
    b.build_to_src = sr
    b.get_custom_target_output_dir = lambda t: ''
    b.get_custom_target_sources = lambda t: list(inputs)
    assert br == '.' and cs == os.path.join(sr, subdir)
    tgt = types.SimpleNamespace(command=list(cmd), get_outputs=lambda: list(outs), get_subdir=lambda: subdir,
                                depfile=None, absolute_paths=False, name='t')
    _i, _o, res = b.eval_custom_target_command(tgt)
    return res


def test_cmd(args):
    from mesonbuild import mtest
    from mesonbuild.backend.backends import TestSerialisation, TestProtocol
    w, r1 = split_mark(list(args))
    f, r2 = split_mark(r1)
    a, t = split_mark(r2)
    ts = TestSerialisation('n', 'p', ['p'], list(f), False, None, False, True, list(a), EnvironmentVariables(), False, 0, 30, None,
                           [], TestProtocol.EXITCODE, 0, False, False, [], '1.0', False, f[0] if f else '')
    opts = argparse.Namespace(gdb=False, wrapper=list(w), test_args=list(t), no_rebuild=False, benchmark=False, interactive=False,
                              timeout_multiplier=1, num_processes=1, verbose=False, quiet=False, repeat=1)
    import asyncio, types
    r = mtest.SingleTestRunner(ts, {}, 'n', opts)
    got = []

    async def fake_run_cmd(harness, cmd):          # the process start is replaced, SingleTestRunner.run() itself is real
        got.append(list(cmd))
    r._run_cmd = fake_run_cmd
    asyncio.run(r.run(types.SimpleNamespace(log_start_test=lambda *a, **k: None)))
    return got[0]


# ------------------------------------------------------------------ cases
def ev(fn, args, scratch):
    if fn == 'bline':
        return 'O' + build_line(args)
    if fn == 'subst':
        c, d = split_mark(list(args))
        return 'O' + tlist(mesonlib.substitute_values(c, dec_dict(d)))
    if fn == 'evalcmd':
        return 'O' + tlist(eval_custom(args, scratch))
    if fn == 'testcmd':
        return tlist(test_cmd(args))
    if fn == 'tables':
        return tables()
    if fn == 'shq':
        return mesonlib.quote_arg(args[0])
    if fn == 'nq':
        return 'O' + NB.ninja_quote(args[1], args[0][:1] == 'T')
    if fn == 'rspq':
        return NB.gcc_rsp_quote(args[0])
    if fn == 'elems':
        return 'O' + write_elems(args[0][:1] == 'R', args[1], args[2:])
    if fn == 'rule':
        c, a = split_mark(list(args))
        return rule_strings(c, a)
    if fn == 'esc':
        return tlist(Backend.escape_extra_args(list(args)))
    if fn == 'exe':
        return exe_render(args, scratch)
    return '?'


def safe(fn, args, scratch):
    try:
        return ev(fn, args, scratch)
    except Exception as e:      # an escaping exception is an observable (class only)
        return 'EXC:' + type(e).__name__


# ------------------------------------------------------------------ oracle (in-process part)
def has_nl(s):
    return '\n' in s or '\r' in s


def oracle_exe(args, scratch):
    """Clauses on as_meson_exe_cmdline's answer: (1) nothing ninja cannot carry reaches the
    command list; (2) the process that finally runs gets exactly exe_cmd + args, the env
    assignments, capture and feed that were specified."""
    fails = []
    flags, wd, cap, feed, dat = args[:5]
    ec, r1 = split_mark(list(args[5:]))
    ar, r2 = split_mark(r1)
    evl, bc = split_mark(r2)
    want_cmd = ec + ar
    want_env = {}
    for i in range(0, len(evl) - 1, 2):
        want_env[evl[i]] = evl[i + 1]
    try:
        cmd, es = exe_call(args, scratch)
    except Exception as e:
        return [{'kind': 'exe_exception', 'exc': type(e).__name__, 'args': list(args)}]
    if es is not None:
        got_env = es.env.get_env({}) if es.env else {}
        if es.cmd_args != want_cmd or got_env != want_env or (es.capture or None) != (popt(cap) or None) \
                or (es.feed or None) != (popt(feed) or None):
            fails.append({'kind': 'exe_pickled_content', 'args': list(args), 'got': es.cmd_args})
        if any(has_nl(c) for c in cmd):
            fails.append({'kind': 'exe_newline_reaches_ninja', 'args': list(args), 'cmdline': cmd})
        return fails
    if any(has_nl(c) for c in cmd):
        fails.append({'kind': 'exe_newline_reaches_ninja', 'args': list(args), 'cmdline': cmd})
        return fails
    if popt(wd):
        fails.append({'kind': 'exe_workdir_lost', 'args': list(args), 'cmdline': cmd})
    if bc and cmd[:len(bc) + 2] == bc + ['--internal', 'exe']:
        # the real wrapper's own argument parsing (scripts/meson_exe.py:97-113)
        try:
            options, rest = meson_exe.buildparser().parse_known_args(cmd[len(bc) + 2:])
            if rest and rest[0] == '--':
                rest = rest[1:]
            got = (rest, {}, options.capture, options.feed, options.unpickle)
        except SystemExit:
            got = ('argparse-exit',)
        want = (want_cmd, want_env, popt(cap) or None, popt(feed) or None, None)
    elif cmd[:1] == ['env'] and want_env:
        # env(1): leading NAME=VALUE operands
        rest, genv = cmd[1:], {}
        while rest and '=' in rest[0]:
            k, v = rest[0].split('=', 1)
            genv[k] = v
            rest = rest[1:]
        got = (rest, genv, None, None, None)
        want = (want_cmd, want_env, None, None, None)
    else:
        got = (cmd, {}, None, None, None)
        want = (want_cmd, want_env, popt(cap) or None, popt(feed) or None, None)
    if got != want:
        fails.append({'kind': 'exe_route_delivers_other', 'args': list(args), 'cmdline': cmd,
                      'got': repr(got), 'want': repr(want)})
    return fails


def oracle_esc(args):
    """escape_extra_args: same count and order; a -D//D element has its backslashes doubled
    (so that one level of C unescaping restores it), every other element is unchanged."""
    out = Backend.escape_extra_args(list(args))
    if len(out) != len(args):
        return [{'kind': 'esc_count', 'args': list(args), 'got': out}]
    for a, o in zip(args, out):
        want = a.replace('\\', '\\\\') if a.startswith(('-D', '/D')) else a
        if o != want:
            return [{'kind': 'esc_element', 'args': list(args), 'element': a, 'got': o, 'want': want}]
    return []


def main():
    req = json.load(sys.stdin)
    scratch = req.get('scratch') or tempfile.mkdtemp(prefix='mverif-C03-impl-', dir='/var/tmp')
    own = 'scratch' not in req
    out = {}
    real_stdout = sys.stdout
    sys.stdout = sys.stderr          # anything the code under test prints must not corrupt the JSON answer
    try:
        if 'cases' in req:
            out['results'] = [safe(fn, args, scratch) for fn, args in req['cases']]
        if 'tdicts' in req:
            out['tdicts'] = [[enc_entry(k, v) for k, v in mesonlib.get_filenames_templates_dict(list(i), list(o)).items()]
                             for i, o in req['tdicts']]
        if 'oracle_exe' in req:
            out['oracle_exe'] = []
            for a in req['oracle_exe']:
                out['oracle_exe'].extend(oracle_exe(a, scratch))
        if 'oracle_esc' in req:
            out['oracle_esc'] = []
            for a in req['oracle_esc']:
                out['oracle_esc'].extend(oracle_esc(a))
    finally:
        if own:
            shutil.rmtree(scratch, ignore_errors=True)
    sys.stdout = real_stdout
    json.dump(out, sys.stdout)


main()
